From Coq Require Import List NArith Bool Lia Permutation.
Import ListNotations.
Require Import Norm.

(* Finished only as last event of an attempt's buffered list *)
Fixpoint fin_last (es : list aev) : bool :=
  match es with
  | [] => true
  | (fin, _) :: t => if fin then match t with [] => true | _ => false end else fin_last t
  end.

Lemma emit_att_prefix f r k es :
  fin_last es = true ->
  let '(o, rest, b) := emit_att f r k es in
  o ++ att_evs f r (k, rest) = att_evs f r (k, es) /\ (b = true -> rest = []) /\ fin_last rest = true.
Proof.
  induction es as [|[fin x] t IH]; cbn [emit_att fin_last]; intros H.
  - cbn. auto.
  - destruct fin.
    + destruct t; [|discriminate]. cbn. auto.
    + specialize (IH H). destruct (emit_att f r k t) as [[o rest] b].
      destruct IH as (E & R & F). unfold att_evs in *. cbn in *. rewrite E. auto.
Qed.

Definition atts_wf (l : list (akey * list aev)) := forallb (fun ka => fin_last (snd ka)) l = true.

Lemma emit_atts_prefix f r l :
  atts_wf l ->
  let '(o, l') := emit_atts f r l in
  o ++ flat_map (att_evs f r) l' = flat_map (att_evs f r) l /\ atts_wf l'.
Proof.
  unfold atts_wf. induction l as [|[k es] t IH]; cbn [emit_atts forallb flat_map snd]; intros H.
  - cbn; auto.
  - apply andb_prop in H as [H1 H2].
    pose proof (emit_att_prefix f r k es H1) as P.
    destruct (emit_att f r k es) as [[o rest] b]. destruct P as (E & R & F).
    destruct b.
    + specialize (IH H2). destruct (emit_atts f r t) as [o2 l2]. destruct IH as [E2 W2].
      rewrite (R eq_refl) in E. unfold att_evs at 1 in E. cbn [snd map] in E. rewrite app_nil_r in E.
      split; [|exact W2]. rewrite <- app_assoc, E2. f_equal. exact E.
    + split.
      * cbn [flat_map]. rewrite app_assoc, E. reflexivity.
      * cbn [forallb snd]. rewrite F, H2. reflexivity.
Qed.
Print Assumptions emit_atts_prefix.
