From Coq Require Import List NArith Bool Lia Permutation.
Import ListNotations.

(* ids *)
Definition fid := N. Definition rid := N. Definition sid := N.
Definition retr := option (N * N).
Definition meta := N.

Inductive nev :=
| NPass (x : N)                                   (* Started / ParsingFinished / Err *)
| NFin (m : meta)                                 (* Cucumber::Finished *)
| NFeatS (f : fid) (m : meta) | NFeatF (f : fid) (m : meta)
| NRuleS (f : fid) (r : rid) (m : meta) | NRuleF (f : fid) (r : rid) (m : meta)
| NScen (f : fid) (r : option rid) (s : sid) (rt : retr) (fin : bool) (x : N).

Inductive fstate := NotFinished | FinNotEmitted (m : meta) | FinEmitted.

Definition akey := (sid * retr)%type.
Definition aev := (bool * N)%type.                 (* is Finished?, payload *)

Record rqueue := { r_init : option meta; r_state : fstate; r_atts : list (akey * list aev) }.
Inductive item := IRule (q : rqueue) | IScen (evs : list aev).
Inductive ikey := KRule (r : rid) | KScen (k : akey).
Record fqueue := { f_init : option meta; f_state : fstate; f_items : list (ikey * item) }.
Record nstate := { feats : list (fid * fqueue); n_state : fstate }.

Definition retr_eqb (a b : retr) : bool :=
  match a, b with
  | None, None => true
  | Some (x1,y1), Some (x2,y2) => N.eqb x1 x2 && N.eqb y1 y2
  | _, _ => false end.
Definition akey_eqb (a b : akey) := N.eqb (fst a) (fst b) && retr_eqb (snd a) (snd b).
Definition ikey_eqb (a b : ikey) :=
  match a, b with
  | KRule r1, KRule r2 => N.eqb r1 r2
  | KScen k1, KScen k2 => akey_eqb k1 k2
  | _, _ => false end.

(* assoc-list "LinkedHashMap": update in place, or append *)
Fixpoint upd {K V} (eqb : K -> K -> bool) (k : K) (f : option V -> V) (l : list (K*V)) : list (K*V) :=
  match l with
  | [] => [(k, f None)]
  | (k',v) :: t => if eqb k k' then (k', f (Some v)) :: t else (k',v) :: upd eqb k f t
  end.
Fixpoint modify {K V} (eqb : K -> K -> bool) (k : K) (f : V -> V) (l : list (K*V)) : list (K*V) :=
  match l with
  | [] => []
  | (k',v) :: t => if eqb k k' then (k', f v) :: t else (k',v) :: modify eqb k f t
  end.

Definition empty_r m := {| r_init := Some m; r_state := NotFinished; r_atts := [] |}.
Definition empty_f m := {| f_init := Some m; f_state := NotFinished; f_items := [] |}.
Definition init : nstate := {| feats := []; n_state := NotFinished |}.

Definition push_att (k : akey) (e : aev) (l : list (akey * list aev)) :=
  upd akey_eqb k (fun o => match o with None => [e] | Some es => es ++ [e] end) l.

(* enqueue: the `match event` part of handle_event, for non-pass events *)
Definition enqueue (s : nstate) (e : nev) : nstate :=
  match e with
  | NPass _ => s
  | NFin m => {| feats := feats s; n_state := FinNotEmitted m |}
  | NFeatS f m => {| feats := feats s ++ [(f, empty_f m)]; n_state := n_state s |}
  | NFeatF f m => {| feats := modify N.eqb f (fun q => {| f_init := f_init q; f_state := FinNotEmitted m; f_items := f_items q |}) (feats s); n_state := n_state s |}
  | NRuleS f r m => {| feats := modify N.eqb f (fun q => {| f_init := f_init q; f_state := f_state q; f_items := f_items q ++ [(KRule r, IRule (empty_r m))] |}) (feats s); n_state := n_state s |}
  | NRuleF f r m => {| feats := modify N.eqb f (fun q => {| f_init := f_init q; f_state := f_state q;
                         f_items := modify ikey_eqb (KRule r) (fun it => match it with IRule rq => IRule {| r_init := r_init rq; r_state := FinNotEmitted m; r_atts := r_atts rq |} | x => x end) (f_items q) |}) (feats s); n_state := n_state s |}
  | NScen f None sc rt fin x =>
      {| feats := modify N.eqb f (fun q => {| f_init := f_init q; f_state := f_state q;
                   f_items := upd ikey_eqb (KScen (sc,rt)) (fun o => match o with Some (IScen es) => IScen (es ++ [(fin,x)]) | _ => IScen [(fin,x)] end) (f_items q) |}) (feats s); n_state := n_state s |}
  | NScen f (Some r) sc rt fin x =>
      {| feats := modify N.eqb f (fun q => {| f_init := f_init q; f_state := f_state q;
                   f_items := modify ikey_eqb (KRule r) (fun it => match it with IRule rq => IRule {| r_init := r_init rq; r_state := r_state rq; r_atts := push_att (sc,rt) (fin,x) (r_atts rq) |} | x => x end) (f_items q) |}) (feats s); n_state := n_state s |}
  end.

(* pending: flattening of everything buffered, in output order *)
Definition fin_evs (st : fstate) (mk : meta -> nev) : list nev := match st with FinNotEmitted m => [mk m] | _ => [] end.
Definition init_evs (i : option meta) (mk : meta -> nev) : list nev := match i with Some m => [mk m] | None => [] end.
Definition att_evs f r (ka : akey * list aev) : list nev := map (fun e => NScen f r (fst (fst ka)) (snd (fst ka)) (fst e) (snd e)) (snd ka).
Definition item_evs f (ki : ikey * item) : list nev :=
  match ki with
  | (KRule r, IRule rq) => init_evs (r_init rq) (NRuleS f r) ++ flat_map (att_evs f (Some r)) (r_atts rq) ++ fin_evs (r_state rq) (NRuleF f r)
  | (KScen k, IScen es) => att_evs f None (k, es)
  | _ => [] end.
Definition feat_evs (fq : fid * fqueue) : list nev :=
  let '(f,q) := fq in init_evs (f_init q) (NFeatS f) ++ flat_map (item_evs f) (f_items q) ++ fin_evs (f_state q) (NFeatF f).
Definition pending (s : nstate) : list nev := flat_map feat_evs (feats s) ++ fin_evs (n_state s) NFin.

(* emission *)
(* ScenariosQueue::emit: drain events; stop after Finished (returns remaining events, emitted, finished?) *)
Fixpoint emit_att f r (k : akey) (es : list aev) : list nev * list aev * bool :=
  match es with
  | [] => ([], [], false)
  | (fin,x) :: t => if fin then ([NScen f r (fst k) (snd k) fin x], t, true)
                    else let '(o, rest, b) := emit_att f r k t in (NScen f r (fst k) (snd k) fin x :: o, rest, b)
  end.

(* RulesQueue::emit loop over attempts *)
Fixpoint emit_atts f r (l : list (akey * list aev)) : list nev * list (akey * list aev) :=
  match l with
  | [] => ([], [])
  | (k, es) :: t => let '(o, rest, b) := emit_att f r k es in
                    if b then let '(o2, l2) := emit_atts f r t in (o ++ o2, l2)    (* removed, continue; NB: rest dropped like the code *)
                    else (o, (k, rest) :: t)
  end.

Definition take_fin (st : fstate) : option meta * fstate := match st with FinNotEmitted m => (Some m, FinEmitted) | x => (None, x) end.

Definition emit_rule f r (rq : rqueue) : list nev * rqueue * bool :=
  let o1 := init_evs (r_init rq) (NRuleS f r) in
  let '(o2, atts) := emit_atts f (Some r) (r_atts rq) in
  match take_fin (r_state rq) with
  | (Some m, st) => (o1 ++ o2 ++ [NRuleF f r m], {| r_init := None; r_state := st; r_atts := atts |}, true)
  | (None, st) => (o1 ++ o2, {| r_init := None; r_state := st; r_atts := atts |}, false)
  end.

(* FeatureQueue: loop emitting head item while it completes *)
Fixpoint emit_items f (l : list (ikey * item)) : list nev * list (ikey * item) :=
  match l with
  | [] => ([], [])
  | (KRule r, IRule rq) :: t => let '(o, rq', b) := emit_rule f r rq in
                                if b then let '(o2, l2) := emit_items f t in (o ++ o2, l2) else (o, (KRule r, IRule rq') :: t)
  | (KScen k, IScen es) :: t => let '(o, rest, b) := emit_att f None k es in
                                if b then let '(o2, l2) := emit_items f t in (o ++ o2, l2) else (o, (KScen k, IScen rest) :: t)
  | x :: t => ([], x :: t)
  end.

Definition emit_feat (f : fid) (q : fqueue) : list nev * fqueue * bool :=
  let o1 := init_evs (f_init q) (NFeatS f) in
  let '(o2, items) := emit_items f (f_items q) in
  match take_fin (f_state q) with
  | (Some m, st) => (o1 ++ o2 ++ [NFeatF f m], {| f_init := None; f_state := st; f_items := items |}, true)
  | (None, st) => (o1 ++ o2, {| f_init := None; f_state := st; f_items := items |}, false)
  end.

Fixpoint emit_feats (l : list (fid * fqueue)) : list nev * list (fid * fqueue) :=
  match l with
  | [] => ([], [])
  | (f, q) :: t => let '(o, q', b) := emit_feat f q in
                   if b then let '(o2, l2) := emit_feats t in (o ++ o2, l2) else (o, (f, q') :: t)
  end.

Definition is_emitted (st : fstate) := match st with FinEmitted => true | _ => false end.

Definition handle (s : nstate) (e : nev) : nstate * list nev :=
  if is_emitted (n_state s) then (s, [e]) else
  let o0 := match e with NPass _ => [e] | _ => [] end in
  let s1 := enqueue s e in
  let '(o1, fs) := emit_feats (feats s1) in
  match take_fin (n_state s1) with
  | (Some m, st) => ({| feats := fs; n_state := st |}, o0 ++ o1 ++ [NFin m])
  | (None, st) => ({| feats := fs; n_state := st |}, o0 ++ o1)
  end.

Fixpoint run (s : nstate) (es : list nev) : list (list nev) :=
  match es with [] => [] | e :: t => let '(s', o) := handle s e in o :: run s' t end.

Local Open Scope N_scope.
(* quick sanity *)
Definition ex1 : list nev :=
  [NPass 0; NFeatS 1 10; NFeatS 2 11; NScen 2 None 7 None false 100; NScen 1 None 5 None false 101;
   NScen 2 None 7 None true 102; NFeatF 2 12; NScen 1 None 5 None true 103; NFeatF 1 13; NFin 14].
Eval vm_compute in run init ex1.
