From Coq Require Import List NArith Bool Lia Arith.
Import ListNotations.
Require Import SchedProbe.

Definition is_serial (e : entry) := match e_ty e with Serial => true | Conc => false end.

Definition slots_ok (K : option nat) (s : st) : Prop :=
  match K, flow s with
  | Some k, Some (Some n) => n + length (running s) = k
  | Some k, None => length (running s) <= k
  | None, Some None => True
  | None, None => True
  | _, _ => False
  end.

Definition iso_ok (s : st) : Prop :=
  forall e p, In (e, p) (running s) -> is_serial e = true -> length (running s) = 1.

Definition typed_ok (s : st) : Prop :=
  Forall (fun e => is_serial e = true) (qS s) /\ Forall (fun e => is_serial e = false) (qC s).

Definition Inv K s := slots_ok K s /\ iso_ok s /\ typed_ok s.

Lemma take_ready_spec n now l :
  let '(a, b) := take_ready n now l in
  (forall k, n = Some k -> length a <= k) /\ (forall P, Forall P l -> Forall P a /\ Forall P b).
Proof.
  revert n. induction l as [|e t IH]; intros n; cbn [take_ready].
  - split; [intros; cbn; lia | intros; split; constructor].
  - destruct n as [[|k]|].
    + split; [intros k0 H; cbn; lia | intros P H; split; [constructor | exact H]].
    + destruct (ready now e).
      * specialize (IH (option_map pred (Some (S k)))). destruct (take_ready _ now t) as [a b].
        destruct IH as [L F]. split.
        -- intros k0 H. inversion H; subst. cbn. specialize (L k eq_refl). lia.
        -- intros P H. inversion H; subst. destruct (F P H3). split; [constructor|]; assumption.
      * specialize (IH (Some (S k))). destruct (take_ready _ now t) as [a b].
        destruct IH as [L F]. split; [exact L|].
        intros P H. inversion H; subst. destruct (F P H3). split; [|constructor]; assumption.
    + destruct (ready now e).
      * specialize (IH (option_map pred None)). destruct (take_ready _ now t) as [a b].
        destruct IH as [L F]. split; [intros k0 H; discriminate|].
        intros P H. inversion H; subst. destruct (F P H3). split; [constructor|]; assumption.
      * specialize (IH None). destruct (take_ready _ now t) as [a b].
        destruct IH as [L F]. split; [intros k0 H; discriminate|].
        intros P H. inversion H; subst. destruct (F P H3). split; [|constructor]; assumption.
Qed.

(* what `get` returns *)
Lemma get_spec n s : typed_ok s ->
  let '(batch, qs, qc) := get n s in
  (forall k, n = Some k -> length batch <= k) /\
  Forall (fun e => is_serial e = true) qs /\ Forall (fun e => is_serial e = false) qc /\
  ( (batch = []) \/
    (running s = [] /\ length batch = 1 /\ Forall (fun e => is_serial e = true) batch) \/
    (Forall (fun e => is_serial e = false) batch) ).
Proof.
  intros [TS TC]. unfold get.
  destruct n as [[|k]|].
  - repeat split; auto. intros k H. cbn. lia.
  - destruct (is_nil (running s)) eqn:R.
    + pose proof (take_ready_spec (Some 1) (now s) (qS s)) as P. destruct (take_ready (Some 1) (now s) (qS s)) as [bs rs].
      destruct P as [L F]. destruct (F _ TS) as [Fa Fb]. destruct bs as [|b bs'].
      * pose proof (take_ready_spec (Some (S k)) (now s) (qC s)) as P2. destruct (take_ready _ (now s) (qC s)) as [bc rc].
        destruct P2 as [L2 F2]. destruct (F2 _ TC) as [Fa2 Fb2]. repeat split; auto.
      * specialize (L 1 eq_refl). cbn in L. assert (bs' = []) by (destruct bs'; [reflexivity | cbn in L; lia]). subst.
        repeat split; auto.
        -- intros k0 H. inversion H; subst. cbn. lia.
        -- right; left. destruct (running s); [|discriminate]. auto.
    + pose proof (take_ready_spec (Some (S k)) (now s) (qC s)) as P2. destruct (take_ready _ (now s) (qC s)) as [bc rc].
      destruct P2 as [L2 F2]. destruct (F2 _ TC) as [Fa2 Fb2]. repeat split; auto.
  - destruct (is_nil (running s)) eqn:R.
    + pose proof (take_ready_spec (Some 1) (now s) (qS s)) as P. destruct (take_ready (Some 1) (now s) (qS s)) as [bs rs].
      destruct P as [L F]. destruct (F _ TS) as [Fa Fb]. destruct bs as [|b bs'].
      * pose proof (take_ready_spec None (now s) (qC s)) as P2. destruct (take_ready _ (now s) (qC s)) as [bc rc].
        destruct P2 as [L2 F2]. destruct (F2 _ TC) as [Fa2 Fb2]. repeat split; auto; try (intros; discriminate).
      * specialize (L 1 eq_refl). cbn in L. assert (bs' = []) by (destruct bs'; [reflexivity | cbn in L; lia]). subst.
        repeat split; auto; try (intros; discriminate).
        right; left. destruct (running s); [|discriminate]. auto.
    + pose proof (take_ready_spec None (now s) (qC s)) as P2. destruct (take_ready _ (now s) (qC s)) as [bc rc].
      destruct P2 as [L2 F2]. destruct (F2 _ TC) as [Fa2 Fb2]. repeat split; auto; try (intros; discriminate).
Qed.

Lemma set_phase_shape i a b l r : set_phase i a b l = Some r ->
  length r = length l /\ (forall e p, In (e, p) r -> exists p', In (e, p') l).
Proof.
  revert r. induction l as [|[e p] t IH]; intros r H; cbn [set_phase] in H; [discriminate|].
  destruct (e_id e =? i)%N.
  - destruct p, a; try discriminate; inversion H; subst; cbn; split; auto;
      intros e0 p0 [E|I]; [inversion E; subst; eexists; left; reflexivity | eexists; right; exact I
                          |inversion E; subst; eexists; left; reflexivity | eexists; right; exact I].
  - destruct (set_phase i a b t) as [r'|] eqn:E; [|discriminate]. inversion H; subst.
    destruct (IH r' eq_refl) as [L I]. cbn. split; [lia|].
    intros e0 p0 [Eq|In0]; [inversion Eq; subst; eexists; left; reflexivity|].
    destruct (I _ _ In0) as [p' Hp]. eexists; right; exact Hp.
Qed.

Lemma remove_ended_shape l r : remove_ended l = Some r ->
  S (length r) = length l /\ (forall x, In x r -> In x l).
Proof.
  revert r. induction l as [|[e p] t IH]; intros r H; cbn [remove_ended] in H; [discriminate|].
  destruct p.
  - destruct (remove_ended t) as [r'|]; [|discriminate]. inversion H; subst. destruct (IH r' eq_refl) as [L I].
    cbn. split; [lia|]. intros x [E|Hx]; [left; exact E | right; apply I; exact Hx].
  - destruct (remove_ended t) as [r'|]; [|discriminate]. inversion H; subst. destruct (IH r' eq_refl) as [L I].
    cbn. split; [lia|]. intros x [E|Hx]; [left; exact E | right; apply I; exact Hx].
  - inversion H; subst. cbn. split; [lia|]. intros x Hx; right; exact Hx.
Qed.

Lemma is_nil_true {A} (l : list A) : is_nil l = true -> l = [].
Proof. destruct l; [reflexivity|discriminate]. Qed.

(* the heart: loop_top preserves the invariant, provided no serial attempt is running on entry *)
Definition no_serial_running (s : st) := forall e p, In (e, p) (running s) -> is_serial e = false.

Lemma loop_top_inv K s : Inv K s -> no_serial_running s -> Inv K (loop_top s).
Proof.
  intros (SL & ISO & TY) NS. unfold loop_top.
  set (n := match flow s with None => Some 0 | Some k => k end).
  pose proof (get_spec n s TY) as G. destruct (get n s) as [[batch qs] qc].
  destruct G as (LEN & TS & TC & SHAPE).
  destruct (is_nil (running s) && is_nil batch) eqn:IDLE.
  - apply andb_prop in IDLE as [R B]. apply is_nil_true in R.
    destruct (pdone s && _); (split; [|split]); unfold slots_ok, iso_ok, typed_ok in *; cbn; auto.
  - split; [|split].
    + unfold slots_ok in *. cbn [flow running sub_slots]. rewrite app_length, map_length.
      destruct K as [k|]; destruct (flow s) as [[m|]|] eqn:F; cbn [sub_slots]; try contradiction; auto.
      * subst n. specialize (LEN m eq_refl). lia.
      * subst n. specialize (LEN 0 eq_refl). lia.
    + unfold iso_ok in *. cbn [running]. intros e p HIn SER. rewrite app_length, map_length.
      apply in_app_or in HIn. destruct HIn as [HIn|HIn].
      * rewrite (NS _ _ HIn) in SER. discriminate.
      * destruct SHAPE as [E | [(RN & L1 & FS) | FC]].
        -- subst batch. destruct HIn.
        -- rewrite RN. cbn. lia.
        -- apply in_map_iff in HIn. destruct HIn as (e' & Eq & He'). inversion Eq; subst.
           rewrite Forall_forall in FC. rewrite (FC _ He') in SER. discriminate.
    + unfold typed_ok. cbn. auto.
Qed.

Definition pc_ok (s : st) : Prop :=
  match pc s with NotBegun | Idle | Done => running s = [] | Awaiting => True end.

Definition Inv2 K s := Inv K s /\ pc_ok s.

Lemma loop_top_pc s : pc_ok (loop_top s).
Proof.
  unfold loop_top, pc_ok. destruct (get _ s) as [[batch qs] qc].
  destruct (is_nil (running s) && is_nil batch) eqn:IDLE.
  - apply andb_prop in IDLE as [R B]. apply is_nil_true in R. destruct (pdone s && _); cbn; exact R.
  - cbn. exact I.
Qed.

Lemma filter_forall {A} (f : A -> bool) l : Forall (fun x => f x = true) (filter f l).
Proof. induction l as [|x t IH]; cbn; [constructor|]. destruct (f x) eqn:E; [constructor; assumption | assumption]. Qed.

Lemma step_inv K s l s' : Inv2 K s -> step s l = Some s' -> Inv2 K s'.
Proof.
  intros [(SL & ISO & TY) PC] H. destruct l; cbn [step] in H.
  - (* LInsert *)
    destruct (pdone s); [discriminate|]. unfold split_ty in H.
    assert (FS : Forall (fun e => is_serial e = true) (filter (fun e => match e_ty e with Serial => true | Conc => false end) es)) by apply filter_forall.
    assert (FC : Forall (fun e => is_serial e = false) (filter (fun e => match e_ty e with Serial => false | Conc => true end) es)).
    { clear. induction es as [|x t IH]; cbn; [constructor|]. unfold is_serial at 1. destruct (e_ty x) eqn:E; [assumption|].
      constructor; [unfold is_serial; rewrite E; reflexivity | assumption]. }
    destruct TY as [TS TC].
    destruct (has_serial es); inversion H; subst; (split; [split; [|split]|]); unfold slots_ok, iso_ok, typed_ok, pc_ok in *; cbn in *; auto;
      split; try apply Forall_app; auto.
  - destruct (pdone s); [discriminate|]. inversion H; subst. (split; [split; [|split]|]); unfold slots_ok, iso_ok, typed_ok, pc_ok in *; cbn in *; auto.
  - (* LBegin *)
    destruct (pc s) eqn:P; try discriminate. inversion H; subst. unfold pc_ok in PC. rewrite P in PC.
    split; [apply loop_top_inv; [exact (conj SL (conj ISO TY)) | intros e p HIn; rewrite PC in HIn; destruct HIn] | apply loop_top_pc].
  - (* LAttStart *)
    destruct (set_phase i Dispatched Open (running s)) as [r|] eqn:E; [|discriminate]. inversion H; subst.
    destruct (set_phase_shape _ _ _ _ _ E) as [L I].
    split; [split; [|split]|].
    + unfold slots_ok in *. cbn. rewrite L. exact SL.
    + unfold iso_ok in *. cbn. intros e p HIn SER. rewrite L. destruct (I _ _ HIn) as [p' Hp']. eapply ISO; eauto.
    + exact TY.
    + unfold pc_ok in *. cbn. destruct (pc s); auto; rewrite PC in E; discriminate.
  - (* LAttEnd *)
    destruct (set_phase i Open Ended (running s)) as [r|] eqn:E; [|discriminate].
    destruct (set_phase_shape _ _ _ _ _ E) as [L I].
    assert (ISO' : forall e p, In (e, p) r -> is_serial e = true -> length r = 1).
    { intros e p HIn SER. rewrite L. destruct (I _ _ HIn) as [p' Hp']. eapply ISO; eauto. }
    assert (PC' : match pc s with NotBegun | Idle | Done => r = [] | Awaiting => True end).
    { unfold pc_ok in PC. destruct (pc s); auto; rewrite PC in E; discriminate. }
    destruct TY as [TS TC].
    assert (SL' : forall q1 q2 b f n c, flow s = f ->
              slots_ok K {| qS := q1; qC := q2; pdone := b; flow := f; running := r; now := n; pc := c |}).
    { intros; subst. unfold slots_ok in *. cbn. rewrite L. exact SL. }
    destruct retry as [e|]; [destruct (e_ty e) eqn:T|]; inversion H; subst;
      (split; [split; [apply SL'; reflexivity | split; [exact ISO' |]] | exact PC']); unfold typed_ok; cbn.
    + split; [constructor; [unfold is_serial; rewrite T; reflexivity | assumption] | assumption].
    + split; [assumption | constructor; [unfold is_serial; rewrite T; reflexivity | assumption]].
    + split; assumption.
  - (* LResume *)
    destruct (pc s) eqn:P; try discriminate.
    destruct (remove_ended (running s)) as [r|] eqn:E; [|discriminate]. inversion H; subst.
    destruct (remove_ended_shape _ _ E) as [L I].
    split; [|apply loop_top_pc]. apply loop_top_inv.
    + split; [|split].
      * unfold slots_ok in *. cbn [flow running]. destruct trip.
        -- destruct K as [k|]; auto. destruct (flow s) as [[m|]|]; try contradiction; lia.
        -- destruct K as [k|]; destruct (flow s) as [[m|]|]; cbn [add_slot]; try contradiction; auto; lia.
      * unfold iso_ok in *. cbn [running]. intros e p HIn SER. pose proof (ISO _ _ (I _ HIn) SER) as ONE.
        rewrite ONE in L. destruct r; [destruct HIn | cbn in L; lia].
      * exact TY.
    + unfold no_serial_running. cbn [running]. intros e p HIn. destruct (is_serial e) eqn:SER; [|reflexivity].
      pose proof (ISO _ _ (I _ HIn) SER) as ONE. rewrite ONE in L. destruct r; [destruct HIn | cbn in L; lia].
  - (* LWake *)
    destruct (pc s) eqn:P; try discriminate. inversion H; subst. unfold pc_ok in PC. rewrite P in PC.
    split; [apply loop_top_inv; [exact (conj SL (conj ISO TY)) | intros e p HIn; rewrite PC in HIn; destruct HIn] | apply loop_top_pc].
  - inversion H; subst. (split; [split; [|split]|]); unfold slots_ok, iso_ok, typed_ok, pc_ok in *; cbn in *; auto.
Qed.

Theorem exec_inv K : forall ls s s', Inv2 K s -> exec s ls = Some s' -> Inv2 K s'.
Proof.
  induction ls as [|l t IH]; intros s s' HI H; cbn [exec] in H; [inversion H; subst; exact HI|].
  destruct (step s l) as [s1|] eqn:E; [|discriminate]. eapply IH; [eapply step_inv; eauto | exact H].
Qed.

Lemma init_inv K : Inv2 K (init K).
Proof. unfold init. (split; [split; [|split]|]); unfold slots_ok, iso_ok, typed_ok, pc_ok; cbn; auto. destruct K; auto. intros e p []. Qed.

(* C06 bound and C07 isolation for every reachable state, every interleaving, any length *)
Theorem C06_bound k ls s : exec (init (Some k)) ls = Some s -> length (running s) <= k.
Proof.
  intros H. destruct (exec_inv (Some k) ls _ _ (init_inv _) H) as [(SL & _) _].
  unfold slots_ok in SL. destruct (flow s) as [[m|]|]; try contradiction; lia.
Qed.

Theorem C07_isolation K ls s e p : exec (init K) ls = Some s -> In (e, p) (running s) -> is_serial e = true -> running s = [(e, p)].
Proof.
  intros H HIn SER. destruct (exec_inv K ls _ _ (init_inv _) H) as [(_ & ISO & _) _].
  pose proof (ISO _ _ HIn SER) as ONE. destruct (running s) as [|x [|y t]]; cbn in ONE; try lia.
  destruct HIn as [E|[]]. subst. reflexivity.
Qed.
Print Assumptions C06_bound.
Print Assumptions C07_isolation.
