From Coq Require Import List NArith Bool Lia Arith.
Import ListNotations.

Inductive sty := Serial | Conc.
Record entry := { e_id : N; e_ty : sty; e_ready : N }.          (* ready when now > e_ready (0: no deadline) *)
Inductive phase := Dispatched | Open | Ended.
Inductive pcT := NotBegun | Awaiting | Idle | Done.
Record st := { qS : list entry; qC : list entry; pdone : bool;
               flow : option (option nat);                        (* None = Break *)
               running : list (entry * phase); now : N; pc : pcT }.

Definition ready (now : N) (e : entry) : bool := (e_ready e =? 0)%N || (e_ready e <? now)%N.

(* drain_filter with a count limit: take up to n ready entries, keep order *)
Fixpoint take_ready (n : option nat) (now : N) (l : list entry) : list entry * list entry :=
  match l with
  | [] => ([], [])
  | e :: t =>
      match n with
      | Some 0 => ([], l)
      | _ => if ready now e
             then let '(a, b) := take_ready (option_map pred n) now t in (e :: a, b)
             else let '(a, b) := take_ready n now t in (a, e :: b)
      end
  end.

Definition is_nil {A} (l : list A) := match l with [] => true | _ => false end.

(* Features::get, repaired: Serial only when nothing is running *)
Definition get (n : option nat) (s : st) : list entry * list entry * list entry :=   (* batch, qS', qC' *)
  match n with
  | Some 0 => ([], qS s, qC s)
  | _ =>
    let '(bs, rs) := if is_nil (running s) then take_ready (Some 1) (now s) (qS s) else ([], qS s) in
    match bs with
    | _ :: _ => (bs, rs, qC s)
    | [] => let '(bc, rc) := take_ready n (now s) (qC s) in (bc, qS s, rc)
    end
  end.

Definition sub_slots (f : option (option nat)) (k : nat) :=
  match f with Some (Some n) => Some (Some (n - k)) | x => x end.
Definition add_slot (f : option (option nat)) :=
  match f with Some (Some n) => Some (Some (S n)) | x => x end.

Definition loop_top (s : st) : st :=
  let n := match flow s with None => Some 0 | Some k => k end in
  let '(batch, qs, qc) := get n s in
  if is_nil (running s) && is_nil batch then
    if pdone s && (match flow s with None => true | _ => false end || (is_nil (qS s) && is_nil (qC s)))
    then {| qS := qs; qC := qc; pdone := pdone s; flow := flow s; running := running s; now := now s; pc := Done |}
    else {| qS := qs; qC := qc; pdone := pdone s; flow := flow s; running := running s; now := now s; pc := Idle |}
  else {| qS := qs; qC := qc; pdone := pdone s; flow := sub_slots (flow s) (length batch);
          running := running s ++ map (fun e => (e, Dispatched)) batch; now := now s; pc := Awaiting |}.

Fixpoint set_phase (i : N) (from to : phase) (l : list (entry * phase)) : option (list (entry * phase)) :=
  match l with
  | [] => None
  | (e, p) :: t => if (e_id e =? i)%N then
                     match p, from with
                     | Dispatched, Dispatched | Open, Open => Some ((e, to) :: t)
                     | _, _ => None end
                   else option_map (cons (e, p)) (set_phase i from to t)
  end.

Fixpoint remove_ended (l : list (entry * phase)) : option (list (entry * phase)) :=
  match l with
  | [] => None
  | (e, Ended) :: t => Some t
  | x :: t => option_map (cons x) (remove_ended t)
  end.

Definition has_serial (l : list entry) := existsb (fun e => match e_ty e with Serial => true | _ => false end) l.

Inductive label :=
| LInsert (es : list entry)        (* Features::insert of one feature's scenarios (fresh, no deadline) *)
| LParserEnd
| LBegin
| LAttStart (i : N) | LAttEnd (i : N) (retry : option entry) (failfast_trip : bool)
| LResume (trip : bool)            (* trip: some drained message was a final failure under fail-fast *)
| LWake | LTick (d : N).

Definition split_ty (es : list entry) := (filter (fun e => match e_ty e with Serial => true | _ => false end) es,
                                          filter (fun e => match e_ty e with Conc => true | _ => false end) es).

Definition step (s : st) (l : label) : option st :=
  match l with
  | LInsert es =>
      if pdone s then None else
      let '(ss, cs) := split_ty es in
      if has_serial es
      then Some {| qS := ss ++ qS s; qC := cs ++ qC s; pdone := false; flow := flow s; running := running s; now := now s; pc := pc s |}
      else Some {| qS := qS s; qC := qC s ++ cs; pdone := false; flow := flow s; running := running s; now := now s; pc := pc s |}
  | LParserEnd => if pdone s then None else
      Some {| qS := qS s; qC := qC s; pdone := true; flow := flow s; running := running s; now := now s; pc := pc s |}
  | LBegin => match pc s with NotBegun => Some (loop_top s) | _ => None end
  | LAttStart i => option_map (fun r => {| qS := qS s; qC := qC s; pdone := pdone s; flow := flow s; running := r; now := now s; pc := pc s |})
                              (set_phase i Dispatched Open (running s))
  | LAttEnd i retry _ =>
      match set_phase i Open Ended (running s) with
      | None => None
      | Some r =>
        let s' := {| qS := qS s; qC := qC s; pdone := pdone s; flow := flow s; running := r; now := now s; pc := pc s |} in
        match retry with
        | None => Some s'
        | Some e => match e_ty e with
                    | Serial => Some {| qS := e :: qS s; qC := qC s; pdone := pdone s; flow := flow s; running := r; now := now s; pc := pc s |}
                    | Conc => Some {| qS := qS s; qC := e :: qC s; pdone := pdone s; flow := flow s; running := r; now := now s; pc := pc s |}
                    end
        end
      end
  | LResume trip =>
      match pc s with
      | Awaiting =>
        match remove_ended (running s) with
        | None => None
        | Some r => Some (loop_top {| qS := qS s; qC := qC s; pdone := pdone s;
                                      flow := if trip then None else add_slot (flow s);
                                      running := r; now := now s; pc := Awaiting |})
        end
      | _ => None end
  | LWake => match pc s with Idle => Some (loop_top s) | _ => None end
  | LTick d => Some {| qS := qS s; qC := qC s; pdone := pdone s; flow := flow s; running := running s; now := (now s + d)%N; pc := pc s |}
  end.

Fixpoint exec (s : st) (ls : list label) : option st :=
  match ls with [] => Some s | l :: t => match step s l with Some s' => exec s' t | None => None end end.

Definition init (K : option nat) : st :=
  {| qS := []; qC := []; pdone := false; flow := Some K; running := []; now := 1%N; pc := NotBegun |}.
