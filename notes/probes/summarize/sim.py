import random, itertools, collections
# per-scenario Summarize simulation (indicator map keyed by scenario => single slot)
def summarize(events, own_steps):
    st = dict(sp=0, ss=0, sf=0, sr=0, cp=0, cs=0, cf=0, cr=0, hooks=0)
    ind = None  # None | 'F' | 'S' | 'R'
    last = own_steps[-1] if own_steps else None
    for (kind, *rest) in events:
        if kind == 'step':
            step, res, retr = rest
            if res == 'started': pass
            elif res == 'passed':
                st['sp'] += 1
                if last is not None and last == step: ind = None
            elif res == 'skipped':
                st['ss'] += 1; st['cs'] += 1; ind = 'S'
            else:  # ('failed', errkind)
                _, ek = res
                if retr is not None and retr[1] > 0 and ek != 'notfound':
                    st['sr'] += 1
                    before = ind; ind = 'R'
                    if before is None: st['cr'] += 1
                else:
                    st['sf'] += 1; st['cf'] += 1; ind = 'F'
        elif kind == 'hookfailed':
            if ind in ('F', 'R'): pass
            elif ind == 'S': st['cs'] -= 1; st['cf'] += 1
            else: st['cf'] += 1; ind = 'F'
            st['hooks'] += 1
        elif kind == 'finished':
            if ind != 'R':
                if ind is None: st['cp'] += 1
                ind = None
    return st

def gen_scenario(rng, allow_dup=False):
    nb = rng.choice([0,0,1,2]); no = rng.choice([0,1,2,3])
    bg = [('b',i) for i in range(nb)]
    own = [('o',i) for i in range(no)]
    if allow_dup and no >= 2 and rng.random() < 0.3: own[-1] = own[0]
    N = rng.choice([None, 0, 1, 2, 3])
    fos = rng.random() < 0.3
    has_before = rng.random() < 0.4; has_after = rng.random() < 0.4
    events = []; attempts = []
    k = 0
    while True:
        retr = None if N is None else (k, N - k)
        ev = []
        failed = False; cls = {'fstep': False, 'fstep_final': False, 'hook': False, 'skip': False, 'retried_step': False}
        stop = False
        if has_before and rng.random() < 0.2:
            ev.append(('hookfailed',)); failed = True; cls['hook'] = True; cls['bhook'] = True; stop = True
        if not stop:
            for s in bg + own:
                ev.append(('step', s, 'started', retr))
                o = rng.choices(['pass','skip','panic','ambig'], [6,1,2,1])[0]
                if o == 'pass': ev.append(('step', s, 'passed', retr))
                elif o == 'skip':
                    if fos:
                        ev.append(('step', s, ('failed','notfound'), retr)); cls['fstep'] = True; cls['fstep_final'] = True
                    else:
                        ev.append(('step', s, 'skipped', retr)); cls['skip'] = True
                    break
                else:
                    ev.append(('step', s, ('failed', o), retr)); failed = True; cls['fstep'] = True
                    if retr is not None and retr[1] > 0: cls['retried_step'] = True
                    else: cls['fstep_final'] = True
                    break
        if has_after and rng.random() < 0.2:
            ev.append(('hookfailed',)); failed = True; cls['hook'] = True
        ev.append(('finished',))
        will_retry = failed and retr is not None and retr[1] > 0
        cls['will_retry'] = will_retry; cls['retr'] = retr
        events += ev; attempts.append(cls)
        if not will_retry: break
        k += 1
    return bg, own, events, attempts

def spec(events, attempts):
    sp = sum(1 for e in events if e[0]=='step' and e[2]=='passed')
    ss = sum(1 for e in events if e[0]=='step' and e[2]=='skipped')
    sf = sr = 0
    for e in events:
        if e[0]=='step' and isinstance(e[2], tuple):
            retr = e[3]
            if retr is not None and retr[1] > 0 and e[2][1] != 'notfound': sr += 1
            else: sf += 1
    hooks = sum(1 for e in events if e[0]=='hookfailed')
    last = attempts[-1]
    cp = cs = cf = 0
    if last['fstep_final'] or last['hook'] or (last['fstep'] and not last['retried_step']): cf = 1
    elif last['skip']: cs = 1
    else: cp = 1
    cr = 1 if any(a['retried_step'] for a in attempts) else 0
    return dict(sp=sp, ss=ss, sf=sf, sr=sr, cp=cp, cs=cs, cf=cf, cr=cr, hooks=hooks)

rng = random.Random(1)
mism = collections.Counter(); examples = {}
n = 0
for it in range(300000):
    bg, own, events, attempts = gen_scenario(rng, allow_dup=True)
    got = summarize(events, own); want = spec(events, attempts)
    if got != want:
        ka = any(a['hook'] and a['retr'] is not None and a['retr'][1] > 0 for a in attempts)
        kb = (len(attempts) > 1 or any(a['retried_step'] for a in attempts)) and not own
        kc = len(own) >= 2 and own[-1] in own[:-1]
        kd = any(attempts[i].get('bhook') and any(a['retried_step'] for a in attempts[:i]) for i in range(len(attempts)))
        key = (ka, kb, kc, kd)
        mism[key] += 1
        examples.setdefault(key, (bg, own, events, got, want))
    n += 1
print(n, mism)
for k, v in examples.items():
    if k == (False, False, False, False):
        print("UNEXPLAINED", v)
