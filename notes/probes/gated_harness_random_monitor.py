import sys, re, subprocess, collections
def check(lines):
    cfg = lines[0]
    m = re.match(r"CFG seed=(\d+) k=(\d+) fail_fast=(\w+) nscen=(\d+) (.*)", cfg)
    seed, K, ff, nscen, desc = int(m[1]), int(m[2]), m[3]=='true', int(m[4]), m[5]
    sc = {}
    for d in desc.split():
        name, rest = d.split(':'); kv = dict(x.split('=') for x in rest.split(','))
        sc[name] = dict(ser=kv['ser']=='true', retry=int(kv['retry']), after=int(kv['after']), fails=int(kv['fails']))
    errs = []
    ev = [l[2:] for l in lines if l.startswith('E ')]
    if 'END' not in lines: errs.append('no END'); 
    if 'NOT-TERMINATED' in lines: errs.append('NOT-TERMINATED')
    if not ev or ev[-1] != 'Finished': errs.append('last event not Finished')
    if ev.count('Started') != 1 or ev.count('Finished') != 1: errs.append('run brackets')
    if sum(1 for e in ev if e.startswith('ParsingFinished')) != 1: errs.append('ParsingFinished count')
    featS=set(); featF=set(); ruleS=set(); ruleF=set()
    open_att = {}    # scenario -> (cur,left)
    attempts = collections.defaultdict(list)  # scenario -> list of dict(cur,left,failed,finished)
    inflight = 0; seen_started = False; first_final_fail = None; late_starters = 0
    serial_open = None
    for i, e in enumerate(ev):
        if e == 'Started': seen_started = True; continue
        if e == 'Finished' or e.startswith('ParsingFinished') or e == 'ParseErr': continue
        m = re.match(r"F\[(\w+)\] (Started|Finished)$", e)
        if m:
            f = m[1]
            if not seen_started: errs.append('feature event before Started')
            if m[2]=='Started':
                if f in featS: errs.append(f'dup FeatS {f}')
                featS.add(f)
            else:
                if f not in featS or f in featF: errs.append(f'bad FeatF {f}')
                featF.add(f)
                for s,a in open_att.items():
                    if s.split('_')[1]==f: errs.append(f'FeatF {f} while {s} open')
                for r in ruleS - ruleF:
                    if r.startswith('R'+f[1:]+'x'): errs.append(f'FeatF {f} while rule {r} open')
            continue
        m = re.match(r"R\[(\w+)\] (Started|Finished)$", e)
        if m:
            r = m[1]; f = 'F'+r[1:].split('x')[0]
            if m[2]=='Started':
                if r in ruleS: errs.append(f'dup RuleS {r}')
                if f not in featS or f in featF: errs.append(f'RuleS {r} outside feature')
                ruleS.add(r)
            else:
                if r not in ruleS or r in ruleF: errs.append(f'bad RuleF {r}')
                if f in featF: errs.append(f'RuleF {r} after FeatF')
                ruleF.add(r)
                for s,a in open_att.items():
                    if s.endswith('_'+r): errs.append(f'RuleF {r} while {s} open')
            continue
        m = re.match(r"S\[(\w+)\](?:\((\d+),(\d+)\))? (\w+)", e)
        if not m: errs.append('unparsed '+e); continue
        s = m[1]; retr = (int(m[2]), int(m[3])) if m[2] is not None else None; kind = m[4]
        parts = s.split('_'); f = parts[1]; r = parts[2] if len(parts) > 2 else None
        if f not in featS or f in featF: errs.append(f'{s} event outside feature bracket')
        if r and (r not in ruleS or r in ruleF): errs.append(f'{s} event outside rule bracket')
        if serial_open and serial_open != s: errs.append(f'foreign event {e} while serial {serial_open} open')
        if kind == 'Started':
            if s in open_att: errs.append(f'{s} overlapping attempts')
            prev = attempts[s]
            exp = None if sc[s]['retry']==0 else (len(prev), sc[s]['retry']-len(prev))
            if retr != exp: errs.append(f'{s} retries {retr} expected {exp}')
            if prev and not (prev[-1]['failed'] and prev[-1]['finished']): errs.append(f'{s} re-run after non-failed attempt')
            open_att[s] = retr; attempts[s].append(dict(retr=retr, failed=False, finished=False))
            inflight += 1
            if K and inflight > K: errs.append(f'inflight {inflight} > K {K}')
            if sc[s]['ser']:
                if inflight != 1: errs.append(f'serial {s} started with inflight {inflight}')
                serial_open = s
            if first_final_fail is not None: late_starters += 1
        else:
            if s not in open_att: errs.append(f'{s} event {kind} with no open attempt'); continue
            if retr != open_att[s]: errs.append(f'{s} retries differ inside attempt')
            if kind == 'StepFailed': attempts[s][-1]['failed'] = True
            if kind == 'Finished':
                a = attempts[s][-1]; a['finished'] = True; del open_att[s]; inflight -= 1
                if serial_open == s: serial_open = None
                final_fail = a['failed'] and (retr is None or retr[1] == 0)
                if final_fail and first_final_fail is None and ff: first_final_fail = i
    if open_att: errs.append(f'open attempts at end {list(open_att)}')
    if featS != featF: errs.append('feature brackets not closed')
    if ruleS != ruleF: errs.append('rule brackets not closed')
    if ff and first_final_fail is not None and K and late_starters >= K: errs.append(f'fail-fast: {late_starters} late starters >= K {K}')
    for s, a in attempts.items():
        n = len(a); want_fail = sc[s]['fails']
        for k, at in enumerate(a):
            if at['failed'] != (k < want_fail): errs.append(f'{s} attempt {k} failed={at["failed"]} oracle says {k < want_fail}')
        if not ff or first_final_fail is None:
            exp_n = min(want_fail, sc[s]['retry']) + 1
            if n != exp_n: errs.append(f'{s} has {n} attempts expected {exp_n}')
    if (not ff or first_final_fail is None):
        missing = set(sc) - set(attempts)
        if missing: errs.append(f'never started: {sorted(missing)}')
    return errs
if __name__ == '__main__':
    lo, hi = int(sys.argv[1]), int(sys.argv[2]); bad = 0; stats = collections.Counter()
    for seed in range(lo, hi):
        try:
            out = subprocess.run(['/root/scratch/target-copy-v/release/hprobe', str(seed)], capture_output=True, text=True, timeout=20).stdout.splitlines()
        except subprocess.TimeoutExpired:
            print('seed', seed, 'TIMEOUT/HANG'); bad += 1; continue
        out = [l for l in out if not l.startswith('WARNING')]
        errs = check(out)
        stats['cases'] += 1; stats['events'] += sum(1 for l in out if l.startswith('E '))
        if 'fail_fast=true' in out[0]: stats['ff'] += 1
        if errs:
            bad += 1; print('seed', seed, errs[:4]); print('   ', out[0])
    print('checked', hi-lo, 'bad', bad, dict(stats))
