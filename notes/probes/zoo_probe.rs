use std::sync::Mutex;
use cucumber::{World, given, when, then, gherkin::Step, Parameter};
use futures::FutureExt as _;
static LOG: Mutex<Vec<String>> = Mutex::new(Vec::new());
fn log(s: String) { LOG.lock().unwrap().push(s); }

#[derive(Debug, Default, World)] struct Zw;

#[given("a.b (c) [d] \\ ^$")] fn lit(_: &mut Zw) { log("lit".into()); }
#[given(regex = r"^(\d+) and (\w+)$")] fn two(_: &mut Zw, a: u32, b: String) { log(format!("two {a} {b}")); }
#[when(regex = r"^n (\d+) (\d+)$")] fn sl(_: &mut Zw, v: &[u32]) { log(format!("sl {v:?}")); }
#[then(expr = "{int} cukes {word}")] fn ex(_: &mut Zw, n: i32, s: String) { log(format!("ex {n} {s}")); }
#[given(regex = r"^bad (\S+)$")] fn bad(_: &mut Zw, n: u32) { log(format!("bad {n}")); }
#[given(regex = r"^err$")] fn er(_: &mut Zw) -> Result<(), String> { log("er".into()); Err("returned err".into()) }
#[given(regex = r"^ctx (\w+)$")] async fn ctx(_: &mut Zw, #[step] st: &Step, x: String) { log(format!("ctx {} {x}", st.value)); }
#[given(regex = r"^multi$")] #[when(regex = r"^multi$")] #[then(regex = r"^multi2$")] fn multi(_: &mut Zw) { log("multi".into()); }
#[given(regex = r"^opt(?: (\d+))?( x)?$")] fn opt(_: &mut Zw, n: String, x: String) { log(format!("opt [{n}] [{x}]")); }
#[derive(Debug, Parameter)] #[param(regex = "(cat)|(dog)", name = "animal")] struct Animal(String);
impl std::str::FromStr for Animal { type Err = String; fn from_str(s: &str) -> Result<Self, String> { Ok(Animal(s.into())) } }
#[given(expr = "an {animal} and {int}")] fn par(_: &mut Zw, a: Animal, n: i32) { log(format!("par {a:?} {n}")); }
#[given(regex = r"^named (?P<b>\d+) (?P<a>\d+)$")] fn named(_: &mut Zw, a: u32, b: u32) { log(format!("named a={a} b={b}")); }

fn step(ty: gherkin::StepType, v: &str) -> Step { Step { keyword: "Given ".into(), ty, value: v.into(), docstring: None, table: None, span: Default::default(), position: Default::default() } }

fn main() {
    use gherkin::StepType::*;
    let c = Zw::collection();
    let std_hook = std::panic::take_hook(); std::panic::set_hook(Box::new(|_| {}));
    for (ty, text) in [(Given, "a.b (c) [d] \\ ^$"), (Given, "aXb (c) [d] \\ ^$"), (Given, "xa.b (c) [d] \\ ^$"), (Given, "12 and abc"), (When, "12 and abc"), (When, "n 1 2"), (Then, "5 cukes green"), (Then, "x cukes green"),
                       (Given, "bad 7"), (Given, "bad xx"), (Given, "err"), (Given, "ctx hello"), (Given, "multi"), (When, "multi"), (Then, "multi"), (Then, "multi2"), (Given, "opt"), (Given, "opt 3 x"), (Given, "an cat and 3"), (Given, "an dog and -4"), (Given, "named 1 2")] {
        let st = step(ty, text);
        match c.find(&st) {
            Ok(None) => println!("{ty:?} {text:?}: NOT FOUND"),
            Err(e) => println!("{ty:?} {text:?}: AMBIGUOUS {e}"),
            Ok(Some((f, _, loc, ctx))) => {
                LOG.lock().unwrap().clear();
                let mut w = Zw;
                let r = futures::executor::block_on(std::panic::AssertUnwindSafe(f(&mut w, ctx.clone())).catch_unwind());
                println!("{ty:?} {text:?}: matches={:?} loc={:?} -> {} log={:?}", ctx.matches, loc.map(|l| l.line), if r.is_ok() { "ok".to_string() } else { format!("PANIC {:?}", r.err().and_then(|e| e.downcast_ref::<String>().cloned())) }, LOG.lock().unwrap());
            }
        }
    }
    std::panic::set_hook(std_hook);
}
