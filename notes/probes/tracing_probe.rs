use std::{fmt::Debug, pin::Pin, task::{Context, Poll}};
use cucumber::{Event, World, Writer, cli, event, parser, writer, WriterExt as _, given};
use futures::FutureExt as _;

#[derive(Debug, Default, World)] struct W;
struct YieldN(usize);
impl Future for YieldN { type Output = (); fn poll(mut self: Pin<&mut Self>, cx: &mut Context<'_>) -> Poll<()> { if self.0 == 0 { Poll::Ready(()) } else { self.0 -= 1; cx.waker().wake_by_ref(); Poll::Pending } } }

#[given(regex = r"^log (\w+) (\d+) (\d+)$")]
async fn logstep(_: &mut W, name: String, before: usize, yields: usize) {
    for i in 0..before { tracing::info!("L {name} pre{i}"); }
    YieldN(yields).await;
    tracing::info!("L {name} post");
    if name.starts_with("f") { panic!("fail {name}") }
}

struct Rec;
impl<Wd: Debug + 'static> Writer<Wd> for Rec {
    type Cli = cli::Empty;
    async fn handle_event(&mut self, ev: parser::Result<Event<event::Cucumber<Wd>>>, _: &Self::Cli) {
        use event::*;
        if let Ok(ev) = ev { if let Cucumber::Feature(_, Feature::Scenario(s, e)) = &*ev {
            let r = e.retries.map(|r| format!("({},{})", r.current, r.left)).unwrap_or_default();
            match &e.event {
                Scenario::Log(m) => println!("S[{}]{r} LOG {}", s.name, m.trim_end().rsplit("L ").next().unwrap_or("")),
                Scenario::Step(st, Step::Started) => println!("S[{}]{r} StepStarted {}", s.name, st.value),
                Scenario::Step(st, Step::Passed(..)) => println!("S[{}]{r} StepPassed {}", s.name, st.value),
                Scenario::Step(st, Step::Failed(..)) => println!("S[{}]{r} StepFailed {}", s.name, st.value),
                Scenario::Started => println!("S[{}]{r} Started", s.name), Scenario::Finished => println!("S[{}]{r} Finished", s.name), _ => {}
            } } else if let Cucumber::Finished = &*ev { println!("Finished"); } }
    }
}
impl<Wd: Debug + 'static, V> cucumber::ArbitraryWriter<Wd, V> for Rec { async fn write(&mut self, _: V) {} }
impl writer::Normalized for Rec {}
impl writer::NonTransforming for Rec {}

fn main() {
    let dir = std::env::temp_dir().join("trprobe"); let _ = std::fs::create_dir_all(&dir);
    std::fs::write(dir.join("a.feature"), "Feature: T\n  Scenario: a\n    Given log a1 2 3\n    Given log a2 0 1\n  Scenario: b\n    Given log b1 1 0\n    Given log b2 3 5\n  @retry(1)\n  Scenario: c\n    Given log c1 1 2\n    Given log f1 1 1\n  Scenario: d\n    Given log d1 0 0\n").unwrap();
    futures::executor::block_on(W::cucumber().with_writer(Rec).max_concurrent_scenarios(Some(4)).init_tracing().with_default_cli().run(dir));
}
