//! Gated, manually polled runner probe: every user callback waits on a gate opened by a stimulus script.
use std::{cell::RefCell, collections::HashMap, fmt::Debug, pin::Pin, rc::Rc, sync::{Arc, atomic::{AtomicBool, Ordering}}, task::{Context, Poll, Wake, Waker}, time::Duration};
use cucumber::{Runner as _, World, event, parser, runner, step};
use futures::{FutureExt as _, Stream, StreamExt as _, future::LocalBoxFuture};
use regex::Regex;

#[derive(Default)] struct GateSt { open: usize, waiting: Vec<(usize, Waker)> } // tickets
thread_local! {
    static GATES: RefCell<HashMap<String, GateSt>> = RefCell::new(HashMap::new());
    static ATT: RefCell<HashMap<String, usize>> = RefCell::new(HashMap::new());   // scenario -> attempts seen
    static FAIL: RefCell<HashMap<String, usize>> = RefCell::new(HashMap::new());  // scenario -> number of failing attempts
    static HIST: RefCell<Vec<String>> = RefCell::new(Vec::new());
    static PARSER_OPEN: RefCell<(usize, Option<Waker>)> = RefCell::new((0, None));
}
fn hist(s: String) { HIST.with(|h| h.borrow_mut().push(s)); }

struct Gate { key: String, ticket: Option<usize> }
impl Future for Gate {
    type Output = ();
    fn poll(mut self: Pin<&mut Self>, cx: &mut Context<'_>) -> Poll<()> {
        let key = self.key.clone();
        GATES.with(|g| {
            let mut g = g.borrow_mut(); let st = g.entry(key).or_default();
            let t = *self.ticket.get_or_insert_with(|| { let t = st.waiting.len() + st.open; t });
            if st.open > 0 && t < st.open + 0 { /* opened */ }
            if st.open > t { st.waiting.retain(|(x, _)| *x != t); Poll::Ready(()) }
            else { st.waiting.retain(|(x, _)| *x != t); st.waiting.push((t, cx.waker().clone())); Poll::Pending }
        })
    }
}
fn open_gate(key: &str) -> bool {
    GATES.with(|g| { let mut g = g.borrow_mut(); let st = g.entry(key.to_string()).or_default();
        if st.waiting.is_empty() { return false; }
        st.open += 1; for (_, w) in st.waiting.drain(..) { w.wake(); } true })
}

#[derive(Debug)] struct W;
impl World for W { type Error = std::convert::Infallible; async fn new() -> Result<Self, Self::Error> { Ok(W) } }

fn gated_step(_: &mut W, ctx: step::Context) -> LocalBoxFuture<'_, ()> {
    async move {
        let sid = ctx.step.value.split(' ').nth(1).unwrap().to_string();
        let k = ATT.with(|a| { let mut a = a.borrow_mut(); let e = a.entry(sid.clone()).or_insert(0); *e += 1; *e - 1 });
        hist(format!("C enter {sid}#{k}"));
        Gate { key: sid.clone(), ticket: None }.await;
        hist(format!("C exit {sid}#{k}"));
        let nfail = FAIL.with(|f| f.borrow().get(&sid).copied().unwrap_or(0));
        if k < nfail { panic!("fail") }
    }.boxed_local()
}

struct LazyParser { items: Vec<gherkin::Feature>, delivered: usize }
impl Stream for LazyParser {
    type Item = parser::Result<gherkin::Feature>;
    fn poll_next(mut self: Pin<&mut Self>, cx: &mut Context<'_>) -> Poll<Option<Self::Item>> {
        let allowed = PARSER_OPEN.with(|p| p.borrow().0);
        if self.delivered < allowed {
            self.delivered += 1;
            if self.items.is_empty() { hist("P end".into()); Poll::Ready(None) } else { let f = self.items.remove(0); hist(format!("P feature {}", f.name)); Poll::Ready(Some(Ok(f))) }
        } else { PARSER_OPEN.with(|p| p.borrow_mut().1 = Some(cx.waker().clone())); Poll::Pending }
    }
}

struct Flag(AtomicBool);
impl Wake for Flag { fn wake(self: Arc<Self>) { self.0.store(true, Ordering::SeqCst); } }

fn short<Wd: Debug>(ev: &event::Cucumber<Wd>) -> String {
    use event::*;
    match ev {
        Cucumber::Started => "Started".into(), Cucumber::Finished => "Finished".into(),
        Cucumber::ParsingFinished{features, scenarios, ..} => format!("ParsingFinished f={features} sc={scenarios}"),
        Cucumber::Feature(f, fe) => match fe {
            Feature::Started => format!("F[{}] Started", f.name), Feature::Finished => format!("F[{}] Finished", f.name),
            Feature::Rule(r, Rule::Started) => format!("R[{}] Started", r.name), Feature::Rule(r, Rule::Finished) => format!("R[{}] Finished", r.name),
            Feature::Rule(_, Rule::Scenario(s, e)) | Feature::Scenario(s, e) => format!("S[{}]{} {}", s.name, e.retries.map(|r| format!("({},{})", r.current, r.left)).unwrap_or_default(),
                match &e.event { Scenario::Started => "Started".to_string(), Scenario::Finished => "Finished".into(), Scenario::Step(_, Step::Started) => "StepStarted".into(), Scenario::Step(_, Step::Passed(..)) => "StepPassed".into(), Scenario::Step(_, Step::Failed(..)) => "StepFailed".into(), x => format!("{:?}", std::mem::discriminant(x)) }),
        }
    }
}


struct Rng(u64);
impl Rng { fn next(&mut self) -> u64 { self.0 ^= self.0 << 13; self.0 ^= self.0 >> 7; self.0 ^= self.0 << 17; self.0 } fn below(&mut self, n: usize) -> usize { (self.next() % n as u64) as usize } }

fn main() {
    let args: Vec<String> = std::env::args().skip(1).collect();
    let seed: u64 = args[0].parse().unwrap();
    let mut rng = Rng(seed.wrapping_mul(0x9E3779B97F4A7C15) | 1);
    // random configuration
    let k = [1usize, 2, 3, 0][rng.below(4)];
    let fail_fast = rng.below(3) == 0;
    let nfeat = 1 + rng.below(3);
    let mut feats = Vec::new(); let mut sid = 0; let mut desc = String::new();
    for fi in 0..nfeat {
        let mut src = format!("Feature: F{fi}\n");
        let nsc = rng.below(4); let nrules = rng.below(2);
        let mut gen_sc = |src: &mut String, indent: &str, rng: &mut Rng, sid: &mut usize, owner: &str| {
            let serial = rng.below(4) == 0; let retry = rng.below(3); let after = [0, 0, 30][rng.below(3)];
            let fails = rng.below(retry + 2);
            let name = format!("s{sid}_{owner}"); *sid += 1;
            let mut tags = Vec::new(); if serial { tags.push("@serial".to_string()); }
            if retry > 0 { tags.push(if after > 0 { format!("@retry({retry}).after({after}ms)") } else { format!("@retry({retry})") }); }
            if !tags.is_empty() { src.push_str(&format!("{indent}{}\n", tags.join(" "))); }
            src.push_str(&format!("{indent}Scenario: {name}\n{indent}  Given g {name}\n"));
            FAIL.with(|f| f.borrow_mut().insert(name.clone(), fails));
            desc.push_str(&format!("{name}:ser={serial},retry={retry},after={after},fails={fails} "));
        };
        for _ in 0..nsc { gen_sc(&mut src, "  ", &mut rng, &mut sid, &format!("F{fi}")); }
        for ri in 0..nrules { src.push_str(&format!("  Rule: R{fi}x{ri}\n")); let n = 1 + rng.below(2); for _ in 0..n { gen_sc(&mut src, "    ", &mut rng, &mut sid, &format!("F{fi}_R{fi}x{ri}")); } }
        feats.push(gherkin::Feature::parse(src, gherkin::GherkinEnv::default()).unwrap());
    }
    println!("CFG seed={seed} k={k} fail_fast={fail_fast} nscen={sid} {desc}");
    let nitems = feats.len() + 1;
    let r = runner::Basic::<W>::default().max_concurrent_scenarios(if k == 0 { None } else { Some(k) }).given(Regex::new("^g ").unwrap(), gated_step);
    let r = if fail_fast { r.fail_fast() } else { r };
    let mut evs = r.run(LazyParser { items: feats, delivered: 0 }, runner::basic::Cli::default());
    let flag = Arc::new(Flag(AtomicBool::new(true))); let waker = Waker::from(flag.clone()); let mut cx = Context::from_waker(&waker);
    let mut done = false;
    let mut pump = |evs: &mut futures::stream::LocalBoxStream<'static, _>, done: &mut bool| {
        let mut idle_polls = 0;
        while !*done && flag.0.swap(false, Ordering::SeqCst) {
            match evs.poll_next_unpin(&mut cx) {
                Poll::Ready(Some(Ok(e))) => { let e: cucumber::Event<event::Cucumber<W>> = e; hist(format!("E {}", short(&e.into_inner()))); flag.0.store(true, Ordering::SeqCst); idle_polls = 0; }
                Poll::Ready(Some(Err(_))) => { hist("E ParseErr".into()); flag.0.store(true, Ordering::SeqCst); }
                Poll::Ready(None) => { hist("END".into()); *done = true; }
                Poll::Pending => { idle_polls += 1; if idle_polls >= 64 { hist("STUTTER".into()); break; } }
            }
        }
    };
    pump(&mut evs, &mut done);
    let mut delivered = 0; let mut steps = 0;
    while !done && steps < 2000 {
        steps += 1;
        // enabled stimuli: P if items left; G key for any waiting gate; T always
        let waiting: Vec<String> = GATES.with(|g| { let mut v: Vec<String> = g.borrow().iter().filter(|(_, st)| !st.waiting.is_empty()).map(|(k, _)| k.clone()).collect(); v.sort(); v });
        let mut choices: Vec<(u8, String)> = waiting.into_iter().map(|k| (b'G', k)).collect();
        if delivered < nitems { choices.push((b'P', String::new())); if rng.below(2) == 0 { choices.push((b'P', String::new())); } }
        choices.push((b'T', String::new()));
        let (c, key) = choices[rng.below(choices.len())].clone();
        match c {
            b'P' => { delivered += 1; hist("S P".into()); PARSER_OPEN.with(|p| { let mut p = p.borrow_mut(); p.0 += 1; if let Some(w) = p.1.take() { w.wake(); } }); }
            b'T' => { let ms = [5u64, 40][rng.below(2)]; hist(format!("S T {ms}")); runner::basic::verif_clock::advance(Duration::from_millis(ms)); }
            _ => { open_gate(&key); hist(format!("S G {key}")); }
        }
        flag.0.store(true, Ordering::SeqCst);
        pump(&mut evs, &mut done);
    }
    if !done { hist("NOT-TERMINATED".into()); }
    HIST.with(|h| for l in h.borrow().iter() { println!("{l}"); });
}
