use std::{cell::RefCell, fmt::Debug, pin::Pin, rc::Rc, sync::{Arc, Mutex, atomic::{AtomicUsize, Ordering}}, task::{Context, Poll}, time::{Duration, Instant}};

use cucumber::{Event, World, Writer, WriterExt as _, cli, event, parser, runner, step, writer, Runner as _, StatsWriter as _};
use futures::{FutureExt as _, Stream, StreamExt as _, future::LocalBoxFuture};
use regex::Regex;

#[derive(Debug, Default)]
struct W(usize);
impl World for W {
    type Error = std::convert::Infallible;
    async fn new() -> Result<Self, Self::Error> { Ok(W(0)) }
}

static LOG: Mutex<Vec<String>> = Mutex::new(Vec::new());
fn log(s: String) { LOG.lock().unwrap().push(s); }

/// Stream returning Pending `n` times before each item.
struct Lazy { items: Vec<parser::Result<gherkin::Feature>>, pend: usize, left: usize }
impl Stream for Lazy {
    type Item = parser::Result<gherkin::Feature>;
    fn poll_next(mut self: Pin<&mut Self>, cx: &mut Context<'_>) -> Poll<Option<Self::Item>> {
        if self.left > 0 { self.left -= 1; cx.waker().wake_by_ref(); return Poll::Pending; }
        self.left = self.pend;
        if self.items.is_empty() { Poll::Ready(None) } else { Poll::Ready(Some(self.items.remove(0))) }
    }
}

fn feat(src: &str) -> gherkin::Feature {
    gherkin::Feature::parse(src, gherkin::GherkinEnv::default()).unwrap()
}

struct Rec(Vec<String>);
impl<Wd: Debug + 'static> Writer<Wd> for Rec {
    type Cli = cli::Empty;
    async fn handle_event(&mut self, ev: parser::Result<Event<event::Cucumber<Wd>>>, _: &Self::Cli) {
        let s = match ev.map(Event::into_inner) { Err(_) => "ParsingError".to_string(), Ok(ev) => short(&ev) };
        self.0.push(s);
    }
}
fn short<Wd: Debug>(ev: &event::Cucumber<Wd>) -> String {
    use event::*;
    match ev {
        Cucumber::Started => "Started".into(),
        Cucumber::Finished => "Finished".into(),
        Cucumber::ParsingFinished{features, rules, scenarios, steps, parser_errors} => format!("ParsingFinished f={features} r={rules} sc={scenarios} st={steps} pe={parser_errors}"),
        Cucumber::Feature(f, fe) => match fe {
            Feature::Started => format!("F[{}] Started", f.name),
            Feature::Finished => format!("F[{}] Finished", f.name),
            Feature::Rule(r, Rule::Started) => format!("F[{}] R[{}] Started", f.name, r.name),
            Feature::Rule(r, Rule::Finished) => format!("F[{}] R[{}] Finished", f.name, r.name),
            Feature::Rule(_, Rule::Scenario(s, e)) | Feature::Scenario(s, e) => format!("F[{}] S[{}] {:?} {}", f.name, s.name, e.retries.map(|r| (r.current, r.left)), sc(&e.event)),
        }
    }
}
fn sc<Wd: Debug>(e: &event::Scenario<Wd>) -> String {
    use event::*;
    match e {
        Scenario::Started => "Started".into(),
        Scenario::Finished => "Finished".into(),
        Scenario::Log(_) => "Log".into(),
        Scenario::Hook(t, Hook::Started) => format!("Hook {t} Started"),
        Scenario::Hook(t, Hook::Passed) => format!("Hook {t} Passed"),
        Scenario::Hook(t, Hook::Failed(..)) => format!("Hook {t} Failed"),
        Scenario::Background(s, e) => format!("Bg[{}] {}", s.value, st(e)),
        Scenario::Step(s, e) => format!("Step[{}] {}", s.value, st(e)),
    }
}
fn st<Wd>(e: &event::Step<Wd>) -> &'static str {
    use event::Step::*;
    match e { Started => "Started", Passed(..) => "Passed", Skipped => "Skipped", Failed(..) => "Failed" }
}

/// yields n times
struct YieldN(usize);
impl Future for YieldN { type Output = (); fn poll(mut self: Pin<&mut Self>, cx: &mut Context<'_>) -> Poll<()> { if self.0 == 0 { Poll::Ready(()) } else { self.0 -= 1; cx.waker().wake_by_ref(); Poll::Pending } } }
/// sleeps (busy-yield) until deadline
struct Until(Instant);
impl Future for Until { type Output = (); fn poll(self: Pin<&mut Self>, cx: &mut Context<'_>) -> Poll<()> { if Instant::now() >= self.0 { Poll::Ready(()) } else { cx.waker().wake_by_ref(); Poll::Pending } } }

static ATTEMPT: AtomicUsize = AtomicUsize::new(0);

fn pass_step(_: &mut W, _: step::Context) -> LocalBoxFuture<'_, ()> { async {}.boxed_local() }
fn slow_step(_: &mut W, ctx: step::Context) -> LocalBoxFuture<'_, ()> { async move { log(format!("enter {}", ctx.step.value)); let ms: u64 = ctx.step.value.rsplit(' ').next().unwrap().parse().unwrap(); Until(Instant::now() + Duration::from_millis(ms)).await; log(format!("exit {}", ctx.step.value)); }.boxed_local() }
fn fail_first(_: &mut W, ctx: step::Context) -> LocalBoxFuture<'_, ()> { async move { log(format!("enter {}", ctx.step.value)); YieldN(3).await; let n = ATTEMPT.fetch_add(1, Ordering::SeqCst); log(format!("exit {}", ctx.step.value)); if n == 0 { panic!("first attempt fails") } }.boxed_local() }

fn main() {
    let which = std::env::args().nth(1).unwrap();
    match which.as_str() {
        "e1" => {
            // lazy parser: Pending once before the only feature
            let f = feat("Feature: A\n  Scenario: s1\n    Given pass\n");
            let stream = Lazy { items: vec![Ok(f)], pend: 1, left: 1 };
            let r = runner::Basic::<W>::default().given(Regex::new("pass").unwrap(), pass_step);
            let evs = r.run(stream, runner::basic::Cli::default());
            let t = Instant::now();
            let n = futures::executor::block_on(evs.map(|e| println!("{}", match e { Ok(e) => short(&e.into_inner()), Err(_) => "Err".into() })).count());
            println!("done {n} events in {:?}", t.elapsed());
        }
        "e2" => {
            let f = feat("Feature: A\n  @serial @retry(1).after(100ms)\n  Scenario: ser\n    Given failfirst\n  Scenario: c1\n    Given slow c1 200\n  Scenario: c2\n    Given slow c2 400\n  Scenario: c3\n    Given slow c3 600\n");
            let r = runner::Basic::<W>::default().max_concurrent_scenarios(Some(4))
                .given(Regex::new("^failfirst$").unwrap(), fail_first)
                .given(Regex::new("^slow").unwrap(), slow_step);
            let evs = r.run(futures::stream::iter(vec![Ok(f)]), runner::basic::Cli::default());
            futures::executor::block_on(evs.for_each(|e| { println!("{}", match e { Ok(e) => short(&e.into_inner()), Err(_) => "Err".into() }); futures::future::ready(()) }));
            println!("--- callback log");
            for l in LOG.lock().unwrap().iter() { println!("{l}"); }
        }
        "e3" | "e4" => {
            let src = if which == "e3" { "Feature: A\n  @retry(1)\n  Scenario: s\n    Given pass\n" } else { "Feature: A\n  Background:\n    Given failfirst\n  @retry(1)\n  Scenario: s\n" };
            let f = feat(src);
            let r = runner::Basic::<W>::default().max_concurrent_scenarios(Some(1))
                .given(Regex::new("^pass$").unwrap(), pass_step)
                .given(Regex::new("^failfirst$").unwrap(), fail_first);
            let hook_fails = which == "e3";
            let r = r.before(move |_, _, _, _| async move { if hook_fails && ATTEMPT.fetch_add(1, Ordering::SeqCst) == 0 { panic!("hook fails once") } }.boxed_local());
            let mut wr = writer::Basic::raw(Vec::<u8>::new(), writer::Coloring::Never, 0).summarized();
            let evs = r.run(futures::stream::iter(vec![Ok(f)]), runner::basic::Cli::default());
            futures::executor::block_on(async { futures::pin_mut!(evs); let c = cucumber::writer::basic::Cli::default(); while let Some(e) = evs.next().await { if let Ok(e) = &e { println!("{}", short(&**e)); } Writer::<W>::handle_event(&mut wr, e, &c).await; } });
            println!("{}", String::from_utf8_lossy(&wr.inner_writer()));
            println!("scenarios={:?} steps={:?} hook_errors={} failed={}", wr.scenarios_stats(), wr.steps_stats(), cucumber::StatsWriter::<W>::hook_errors(&wr), cucumber::StatsWriter::<W>::execution_has_failed(&wr));
        }
        "e5" => {
            let mut f = feat("Feature: A\n  Scenario: s\n    Given pass\n    Given pass\n");
            f.path = None;
            let r = runner::Basic::<W>::default().given(Regex::new("^pass$").unwrap(), pass_step);
            #[derive(Clone, Default)] struct Buf(Rc<RefCell<Vec<u8>>>);
            impl std::io::Write for Buf { fn write(&mut self, b: &[u8]) -> std::io::Result<usize> { self.0.borrow_mut().extend_from_slice(b); Ok(b.len()) } fn flush(&mut self) -> std::io::Result<()> { Ok(()) } }
            let buf = Buf::default();
            let mut wr = writer::Libtest::<W, _>::new(buf.clone());
            let evs = r.run(futures::stream::iter(vec![Ok(f)]), runner::basic::Cli::default());
            let c = cucumber::writer::libtest::Cli { format: None, show_output: false, report_time: None, nightly: None };
            futures::executor::block_on(async { futures::pin_mut!(evs); while let Some(e) = evs.next().await { wr.handle_event(e, &c).await; } });
            println!("{}", String::from_utf8_lossy(&buf.0.borrow()));
        }
        "e6" => {
            let f = feat("Feature: A\n  @retrying\n  Scenario: s1\n    Given pass\n  @retry(abc)\n  Scenario: s2\n    Given pass\n  @retry(+2)\n  Scenario: s3\n    Given pass\n  @retry(3)x.after(1s)\n  Scenario: s4\n    Given pass\n  @flaky\n  Scenario: s5\n    Given pass\n");
            let cli = runner::basic::Cli::default();
            for s in &f.scenarios { println!("{:?} -> {:?}", s.tags, runner::basic::RetryOptions::parse_from_tags(&f, None, s, &cli)); }
        }
        "e7" => {
            use cucumber::feature::Ext as _;
            let src = "Feature: O\n  @o\n  Scenario Outline: n <a><b> <a b> <zz\n    Given v <a>-<b> $1 <c>\n      \"\"\"\n      doc <a>\n      \"\"\"\n    When t\n      | <a> | x<b>y |\n\n    @t1\n    Examples:\n      | a | b | c |\n      | 1 | <a> | $0 |\n      | .* | 2 | <c> |\n\n    Examples: header only\n      | a | b | c |\n\n    @t2\n    Examples:\n      | a | b | c |\n      | p | q | r |\n  Scenario: plain <a>\n    Given w <a>\n";
            let f = feat(src);
            match f.clone().expand_examples() {
                Ok(f) => for sc in &f.scenarios { println!("SC name={:?} tags={:?} pos={}:{} steps={:?}", sc.name, sc.tags, sc.position.line, sc.position.col, sc.steps.iter().map(|s| (s.value.clone(), s.docstring.clone(), s.table.as_ref().map(|t| t.rows.clone()))).collect::<Vec<_>>()); },
                Err(e) => println!("ERR {e}"),
            }
            let bad = feat("Feature: O\n  Scenario Outline: n <x> <y>\n    Given v <a> <z>\n    Examples:\n      | a |\n      | 1 |\n      | 2 |\n");
            match bad.expand_examples() { Ok(_) => println!("ok?!"), Err(e) => println!("ERR {e} name={}", e.name) }
        }
        "e8" => {
            let src = "Feature: J \"q\" <&>\n  Background:\n    Given pass\n  @retry(1)\n  Scenario: s é\n    Given failfirst\n    Given pass\n  Rule: r\n    Scenario: s é\n      Given nomatch\n";
            let which2 = std::env::args().nth(2).unwrap_or_default();
            let mut f = feat(src); if which2 == "nopath" { f.path = None; }
            let mk = || runner::Basic::<W>::default().max_concurrent_scenarios(Some(1))
                .given(Regex::new("^pass$").unwrap(), pass_step).given(Regex::new("^failfirst$").unwrap(), fail_first)
                .after(|_, _, sc, _, _| { let n = sc.name.clone(); async move { if n.is_empty() { panic!("x") } }.boxed_local() });
            #[derive(Clone, Default)] struct Buf(Rc<RefCell<Vec<u8>>>);
            impl std::io::Write for Buf { fn write(&mut self, b: &[u8]) -> std::io::Result<usize> { self.0.borrow_mut().extend_from_slice(b); Ok(b.len()) } fn flush(&mut self) -> std::io::Result<()> { Ok(()) } }
            let b1 = Buf::default();
            let mut wr = writer::Json::new::<W>(b1.clone());
            let evs = mk().run(futures::stream::iter(vec![Ok(f.clone())]), runner::basic::Cli::default());
            futures::executor::block_on(async { futures::pin_mut!(evs); while let Some(e) = evs.next().await { Writer::<W>::handle_event(&mut wr, e, &cli::Empty).await; } });
            println!("JSON: {}", String::from_utf8_lossy(&b1.0.borrow()));
            ATTEMPT.store(0, Ordering::SeqCst);
            let b2 = Buf::default();
            let mut wr = writer::JUnit::<W, _>::new(b2.clone(), 0);
            let evs = mk().run(futures::stream::iter(vec![Ok(f)]), runner::basic::Cli::default());
            let c = cucumber::writer::junit::Cli { verbose: None };
            futures::executor::block_on(async { futures::pin_mut!(evs); while let Some(e) = evs.next().await { wr.handle_event(e, &c).await; } });
            println!("JUNIT: {}", String::from_utf8_lossy(&b2.0.borrow()));
        }
        "e9" => {
            let dir = std::env::temp_dir().join("exp_e9"); let _ = std::fs::create_dir_all(&dir);
            let path = dir.join("a.feature");
            std::fs::write(&path, "Feature: P\n  Background:\n    Given pass\n  @retry(1)\n  Scenario: hookfail\n    Given pass\n  Scenario: amb ]]> <b>\n    Given ambiguous ]]> & x\n  Scenario: same\n    Given nomatch\n  Rule: r\n    Background:\n      Given failfirst\n    @retry(2)\n    Scenario: same\n      Given pass\n").unwrap();
            let f = gherkin::Feature::parse_path(&path, gherkin::GherkinEnv::default()).unwrap();
            let which2 = std::env::args().nth(2).unwrap_or_default();
            let mk = || runner::Basic::<W>::default().max_concurrent_scenarios(Some(1))
                .given(Regex::new("^pass$").unwrap(), pass_step).given(Regex::new("^failfirst$").unwrap(), fail_first)
                .given(Regex::new("^ambiguous").unwrap(), pass_step).given(Regex::new("x$").unwrap(), pass_step)
                .before(|_, _, sc, _| { let n = sc.name.clone(); async move { if n == "hookfail" && ATTEMPT.load(Ordering::SeqCst) == 0 { ATTEMPT.store(100, Ordering::SeqCst); panic!("before boom") } }.boxed_local() })
                .after(|_, _, sc, _, _| { let n = sc.name.clone(); async move { if n.starts_with("amb") { panic!("after ]]> boom") } }.boxed_local() });
            #[derive(Clone, Default)] struct Buf(Rc<RefCell<Vec<u8>>>);
            impl std::io::Write for Buf { fn write(&mut self, b: &[u8]) -> std::io::Result<usize> { self.0.borrow_mut().extend_from_slice(b); Ok(b.len()) } fn flush(&mut self) -> std::io::Result<()> { Ok(()) } }
            let b = Buf::default();
            let evs = mk().run(futures::stream::iter(vec![Ok(f)]), runner::basic::Cli::default());
            match which2.as_str() {
                "json" => { let mut wr = writer::Json::new::<W>(b.clone()); futures::executor::block_on(async { futures::pin_mut!(evs); while let Some(e) = evs.next().await { Writer::<W>::handle_event(&mut wr, e, &cli::Empty).await; } }); }
                "junit" => { let mut wr = writer::JUnit::<W, _>::new(b.clone(), 0); let c = cucumber::writer::junit::Cli { verbose: None }; futures::executor::block_on(async { futures::pin_mut!(evs); while let Some(e) = evs.next().await { wr.handle_event(e, &c).await; } }); }
                "libtest" => { let mut wr = writer::Libtest::<W, _>::new(b.clone()); let c = cucumber::writer::libtest::Cli { format: None, show_output: false, report_time: None, nightly: None }; futures::executor::block_on(async { futures::pin_mut!(evs); while let Some(e) = evs.next().await { wr.handle_event(e, &c).await; } }); }
                _ => { let mut wr = writer::Basic::new::<W>(b.clone(), writer::Coloring::Never, 0).summarized(); let c = cucumber::writer::basic::Cli::default(); futures::executor::block_on(async { futures::pin_mut!(evs); while let Some(e) = evs.next().await { Writer::<W>::handle_event(&mut wr, e, &c).await; } }); }
            }
            println!("{}", String::from_utf8_lossy(&b.0.borrow()));
        }
        "e10" => {
            static HOOK_CALLS: AtomicUsize = AtomicUsize::new(0);
            std::panic::set_hook(Box::new(|_| { HOOK_CALLS.fetch_add(1, Ordering::SeqCst); }));
            fn any_panic(_: &mut W, _: step::Context) -> LocalBoxFuture<'_, ()> { async { std::panic::panic_any(42u32) }.boxed_local() }
            let f = feat("Feature: A\n  Scenario: s1\n    Given anyp\n  Scenario: s2\n    Given pass\n");
            let r = runner::Basic::<W>::default().given(Regex::new("^pass$").unwrap(), pass_step).given(Regex::new("^anyp$").unwrap(), any_panic)
                .after(|_, _, _, _, _| async { panic!("after {}", 1) }.boxed_local());
            let evs = r.run(futures::stream::iter(vec![Ok(f)]), runner::basic::Cli::default());
            futures::executor::block_on(evs.for_each(|e| { if let Ok(e) = e { if let event::Cucumber::Feature(_, event::Feature::Scenario(_, ev)) = &*e { if let event::Scenario::Step(_, event::Step::Failed(_, _, _, event::StepError::Panic(info))) = &ev.event { println!("payload u32 = {:?}", info.downcast_ref::<u32>()); } if let event::Scenario::Hook(_, event::Hook::Failed(_, info)) = &ev.event { println!("hook payload String = {:?}", info.downcast_ref::<String>()); } } } futures::future::ready(()) }));
            println!("hook calls during run = {}", HOOK_CALLS.load(Ordering::SeqCst));
            let _ = std::thread::spawn(|| { let _ = std::panic::catch_unwind(|| panic!("marker")); }).join();
            println!("hook calls after marker = {}", HOOK_CALLS.load(Ordering::SeqCst));
        }
        _ => {}
    }
    let _ = Arc::new(0);
}
