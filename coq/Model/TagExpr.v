(* TagExpr.v — `gherkin::tagexpr::TagOperation` and `tag::Ext::eval` (src/tag.rs:27-41). *)
From CV Require Import Model.Base.

Inductive tagop :=
| TAnd (l r : tagop)
| TOr (l r : tagop)
| TNot (t : tagop)
| TTag (t : str).

(* src/tag.rs:34-39; `&` and `|` are the non-short-circuit operators, which on
   total pure operands coincide with andb/orb. *)
Fixpoint tag_eval (op : tagop) (tags : list str) : bool :=
  match op with
  | TAnd l r => tag_eval l tags && tag_eval r tags
  | TOr l r => tag_eval l tags || tag_eval r tags
  | TNot t => negb (tag_eval t tags)
  | TTag t => existsb (fun tag => str_eqb tag t) tags
  end.
