(* Events.v — the event vocabulary shared by every writer-side and runner-side model
   (src/event.rs). Ids stand for `Source<T>` pointer identity; `meta` for the
   `Event` wrapper's metadata (`at`). *)
From CV Require Import Model.Base.

Inductive errk := ENotFound | EAmbiguous | EPanic (payload : N).
Inductive stepev := StStarted | StPassed | StSkipped | StFailed (k : errk).
Inductive hookev := HStarted | HPassed | HFailed (payload : N).
Inductive scev :=
| ScStarted
| ScHook (before : bool) (h : hookev)
| ScBg (st : N) (e : stepev)
| ScStep (st : N) (e : stepev)
| ScLog (m : N)
| ScFinished.
Definition retr := option (N * N).      (* Retries { current, left } *)

Inductive ev :=
| EvStarted
| EvParsingFinished (f r s st e : N)
| EvParseErr (id : N)                    (* an `Err(parser::Error)` item *)
| EvFinished
| EvFeatS (f : N) | EvFeatF (f : N)
| EvRuleS (f r : N) | EvRuleF (f r : N)
| EvScen (f : N) (r : option N) (s : N) (rt : retr) (e : scev).

Definition mev := (N * ev)%type.          (* (metadata, event) *)

Definition errk_eqb (a b : errk) : bool :=
  match a, b with
  | ENotFound, ENotFound | EAmbiguous, EAmbiguous => true
  | EPanic p, EPanic q => p =? q
  | _, _ => false
  end.
Definition stepev_eqb (a b : stepev) : bool :=
  match a, b with
  | StStarted, StStarted | StPassed, StPassed | StSkipped, StSkipped => true
  | StFailed k, StFailed k' => errk_eqb k k'
  | _, _ => false
  end.
Definition hookev_eqb (a b : hookev) : bool :=
  match a, b with
  | HStarted, HStarted | HPassed, HPassed => true
  | HFailed p, HFailed q => p =? q
  | _, _ => false
  end.
Definition scev_eqb (a b : scev) : bool :=
  match a, b with
  | ScStarted, ScStarted | ScFinished, ScFinished => true
  | ScHook b1 h1, ScHook b2 h2 => Bool.eqb b1 b2 && hookev_eqb h1 h2
  | ScBg s1 e1, ScBg s2 e2 => (s1 =? s2) && stepev_eqb e1 e2
  | ScStep s1 e1, ScStep s2 e2 => (s1 =? s2) && stepev_eqb e1 e2
  | ScLog m1, ScLog m2 => m1 =? m2
  | _, _ => false
  end.
Definition retr_eqb : retr -> retr -> bool := option_eqb (pair_eqb N.eqb N.eqb).
Definition ev_eqb (a b : ev) : bool :=
  match a, b with
  | EvStarted, EvStarted | EvFinished, EvFinished => true
  | EvParsingFinished a1 a2 a3 a4 a5, EvParsingFinished b1 b2 b3 b4 b5 =>
    (a1 =? b1) && (a2 =? b2) && (a3 =? b3) && (a4 =? b4) && (a5 =? b5)
  | EvParseErr i, EvParseErr j => i =? j
  | EvFeatS f, EvFeatS g | EvFeatF f, EvFeatF g => f =? g
  | EvRuleS f r, EvRuleS g q | EvRuleF f r, EvRuleF g q => (f =? g) && (r =? q)
  | EvScen f r s rt e, EvScen f' r' s' rt' e' =>
    (f =? f') && option_eqb N.eqb r r' && (s =? s') && retr_eqb rt rt' && scev_eqb e e'
  | _, _ => false
  end.
Definition mev_eqb : mev -> mev -> bool := pair_eqb N.eqb ev_eqb.

Definition is_finished (e : ev) : bool := match e with EvFinished => true | _ => false end.
