(* StatsSpec.v — what C12 and C01 say the summary must contain, written declaratively over the
   event stream (independent of the bookkeeping in Stats.v), plus the known-finding classes. *)
From CV Require Import Model.Base Model.Events Model.Stats.

Definition count (p : ev -> bool) (es : list ev) : N := N.of_nat (length (filter p es)).

(* the part of the stream the statistics are about: everything before run-Finished *)
Fixpoint before_finished (es : list ev) : list ev :=
  match es with
  | [] => []
  | EvFinished :: _ => []
  | e :: t => e :: before_finished t
  end.

Definition step_of (e : ev) : option (retr * stepev) :=
  match e with
  | EvScen _ _ _ rt (ScBg _ x) | EvScen _ _ _ rt (ScStep _ x) => Some (rt, x)
  | _ => None
  end.
Definition is_step_passed e := match step_of e with Some (_, StPassed) => true | _ => false end.
Definition is_step_skipped e := match step_of e with Some (_, StSkipped) => true | _ => false end.
Definition is_step_failed_final e :=
  match step_of e with Some (rt, StFailed k) => negb (is_retried_failure rt k) | _ => false end.
Definition is_step_failed_retried e :=
  match step_of e with Some (rt, StFailed k) => is_retried_failure rt k | _ => false end.
Definition is_parse_err e := match e with EvParseErr _ => true | _ => false end.
Definition is_hook_failed e := match e with EvScen _ _ _ _ (ScHook _ (HFailed _)) => true | _ => false end.
Definition is_feat_started e := match e with EvFeatS _ => true | _ => false end.
Definition is_rule_started e := match e with EvRuleS _ _ => true | _ => false end.
Definition is_sc_fin e := match e with EvScen _ _ _ _ ScFinished => true | _ => false end.

Definition retries_left (rt : retr) : bool := match rt with Some (_, l) => 0 <? l | None => false end.
Definition ev_retr (e : ev) : retr := match e with EvScen _ _ _ rt _ => rt | _ => None end.
Definition ev_path (e : ev) : option spath := match e with EvScen f r s _ _ => Some (f, r, s) | _ => None end.
Definition on_path (p : spath) (e : ev) : bool := option_eqb spath_eqb (ev_path e) (Some p).

Definition paths (es : list ev) : list spath :=
  fold_right (fun e acc => match ev_path e with
                           | Some p => if existsb (spath_eqb p) acc then acc else p :: acc
                           | None => acc end) [] es.

(* a hook failure is final iff no retry is left *)
Definition is_hook_failed_final e := is_hook_failed e && negb (retries_left (ev_retr e)).

Inductive sclass := CPassed | CSkipped | CFailed | CNone.

(* classification of one scenario by its last attempt *)
Definition classify (evs : list ev) : sclass :=
  match rev evs with
  | [] => CNone
  | l :: _ =>
    let att := filter (fun e => retr_eqb (ev_retr e) (ev_retr l)) evs in
    let completed := existsb is_sc_fin att in
    let pending_retry := existsb is_step_failed_retried att
                         || (existsb is_hook_failed att && retries_left (ev_retr l)) in
    if completed && negb pending_retry then
      if existsb is_step_failed_final att || existsb is_hook_failed att then CFailed
      else if existsb is_step_skipped att then CSkipped
      else CPassed
    else CNone
  end.

Definition count_class (c : sclass) (es : list ev) : N :=
  N.of_nat (length (filter (fun p => match classify (filter (on_path p) es), c with
                                     | CPassed, CPassed | CSkipped, CSkipped | CFailed, CFailed => true
                                     | _, _ => false end) (paths es))).

(* the twelve numbers of the summary, in the order of Pipeline.summary_nums *)
Definition spec_counts (stream : list ev) : list N :=
  let es := before_finished stream in
  [count is_feat_started es; count is_rule_started es;
   count_class CPassed es; count_class CSkipped es; count_class CFailed es;
   N.of_nat (length (filter (fun p => existsb is_step_failed_retried (filter (on_path p) es)) (paths es)));
   count is_step_passed es; count is_step_skipped es; count is_step_failed_final es; count is_step_failed_retried es;
   count is_parse_err es; count is_hook_failed es].

(* C01: the run is failed iff a parser error was delivered or some attempt failed finally *)
Definition spec_failed (stream : list ev) : bool :=
  let es := before_finished stream in
  existsb is_parse_err es || existsb is_step_failed_final es || existsb is_hook_failed_final es.

(* what the runner guarantees about retries (C05): an attempt is followed by another attempt of the
   same scenario only if it failed (a step failure other than not-found, or a hook failure) with a
   retry left. `NotFound` failures never come from the runner (only from FailOnSkipped). *)
Definition retriable_failure (e : ev) : bool :=
  is_step_failed_retried e || (is_hook_failed e && retries_left (ev_retr e)).
Fixpoint rc_walk (cur : option retr) (failed : bool) (evs : list ev) : bool :=
  match evs with
  | [] => true
  | e :: t =>
    match cur with
    | Some rt =>
      if retr_eqb rt (ev_retr e) then rc_walk cur (failed || retriable_failure e) t
      else failed && rc_walk (Some (ev_retr e)) (retriable_failure e) t
    | None => rc_walk (Some (ev_retr e)) (retriable_failure e) t
    end
  end.
Definition retry_consistent (es : list ev) : bool :=
  forallb (fun p => rc_walk None false (filter (on_path p) es)) (paths es).

(* ---- known-finding classes (genuine defects recorded, not repaired) ---- *)
Section Known.
  Variable last_own : N -> option N.        (* last own step of a scenario *)
  Variable steps_of : N -> list N.          (* all steps an attempt of the scenario runs: backgrounds, then own *)

  Definition sc_of (p : spath) : N := match p with (_, _, s) => s end.
  Definition retried_paths (es : list ev) : list spath :=
    filter (fun p => existsb is_step_failed_retried (filter (on_path p) es)) (paths es).

  (* K12a / K01a: a hook fails in an attempt that will be retried *)
  Definition k_hook_in_retried (es : list ev) : bool :=
    existsb (fun e => is_hook_failed e && retries_left (ev_retr e)) es.
  (* K12b: a retried scenario without own steps *)
  Definition k12b (es : list ev) : bool :=
    existsb (fun p => negb (is_some (last_own (sc_of p)))) (retried_paths es).
  (* K12c: a retried scenario whose last own step also occurs elsewhere among its steps *)
  Definition occurrences (x : N) (l : list N) : nat := length (filter (N.eqb x) l).
  Definition k12c (es : list ev) : bool :=
    existsb (fun p => match last_own (sc_of p) with
                      | Some l => Nat.ltb 1 (occurrences l (steps_of (sc_of p)))
                      | None => false end) (retried_paths es).
  (* K12d: after a retried step failure, a later attempt fails finally in its before hook *)
  Fixpoint k12d_walk (seen : bool) (evs : list ev) : bool :=
    match evs with
    | [] => false
    | e :: t =>
      match e with
      | EvScen _ _ _ rt (ScHook true (HFailed _)) => (seen && negb (retries_left rt)) || k12d_walk seen t
      | _ => k12d_walk (seen || is_step_failed_retried e) t
      end
    end.
  Definition k12d (es : list ev) : bool :=
    existsb (fun p => k12d_walk false (filter (on_path p) es)) (paths es).

  Definition k12_class (stream : list ev) : N :=
    let es := before_finished stream in
    if k_hook_in_retried es then 1 else if k12b es then 2 else if k12c es then 3 else if k12d es then 4 else 0.
  Definition k01_class (stream : list ev) : N :=
    if k_hook_in_retried (before_finished stream) then 1 else 0.
End Known.
