(* StepMatch.v — model of `step::Collection::{given,when,then,find}` (src/step.rs:101-212).
   The three HashMaps keyed by (regex text, Option<Location>) are one association
   list with the keyword in the key; HashMap iteration order is abstracted by
   registration order, which the model's results are proved not to depend on. *)
From CV Require Import Model.Base.

Record loc := mk_loc { l_path : str; l_line : N; l_col : N }.
Definition key := (str * option loc)%type.          (* (HashableRegex, Option<Location>) *)
Record entry := mk_entry { e_ty : N; e_key : key; e_fn : N }.
Definition coll := list entry.

(* lexicographic order on strings = `str::cmp` (byte-wise on UTF-8 = by code point) *)
Fixpoint str_leb (a b : str) : bool :=
  match a, b with
  | [], _ => true
  | _ :: _, [] => false
  | x :: a', y :: b' => if x <? y then true else if y <? x then false else str_leb a' b'
  end.

Definition loc_eqb (a b : loc) : bool :=
  str_eqb (l_path a) (l_path b) && (l_line a =? l_line b) && (l_col a =? l_col b).

(* lexicographic product, as #[derive(Ord)] and tuple `Ord` define it *)
Definition lex_leb {A B} (eqa lea : A -> A -> bool) (leb : B -> B -> bool) (x y : A * B) : bool :=
  if eqa (fst x) (fst y) then leb (snd x) (snd y) else lea (fst x) (fst y).

(* Option<T>: None < Some *)
Definition opt_leb {A} (le : A -> A -> bool) (a b : option A) : bool :=
  match a, b with
  | None, _ => true
  | Some _, None => false
  | Some x, Some y => le x y
  end.

(* #[derive(Ord)] on Location { path, line, column } *)
Definition loc_tuple (l : loc) := (l_path l, (l_line l, l_col l)).
Definition loc_leb (a b : loc) : bool :=
  lex_leb str_eqb str_leb (lex_leb N.eqb N.leb N.leb) (loc_tuple a) (loc_tuple b).

Definition key_eqb (a b : key) : bool :=
  str_eqb (fst a) (fst b) && option_eqb loc_eqb (snd a) (snd b).

(* tuple order on (HashableRegex, Option<Location>) *)
Definition key_leb : key -> key -> bool := lex_leb str_eqb str_leb (opt_leb loc_leb).

Fixpoint insert_sorted (x : key) (l : list key) : list key :=
  match l with
  | [] => [x]
  | y :: l' => if key_leb x y then x :: l else y :: insert_sorted x l'
  end.

Definition sort_keys (l : list key) : list key := fold_right insert_sorted [] l.

(* `HashMap::insert`: an existing key keeps its place, the value is replaced *)
Fixpoint insert (c : coll) (e : entry) : coll :=
  match c with
  | [] => [e]
  | d :: c' =>
    if (e_ty d =? e_ty e) && key_eqb (e_key d) (e_key e)
    then mk_entry (e_ty d) (e_key d) (e_fn e) :: c'
    else d :: insert c' e
  end.

Definition build (regs : list entry) : coll := fold_left insert regs [].

Inductive found :=
| FNone
| FFound (fn : N) (l : option loc) (matches : list (option str * str))
| FAmbiguous (ks : list key).

Section Find.
  (* The regex engine (oracle): `captures_read` of regex `re` on `text`:
     None = no match; Some groups, group 0 = whole match, a group that did not
     participate is None.  `rx_names re` = `capture_names()` (group 0 is None). *)
  Variable rx : str -> str -> option (list (option str)).
  Variable rx_names : str -> list (option str).

  Definition matches_of (names : list (option str)) (groups : list (option str))
    : list (option str * str) :=
    combine names (map (fun g => unwrap_or g []) groups).

  (* lines 164-173: every definition of the step's keyword whose regex matches *)
  Definition cands (c : coll) (ty : N) (text : str) : list (entry * list (option str)) :=
    flat_map (fun e =>
      if e_ty e =? ty then
        match rx (fst (e_key e)) text with
        | Some groups => [(e, groups)]
        | None => []
        end
      else []) c.

  (* src/step.rs:154-212 *)
  Definition find (c : coll) (ty : N) (text : str) : found :=
    match cands c ty text with
    | [] => FNone
    | [(e, groups)] => FFound (e_fn e) (snd (e_key e)) (matches_of (rx_names (fst (e_key e))) groups)
    | cs => FAmbiguous (sort_keys (map (fun eg => e_key (fst eg)) cs))
    end.
End Find.
