(* Attempt.v — one scenario attempt: Executor::run_scenario (src/runner/basic.rs:1165-1402) with
   run_before_hook (1413-1500), run_step (1502-1611), run_after_hook (1690-1748),
   emit_failed_events (1613-1683), emit_after_hook_events (1750-1800).
   The World is modelled by its mutation log. Executable; no proofs here. *)
From CV Require Import Model.Base Model.Events.

Inductive step_outcome := ONoMatch | OAmbiguous | OMatch (panic : option N).
Inductive world_outcome := WOk | WErr (e : N) | WPanic (p : N).
(* payload encoding shared with the harness: user panics 1..999, World::new panic 1000+p, World::new Err 2000+e *)
Definition world_fail_payload (w : world_outcome) : N :=
  match w with WOk => 0 | WErr e => 2000 + e | WPanic p => 1000 + p end.

Record attempt_in := mk_attempt_in {
  ai_before : option (option N);        (* None: no before hook; Some None: passes; Some (Some p): panics with p *)
  ai_after : option (option N);
  ai_world : world_outcome;             (* what `World::new()` does in this attempt *)
  ai_fbg : list (N * step_outcome);     (* feature background steps, declaration order *)
  ai_rbg : list (N * step_outcome);     (* rule background steps *)
  ai_steps : list (N * step_outcome);   (* the scenario's own steps *)
  ai_retr : retr }.

Definition world := list N.              (* mutation log: 0 = before hook, step ids *)
Definition before_mark : N := 0.

Inductive reason := RBeforeHookFailed (p : N) | RStepPassed | RStepSkipped | RStepFailed (k : errk).
Inductive callback :=
| CWorldNew
| CBefore (w : world)
| CStep (st : N) (w : world)
| CAfter (r : reason) (w : option world).

(* ExecutionFailure (2408-2472) *)
Inductive failure :=
| FBeforeHook (w : option world) (p : N)
| FSkipped (w : option world)
| FStep (w : option world) (is_bg : bool) (st : N) (k : errk).

Record acc := mk_acc { a_evs : list scev; a_calls : list callback }.
Definition emit (a : acc) (e : scev) := mk_acc (a_evs a ++ [e]) (a_calls a).
Definition call (a : acc) (c : callback) := mk_acc (a_evs a) (a_calls a ++ [c]).

Definition step_ev (is_bg : bool) (st : N) (e : stepev) : scev := if is_bg then ScBg st e else ScStep st e.

(* run_before_hook *)
Definition run_before (i : attempt_in) (a : acc) : acc * (option world + failure) :=
  match ai_before i with
  | None => (a, inl None)
  | Some hook =>
    let a1 := call (emit a (ScHook true HStarted)) CWorldNew in
    match ai_world i with
    | WOk =>
      let a2 := call a1 (CBefore []) in
      let w := [before_mark] in
      match hook with
      | None => (emit a2 (ScHook true HPassed), inl (Some w))
      | Some p => (a2, inr (FBeforeHook (Some w) p))
      end
    | wf => (a1, inr (FBeforeHook None (world_fail_payload wf)))
    end
  end.

(* run_step *)
Definition run_step (i : attempt_in) (is_bg : bool) (a : acc) (wo : option world) (s : N * step_outcome)
  : acc * (world + failure) :=
  let st := fst s in
  let a1 := emit a (step_ev is_bg st StStarted) in
  match snd s with
  | ONoMatch => (emit a1 (step_ev is_bg st StSkipped), inr (FSkipped wo))
  | OAmbiguous => (a1, inr (FStep wo is_bg st EAmbiguous))
  | OMatch pan =>
    let created :=
      match wo with
      | Some w => (a1, inl w)
      | None =>
        let a2 := call a1 CWorldNew in
        match ai_world i with
        | WOk => (a2, inl [])
        | wf => (a2, inr (FStep None is_bg st (EPanic (world_fail_payload wf))))
        end
      end in
    match created with
    | (a2, inr f) => (a2, inr f)
    | (a2, inl w) =>
      let a3 := call a2 (CStep st w) in
      let w' := w ++ [st] in
      match pan with
      | None => (emit a3 (step_ev is_bg st StPassed), inl w')
      | Some p => (a3, inr (FStep (Some w') is_bg st (EPanic p)))
      end
    end
  end.

(* `stream::iter(steps).try_fold(world, run_step)` *)
Fixpoint run_steps (i : attempt_in) (is_bg : bool) (a : acc) (wo : option world) (l : list (N * step_outcome))
  : acc * (option world + failure) :=
  match l with
  | [] => (a, inl wo)
  | s :: t =>
    match run_step i is_bg a wo s with
    | (a', inl w) => run_steps i is_bg a' (Some w) t
    | (a', inr f) => (a', inr f)
    end
  end.

Definition bind_steps (i : attempt_in) (is_bg : bool) (l : list (N * step_outcome))
  (r : acc * (option world + failure)) : acc * (option world + failure) :=
  match r with
  | (a, inl wo) => run_steps i is_bg a wo l
  | (a, inr f) => (a, inr f)
  end.

Definition failure_world (f : failure) : option world :=
  match f with FBeforeHook w _ | FSkipped w | FStep w _ _ _ => w end.
Definition failure_reason (f : failure) : reason :=
  match f with
  | FBeforeHook _ p => RBeforeHookFailed p
  | FSkipped _ => RStepSkipped
  | FStep _ _ _ k => RStepFailed k
  end.
Definition failure_is_failed (f : failure) : bool := match f with FSkipped _ => false | _ => true end.

Record attempt_out := mk_attempt_out {
  ao_events : list scev; ao_calls : list callback; ao_failed : bool; ao_retry : option (N * N) }.

(* before hook, then the three `try_fold`s over feature background, rule background, own steps *)
Definition phases (i : attempt_in) : acc * (option world + failure) :=
  bind_steps i false (ai_steps i) (bind_steps i true (ai_rbg i) (bind_steps i true (ai_fbg i)
    (run_before i (mk_acc [ScStarted] [])))).

Definition run_attempt (i : attempt_in) : attempt_out :=
  let r := phases i in
  let a := fst r in
  let '(w, rsn) := match snd r with
                   | inl wo => (wo, RStepPassed)
                   | inr f => (failure_world f, failure_reason f)
                   end in
  (* the after hook RUNS here, before the deferred Failed event is emitted *)
  let a1 := match ai_after i with Some _ => call a (CAfter rsn w) | None => a end in
  let after_err := match ai_after i with Some (Some p) => Some p | _ => None end in
  let scenario_failed := match snd r with inl _ => false | inr f => failure_is_failed f end in
  let is_failed := scenario_failed || is_some after_err in
  (* emit_failed_events *)
  let a2 := match snd r with
            | inr (FBeforeHook _ p) => emit a1 (ScHook true (HFailed p))
            | inr (FStep _ is_bg st k) => emit a1 (step_ev is_bg st (StFailed k))
            | _ => a1
            end in
  (* emit_after_hook_events *)
  let a3 := match ai_after i with
            | Some h => emit (emit a2 (ScHook false HStarted))
                             (ScHook false (match h with Some p => HFailed p | None => HPassed end))
            | None => a2
            end in
  let a4 := emit a3 ScFinished in
  (* RetryOptions::next_try (basic.rs:230-240), only when failed *)
  let next := match ai_retr i with
              | Some (cur, lft) => if is_failed && (0 <? lft) then Some (cur + 1, lft - 1) else None
              | None => None
              end in
  mk_attempt_out (a_evs a4) (a_calls a4) is_failed next.
