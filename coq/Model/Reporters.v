(* Reporters.v — the STRUCTURE of what the built-in reporters state, as flat lists of facts in
   document order: writer::Libtest (src/writer/libtest.rs), writer::Json (json.rs), writer::JUnit
   (junit.rs), writer::Basic (basic.rs). Every reporter sits behind Normalize, so the functions below
   consume the NORMALIZED stream (`concat (nrun es)`). Not modelled: bytes, escaping, durations, styling.
   Executable; no proofs here. *)
From CV Require Import Model.Base Model.Events Model.Stats.

Inductive rf :=
(* libtest JSON lines *)
| RSuiteStarted (test_count : N)
| RTest (kind : N) (name : list N)            (* kind: 0 started, 1 ok, 2 failed, 3 ignored *)
| RSuiteResult (ok : bool) (passed failed ignored : N)
(* Cucumber JSON, flattened pre-order *)
| RJFeature (has_uri : bool) (fid : N)        (* fid 0: the pseudo feature of a parser error *)
| RJElement (rid : option N) (sid : N) (ty : N)   (* ty: 0 scenario, 1 background *)
| RJStep (line : N) (status : N)              (* 0 passed 1 failed 2 skipped 3 undefined 4 ambiguous *)
| RJHook (before : bool) (status : N)
(* JUnit *)
| RSuite (errors : bool) (fid : N)
| RCase (rid : option N) (sid : N) (status : N)   (* 0 success 1 failure 2 skipped; for Errors suites sid = error id *)
(* terminal lines (Basic; also the step listing inside a JUnit testcase) *)
| RLFeature (fid : N) | RLRule (rid : N) | RLScenario (sid : N) (retry : option (N * N))
| RLStep (marker : N) (bg : bool) (st : N)    (* marker: 1 ok 2 failed 3 skipped *)
| RLHookFailed (before : bool) (sid : N)
| RLParseErr.

Definition rf_eqb (a b : rf) : bool :=
  match a, b with
  | RSuiteStarted x, RSuiteStarted y => x =? y
  | RTest k n, RTest k' n' => (k =? k') && list_eqb N.eqb n n'
  | RSuiteResult o p f i, RSuiteResult o' p' f' i' => Bool.eqb o o' && (p =? p') && (f =? f') && (i =? i')
  | RJFeature u f, RJFeature u' f' => Bool.eqb u u' && (f =? f')
  | RJElement r s t, RJElement r' s' t' => option_eqb N.eqb r r' && (s =? s') && (t =? t')
  | RJStep l s, RJStep l' s' => (l =? l') && (s =? s')
  | RJHook b s, RJHook b' s' => Bool.eqb b b' && (s =? s')
  | RSuite e f, RSuite e' f' => Bool.eqb e e' && (f =? f')
  | RCase r s t, RCase r' s' t' => option_eqb N.eqb r r' && (s =? s') && (t =? t')
  | RLFeature f, RLFeature f' => f =? f'
  | RLRule r, RLRule r' => r =? r'
  | RLScenario s r, RLScenario s' r' => (s =? s') && option_eqb (pair_eqb N.eqb N.eqb) r r'
  | RLStep m b s, RLStep m' b' s' => (m =? m') && Bool.eqb b b' && (s =? s')
  | RLHookFailed b s, RLHookFailed b' s' => Bool.eqb b b' && (s =? s')
  | RLParseErr, RLParseErr => true
  | _, _ => false
  end.

Section Reporters.
  Variable has_path : N -> bool.               (* does the feature carry a source path *)

  (* ================= Libtest ================= *)
  (* test_case_name (663-738) as a tuple: [fid; path-less counter (0 with a path); rule?; rid; sid; retry?;
     current; current+left; what (0 step 1 background step 2 before hook 3 after hook); step id] *)
  Definition lt_name (f : N) (counter : N) (r : option N) (s : N) (rt : retr) (what st : N) : list N :=
    [f; counter; (match r with Some _ => 1 | None => 0 end); (match r with Some x => x | None => 0 end); s;
     (match rt with Some (c, _) => if 0 <? c then 1 else 0 | None => 0 end);
     (match rt with Some (c, _) => if 0 <? c then c else 0 | None => 0 end);
     (match rt with Some (c, l) => if 0 <? c then c + l else 0 | None => 0 end);
     what; st].
  Definition lt_parse_name (n : N) : list N := [0; n; 0; 0; 0; 0; 0; 0; 4; 0].

  Record ltw := mk_ltw {
    lw_buf : list ev; lw_parsed : bool; lw_c : ltc;
    lw_fwp : N }.                              (* features_without_path: bumped on EVERY name of a path-less feature *)
  Definition ltw_init := mk_ltw [] false (mk_ltc 0 0 0 0 0 0) 0.

  (* one output event: new state, lines (expand_cucumber_event 339-662) *)
  Definition lt_expand (w : ltw) (e : ev) : ltw * list rf :=
    let c := lw_c w in
    let bump f := if has_path f then (lw_fwp w, 0) else (lw_fwp w + 1, lw_fwp w + 1) in
    match e with
    | EvParsingFinished _ _ _ st er => (w, [RSuiteStarted (st + er)])
    | EvFinished =>
      let failed := lt_failed c + lt_parsing c + lt_hooks c in
      (w, [RSuiteResult (failed =? 0) (lt_passed c) failed (lt_ignored c)])
    | EvParseErr _ =>
      let c' := lt_count c e in
      (mk_ltw (lw_buf w) (lw_parsed w) c' (lw_fwp w),
       [RTest 0 (lt_parse_name (lt_parsing c')); RTest 2 (lt_parse_name (lt_parsing c'))])
    | EvScen f r s rt (ScHook b (HFailed _)) =>
      let '(fwp, cnt) := bump f in
      let nm := lt_name f cnt r s rt (if b then 2 else 3) 0 in
      (mk_ltw (lw_buf w) (lw_parsed w) (lt_count c e) fwp, [RTest 0 nm; RTest 2 nm])
    | EvScen f r s rt (ScBg st x) | EvScen f r s rt (ScStep st x) =>
      let isbg := match e with EvScen _ _ _ _ (ScBg _ _) => 1 | _ => 0 end in
      let '(fwp, cnt) := bump f in
      let nm := lt_name f cnt r s rt isbg st in
      let kind := match x with StStarted => 0 | StPassed => 1 | StFailed _ => 2 | StSkipped => 3 end in
      (mk_ltw (lw_buf w) (lw_parsed w) (lt_count c e) fwp, [RTest kind nm])
    | _ => (w, [])
    end.

  Definition lt_feed (w : ltw) (es : list ev) : ltw * list rf :=
    fold_left (fun acc e => let '(w', o) := lt_expand (fst acc) e in (w', snd acc ++ o)) es (w, []).

  (* handle_cucumber_event (300-322) *)
  Definition lt_handle_w (w : ltw) (e : ev) : ltw * list rf :=
    if lw_parsed w then lt_expand w e
    else match e with
         | EvParsingFinished _ _ _ _ _ =>
           lt_feed (mk_ltw [] true (lw_c w) (lw_fwp w)) (e :: lw_buf w)
         | _ => (mk_ltw (lw_buf w ++ [e]) false (lw_c w) (lw_fwp w), [])
         end.

  Definition libtest_lines (es : list ev) : list rf :=
    snd (fold_left (fun acc e => let '(w', o) := lt_handle_w (fst acc) e in (w', snd acc ++ o)) es (ltw_init, [])).

  (* ================= Cucumber JSON ================= *)
  Record jel := mk_jel { je_rid : option N; je_sid : N; je_ty : N;
                         je_steps : list (N * N); je_before : list N; je_after : list N }.
  Record jfeat := mk_jfeat { jf_uri : bool; jf_fid : N; jf_els : list jel }.

  (* `impl PartialEq<gherkin::Feature> for json::Feature` (784-798): FALSE whenever there is no uri *)
  Definition jfeat_matches (jf : jfeat) (f : N) : bool := jf_uri jf && has_path f && (jf_fid jf =? f).
  Definition jel_matches (el : jel) (r : option N) (s ty : N) : bool :=
    option_eqb N.eqb (je_rid el) r && (je_sid el =? s) && (je_ty el =? ty).

  Fixpoint upd_el (els : list jel) (r : option N) (s ty : N) (g : jel -> jel) : list jel :=
    match els with
    | [] => [g (mk_jel r s ty [] [] [])]
    | el :: t => if jel_matches el r s ty then g el :: t else el :: upd_el t r s ty g
    end.
  (* mut_or_insert_element (345-385) *)
  Fixpoint upd_feat (fs : list jfeat) (f : N) (r : option N) (s ty : N) (g : jel -> jel) : list jfeat :=
    match fs with
    | [] => [mk_jfeat (has_path f) f (upd_el [] r s ty g)]
    | jf :: t => if jfeat_matches jf f then mk_jfeat (jf_uri jf) (jf_fid jf) (upd_el (jf_els jf) r s ty g) :: t
                 else jf :: upd_feat t f r s ty g
    end.

  Definition json_status (x : stepev) : N :=
    match x with
    | StPassed => 0 | StSkipped => 2
    | StFailed ENotFound => 3 | StFailed EAmbiguous => 4 | StFailed (EPanic _) => 1
    | StStarted => 9
    end.

  Definition json_handle (fs : list jfeat) (e : ev) : list jfeat :=
    match e with
    | EvParseErr i => fs ++ [mk_jfeat false 0 [mk_jel None 0 0 [(i, 1)] [] []]]
    | EvScen f r s _ (ScHook b HPassed) =>
      upd_feat fs f r s 0 (fun el => if b then mk_jel (je_rid el) (je_sid el) (je_ty el) (je_steps el) (je_before el ++ [0]) (je_after el)
                                     else mk_jel (je_rid el) (je_sid el) (je_ty el) (je_steps el) (je_before el) (je_after el ++ [0]))
    | EvScen f r s _ (ScHook b (HFailed _)) =>
      upd_feat fs f r s 0 (fun el => if b then mk_jel (je_rid el) (je_sid el) (je_ty el) (je_steps el) (je_before el ++ [1]) (je_after el)
                                     else mk_jel (je_rid el) (je_sid el) (je_ty el) (je_steps el) (je_before el) (je_after el ++ [1]))
    | EvScen f r s _ (ScBg st x) =>
      upd_feat fs f r s 1 (fun el => match x with
                                     | StStarted => el
                                     | _ => mk_jel (je_rid el) (je_sid el) (je_ty el) (je_steps el ++ [(st, json_status x)]) (je_before el) (je_after el)
                                     end)
    | EvScen f r s _ (ScStep st x) =>
      upd_feat fs f r s 0 (fun el => match x with
                                     | StStarted => el
                                     | _ => mk_jel (je_rid el) (je_sid el) (je_ty el) (je_steps el ++ [(st, json_status x)]) (je_before el) (je_after el)
                                     end)
    | _ => fs
    end.

  Definition flatten_json (fs : list jfeat) : list rf :=
    flat_map (fun jf => RJFeature (jf_uri jf) (jf_fid jf) ::
      flat_map (fun el => RJElement (je_rid el) (je_sid el) (je_ty el) ::
                          map (fun b => RJHook true b) (je_before el) ++
                          map (fun ls => RJStep (fst ls) (snd ls)) (je_steps el) ++
                          map (fun b => RJHook false b) (je_after el)) (jf_els jf)) fs.

  (* the document is written when run-Finished arrives (nothing otherwise) *)
  Fixpoint json_run (fs : list jfeat) (es : list ev) : list rf :=
    match es with
    | [] => []
    | EvFinished :: t => flatten_json fs ++ json_run fs t
    | e :: t => json_run (json_handle fs e) t
    end.
  Definition json_doc (es : list ev) : list rf := json_run [] es.

  (* ================= terminal lines (Basic) ================= *)
  Definition basic_line (e : ev) : list rf :=
    match e with
    | EvParseErr _ => [RLParseErr]
    | EvFeatS f => [RLFeature f]
    | EvRuleS _ r => [RLRule r]
    | EvScen _ _ s rt ScStarted =>
      [RLScenario s (match rt with Some (c, l) => if 0 <? c then Some (c, c + l) else None | None => None end)]
    | EvScen _ _ s _ (ScHook b (HFailed _)) => [RLHookFailed b s]
    | EvScen _ _ _ _ (ScBg st x) =>
      match x with StPassed => [RLStep 1 true st] | StFailed _ => [RLStep 2 true st] | StSkipped => [RLStep 3 true st] | _ => [] end
    | EvScen _ _ _ _ (ScStep st x) =>
      match x with StPassed => [RLStep 1 false st] | StFailed _ => [RLStep 2 false st] | StSkipped => [RLStep 3 false st] | _ => [] end
    | _ => []
    end.
  Definition basic_lines (es : list ev) : list rf := flat_map basic_line es.

  (* ================= JUnit ================= *)
  (* classification by the last relevant event of the attempt (test_case 311-372) *)
  Definition junit_relevant (x : scev) : bool :=
    match x with
    | ScLog _ | ScHook false HPassed | ScHook false HStarted => false
    | _ => true
    end.
  Definition junit_status (evs : list scev) : N :=
    match find junit_relevant (rev evs) with
    | Some (ScBg _ StSkipped) | Some (ScStep _ StSkipped) => 2
    | Some (ScHook _ (HFailed _)) | Some (ScBg _ (StFailed _)) | Some (ScStep _ (StFailed _)) => 1
    | _ => 0
    end.
  (* the step listing of a testcase: the Basic rendering of the attempt's events
     (junit-report drops system-out of skipped cases: K14c) *)
  Definition junit_listing (f : N) (r : option N) (s : N) (rt : retr) (evs : list scev) : list rf :=
    if junit_status evs =? 2 then []
    else flat_map (fun x => basic_line (EvScen f r s rt x)) evs.

  Record jstate := mk_js {
    js_suite : option N;                  (* feature whose suite is being filled *)
    js_cases : list rf;                   (* its cases (with listings) so far *)
    js_events : list scev;                (* events of the attempt in progress *)
    js_done : list rf }.                  (* finished suites, in report order *)
  Definition junit_handle (j : jstate) (e : ev) : jstate :=
    match e with
    | EvParseErr i => mk_js (js_suite j) (js_cases j) (js_events j) (js_done j ++ [RSuite true 0; RCase None i 1])
    | EvFeatS f => mk_js (Some f) [] (js_events j) (js_done j)
    | EvFeatF f =>
      mk_js None [] (js_events j)
            (js_done j ++ match js_suite j with Some g => RSuite false g :: js_cases j | None => [] end)
    | EvScen f r s rt ScFinished =>
      let evs := js_events j in
      mk_js (js_suite j) (js_cases j ++ RCase r s (junit_status evs) :: junit_listing f r s rt evs) [] (js_done j)
    | EvScen _ _ _ _ x => mk_js (js_suite j) (js_cases j) (js_events j ++ [x]) (js_done j)
    | _ => j
    end.
  Fixpoint junit_run (j : jstate) (es : list ev) : list rf :=
    match es with
    | [] => []
    | EvFinished :: t => js_done j ++ junit_run j t
    | e :: t => junit_run (junit_handle j e) t
    end.
  Definition junit_doc (es : list ev) : list rf := junit_run (mk_js None [] [] []) es.
End Reporters.
