(* ReportersSpec2.v — C14, ATTRIBUTION: what the parsed-back terminal listing and JUnit report must say about
   UNDER WHICH feature / rule / testcase a fact is listed. `ReportersSpec.v` reads a terminal fact as
   [kind; scenario; attempt; step; bg; marker], skips the feature and rule lines, drops the suite id of a JUnit
   testcase and does not tie a JUnit listing to the testcase it is printed in; the predicates below close these gaps.
   Written over the event stream, independently of Model/Reporters.v. Executable; no proofs here.

   All facts are `list N` (ReportersSpec.fact). Kinds used here:
     1  step result        2  failed hook        3  parser error
     21 scenario header (one per attempt)        20 scenario header standing under a rule
     30 JUnit suite        40 JUnit testcase     99 POISON: a line that cannot be attributed (never a stream fact) *)
From CV Require Import Model.Base Model.Events Model.Contract Model.Stats Model.StatsSpec Model.Reporters Model.ReportersSpec.

Definition b01 (b : bool) : N := if b then 1 else 0.
(* the attempt number printed in a scenario header: `None` (no "retry" suffix) is attempt 0 *)
Definition hdr_att (rt : option (N * N)) : N := match rt with Some (c, _) => c | None => 0 end.
Definition poison : fact := [99].

(* a is a sub-multiset of b *)
Fixpoint sub_multiset (a b : list fact) : bool :=
  match a with
  | [] => true
  | x :: t => match remove1 x b with Some b' => sub_multiset t b' | None => false end
  end.

(* ============================== terminal lines ============================== *)
(* the lines are read top-down keeping
     cf  : the feature of the last `RLFeature` line (None before the first),
     cur : the scenario and attempt of the last `RLScenario` line since that feature line.
   A fact is [kind; feature; scenario; attempt; step; bg; marker]; every scenario header yields [21; feature; scenario;
   attempt]; a failed-hook line names its scenario, which must be the one of the header above it. A result line or a
   header that has no feature line above it, a result line with no header above it (since the feature line) is POISON. *)
Fixpoint line_facts2 (cf : option N) (cur : option (N * N)) (rfs : list rf) : list fact :=
  match rfs with
  | [] => []
  | RLFeature f :: t => line_facts2 (Some f) None t
  | RLScenario s rt :: t =>
    match cf with Some f => [21; f; s; hdr_att rt] | None => poison end :: line_facts2 cf (Some (s, hdr_att rt)) t
  | RLStep m bg st :: t =>
    match cf, cur with Some f, Some (s, a) => [1; f; s; a; st; b01 bg; m] | _, _ => poison end :: line_facts2 cf cur t
  | RLHookFailed b s' :: t =>
    match cf, cur with
    | Some f, Some (s, a) => if s' =? s then [2; f; s; a; 0; b01 b; 2] else poison
    | _, _ => poison
    end :: line_facts2 cf cur t
  | RLParseErr :: t => [3] :: line_facts2 cf cur t
  | _ :: t => line_facts2 cf cur t
  end.

(* the same facts, from the events: feature, scenario and attempt are those the event carries *)
Definition slf2 (e : ev) : list fact :=
  match e with
  | EvParseErr _ => [[3]]
  | EvScen f _ s rt ScStarted => [[21; f; s; cur_of_retr rt]]
  | EvScen f _ s rt (ScHook b (HFailed _)) => [[2; f; s; cur_of_retr rt; 0; b01 b; 2]]
  | EvScen f _ s rt (ScBg st x) =>
    match st_status x with Some k => [[1; f; s; cur_of_retr rt; st; 1; k]] | None => [] end
  | EvScen f _ s rt (ScStep st x) =>
    match st_status x with Some k => [[1; f; s; cur_of_retr rt; st; 0; k]] | None => [] end
  | _ => []
  end.
Definition stream_line_facts2 (es : list ev) : list fact := flat_map slf2 (before_finished es).

(* THE RULE. The lines carry no "rule ended" marker, so a top-level scenario listed after a rule of its feature cannot be
   told from a scenario of that rule by the lines alone (the real check tests the indentation, outside Coq). Hence:
   every header that has a rule line above it since the last feature line yields [20; feature; rule; scenario; attempt]
   (the rule being the LAST such rule line), and every attempt whose events carry `Some r` must be among them:
   the stream's rule facts are a SUB-multiset of the lines' rule facts. *)
Fixpoint line_rule_facts (cf cr : option N) (rfs : list rf) : list fact :=
  match rfs with
  | [] => []
  | RLFeature f :: t => line_rule_facts (Some f) None t
  | RLRule r :: t => line_rule_facts cf (Some r) t
  | RLScenario s rt :: t =>
    match cf, cr with Some f, Some r => [[20; f; r; s; hdr_att rt]] | _, _ => [] end ++ line_rule_facts cf cr t
  | _ :: t => line_rule_facts cf cr t
  end.
Definition srf1 (e : ev) : list fact :=
  match e with
  | EvScen f (Some r) s rt ScStarted => [[20; f; r; s; cur_of_retr rt]]
  | _ => []
  end.
Definition stream_rule_facts (es : list ev) : list fact := flat_map srf1 (before_finished es).

Definition c14_basic_attr_ok (es : list ev) (rfs : list rf) : bool :=
  same_multiset (stream_line_facts2 es) (line_facts2 None None rfs)
  && sub_multiset (stream_rule_facts es) (line_rule_facts None None rfs).

(* ============================== JUnit ============================== *)
(* the report is read top-down keeping
     su : the feature of the `RSuite false f` being read (None inside an Errors suite and before the first suite),
     ca : the testcase being read: rule, scenario, status,
     hd : the attempt number of the scenario header seen inside this testcase.
   Facts: [30; feature] per feature suite; [40; feature; rule?; rule; scenario; status] per testcase of a feature suite;
   inside a testcase the listing must consist of ONE header, of the testcase's own scenario, which yields
   [21; feature; rule?; rule; scenario; attempt; status] (so the testcase, with its status, is tied to one attempt),
   followed by result lines, which yield [1 | 2; feature; rule?; rule; scenario; attempt; step; bg; marker] with feature,
   rule and scenario taken from the suite and the testcase they are printed in. Anything else is POISON: a header of
   another scenario, a second header, a result line before the header or outside a testcase of a feature suite, a
   failed-hook line naming another scenario. (The testcases of Errors suites are the business of `c14_junit_ok`.) *)
Fixpoint junit_facts2 (su : option N) (ca : option (option N * N * N)) (hd : option N) (rfs : list rf) : list fact :=
  match rfs with
  | [] => []
  | RSuite e f :: t => (if e then [] else [[30; f]]) ++ junit_facts2 (if e then None else Some f) None None t
  | RCase r s st :: t =>
    match su with
    | Some f => ([40; f] ++ ropt r ++ [s; st]) :: junit_facts2 su (Some (r, s, st)) None t
    | None => junit_facts2 su None None t
    end
  | RLScenario s' rt :: t =>
    match su, ca, hd with
    | Some f, Some (r, s, st), None =>
      if s' =? s then ([21; f] ++ ropt r ++ [s; hdr_att rt; st]) :: junit_facts2 su ca (Some (hdr_att rt)) t
      else poison :: junit_facts2 su ca hd t
    | _, _, _ => poison :: junit_facts2 su ca hd t
    end
  | RLStep m bg st :: t =>
    match su, ca, hd with
    | Some f, Some (r, s, _), Some a => [1; f] ++ ropt r ++ [s; a; st; b01 bg; m]
    | _, _, _ => poison
    end :: junit_facts2 su ca hd t
  | RLHookFailed b s' :: t =>
    match su, ca, hd with
    | Some f, Some (r, s, _), Some a => if s' =? s then [2; f] ++ ropt r ++ [s; a; 0; b01 b; 2] else poison
    | _, _, _ => poison
    end :: junit_facts2 su ca hd t
  | _ :: t => junit_facts2 su ca hd t
  end.

(* the stream side. Per event: a suite per started feature, the result lines *)
Definition sjf1 (e : ev) : list fact :=
  match e with
  | EvFeatS f => [[30; f]]
  | EvScen f r s rt (ScHook b (HFailed _)) => [[2; f] ++ ropt r ++ [s; cur_of_retr rt; 0; b01 b; 2]]
  | EvScen f r s rt (ScBg st x) =>
    match st_status x with Some k => [[1; f] ++ ropt r ++ [s; cur_of_retr rt; st; 1; k]] | None => [] end
  | EvScen f r s rt (ScStep st x) =>
    match st_status x with Some k => [[1; f] ++ ropt r ++ [s; cur_of_retr rt; st; 0; k]] | None => [] end
  | _ => []
  end.
(* the events of the attempt (f, r, s, rt) among `seen` (full key, the rule included) *)
Definition mine2 (f : N) (r : option N) (s : N) (rt : retr) (seen : list ev) : list scev :=
  flat_map (fun e => match e with
                     | EvScen f' r' s' rt' x => if atkey_eqb (f', r', s', rt') (f, r, s, rt) then [x] else []
                     | _ => [] end) seen.
(* per finished attempt: its testcase and the header of its listing, both with the attempt's classification
   (Reporters.junit_status of the attempt's events so far; the k-th finished attempt of a scenario is the one whose
   header carries attempt number k) *)
Fixpoint sjf_go (seen l : list ev) : list fact :=
  match l with
  | [] => []
  | EvScen f r s rt ScFinished :: t =>
    let st := junit_status (mine2 f r s rt seen) in
    ([40; f] ++ ropt r ++ [s; st]) :: ([21; f] ++ ropt r ++ [s; cur_of_retr rt; st]) :: sjf_go seen t
  | e :: t => sjf1 e ++ sjf_go (seen ++ [e]) t
  end.
Definition stream_junit_facts2 (es : list ev) : list fact := sjf_go [] (before_finished es).

(* nothing is written without run-Finished (as in `c14_junit_ok`) *)
Definition c14_junit_attr_ok (es : list ev) (rfs : list rf) : bool :=
  if existsb is_finished_ev es then same_multiset (stream_junit_facts2 es) (junit_facts2 None None None rfs)
  else match rfs with [] => true | _ => false end.
