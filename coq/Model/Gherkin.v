(* Gherkin.v — static data handed to the runner: features, rules, scenarios, steps.
   Ids stand for the pointer identity of `Source<T>` / the position in the file. *)
From CV Require Import Model.Base.

Record step := mk_step { st_id : N; st_ty : N (* 0 Given, 1 When, 2 Then *); st_value : str }.
Record scen := mk_scen { s_id : N; s_name : str; s_tags : list str; s_steps : list step }.
Record rule := mk_rule { r_id : N; r_name : str; r_tags : list str; r_bg : list step; r_scens : list scen }.
Record feature := mk_feature {
  f_id : N; f_name : str; f_tags : list str; f_bg : list step;
  f_scens : list scen; f_rules : list rule }.

Definition step_eqb (a b : step) : bool :=
  (st_id a =? st_id b) && (st_ty a =? st_ty b) && str_eqb (st_value a) (st_value b).
Definition scen_eqb (a b : scen) : bool :=
  (s_id a =? s_id b) && str_eqb (s_name a) (s_name b) && list_eqb str_eqb (s_tags a) (s_tags b)
  && list_eqb step_eqb (s_steps a) (s_steps b).
Definition rule_eqb (a b : rule) : bool :=
  (r_id a =? r_id b) && str_eqb (r_name a) (r_name b) && list_eqb str_eqb (r_tags a) (r_tags b)
  && list_eqb step_eqb (r_bg a) (r_bg b) && list_eqb scen_eqb (r_scens a) (r_scens b).
Definition feature_eqb (a b : feature) : bool :=
  (f_id a =? f_id b) && str_eqb (f_name a) (f_name b) && list_eqb str_eqb (f_tags a) (f_tags b)
  && list_eqb step_eqb (f_bg a) (f_bg b) && list_eqb scen_eqb (f_scens a) (f_scens b)
  && list_eqb rule_eqb (f_rules a) (f_rules b).

Definition set_f_scens (f : feature) (l : list scen) : feature :=
  mk_feature (f_id f) (f_name f) (f_tags f) (f_bg f) l (f_rules f).
Definition set_f_rules (f : feature) (l : list rule) : feature :=
  mk_feature (f_id f) (f_name f) (f_tags f) (f_bg f) (f_scens f) l.
Definition set_r_scens (r : rule) (l : list scen) : rule :=
  mk_rule (r_id r) (r_name r) (r_tags r) (r_bg r) l.

(* number of scenarios of a feature, rules included (`Feature::count_scenarios`) *)
Definition count_scens (f : feature) : N :=
  N.of_nat (length (f_scens f)) +
  fold_right (fun r acc => N.of_nat (length (r_scens r)) + acc) 0 (f_rules f).
