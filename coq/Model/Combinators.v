(* Combinators.v — models of writer::{FailOnSkipped, Repeat, Tee, Or, discard::{Arbitrary, Stats}}
   (src/writer/{fail_on_skipped,repeat,tee,or,discard}.rs) as one pipeline grammar
   over recording leaves. Executable; no proofs here. *)
From CV Require Import Model.Base Model.Events.

(* ---- FailOnSkipped (fail_on_skipped.rs:60-160) ---- *)
Definition fos_ev (should_fail : N -> option N -> N -> bool) (e : ev) : ev :=
  match e with
  | EvScen f r s rt (ScBg st StSkipped) =>
    if should_fail f r s then EvScen f r s rt (ScBg st (StFailed ENotFound)) else e
  | EvScen f r s rt (ScStep st StSkipped) =>
    if should_fail f r s then EvScen f r s rt (ScStep st (StFailed ENotFound)) else e
  | _ => e
  end.

(* default predicate (fail_on_skipped.rs:203-211): no `allow.skipped` tag on scenario, rule or feature *)
Definition s_allow_skipped : str := lit "allow.skipped".
Definition default_should_fail (tags_of : N -> option N -> N -> list str) (f : N) (r : option N) (s : N) : bool :=
  negb (existsb (fun t => str_eqb t s_allow_skipped) (tags_of f r s)).

(* ---- Repeat filters (repeat.rs:150-230) ---- *)
Definition flt_skipped (e : ev) : bool :=
  match e with
  | EvScen _ _ _ _ (ScStep _ StSkipped) | EvScen _ _ _ _ (ScBg _ StSkipped) => true
  | _ => false
  end.
Definition flt_failed (e : ev) : bool :=
  match e with
  | EvScen _ _ _ _ (ScStep _ (StFailed _)) | EvScen _ _ _ _ (ScBg _ (StFailed _))
  | EvScen _ _ _ _ (ScHook _ (HFailed _)) | EvParseErr _ => true
  | _ => false
  end.

Inductive fltk := FSkipped | FFailed | FCustom (accepted_metas : list N).
Definition flt (k : fltk) (e : mev) : bool :=
  match k with
  | FSkipped => flt_skipped (snd e)
  | FFailed => flt_failed (snd e)
  | FCustom l => existsb (N.eqb (fst e)) l
  end.

(* ---- pipelines ---- *)
Record counters := mk_counters {
  k_passed : N; k_skipped : N; k_failed : N; k_retried : N; k_parsing : N; k_hooks : N }.

Inductive fosk := FosDefault | FosCustom (failing_scenarios : list N).

Inductive pipe :=
| PLeaf (id : N) (stats : counters)
| PFos (k : fosk) (p : pipe)
| PRepeat (k : fltk) (p : pipe)
| PTee (l r : pipe)
| POr (left_metas : list N) (l r : pipe)       (* predicate true = left, decided per event *)
| PDiscardArb (p : pipe)
| PDiscardStats (p : pipe).

(* dynamic state: the `events` buffer of every Repeat, shaped like the pipeline *)
Inductive pstate :=
| SLeaf
| SOne (s : pstate)
| SRepeat (buf : list mev) (s : pstate)
| STwo (l r : pstate).

Fixpoint init_state (p : pipe) : pstate :=
  match p with
  | PLeaf _ _ => SLeaf
  | PFos _ q | PDiscardArb q | PDiscardStats q => SOne (init_state q)
  | PRepeat _ q => SRepeat [] (init_state q)
  | PTee l r | POr _ l r => STwo (init_state l) (init_state r)
  end.

Definition outs := list (N * mev).       (* deliveries (leaf id, event), in order *)

Section Run.
  Variable tags_of : N -> option N -> N -> list str.

  Definition should_fail (k : fosk) : N -> option N -> N -> bool :=
    match k with
    | FosDefault => default_should_fail tags_of
    | FosCustom l => fun _ _ s => existsb (N.eqb s) l
    end.

  (* deliver a list of events one by one to a writer `h` *)
  Definition feed (h : pstate -> mev -> pstate * outs) (s : pstate) (es : list mev) : pstate * outs :=
    fold_left (fun acc e => let '(s2, o2) := h (fst acc) e in (s2, snd acc ++ o2)) es (s, []).

  (* one `handle_event` call: new state and deliveries *)
  Fixpoint handle (p : pipe) (s : pstate) (e : mev) : pstate * outs :=
    match p, s with
    | PLeaf id _, _ => (s, [(id, e)])
    | PFos k q, SOne sq =>
      let '(sq', out) := handle q sq (fst e, fos_ev (should_fail k) (snd e)) in (SOne sq', out)
    | PRepeat k q, SRepeat buf sq =>
      let buf1 := if flt k e then buf ++ [e] else buf in
      let '(s1, out1) := handle q sq e in
      if is_finished (snd e) then
        let '(s2, out2) := feed (handle q) s1 buf1 in (SRepeat [] s2, out1 ++ out2)
      else (SRepeat buf1 s1, out1)
    | PTee l r, STwo sl sr =>
      let '(sl', ol) := handle l sl e in
      let '(sr', or_) := handle r sr e in (STwo sl' sr', ol ++ or_)
    | POr m l r, STwo sl sr =>
      if existsb (N.eqb (fst e)) m
      then let '(sl', o) := handle l sl e in (STwo sl' sr, o)
      else let '(sr', o) := handle r sr e in (STwo sl sr', o)
    | PDiscardArb q, SOne sq => let '(sq', out) := handle q sq e in (SOne sq', out)
    | PDiscardStats q, SOne sq => let '(sq', out) := handle q sq e in (SOne sq', out)
    | _, _ => (s, [])      (* state of the wrong shape: unreachable from init_state *)
    end.

  (* per-call outputs of a whole stream *)
  Fixpoint run_from (p : pipe) (s : pstate) (es : list mev) : list outs :=
    match es with
    | [] => []
    | e :: es' => let '(s', out) := handle p s e in out :: run_from p s' es'
    end.
  Definition run (p : pipe) (es : list mev) : list outs := run_from p (init_state p) es.
End Run.

(* `Arbitrary::write`: which leaves receive the value. `Or` has no `Arbitrary` impl: None. *)
Fixpoint write_to (p : pipe) : option (list N) :=
  match p with
  | PLeaf id _ => Some [id]
  | PFos _ q | PRepeat _ q | PDiscardStats q => write_to q
  | PDiscardArb _ => Some []
  | PTee l r =>
    match write_to l, write_to r with
    | Some a, Some b => Some (a ++ b)
    | _, _ => None
    end
  | POr _ _ _ => None
  end.

Definition cmap2 (f : N -> N -> N) (a b : counters) : counters :=
  mk_counters (f (k_passed a) (k_passed b)) (f (k_skipped a) (k_skipped b)) (f (k_failed a) (k_failed b))
              (f (k_retried a) (k_retried b)) (f (k_parsing a) (k_parsing b)) (f (k_hooks a) (k_hooks b)).
Definition zero_counters := mk_counters 0 0 0 0 0 0.

(* `Stats` getters *)
Fixpoint stats (p : pipe) : counters :=
  match p with
  | PLeaf _ c => c
  | PFos _ q | PRepeat _ q | PDiscardArb q => stats q
  | PDiscardStats _ => zero_counters
  | PTee l r => cmap2 N.max (stats l) (stats r)
  | POr _ l r => cmap2 N.add (stats l) (stats r)
  end.

(* default `Stats::execution_has_failed` (writer/mod.rs:95-99) *)
Definition has_failed (c : counters) : bool :=
  (0 <? k_failed c) || (0 <? k_parsing c) || (0 <? k_hooks c).

(* leaves forward their own `execution_has_failed` (here: the default rule on their counters);
   FailOnSkipped / Repeat / discard::Arbitrary forward the inner answer, Tee / Or / discard::Stats
   use the default rule on their combined counters *)
Fixpoint exec_failed (p : pipe) : bool :=
  match p with
  | PLeaf _ c => has_failed c
  | PFos _ q | PRepeat _ q | PDiscardArb q => exec_failed q
  | PDiscardStats _ | PTee _ _ | POr _ _ _ => has_failed (stats p)
  end.
