(* Glue.v — the argument-extraction code that the step attributes (#[given] / #[when] / #[then])
   generate (codegen/src/attribute.rs:174-377): typed arguments, the slice variant, the `__N_` families
   of multi-group Cucumber-Expression parameters, `FromStr` parsing, unit / Result return.
   `FromStr` is an oracle table. Executable; no proofs here. *)
From CV Require Import Model.Base.

Definition cap := (option str * str)%type.          (* (capture group name, matched text or "") *)

Definition underscore : N := 95.
Fixpoint take_while {A} (p : A -> bool) (l : list A) : list A :=
  match l with [] => [] | x :: t => if p x then x :: take_while p t else [] end.
Fixpoint starts_with (p s : str) : bool :=
  match p, s with
  | [], _ => true
  | c :: p', d :: s' => (c =? d) && starts_with p' s'
  | _ :: _, [] => false
  end.

(* the family prefix of a capture name: "__" ++ the characters up to the next '_' *)
Definition family_prefix (n : option str) : option str :=
  match n with
  | Some (a :: b :: rest) =>
    if (a =? underscore) && (b =? underscore)
    then Some (a :: b :: take_while (fun c => negb (c =? underscore)) rest)
    else None
  | _ => None
  end.
Definition in_family (p : option str) (c : cap) : bool :=
  match p, fst c with Some p', Some n => starts_with p' n | _, _ => false end.

Fixpoint first_nonempty (l : list str) : str :=
  match l with [] => [] | s :: t => match s with [] => first_nonempty t | _ => s end end.

(* one argument: the next group plus the following members of its `__N_` family; first non-empty wins *)
Definition take_arg (it : list cap) : option (str * list cap) :=
  match it with
  | [] => None
  | c :: rest =>
    let fam := take_while (in_family (family_prefix (fst c))) rest in
    Some (first_nonempty (snd c :: map snd fam), skipn (length fam) rest)
  end.

Inductive argk := AStep | ATyped (ty : N).           (* a #[step] argument, or a FromStr-typed one *)
Inductive sigk :=
| SArgs (args : list argk)                          (* typed arguments, in declaration order *)
| SSlice (ty : N) (step_first : bool) (step_last : bool)   (* one slice argument of element type ty *)
| SNone (with_step : bool).                         (* literal attribute: no captures are passed *)

Inductive outcome :=
| ORan (args : list str)                            (* the function ran with these (displayed) arguments *)
| ONotFound (i : nat)                               (* "<ident> not found": fewer groups than arguments *)
| OParseFailed (i : nat).                           (* `.parse::<T>()` failed: the step panics *)

Section Glue.
  (* FromStr oracle: Some d = parses, displayed as d; None = Err *)
  Variable parse : N -> str -> option str.

  Fixpoint extract_args (i : nat) (args : list argk) (it : list cap) : outcome :=
    match args with
    | [] => ORan []
    | AStep :: t => match extract_args i t it with ORan l => ORan (lit "<step>" :: l) | o => o end
    | ATyped ty :: t =>
      match take_arg it with
      | None => ONotFound i
      | Some (s, it') =>
        match parse ty s with
        | None => OParseFailed i
        | Some d => match extract_args (S i) t it' with ORan l => ORan (d :: l) | o => o end
        end
      end
    end.

  (* the slice variant consumes ALL remaining groups *)
  Fixpoint extract_slice (fuel : nat) (i : nat) (ty : N) (it : list cap) : outcome :=
    match fuel with
    | O => ORan []
    | S fuel' =>
      match take_arg it with
      | None => ORan []
      | Some (s, it') =>
        match parse ty s with
        | None => OParseFailed i
        | Some d => match extract_slice fuel' (S i) ty it' with ORan l => ORan (d :: l) | o => o end
        end
      end
    end.

  (* the slice is displayed as its elements joined by ',' *)
  Definition join_comma (l : list str) : str := fold_right (fun s acc => s ++ [44] ++ acc) [] l.

  (* `matches.iter().skip(1)`: group 0 (the whole match) is not an argument *)
  Definition run_glue (sg : sigk) (matches : list cap) : outcome :=
    let it := tl matches in
    match sg with
    | SArgs args => extract_args 0 args it
    | SSlice ty sf sl =>
      match extract_slice (length it) 0 ty it with
      | ORan l => ORan ((if sf then [lit "<step>"] else []) ++ [join_comma l] ++ (if sl then [lit "<step>"] else []))
      | o => o
      end
    | SNone with_step => ORan (if with_step then [lit "<step>"] else [])
    end.
End Glue.

Definition outcome_eqb (a b : outcome) : bool :=
  match a, b with
  | ORan x, ORan y => list_eqb str_eqb x y
  | ONotFound i, ONotFound j => Nat.eqb i j
  | OParseFailed i, OParseFailed j => Nat.eqb i j
  | _, _ => false
  end.
