(* Stats.v — models of writer::Summarize (src/writer/summarize.rs:163-445), of the counters of
   writer::Libtest (src/writer/libtest.rs:300-330, 395-455, 546-654, 760-790) and of
   Stats::execution_has_failed (src/writer/mod.rs:95-99). Executable; no proofs here. *)
From CV Require Import Model.Base Model.Events.

Inductive indicator := IFailed | ISkipped | IRetried.
Inductive sstate := InProgress | FinishedButNotOutput | FinishedAndOutput.

Definition spath := (N * option N * N)%type.             (* Source pointers of feature, rule, scenario *)
Definition spath_eqb (a b : spath) : bool :=
  match a, b with (f, r, s), (f', r', s') => (f =? f') && option_eqb N.eqb r r' && (s =? s') end.

Record stats4 := mk_stats4 { n_passed : N; n_skipped : N; n_failed : N; n_retried : N }.

Record summ := mk_summ {
  sm_features : N; sm_rules : N;
  sm_scenarios : stats4; sm_steps : stats4;
  sm_parsing_errors : N; sm_failed_hooks : N;
  sm_state : sstate;
  sm_handled : list (spath * indicator) }.

Definition summ_init : summ :=
  mk_summ 0 0 (mk_stats4 0 0 0 0) (mk_stats4 0 0 0 0) 0 0 InProgress [].

Fixpoint hget (p : spath) (l : list (spath * indicator)) : option indicator :=
  match l with
  | [] => None
  | (q, i) :: t => if spath_eqb p q then Some i else hget p t
  end.
Fixpoint hremove (p : spath) (l : list (spath * indicator)) : list (spath * indicator) :=
  match l with
  | [] => []
  | (q, i) :: t => if spath_eqb p q then hremove p t else (q, i) :: hremove p t
  end.
Definition hinsert (p : spath) (i : indicator) (l : list (spath * indicator)) := (p, i) :: hremove p l.

Definition add_passed (s : stats4) := mk_stats4 (n_passed s + 1) (n_skipped s) (n_failed s) (n_retried s).
Definition add_skipped (s : stats4) := mk_stats4 (n_passed s) (n_skipped s + 1) (n_failed s) (n_retried s).
Definition add_failed (s : stats4) := mk_stats4 (n_passed s) (n_skipped s) (n_failed s + 1) (n_retried s).
Definition add_retried (s : stats4) := mk_stats4 (n_passed s) (n_skipped s) (n_failed s) (n_retried s + 1).
(* `usize` subtraction: the real code would overflow below zero; N.sub saturates. The contract
   excludes the situation (a Hook::Failed after Skipped happens at most once per attempt). *)
Definition skipped_to_failed (s : stats4) := mk_stats4 (n_passed s) (n_skipped s - 1) (n_failed s + 1) (n_retried s).

Definition upd_sc (s : summ) (f : stats4 -> stats4) :=
  mk_summ (sm_features s) (sm_rules s) (f (sm_scenarios s)) (sm_steps s) (sm_parsing_errors s)
          (sm_failed_hooks s) (sm_state s) (sm_handled s).
Definition upd_st (s : summ) (f : stats4 -> stats4) :=
  mk_summ (sm_features s) (sm_rules s) (sm_scenarios s) (f (sm_steps s)) (sm_parsing_errors s)
          (sm_failed_hooks s) (sm_state s) (sm_handled s).
Definition upd_h (s : summ) (h : list (spath * indicator)) :=
  mk_summ (sm_features s) (sm_rules s) (sm_scenarios s) (sm_steps s) (sm_parsing_errors s)
          (sm_failed_hooks s) (sm_state s) h.
Definition set_state (s : summ) (st : sstate) :=
  mk_summ (sm_features s) (sm_rules s) (sm_scenarios s) (sm_steps s) (sm_parsing_errors s)
          (sm_failed_hooks s) st (sm_handled s).

(* a failed step is "retried" (not final) iff retries are left and it is not NotFound *)
Definition is_retried_failure (rt : retr) (k : errk) : bool :=
  match rt with
  | Some (_, lft) => (0 <? lft) && match k with ENotFound => false | _ => true end
  | None => false
  end.

Section Summarize.
  (* `scenario.steps.last()`: id of the last own step of a scenario. Structural equality of
     `gherkin::Step` is equality of ids (the position is part of the step). *)
  Variable last_own : N -> option N.

  Definition is_last_own (sc st : N) : bool :=
    match last_own sc with Some l => l =? st | None => false end.

  (* handle_step (326-379) *)
  Definition sm_step (s : summ) (p : spath) (st : N) (e : stepev) (rt : retr) : summ :=
    match e with
    | StStarted => s
    | StPassed =>
      let s1 := upd_st s add_passed in
      if is_last_own (snd p) st then upd_h s1 (hremove p (sm_handled s1)) else s1
    | StSkipped =>
      let s1 := upd_sc (upd_st s add_skipped) add_skipped in
      upd_h s1 (hinsert p ISkipped (sm_handled s1))
    | StFailed k =>
      if is_retried_failure rt k then
        let s1 := upd_st s add_retried in
        let before := hget p (sm_handled s1) in
        let s2 := upd_h s1 (hinsert p IRetried (sm_handled s1)) in
        match before with None => upd_sc s2 add_retried | Some _ => s2 end
      else
        let s1 := upd_sc (upd_st s add_failed) add_failed in
        upd_h s1 (hinsert p IFailed (sm_handled s1))
    end.

  (* handle_scenario (381-445) *)
  Definition sm_scenario (s : summ) (p : spath) (rt : retr) (x : scev) : summ :=
    match x with
    | ScStarted | ScHook _ HStarted | ScHook _ HPassed | ScLog _ => s
    | ScHook _ (HFailed _) =>
      let s1 :=
        match hget p (sm_handled s) with
        | Some IFailed | Some IRetried => s
        | Some ISkipped => upd_sc s skipped_to_failed
        | None => let s0 := upd_sc s add_failed in upd_h s0 (hinsert p IFailed (sm_handled s0))
        end in
      mk_summ (sm_features s1) (sm_rules s1) (sm_scenarios s1) (sm_steps s1) (sm_parsing_errors s1)
              (sm_failed_hooks s1 + 1) (sm_state s1) (sm_handled s1)
    | ScBg st e | ScStep st e => sm_step s p st e rt
    | ScFinished =>
      match hget p (sm_handled s) with
      | Some IRetried => s
      | Some _ => upd_h s (hremove p (sm_handled s))
      | None => upd_sc s add_passed
      end
    end.

  (* the counting part of handle_event (181-217), only while InProgress *)
  Definition sm_count (s : summ) (e : ev) : summ :=
    match e with
    | EvParseErr _ =>
      mk_summ (sm_features s) (sm_rules s) (sm_scenarios s) (sm_steps s) (sm_parsing_errors s + 1)
              (sm_failed_hooks s) (sm_state s) (sm_handled s)
    | EvFeatS _ =>
      mk_summ (sm_features s + 1) (sm_rules s) (sm_scenarios s) (sm_steps s) (sm_parsing_errors s)
              (sm_failed_hooks s) (sm_state s) (sm_handled s)
    | EvRuleS _ _ =>
      mk_summ (sm_features s) (sm_rules s + 1) (sm_scenarios s) (sm_steps s) (sm_parsing_errors s)
              (sm_failed_hooks s) (sm_state s) (sm_handled s)
    | EvScen f r sc rt x => sm_scenario s (f, r, sc) rt x
    | EvFinished => set_state s FinishedButNotOutput
    | EvFeatF _ | EvRuleF _ _ | EvStarted | EvParsingFinished _ _ _ _ _ => s
    end.

  (* what the inner writer receives during one call *)
  Inductive inner_op := OEv (e : mev) | OWrite (summary_of : summ).

  Definition sm_handle (s : summ) (e : mev) : summ * list inner_op :=
    let s1 := match sm_state s with InProgress => sm_count s (snd e) | _ => s end in
    match sm_state s1 with
    | FinishedButNotOutput => let s2 := set_state s1 FinishedAndOutput in (s2, [OEv e; OWrite s2])
    | _ => (s1, [OEv e])
    end.

  Fixpoint sm_run_from (s : summ) (es : list mev) : list (summ * list inner_op) :=
    match es with
    | [] => []
    | e :: t => let r := sm_handle s e in r :: sm_run_from (fst r) t
    end.
  Definition sm_final (es : list mev) : summ := fold_left (fun s e => fst (sm_handle s e)) es summ_init.
End Summarize.

(* ---- Libtest counters ---- *)
Record ltc := mk_ltc { lt_passed : N; lt_failed : N; lt_retried : N; lt_ignored : N;
                       lt_parsing : N; lt_hooks : N }.
Record ltstate := mk_lt { lt_buf : list ev; lt_parsed_all : bool; lt_c : ltc }.
Definition lt_init := mk_lt [] false (mk_ltc 0 0 0 0 0 0).

(* expand_* (395-654): what one output event does to the counters *)
Definition lt_count (c : ltc) (e : ev) : ltc :=
  match e with
  | EvParseErr _ => mk_ltc (lt_passed c) (lt_failed c) (lt_retried c) (lt_ignored c) (lt_parsing c + 1) (lt_hooks c)
  | EvScen _ _ _ _ (ScHook _ (HFailed _)) =>
    mk_ltc (lt_passed c) (lt_failed c) (lt_retried c) (lt_ignored c) (lt_parsing c) (lt_hooks c + 1)
  | EvScen _ _ _ rt (ScBg _ x) | EvScen _ _ _ rt (ScStep _ x) =>
    match x with
    | StStarted => c
    | StPassed => mk_ltc (lt_passed c + 1) (lt_failed c) (lt_retried c) (lt_ignored c) (lt_parsing c) (lt_hooks c)
    | StSkipped => mk_ltc (lt_passed c) (lt_failed c) (lt_retried c) (lt_ignored c + 1) (lt_parsing c) (lt_hooks c)
    | StFailed k =>
      if is_retried_failure rt k
      then mk_ltc (lt_passed c) (lt_failed c) (lt_retried c + 1) (lt_ignored c) (lt_parsing c) (lt_hooks c)
      else mk_ltc (lt_passed c) (lt_failed c + 1) (lt_retried c) (lt_ignored c) (lt_parsing c) (lt_hooks c)
    end
  | _ => c
  end.

(* handle_cucumber_event (300-322): everything is buffered until ParsingFinished *)
Definition lt_handle (s : ltstate) (e : ev) : ltstate :=
  if lt_parsed_all s then mk_lt (lt_buf s) true (lt_count (lt_c s) e)
  else match e with
       | EvParsingFinished _ _ _ _ _ =>
         mk_lt [] true (fold_left lt_count (e :: lt_buf s) (lt_c s))
       | _ => mk_lt (lt_buf s ++ [e]) false (lt_c s)
       end.

(* ---- the six Stats getters and the verdict ---- *)
Record getters := mk_getters { g_passed : N; g_skipped : N; g_failed : N; g_retried : N; g_parsing : N; g_hooks : N }.
Definition sm_getters (s : summ) : getters :=
  mk_getters (n_passed (sm_steps s)) (n_skipped (sm_steps s)) (n_failed (sm_steps s)) (n_retried (sm_steps s))
             (sm_parsing_errors s) (sm_failed_hooks s).
Definition lt_getters (s : ltstate) : getters :=
  let c := lt_c s in mk_getters (lt_passed c) (lt_ignored c) (lt_failed c) (lt_retried c) (lt_parsing c) (lt_hooks c).
(* Stats::execution_has_failed, default (writer/mod.rs:95-99) *)
Definition g_has_failed (g : getters) : bool := (0 <? g_failed g) || (0 <? g_parsing g) || (0 <? g_hooks g).
