(* RetryOptsSpec2.v — the tag the CODE consults, and the known-finding class
   K18a narrowed to it.  `parse_from_tags` (RetryOpts.v) takes, at the nearest
   level that has one, the FIRST tag that merely starts with "retry"; every
   other tag is never looked at.  Executable; no proofs here. *)
From CV Require Import Model.Base Model.TagExpr Model.RetryOpts Model.RetryOptsSpec.

(* the lenient test of the code: `tag.strip_prefix("retry")` succeeds *)
Definition has_retry_prefix (tag : str) : bool := is_some (strip_prefix s_retry tag).

(* first tag of one level that starts with "retry" *)
Definition first_retry (tags : list str) : option str := find has_retry_prefix tags.

(* the tag the code consults: scenario level, else rule level, else feature level *)
Definition consulted (ftags : list str) (rtags : option (list str)) (stags : list str)
  : option str :=
  or_else (first_retry stags)
    (or_else (first_retry (opt_tags rtags)) (first_retry ftags)).

(* Known-finding class K18a, narrow: the CONSULTED tag exists and is none of the four forms. *)
Definition k18a_narrow (parse_dur : str -> option N)
           (ftags : list str) (rtags : option (list str)) (stags : list str) : bool :=
  match consulted ftags rtags stags with
  | Some t => malformed_retry_tag parse_dur t
  | None => false
  end.
