(* Tracing.v — the log-forwarding protocol of the tracing integration (src/tracing.rs:150-290 and the
   `forward_logs` loop of execute, src/runner/basic.rs:1040-1075) as a labelled transition system.
   Three FIFO channels (logs, span closes, wait subscriptions), the step tasks, and the forwarder, which
   is polled first (biased select) and runs its `while let Some(logs) = emitted_logs()` loop atomically.
   Not modelled: `tracing`'s subscriber internals, message formatting, logs from other threads, and the
   registration table (a log of an unregistered scenario is broadcast). Executable; no proofs here. *)
From CV Require Import Model.Base.

Record log := mk_log { l_scen : N; l_msg : N; l_span : N }.

Record tstate := mk_ts {
  t_logs : list log;                  (* logs channel *)
  t_closes : list N;                  (* span_close channel *)
  t_waits : list N;                   (* wait_span_event channel (subscriptions) *)
  t_spans : list (N * (bool * bool)); (* span_events: span -> (has callbacks, close received) *)
  t_closed : list N;                  (* spans that have been closed by their task *)
  t_released : list N }.              (* spans whose callbacks have been fired *)

Definition tinit : tstate := mk_ts [] [] [] [] [] [].

Inductive tout := TLog (scen msg : N) | TRes (span : N).

Fixpoint upd_span (x : N) (f : bool * bool -> bool * bool) (l : list (N * (bool * bool))) : list (N * (bool * bool)) :=
  match l with
  | [] => [(x, f (false, false))]
  | (y, v) :: t => if x =? y then (y, f v) :: t else (y, v) :: upd_span x f t
  end.

(* notify_about_closing_spans (223-249): ONE close, ALL subscriptions, fire the complete ones *)
Definition notify (s : tstate) : tstate :=
  let '(sp1, closes) := match t_closes s with
                        | x :: t => (upd_span x (fun v => (fst v, true)) (t_spans s), t)
                        | [] => (t_spans s, [])
                        end in
  let sp2 := fold_left (fun acc x => upd_span x (fun v => (true, snd v)) acc) (t_waits s) sp1 in
  let fired := map fst (filter (fun kv => fst (snd kv) && snd (snd kv)) sp2) in
  let sp3 := filter (fun kv => negb (fst (snd kv) && snd (snd kv))) sp2 in
  mk_ts (t_logs s) closes [] sp3 (t_closed s) (t_released s ++ fired).

(* emitted_logs (197-221): notify, then forward ONE log *)
Definition fwd_call (s : tstate) : tstate * option tout :=
  let s1 := notify s in
  match t_logs s1 with
  | l :: t => (mk_ts t (t_closes s1) (t_waits s1) (t_spans s1) (t_closed s1) (t_released s1), Some (TLog (l_scen l) (l_msg l)))
  | [] => (s1, None)
  end.

(* the `while let Some(logs) = ...emitted_logs()` loop: until a call forwards nothing *)
Fixpoint fwd_loop (fuel : nat) (s : tstate) : tstate * list tout :=
  match fuel with
  | O => (s, [])
  | S k =>
    match fwd_call s with
    | (s1, Some o) => let '(s2, os) := fwd_loop k s1 in (s2, o :: os)
    | (s1, None) => (s1, [])
    end
  end.

Inductive tlabel :=
| TEmit (scen msg span : N)        (* a task logs inside its span *)
| TClose (span : N)                (* the task's instrumented future is done: the span closes *)
| TSub (span : N)                  (* wait_for_span_close: subscribe, then await *)
| TFwd                             (* one run of the forwarder loop *)
| TResult (span : N).              (* the awaiting task was released and emits its result event *)

Definition memN (x : N) (l : list N) : bool := existsb (N.eqb x) l.

Definition tstep (s : tstate) (l : tlabel) : option (tstate * list tout) :=
  match l with
  | TEmit sc m x =>
    if memN x (t_closed s) then None
    else Some (mk_ts (t_logs s ++ [mk_log sc m x]) (t_closes s) (t_waits s) (t_spans s) (t_closed s) (t_released s), [])
  | TClose x =>
    if memN x (t_closed s) then None
    else Some (mk_ts (t_logs s) (t_closes s ++ [x]) (t_waits s) (t_spans s) (x :: t_closed s) (t_released s), [])
  | TSub x =>
    (* usually the span has closed by now (the instrumented future is done); a span that OUTLIVES its future — a clone
       of it is held elsewhere, e.g. by a spawned task — closes later: the subscription then waits in the span table *)
    Some (mk_ts (t_logs s) (t_closes s) (t_waits s ++ [x]) (t_spans s) (t_closed s) (t_released s), [])
  | TFwd => Some (fwd_loop (S (length (t_logs s))) s)
  | TResult x => if memN x (t_released s) then Some (s, [TRes x]) else None
  end.

Fixpoint texec (s : tstate) (ls : list tlabel) : option (tstate * list tout) :=
  match ls with
  | [] => Some (s, [])
  | l :: t =>
    match tstep s l with
    | Some (s1, o) => match texec s1 t with Some (s2, o2) => Some (s2, o ++ o2) | None => None end
    | None => None
    end
  end.
