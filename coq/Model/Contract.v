(* Contract.v — the Runner ordering contract (src/runner/mod.rs:27-56) as an executable
   automaton over the event vocabulary, and its sequential strengthening `normalized`.
   Used as hypothesis (writers), conclusion (runner) and runtime monitor. No proofs here. *)
From CV Require Import Model.Base Model.Events.

Inductive status := Open | Closed.
Definition status_eqb (a b : status) : bool :=
  match a, b with Open, Open | Closed, Closed => true | _, _ => false end.

Definition rkey := (N * N)%type.                         (* feature, rule *)
Definition atkey := (N * option N * N * retr)%type.      (* feature, rule, scenario, retries *)

Definition rkey_eqb (a b : rkey) : bool := (fst a =? fst b) && (snd a =? snd b).
Definition atkey_eqb (a b : atkey) : bool :=
  match a, b with
  | (f, r, s, rt), (f', r', s', rt') => (f =? f') && option_eqb N.eqb r r' && (s =? s') && retr_eqb rt rt'
  end.

Record cstate := mk_cs {
  c_started : bool; c_pf : bool; c_finished : bool;
  c_feats : list (N * status);
  c_rules : list (rkey * status);
  c_atts : list (atkey * status) }.

Definition cinit : cstate := mk_cs false false false [] [] [].

Fixpoint lookup {K V} (eqb : K -> K -> bool) (k : K) (l : list (K * V)) : option V :=
  match l with
  | [] => None
  | (k', v) :: t => if eqb k k' then Some v else lookup eqb k t
  end.
Fixpoint setk {K V} (eqb : K -> K -> bool) (k : K) (v : V) (l : list (K * V)) : list (K * V) :=
  match l with
  | [] => [(k, v)]
  | (k', v') :: t => if eqb k k' then (k', v) :: t else (k', v') :: setk eqb k v t
  end.

Definition is_open (o : option status) : bool := match o with Some Open => true | _ => false end.
Definition is_closed (o : option status) : bool := match o with Some Closed => true | _ => false end.
Definition is_absent (o : option status) : bool := match o with None => true | _ => false end.

Definition att_feat (k : atkey) : N := match k with (f, _, _, _) => f end.
Definition att_rule (k : atkey) : option N := match k with (_, r, _, _) => r end.
Definition att_scen (k : atkey) : N := match k with (_, _, s, _) => s end.
Definition att_retr (k : atkey) : retr := match k with (_, _, _, rt) => rt end.

Definition open_atts_where (p : atkey -> bool) (c : cstate) : bool :=
  existsb (fun ka => p (fst ka) && status_eqb (snd ka) Open) (c_atts c).
Definition open_rules_of (f : N) (c : cstate) : bool :=
  existsb (fun kr => (fst (fst kr) =? f) && status_eqb (snd kr) Open) (c_rules c).
Definition any_open_feat (c : cstate) : bool := existsb (fun kf => status_eqb (snd kf) Open) (c_feats c).

Definition same_scen (f : N) (r : option N) (s : N) (k : atkey) : bool :=
  (att_feat k =? f) && option_eqb N.eqb (att_rule k) r && (att_scen k =? s).

(* attempt k+1 may open only after attempt k of the same scenario closed *)
Definition prev_attempt_closed (c : cstate) (f : N) (r : option N) (s : N) (rt : retr) : bool :=
  match rt with
  | Some (cur, lft) =>
    if cur =? 0 then true
    else is_closed (lookup atkey_eqb (f, r, s, Some (cur - 1, lft + 1)) (c_atts c))
  | None => true
  end.

Definition set_started c := mk_cs true (c_pf c) (c_finished c) (c_feats c) (c_rules c) (c_atts c).
Definition set_pf c := mk_cs (c_started c) true (c_finished c) (c_feats c) (c_rules c) (c_atts c).
Definition set_finished c := mk_cs (c_started c) (c_pf c) true (c_feats c) (c_rules c) (c_atts c).
Definition set_cfeats c l := mk_cs (c_started c) (c_pf c) (c_finished c) l (c_rules c) (c_atts c).
Definition set_crules c l := mk_cs (c_started c) (c_pf c) (c_finished c) (c_feats c) l (c_atts c).
Definition set_catts c l := mk_cs (c_started c) (c_pf c) (c_finished c) (c_feats c) (c_rules c) l.

Definition guard (b : bool) (c : cstate) : option cstate := if b then Some c else None.

(* `seq = true` additionally demands the sequential (normalized) discipline:
   at most one feature, one rule, one attempt open at a time *)
Definition cstep (seq : bool) (c : cstate) (e : ev) : option cstate :=
  if c_finished c then None else
  match e with
  | EvStarted => guard (negb (c_started c)) (set_started c)
  | EvParsingFinished _ _ _ _ _ => guard (negb (c_pf c)) (set_pf c)
  | EvParseErr _ => Some c
  | EvFinished => guard (c_started c && negb (any_open_feat c)) (set_finished c)
  | EvFeatS f =>
    guard (c_started c && is_absent (lookup N.eqb f (c_feats c)) && (negb seq || negb (any_open_feat c)))
          (set_cfeats c (setk N.eqb f Open (c_feats c)))
  | EvFeatF f =>
    guard (is_open (lookup N.eqb f (c_feats c)) && negb (open_rules_of f c)
           && negb (open_atts_where (fun k => att_feat k =? f) c))
          (set_cfeats c (setk N.eqb f Closed (c_feats c)))
  | EvRuleS f r =>
    guard (is_open (lookup N.eqb f (c_feats c)) && is_absent (lookup rkey_eqb (f, r) (c_rules c))
           && (negb seq || (negb (open_rules_of f c) && negb (open_atts_where (fun k => att_feat k =? f) c))))
          (set_crules c (setk rkey_eqb (f, r) Open (c_rules c)))
  | EvRuleF f r =>
    guard (is_open (lookup rkey_eqb (f, r) (c_rules c))
           && negb (open_atts_where (fun k => (att_feat k =? f) && option_eqb N.eqb (att_rule k) (Some r)) c))
          (set_crules c (setk rkey_eqb (f, r) Closed (c_rules c)))
  | EvScen f r s rt x =>
    let k := (f, r, s, rt) in
    let parents := is_open (lookup N.eqb f (c_feats c)) &&
                   match r with
                   | Some r' => is_open (lookup rkey_eqb (f, r') (c_rules c))
                   | None => negb seq || negb (open_rules_of f c)
                   end in
    match x with
    | ScStarted =>
      guard (parents && is_absent (lookup atkey_eqb k (c_atts c))
             && negb (open_atts_where (same_scen f r s) c) && prev_attempt_closed c f r s rt
             && (negb seq || negb (open_atts_where (fun _ => true) c)))
            (set_catts c (setk atkey_eqb k Open (c_atts c)))
    | ScFinished =>
      guard (parents && is_open (lookup atkey_eqb k (c_atts c)))
            (set_catts c (setk atkey_eqb k Closed (c_atts c)))
    | _ => guard (parents && is_open (lookup atkey_eqb k (c_atts c))) c
    end
  end.

Fixpoint crun (seq : bool) (c : cstate) (es : list ev) : option cstate :=
  match es with
  | [] => Some c
  | e :: t => match cstep seq c e with Some c' => crun seq c' t | None => None end
  end.

(* every prefix is acceptable *)
Definition contract_prefix (es : list ev) : bool := is_some (crun false cinit es).
(* a complete run: accepted and closed by Finished *)
Definition contract (es : list ev) : bool :=
  match crun false cinit es with Some c => c_finished c | None => false end.

(* the sequential discipline is judged on the stream without the pass-through events *)
Definition is_passthrough (e : ev) : bool :=
  match e with EvStarted | EvParsingFinished _ _ _ _ _ | EvParseErr _ => true | _ => false end.
Definition normalized_prefix (es : list ev) : bool := is_some (crun true cinit es).
Definition normalized (es : list ev) : bool :=
  match crun true cinit es with Some c => c_finished c | None => false end.
