(* SchedSpec.v — C03..C08 as executable predicates over an OBSERVED history of the runner
   (events, scheduler trace points, callback entries/exits, stimuli; every record stamped with the
   virtual time), written against the property texts and independent of Model/Sched.v. *)
From CV Require Import Model.Base Model.Events Model.Contract Model.AttemptSpec Model.Sched.

Inductive hrec :=
| HTop (batch : N)              (* a turn of the scheduler loop that dispatched `batch` scenarios *)
| HFeat                         (* insert_features ingested one feature *)
| HEv (e : ev)
| HStimP | HStimG (s : N) | HStimT (d : N)
| HCb (is_exit : bool) (s k : N)
| HStutter | HEnd.
Definition hist := list (hrec * N).            (* record, virtual time in ns *)

Inductive item := IFeature (f : sfeature) | IError (id : N).

Definition events_of (h : hist) : list ev :=
  flat_map (fun r => match fst r with HEv e => [e] | _ => [] end) h.
Definition stamped_events (h : hist) : list (ev * N) :=
  flat_map (fun r => match fst r with HEv e => [(e, snd r)] | _ => [] end) h.

(* features actually ingested: the k-th HFeat is the k-th feature item *)
Definition feature_items (items : list item) : list sfeature :=
  flat_map (fun i => match i with IFeature f => [f] | IError _ => [] end) items.
Definition n_feats (h : hist) : nat := length (filter (fun r => match fst r with HFeat => true | _ => false end) h).
Definition ingested (items : list item) (h : hist) : list sfeature := firstn (n_feats h) (feature_items items).

Definition scen_started (e : ev) : option (N * option N * N * retr) :=
  match e with EvScen f r s rt ScStarted => Some (f, r, s, rt) | _ => None end.
Definition started_scens (es : list ev) : list N :=
  flat_map (fun e => match scen_started e with Some (_, _, s, _) => [s] | None => [] end) es.
Definition memN (x : N) (l : list N) : bool := existsb (N.eqb x) l.
Definition subsetN (a b : list N) : bool := forallb (fun x => memN x b) a.

(* ---------------- C03: framing ---------------- *)
Definition sumN (l : list N) : N := fold_right N.add 0 l.
Definition c03_ok (items : list item) (h : hist) (terminated : bool) : bool :=
  let es := events_of h in
  let ing := ingested items h in
  let errs := flat_map (fun e => match e with EvParseErr i => [i] | _ => [] end) es in
  (* brackets exact and nested, one Started before any feature event, one ParsingFinished,
     run-Finished last with nothing after it *)
  (if terminated then contract es else contract_prefix es)
  (* parser errors: exactly the delivered ones, once, in order *)
  && list_eqb N.eqb errs (firstn (length errs) (flat_map (fun i => match i with IError x => [x] | _ => [] end) items))
  (* ParsingFinished counts = what was actually received *)
  && forallb (fun e => match e with
                       | EvParsingFinished a b c d x =>
                         (a =? N.of_nat (length ing)) && (b =? sumN (map sf_nrules ing))
                         && (c =? sumN (map scens_of_feature ing)) && (d =? sumN (map sf_nsteps ing))
                         && (x =? N.of_nat (length errs))
                       | _ => true end) es
  (* a bracket only for features / rules with at least one started scenario *)
  && forallb (fun e => match e with
                       | EvFeatS f => existsb (fun e' => match scen_started e' with Some (f', _, _, _) => f' =? f | None => false end) es
                       | EvRuleS f r => existsb (fun e' => match scen_started e' with
                                                           | Some (f', Some r', _, _) => (f' =? f) && (r' =? r)
                                                           | _ => false end) es
                       | _ => true end) es.

(* ... and once the run has ended NOTHING the parser yielded is missing: every feature item was ingested and every parser
   error delivered — up to and including the first error when fail-fast is on (ingestion stops there), all of them
   otherwise. (The clauses above compare the stream with a PREFIX of the items, as they must while the run is going on:
   a review pointed out that a finished run that dropped a parser error and a whole feature passed them.) *)
Fixpoint items_until_stop (ff : bool) (items : list item) : list item :=
  match items with
  | [] => []
  | IError x :: t => IError x :: (if ff then [] else items_until_stop ff t)
  | i :: t => i :: items_until_stop ff t
  end.
Definition c03_complete_ok (ff : bool) (items : list item) (h : hist) : bool :=
  let consumed := items_until_stop ff items in
  let errs := flat_map (fun e => match e with EvParseErr i => [i] | _ => [] end) (events_of h) in
  Nat.eqb (n_feats h) (length (feature_items consumed))
  && list_eqb N.eqb errs (flat_map (fun i => match i with IError x => [x] | _ => [] end) consumed)
  && (* exactly one ParsingFinished (that no parser error follows it is judged by FramingP.framing_prefix in SchedCheck.framing_mon) *)
     match filter (fun e => match e with EvParsingFinished _ _ _ _ _ => true | _ => false end) (events_of h) with
     | [_] => true | _ => false end.

(* ---------------- C04: exactly the supplied scenarios; termination ---------------- *)
Definition supplied (items : list item) (h : hist) : list N :=
  flat_map (fun f => map ss_id (sf_scens f)) (ingested items h).
Definition c04_ok (fail_fast : bool) (items : list item) (h : hist) (terminated : bool) : bool :=
  let es := events_of h in
  terminated
  && subsetN (started_scens es) (supplied items h)
  && (fail_fast || subsetN (supplied items h) (started_scens es))
  && match rev es with EvFinished :: _ => true | _ => false end.

(* ---------------- C05: retries ---------------- *)
Definition scen_events (s : N) (es : list (ev * N)) : list (ev * N) :=
  filter (fun x => match fst x with EvScen _ _ s' _ _ => s' =? s | _ => false end) es.
(* start of attempt k+1 strictly later than end of attempt k plus the delay (virtual clock) *)
Fixpoint delays_ok (delay : option N) (last_fin : option N) (evs : list (ev * N)) : bool :=
  match evs with
  | [] => true
  | (EvScen _ _ _ rt ScStarted, t) :: rest =>
    (match last_fin, rt with
     | Some tf, Some (c, _) => match delay with Some d => if 0 <? c then tf + d <? t else true | None => true end
     | _, _ => true
     end) && delays_ok delay last_fin rest
  | (EvScen _ _ _ _ ScFinished, t) :: rest => delays_ok delay (Some t) rest
  | _ :: rest => delays_ok delay last_fin rest
  end.
Fixpoint groups_of (cur : option (retr * list scev)) (evs : list ev) : list (retr * list scev) :=
  match evs with
  | [] => match cur with Some g => [g] | None => [] end
  | EvScen _ _ _ rt x :: t =>
    match cur with
    | Some (rt0, l) => if retr_eqb rt0 rt then groups_of (Some (rt0, l ++ [x])) t
                       else (rt0, l) :: groups_of (Some (rt, [x])) t
    | None => groups_of (Some (rt, [x])) t
    end
  | _ :: t => groups_of cur t
  end.
(* like AttemptSpec.chain_ok, but a run cut short by fail-fast may leave a retry un-dispatched *)
Fixpoint chain_ok_ff (budget : option N) (k : N) (groups : list (retr * list scev)) : bool :=
  match groups with
  | [] => true
  | (rt, evs) :: rest =>
    retr_eqb rt (match budget with Some n => Some (k, n - k) | None => None end)
    && match rest with
       | [] => true
       | _ => attempt_failed evs && match budget with Some n => k <? n | None => false end
       end
    && chain_ok_ff budget (k + 1) rest
  end.
Definition c05_ok (fail_fast : bool) (items : list item) (h : hist) : bool :=
  let ses := stamped_events h in
  forallb (fun f => forallb (fun sc =>
      let evs := scen_events (ss_id sc) ses in
      let gs := groups_of None (map fst evs) in
      let budget := match ss_retry sc with Some (n, _) => Some n | None => None end in
      match gs with
      | [] => true
      | _ => (if fail_fast then chain_ok_ff budget 0 gs else chain_ok budget 0 gs)
             && delays_ok (match ss_retry sc with Some (_, d) => d | None => None end) None evs
      end) (sf_scens f)) (feature_items items).

(* ---------------- C06: concurrency limit ---------------- *)
Definition leK (n : nat) (k : option nat) : bool := match k with Some k' => Nat.leb n k' | None => true end.
Definition ltK (n : nat) (k : option nat) : bool := match k with Some k' => Nat.ltb n k' | None => true end.

(* walks the history keeping the set of attempts in flight and of scenarios inside user code *)
Fixpoint c06_walk (k : option nat) (inflight : list N) (incb : list N) (h : hist) : bool :=
  match h with
  | [] => true
  | (r, _) :: t =>
    match r with
    | HEv (EvScen _ _ s _ ScStarted) => leK (S (length inflight)) k && c06_walk k (s :: inflight) incb t
    | HEv (EvScen _ _ s _ ScFinished) => c06_walk k (filter (fun x => negb (x =? s)) inflight) incb t
    | HCb false s _ => leK (S (length (filter (fun x => negb (x =? s)) incb))) k && c06_walk k inflight (s :: incb) t
    | HCb true s _ => c06_walk k inflight (filter (fun x => negb (x =? s)) incb) t
    | _ => c06_walk k inflight incb t
    end
  end.

(* "fills the free slots": a loop turn that dispatches nothing although slots are free and the run was not
   stopped means that nothing was ready: every ingested concurrent scenario has already been started
   (retries waiting for their delay aside), and with nothing in flight also every serial one *)
Definition is_final_failure (evs : list scev) (rt : retr) : bool :=
  attempt_failed evs && match rt with Some (_, l) => l =? 0 | None => true end.
(* does another loop turn follow before the runner is quiescent again (= before the harness applies its next stimulus)?
   Attempts that completed within one poll are collected one per turn, and between two such turns the other attempts
   are polled too (their events and callback entries lie in between): the turns of one poll form ONE refill. *)
Fixpoint next_is_top (h : hist) : bool :=
  match h with
  | (HTop _, _) :: _ => true
  | (HStimP, _) :: _ | (HStimG _, _) :: _ | (HStimT _, _) :: _ | (HEnd, _) :: _ => false
  | _ :: t => next_is_top t
  | [] => false
  end.
Definition retries_at_once (items : list item) (s : N) : bool :=
  existsb (fun sc => (ss_id sc =? s) && match ss_retry sc with Some (_, None) => true | _ => false end)
          (flat_map sf_scens (feature_items items)).
(* `retrying`: scenarios whose last attempt failed with retries left and no delay — their next attempt re-entered the
   queue before that Finished was emitted and is ready at once *)
Fixpoint fills_walk (k : option nat) (items : list item) (seen : hist) (inflight : list N) (started : list N)
                    (retrying : list N) (pending : nat) (tripped : bool) (ff : bool) (h : hist) : bool :=
  match h with
  | [] => true
  | (r, tm) :: t =>
    let seen' := seen ++ [(r, tm)] in
    match r with
    | HEv (EvScen _ _ s _ ScStarted) =>
      fills_walk k items seen' (s :: inflight) (s :: started) (filter (fun x => negb (x =? s)) retrying)
                 (pred pending) tripped ff t
    | HEv (EvScen _ _ s rt ScFinished) =>
      let evs := flat_map (fun x => match x with EvScen _ _ s' rt' e => if (s' =? s) && retr_eqb rt rt' then [e] else [] | _ => [] end)
                          (events_of seen') in
      let again := attempt_failed evs && match rt with Some (_, l) => negb (l =? 0) | None => false end
                   && retries_at_once items s in
      fills_walk k items seen' (filter (fun x => negb (x =? s)) inflight) started
                 (if again then s :: retrying else retrying) pending
                 (tripped || (ff && is_final_failure evs rt)) ff t
    | HTop b =>
      (* judged at the LAST loop turn before the runner is quiescent (attempts that completed within one poll are
         collected one per turn, each turn refilling one slot): with `pending` attempts dispatched but not yet
         Started, a free slot means that no concurrent scenario was ready. A ready SERIAL scenario may have to wait
         (C07 governs those), and when a serial scenario has been ingested a turn may consist of it alone. *)
      let pending' := (pending + N.to_nat b)%nat in
      let last := negb (next_is_top t) in
      (if last && ltK (length inflight + pending') k && negb tripped then
         let scs := flat_map sf_scens (ingested items seen') in
         let waiting := filter (fun sc => negb (memN (ss_id sc) started) || memN (ss_id sc) retrying) scs in
         let truly := (length waiting - pending')%nat in
         Nat.eqb truly 0
         || (if b =? 0 then Nat.leb truly (length (filter ss_serial waiting)) else negb (is_nil (filter ss_serial scs)))
       else true)
      && fills_walk k items seen' inflight started retrying pending' tripped ff t
    | _ => fills_walk k items seen' inflight started retrying pending tripped ff t
    end
  end.

(* C04, "while it waits for the parser it lets the other side make progress": the harness applies a stimulus only
   when the stream has returned Pending (the runner is quiescent). At such a point, with NO attempt in flight and the
   run not tripped, nothing that has been ingested may still be waiting to be started (retries included: see below): scenarios already handed over must not sit idle until the parser delivers its next item. *)
Fixpoint idle_walk (items : list item) (seen : hist) (inflight : list N) (started : list N) (retrying : list N)
                   (tripped : bool) (ff : bool) (h : hist) : bool :=
  match h with
  | [] => true
  | (r, tm) :: t =>
    let seen' := seen ++ [(r, tm)] in
    match r with
    | HEv (EvScen _ _ s _ ScStarted) =>
      idle_walk items seen' (s :: inflight) (s :: started) (filter (fun x => negb (x =? s)) retrying) tripped ff t
    | HEv (EvScen _ _ s rt ScFinished) =>
      let evs := flat_map (fun x => match x with EvScen _ _ s' rt' e => if (s' =? s) && retr_eqb rt rt' then [e] else [] | _ => [] end)
                          (events_of seen') in
      (* with or without a delay: with nothing in flight the runner SLEEPS until the deadline (under the clock hook a
         sleep is an immediate advance), so by the next quiescent point the retry has been started — a runner that
         spins instead of sleeping is caught here with the retry still waiting *)
      let again := attempt_failed evs && match rt with Some (_, l) => negb (l =? 0) | None => false end in
      idle_walk items seen' (filter (fun x => negb (x =? s)) inflight) started
                (if again then s :: retrying else retrying)
                (tripped || (ff && is_final_failure evs rt)) ff t
    | HStimP | HStimG _ | HStimT _ =>
      (if is_nil inflight && negb tripped then
         is_nil (filter (fun sc => negb (memN (ss_id sc) started) || memN (ss_id sc) retrying)
                        (flat_map sf_scens (ingested items seen')))
       else true)
      && idle_walk items seen' inflight started retrying tripped ff t
    | _ => idle_walk items seen' inflight started retrying tripped ff t
    end
  end.
Definition c04_progress_ok (ff : bool) (items : list item) (h : hist) : bool :=
  idle_walk items [] [] [] [] false ff h.

(* "after each completion": the harness applies a stimulus only when the stream has returned Pending, i.e. when
   the runner is quiescent. By then every attempt that has emitted Finished has been followed by a loop turn
   (which refills its slot) — a completion the loop does not notice leaves its slot empty. *)
Fixpoint turn_walk (unseen : bool) (h : hist) : bool :=
  match h with
  | [] => true
  | (r, _) :: t =>
    match r with
    | HEv (EvScen _ _ _ _ ScFinished) => turn_walk true t
    | HTop _ => turn_walk false t
    | HStimP | HStimG _ | HStimT _ => negb unseen && turn_walk unseen t
    | _ => turn_walk unseen t
    end
  end.

Definition strip_passthrough (es : list ev) : list ev := es.
Definition c06_ok (k : option nat) (ff : bool) (items : list item) (h : hist) : bool :=
  c06_walk k [] [] h
  && fills_walk k items [] [] [] [] 0 false ff h
  && turn_walk false h
  (* events of an attempt lie between its Started and Finished (contract), so with a limit of 1 the bound
     above already says that attempts run strictly one after another and never interleave *)
  && contract_prefix (events_of h).

(* ---------------- C07: serial isolation ---------------- *)
(* C07 on the event stream alone (the statement proved of every run of the model in Proofs/SchedP11.v, and judged
   on every observed run): an attempt of a serial scenario starts only when no attempt is open, no attempt starts
   while a serial one is open, every scenario event emitted while a serial attempt is open is its own.
   A state transformer over the list of scenario ids with an open attempt. *)
Fixpoint remove_one (x : N) (l : list N) : list N :=
  match l with [] => [] | y :: t => if y =? x then t else y :: remove_one x t end.
Definition own_or_plain (ser : N -> bool) (s : N) (open : list N) : bool :=
  forallb (fun y => negb (ser y) || (y =? s)) open.
Definition iso_step (ser : N -> bool) (open : list N) (e : ev) : option (list N) :=
  match e with
  | EvScen _ _ s _ ScStarted =>
    if (if ser s then is_nil open else negb (existsb ser open)) then Some (s :: open) else None
  | EvScen _ _ s _ ScFinished => if own_or_plain ser s open then Some (remove_one s open) else None
  | EvScen _ _ s _ _ => if own_or_plain ser s open then Some open else None
  | _ => Some open
  end.
Fixpoint iso_run (ser : N -> bool) (open : list N) (es : list ev) : option (list N) :=
  match es with
  | [] => Some open
  | e :: t => match iso_step ser open e with Some o => iso_run ser o t | None => None end
  end.
Definition iso_walk (ser : N -> bool) (es : list ev) : bool := is_some (iso_run ser [] es).


Definition serial_ids (items : list item) : list N :=
  flat_map (fun f => map ss_id (filter ss_serial (sf_scens f))) (feature_items items).
(* `cur`: the serial scenario currently between Started and Finished, if any *)
Fixpoint c07_walk (ser : list N) (inflight : list N) (cur : option N) (h : hist) : bool :=
  match h with
  | [] => true
  | (r, _) :: t =>
    match r with
    | HEv (EvScen _ _ s _ ScStarted) =>
      (* nothing else in flight when a serial attempt starts; nothing starts while one is in flight *)
      (if memN s ser then is_nil inflight else true)
      && match cur with Some _ => false | None => true end
      && c07_walk ser (s :: inflight) (if memN s ser then Some s else cur) t
    | HEv (EvScen _ _ s _ ScFinished) =>
      match cur with Some c => s =? c | None => true end
      && c07_walk ser (filter (fun x => negb (x =? s)) inflight) (match cur with Some c => if s =? c then None else cur | None => None end) t
    | HEv (EvScen _ _ s _ _) => match cur with Some c => s =? c | None => true end && c07_walk ser inflight cur t
    | HCb _ s _ => match cur with Some c => s =? c | None => true end && c07_walk ser inflight cur t
    | _ => c07_walk ser inflight cur t
    end
  end.
Definition c07_ok (items : list item) (h : hist) : bool :=
  c07_walk (serial_ids items) [] None h && iso_walk (fun x => memN x (serial_ids items)) (events_of h).

(* ---------------- C08: fail-fast ---------------- *)
(* after the first final failure: no loop turn dispatches anything; fewer than K attempts still begin;
   after the first parser error no feature is ingested *)
Fixpoint c08_walk (k : option nat) (seen : list ev) (tripped : bool) (late : nat) (perr : bool) (h : hist) : bool :=
  match h with
  | [] => true
  | (r, _) :: t =>
    match r with
    | HTop b => (negb tripped || (b =? 0)) && c08_walk k seen tripped late perr t
    | HFeat => negb perr && c08_walk k seen tripped late perr t
    | HEv e =>
      let seen' := seen ++ [e] in
      match e with
      | EvParseErr _ => c08_walk k seen' tripped late true t
      | EvScen _ _ s rt ScStarted =>
        (if tripped then ltK (S late) k else true) && c08_walk k seen' tripped (if tripped then S late else late) perr t
      | EvScen _ _ s rt ScFinished =>
        let evs := flat_map (fun x => match x with EvScen _ _ s' rt' y => if (s' =? s) && retr_eqb rt rt' then [y] else [] | _ => [] end) seen' in
        c08_walk k seen' (tripped || is_final_failure evs rt) late perr t
      | _ => c08_walk k seen' tripped late perr t
      end
    | _ => c08_walk k seen tripped late perr t
    end
  end.
Definition c08_ok (k : option nat) (ff : bool) (h : hist) (terminated : bool) : bool :=
  (negb ff || c08_walk k [] false 0 false h)
  (* closes cleanly: everything started is finished, brackets closed, run-Finished last *)
  && terminated && contract (events_of h).
