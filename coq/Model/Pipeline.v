(* Pipeline.v — the built-in statistics pipelines as one grammar:
   Summarize, Libtest, Normalize, FailOnSkipped, Repeat, Tee, Or around recording leaves.
   Semantics = per-call deliveries to the leaves + the six Stats getters + execution_has_failed.
   Re-uses the component models (Stats.v, Normalize.v, Combinators.v). Executable; no proofs here. *)
From CV Require Import Model.Base Model.Events Model.Combinators Model.Normalize Model.Stats.

Inductive spipe :=
| QLeaf (id : N)
| QSumm (p : spipe)
| QLibtest
| QNorm (p : spipe)
| QFos (k : fosk) (p : spipe)
| QRepeat (k : fltk) (p : spipe)
| QTee (l r : spipe)
| QOr (left_metas : list N) (l r : spipe).

Inductive qstate :=
| TLeaf
| TSumm (s : summ) (q : qstate)
| TLib (s : ltstate)
| TNorm (n : nstate) (q : qstate)
| TOne (q : qstate)
| TRep (buf : list mev) (q : qstate)
| TTwo (l r : qstate).

Fixpoint qinit (p : spipe) : qstate :=
  match p with
  | QLeaf _ => TLeaf
  | QSumm q => TSumm summ_init (qinit q)
  | QLibtest => TLib lt_init
  | QNorm q => TNorm ninit (qinit q)
  | QFos _ q => TOne (qinit q)
  | QRepeat _ q => TRep [] (qinit q)
  | QTee l r | QOr _ l r => TTwo (qinit l) (qinit r)
  end.

(* what a leaf can receive: an event, or the summary written by a Summarize above it
   (observed through the twelve numbers the text states) *)
Inductive qop := QEv (e : mev) | QWrite (nums : list N).
Definition qouts := list (N * qop).

Definition summary_nums (s : summ) : list N :=
  [sm_features s; sm_rules s;
   n_passed (sm_scenarios s); n_skipped (sm_scenarios s); n_failed (sm_scenarios s); n_retried (sm_scenarios s);
   n_passed (sm_steps s); n_skipped (sm_steps s); n_failed (sm_steps s); n_retried (sm_steps s);
   sm_parsing_errors s; sm_failed_hooks s].

(* Arbitrary::write through a pipeline: every leaf below (Libtest / Or do not implement it: nothing) *)
Fixpoint qwrite (p : spipe) (w : list N) : qouts :=
  match p with
  | QLeaf id => [(id, QWrite w)]
  | QSumm q | QNorm q | QFos _ q | QRepeat _ q => qwrite q w
  | QTee l r => qwrite l w ++ qwrite r w
  | QLibtest | QOr _ _ _ => []
  end.

Section Run.
  Variable tags_of : N -> option N -> N -> list str.
  Variable last_own : N -> option N.

  Fixpoint qhandle (p : spipe) (s : qstate) (e : mev) {struct p} : qstate * qouts :=
    let feed := fun (q : spipe) (sq : qstate) (es : list mev) =>
      fold_left (fun acc x => let '(s2, o2) := qhandle q (fst acc) x in (s2, snd acc ++ o2)) es (sq, []) in
    match p, s with
    | QLeaf id, _ => (s, [(id, QEv e)])
    | QSumm q, TSumm sm sq =>
      let '(sm', ops) := sm_handle last_own sm e in
      let '(sq', out) :=
        fold_left (fun acc op =>
          match op with
          | OEv x => let '(s2, o2) := qhandle q (fst acc) x in (s2, snd acc ++ o2)
          | OWrite w => (fst acc, snd acc ++ qwrite q (summary_nums w))
          end) ops (sq, []) in
      (TSumm sm' sq', out)
    | QLibtest, TLib l => (TLib (lt_handle l (snd e)), [])
    | QNorm q, TNorm n sq =>
      let '(n', es) := nhandle n e in
      let '(sq', out) := feed q sq es in (TNorm n' sq', out)
    | QFos k q, TOne sq =>
      let '(sq', out) := qhandle q sq (fst e, fos_ev (should_fail tags_of k) (snd e)) in (TOne sq', out)
    | QRepeat k q, TRep buf sq =>
      let buf1 := if flt k e then buf ++ [e] else buf in
      let '(s1, out1) := qhandle q sq e in
      if is_finished (snd e) then
        let '(s2, out2) := feed q s1 buf1 in (TRep [] s2, out1 ++ out2)
      else (TRep buf1 s1, out1)
    | QTee l r, TTwo sl sr =>
      let '(sl', ol) := qhandle l sl e in
      let '(sr', or_) := qhandle r sr e in (TTwo sl' sr', ol ++ or_)
    | QOr m l r, TTwo sl sr =>
      if existsb (N.eqb (fst e)) m
      then let '(sl', o) := qhandle l sl e in (TTwo sl' sr, o)
      else let '(sr', o) := qhandle r sr e in (TTwo sl sr', o)
    | _, _ => (s, [])
    end.

  Definition gzero := mk_getters 0 0 0 0 0 0.
  Definition gmap2 (f : N -> N -> N) (a b : getters) : getters :=
    mk_getters (f (g_passed a) (g_passed b)) (f (g_skipped a) (g_skipped b)) (f (g_failed a) (g_failed b))
               (f (g_retried a) (g_retried b)) (f (g_parsing a) (g_parsing b)) (f (g_hooks a) (g_hooks b)).

  Fixpoint qgetters (p : spipe) (s : qstate) : getters :=
    match p, s with
    | QSumm _, TSumm sm _ => sm_getters sm
    | QLibtest, TLib l => lt_getters l
    | QNorm q, TNorm _ sq => qgetters q sq
    | QFos _ q, TOne sq => qgetters q sq
    | QRepeat _ q, TRep _ sq => qgetters q sq
    | QTee l r, TTwo sl sr => gmap2 N.max (qgetters l sl) (qgetters r sr)
    | QOr _ l r, TTwo sl sr => gmap2 N.add (qgetters l sl) (qgetters r sr)
    | _, _ => gzero
    end.

  (* Summarize / Libtest / Tee / Or use the default rule on their own getters;
     Normalize / FailOnSkipped / Repeat forward the inner writer's answer *)
  Fixpoint qfailed (p : spipe) (s : qstate) : bool :=
    match p, s with
    | QNorm q, TNorm _ sq => qfailed q sq
    | QFos _ q, TOne sq => qfailed q sq
    | QRepeat _ q, TRep _ sq => qfailed q sq
    | _, _ => g_has_failed (qgetters p s)
    end.

  (* per call: deliveries, getters, verdict *)
  Fixpoint qrun_from (p : spipe) (s : qstate) (es : list mev) : list (qouts * getters * bool) :=
    match es with
    | [] => []
    | e :: t =>
      let '(s', o) := qhandle p s e in (o, qgetters p s', qfailed p s') :: qrun_from p s' t
    end.
  Definition qrun (p : spipe) (es : list mev) := qrun_from p (qinit p) es.

  Fixpoint qfinal_from (p : spipe) (s : qstate) (es : list mev) : qstate :=
    match es with [] => s | e :: t => qfinal_from p (fst (qhandle p s e)) t end.
  Definition qfinal (p : spipe) (es : list mev) := qfinal_from p (qinit p) es.
End Run.
