(* ReportersSpec5.v — C14, the CONTAINERS of the Cucumber-JSON report and the SUITES of the JUnit report are facts too.
   `ReportersSpec.c14_json_ok` / `ReportersSpec3.c14_json_ok2` read the feature and element objects of a JSON document only
   as context for the step / hook entries inside them, and `nodup_facts (json_containers _)` only forbids a container to be
   listed twice. So (second review) the following are still accepted:
     (1) hooks listed in the BACKGROUND element of a scenario instead of its scenario element,
     (2) invented EMPTY features or elements (containers with no step / hook entry inside),
     (3) a wrong `uri` flag of a feature (read by nobody);
   and `ReportersSpec.c14_junit_ok` reads the suites of a JUnit report only as context for the testcases, so
     (4) an extra EMPTY `Errors` suite, (5) an extra empty feature suite are accepted.
   The two predicates below close that. They are written over the event stream and the parsed-back report,
   independently of `Reporters.json_handle` / `Reporters.junit_handle`. Executable; no proofs here (Proofs/ReportersP9.v).
   Fact kinds used: 10 feature container, 11 element container, 99 POISON. *)
From CV Require Import Model.Base Model.Events Model.Stats Model.StatsSpec Model.Reporters Model.ReportersSpec
  Model.ReportersSpec2.

(* ================================================================================================ *)
(* A. Cucumber JSON                                                                                  *)
(* ================================================================================================ *)
(* the container facts: [10; feature] per feature object, [11; feature; rule?; rule; scenario; ty] per element object
   (ty 0 the scenario element, ty 1 the background element of the scenario) *)
Definition feat_key (f : N) : fact := [10; f].
Definition el_key (f : N) (r : option N) (s ty : N) : fact := [11; f] ++ ropt r ++ [s; ty].

(* ---- the document: every `RJFeature` and every `RJElement` line, the latter under the feature line above it (POISON if
   there is none). Unlike `ReportersSpec.json_containers`, the pseudo features of parser errors (feature id 0) are NOT
   skipped. *)
Fixpoint json_containers5 (cf : option N) (rfs : list rf) : list fact :=
  match rfs with
  | [] => []
  | RJFeature _ f :: t => feat_key f :: json_containers5 (Some f) t
  | RJElement r s ty :: t => match cf with Some f => el_key f r s ty | None => poison end :: json_containers5 cf t
  | _ :: t => json_containers5 cf t
  end.

(* ---- the stream: WHICH containers must the document list. THE RULE (derived from the model of the writer,
   `Reporters.json_handle` / `upd_feat` / `upd_el`; retries of a scenario share its elements, so the attempt is no
   part of the key):
     - a SCENARIO element [11; f; rule; s; 0] for every scenario (f, rule, s) for which the stream has a hook RESULT
       (Passed or Failed, before or after hook; a hook `Started` creates nothing) or an own-step event;
     - a BACKGROUND element [11; f; rule; s; 1] for every scenario for which the stream has a background-step event;
     - a feature [10; f] for every feature that has at least one such element;
     each exactly ONCE, however many events and attempts there are.
   FINDING (weakened clause): "own-step event" / "background-step event" includes the step's `Started` event: the writer
   looks the element up (and so creates it) on every step event and only then ignores `Started`
   (ReportersP9.started_step_creates_empty_element). For a step that is started and gets its result — every step of a real
   run — this is the same as "has a step result"; a `Started` with no result leaves an EMPTY element in the document.
   PARSER ERRORS, as the model does: every parser error is its own path-less pseudo feature with feature id 0 holding one
   element (no rule, scenario 0, ty 0): [10; 0] and [11; 0; 0; 0; 0; 0] once PER parser error (not once in all). *)
Definition ev_containers (e : ev) : list fact :=
  match e with
  | EvScen f r s _ (ScHook _ HPassed) | EvScen f r s _ (ScHook _ (HFailed _)) => [feat_key f; el_key f r s 0]
  | EvScen f r s _ (ScStep _ _) => [feat_key f; el_key f r s 0]
  | EvScen f r s _ (ScBg _ _) => [feat_key f; el_key f r s 1]
  | _ => []
  end.
Definition ev_pseudo_containers (e : ev) : list fact :=
  match e with
  | EvParseErr _ => [feat_key 0; el_key 0 None 0 0]
  | _ => []
  end.

(* each fact of a list once (the last occurrence is kept; the result is only compared as a multiset) *)
Fixpoint once (l : list fact) : list fact :=
  match l with
  | [] => []
  | x :: t => if existsb (fact_eqb x) t then once t else x :: once t
  end.

Definition stream_containers (es : list ev) : list fact :=
  once (flat_map ev_containers (before_finished es)) ++ flat_map ev_pseudo_containers (before_finished es).

(* the containers of the document are exactly those of the stream: none missing, none invented, none twice *)
Definition json_containers_exact (es : list ev) (rfs : list rf) : bool :=
  same_multiset (stream_containers es) (json_containers5 None rfs).

(* ---- every hook entry stands in a scenario element (ty 0): never in a background element, never outside an element.
   ty: the type of the last `RJElement` line since the last `RJFeature` line *)
Fixpoint hooks_in_scenario_elements (ty : option N) (rfs : list rf) : bool :=
  match rfs with
  | [] => true
  | RJFeature _ _ :: t => hooks_in_scenario_elements None t
  | RJElement _ _ ty' :: t => hooks_in_scenario_elements (Some ty') t
  | RJHook _ _ :: t => match ty with Some 0 => hooks_in_scenario_elements ty t | _ => false end
  | _ :: t => hooks_in_scenario_elements ty t
  end.

(* ---- the uri flag: a feature shows a uri iff it has a source path. As the model does, the pseudo feature of a parser
   error (feature id 0) is path-less whatever `has_path 0` says: it must show NO uri *)
Definition uri_flag_ok (has_path : N -> bool) (x : rf) : bool :=
  match x with
  | RJFeature u f => if f =? 0 then negb u else Bool.eqb u (has_path f)
  | _ => true
  end.
Definition uri_flags_ok (has_path : N -> bool) (rfs : list rf) : bool := forallb (uri_flag_ok has_path) rfs.

(* nothing is written without run-Finished (as in `c14_json_ok`) *)
Definition c14_json_containers_ok (has_path : N -> bool) (es : list ev) (rfs : list rf) : bool :=
  if existsb is_finished_ev es then
    json_containers_exact es rfs && hooks_in_scenario_elements None rfs && uri_flags_ok has_path rfs
  else match rfs with [] => true | _ => false end.

(* ================================================================================================ *)
(* B. JUnit                                                                                          *)
(* ================================================================================================ *)
(* ---- the feature suites of the report, in document order *)
Definition junit_feature_suites (rfs : list rf) : list N :=
  flat_map (fun x => match x with RSuite false f => [f] | _ => [] end) rfs.

(* ---- the stream: THE RULE (derived from the model of the writer, `Reporters.junit_handle`): the suite of a feature is
   written when the feature FINISHES, with the testcases gathered since it started. So: one feature suite per `Feature
   Finished` event, in stream order.
   FINDING (weakened clause): "exactly the features with at least one finished attempt" is FALSE for the model: a feature
   that starts and finishes without any scenario still gets its (empty) suite (ReportersP9.empty_feature_suite_written).
   For features with at least one attempt the two readings agree. *)
Definition stream_feature_suites (es : list ev) : list N :=
  flat_map (fun e => match e with EvFeatF f => [f] | _ => [] end) (before_finished es).

(* ---- the Errors suites of the report, in document order, each as the list of its testcases (rule, id, status): the
   `RCase` lines from the suite line to the next suite line. (The number in `RSuite true _` is not read: an Errors suite
   has no feature.) *)
Fixpoint suite_cases (l : list rf) : list (option N * N * N) :=
  match l with
  | [] => []
  | RSuite _ _ :: _ => []
  | RCase r s st :: t => (r, s, st) :: suite_cases t
  | _ :: t => suite_cases t
  end.
Fixpoint junit_error_suites (l : list rf) : list (list (option N * N * N)) :=
  match l with
  | [] => []
  | RSuite true _ :: t => suite_cases t :: junit_error_suites t
  | _ :: t => junit_error_suites t
  end.

(* ---- the stream, as the model does: every parser error gets an Errors suite of its own, holding exactly ONE testcase:
   no rule, the id of the error, status 1 (failure). So no Errors suite is empty, none holds two errors, and there are as
   many as parser errors, in stream order *)
Definition stream_error_suites (es : list ev) : list (list (option N * N * N)) :=
  flat_map (fun e => match e with EvParseErr i => [[(None, i, 1)]] | _ => [] end) (before_finished es).

(* nothing is written without run-Finished (as in `c14_junit_ok`) *)
Definition c14_junit_suites_ok (es : list ev) (rfs : list rf) : bool :=
  if existsb is_finished_ev es then
    list_eqb N.eqb (junit_feature_suites rfs) (stream_feature_suites es)
    && list_eqb (list_eqb case_eqb) (junit_error_suites rfs) (stream_error_suites es)
  else match rfs with [] => true | _ => false end.
