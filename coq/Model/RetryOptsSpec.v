(* RetryOptsSpec.v — the statement of C18 as an executable specification and
   monitor, written independently of the transcription in RetryOpts.v:
   a STRICT recogniser of the four documented tag forms, nearest-level
   resolution, fall-backs.  Executable; no proofs here. *)
From CV Require Import Model.Base Model.TagExpr Model.RetryOpts.

Section WithDurationOracle.
  Variable parse_dur : str -> option N.

  (* s = "(" body ")" rest, where body contains no ')' *)
  Definition eat_group (s : str) : option (str * str) :=
    match strip_prefix [c_lpar] s with
    | None => None
    | Some s' => split_once c_rpar s'
    end.

  (* rest is exactly "" or ".after(D)" *)
  Definition form_after (rest : str) : option (option N) :=
    match rest with
    | [] => Some None
    | _ =>
      match strip_prefix s_after rest with
      | None => None
      | Some a =>
        match eat_group a with
        | Some (ds, []) =>
          match parse_dur ds with Some d => Some (Some d) | None => None end
        | _ => None
        end
      end
    end.

  (* Some (n?, d?) iff tag is exactly retry | retry(N) | retry.after(D) | retry(N).after(D) *)
  Definition retry_form (tag : str) : option (option N * option N) :=
    match strip_prefix s_retry tag with
    | None => None
    | Some rest =>
      match rest with
      | [] => Some (None, None)
      | c :: _ =>
        if c =? c_lpar then
          match eat_group rest with
          | Some (ns, r1) =>
            match parse_usize ns with
            | Some n =>
              match form_after r1 with
              | Some od => Some (Some n, od)
              | None => None
              end
            | None => None
            end
          | None => None
          end
        else
          match form_after rest with
          | Some od => Some (None, od)
          | None => None
          end
      end
    end.

  Definition opt_tags (r : option (list str)) : list str :=
    match r with Some l => l | None => [] end.

  (* nearest level carrying a retry tag: scenario, else rule, else feature *)
  Definition nearest (ftags : list str) (rtags : option (list str)) (stags : list str) :=
    or_else (find_map retry_form stags)
      (or_else (find_map retry_form (opt_tags rtags)) (find_map retry_form ftags)).

  Definition spec_resolve (ftags : list str) (rtags : option (list str)) (stags : list str)
             (c : cli) : option retry_opts :=
    match nearest ftags rtags stags with
    | Some (on, od) =>
      Some (unwrap_or (or_else on (c_retry c)) 1, or_else od (c_retry_after c))
    | None =>
      let wanted :=
        match c_filter c with
        | Some op => tag_eval op (ftags ++ opt_tags rtags ++ stags)
        | None => is_some (c_retry c) || is_some (c_retry_after c)
        end in
      if wanted then Some (unwrap_or (c_retry c) 1, c_retry_after c) else None
    end.

  Definition retry_opts_eqb : option retry_opts -> option retry_opts -> bool :=
    option_eqb (pair_eqb N.eqb (option_eqb N.eqb)).

  (* Monitor: does an observed result agree with the property's statement? *)
  Definition c18_ok ftags rtags stags c (observed : option retry_opts) : bool :=
    retry_opts_eqb (spec_resolve ftags rtags stags c) observed.

  (* Known-finding class K18a: some tag starts with "retry" but is none of the four forms. *)
  Definition malformed_retry_tag (tag : str) : bool :=
    is_some (strip_prefix s_retry tag) && negb (is_some (retry_form tag)).

  Definition k18a (ftags : list str) (rtags : option (list str)) (stags : list str) : bool :=
    existsb malformed_retry_tag (stags ++ opt_tags rtags ++ ftags).
End WithDurationOracle.
