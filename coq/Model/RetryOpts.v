(* RetryOpts.v — model of `RetryOptions::parse_from_tags` (src/runner/basic.rs:142-195)
   and of the CLI/builder merge in `Basic::run` (src/runner/basic.rs:762-766).
   Executable; no proofs here. *)
From CV Require Import Model.Base Model.TagExpr.

Definition usize_max : N := 18446744073709551615.

(* `usize::from_str` (core::num): optional leading '+', then >= 1 ASCII digits,
   `Err` on overflow.  A leading '-' is an invalid digit for unsigned types. *)
Fixpoint parse_digits (acc : N) (s : str) : option N :=
  match s with
  | [] => Some acc
  | c :: s' =>
    if (48 <=? c) && (c <=? 57) then
      let acc' := acc * 10 + (c - 48) in
      if acc' <=? usize_max then parse_digits acc' s' else None
    else None
  end.

Definition parse_usize (s : str) : option N :=
  match s with
  | [] => None
  | c :: s' =>
    let body := if c =? 43 then s' else s in
    match body with
    | [] => None
    | _ => parse_digits 0 body
    end
  end.

Record cli := {
  c_retry : option N;
  c_retry_after : option N;          (* nanoseconds *)
  c_filter : option tagop;
  c_concurrency : option N;
  c_fail_fast : bool;
}.

(* Builder side: `Basic::{retries, retry_after, retry_filter, max_concurrent_scenarios, fail_fast}`.
   `b_concurrency = None` is "unlimited"; the field's default is `Some 64`. *)
Record builder := {
  b_retries : option N;
  b_retry_after : option N;
  b_filter : option tagop;
  b_concurrency : option N;
  b_fail_fast : bool;
}.

(* src/runner/basic.rs:762-766 *)
Definition merge (c : cli) (b : builder) : cli :=
  {| c_retry := or_else (c_retry c) (b_retries b);
     c_retry_after := or_else (c_retry_after c) (b_retry_after b);
     c_filter := or_else (c_filter c) (b_filter b);
     c_concurrency := or_else (c_concurrency c) (b_concurrency b);
     c_fail_fast := c_fail_fast c || b_fail_fast b |}.

Section WithDurationOracle.
  (* `humantime::parse_duration`, result in nanoseconds. *)
  Variable parse_dur : str -> option N.

  Definition s_retry : str := lit "retry".
  Definition s_after : str := lit ".after".
  Definition c_lpar : N := 40.
  Definition c_rpar : N := 41.

  (* lines 151-159: `(N)` directly after the prefix; anything unparsable
     counts as "no number" and leaves the remainder untouched *)
  Definition parse_num (retries : str) : option N * str :=
    unwrap_or
      (match strip_prefix [c_lpar] retries with
       | None => None
       | Some s =>
         match split_once c_rpar s with
         | None => None
         | Some (num, rest) =>
           match parse_usize num with
           | None => None
           | Some n => Some (Some n, rest)
           end
         end
       end)
      (None, retries).

  (* lines 161-165 *)
  Definition parse_after (rest : str) : option N :=
    match strip_prefix s_after rest with
    | None => None
    | Some a =>
      match strip_prefix [c_lpar] a with
      | None => None
      | Some a' =>
        match split_once c_rpar a' with
        | None => None
        | Some (dur, _) => parse_dur dur
        end
      end
    end.

  (* lines 150-168: the closure body applied to one tag *)
  Definition parse_tag (tag : str) : option (option N * option N) :=
    match strip_prefix s_retry tag with
    | None => None
    | Some retries =>
      let '(num, rest) := parse_num retries in
      Some (num, parse_after rest)
    end.

  Definition parse_tags (tags : list str) : option (option N * option N) :=
    find_map parse_tag tags.

  (* (left, after); `Retries::initial(n)` is `{current: 0, left: n}` *)
  Definition retry_opts := (N * option N)%type.

  (* lines 172-188 *)
  Definition apply_cli (ftags : list str) (rtags : option (list str)) (stags : list str)
             (c : cli) (options : option (option N * option N)) : option retry_opts :=
    let matched :=
      match c_filter c with
      | None => is_some (c_retry c) || is_some (c_retry_after c)
      | Some op =>
        tag_eval op (stags ++ (match rtags with Some r => r | None => [] end) ++ ftags)
      end in
    if is_some options || matched then
      Some (unwrap_or (or_else (match options with Some (r, _) => r | None => None end) (c_retry c)) 1,
            or_else (match options with Some (_, a) => a | None => None end) (c_retry_after c))
    else None.

  (* lines 190-194 *)
  Definition parse_from_tags (ftags : list str) (rtags : option (list str)) (stags : list str)
             (c : cli) : option retry_opts :=
    apply_cli ftags rtags stags c
      (or_else (parse_tags stags)
         (or_else (match rtags with Some r => parse_tags r | None => None end)
                  (parse_tags ftags))).
End WithDurationOracle.
