(* Outline.v — model of `Feature::expand_examples` / `expand_scenario`
   (src/feature.rs:55-170), including the placeholder scanner `<([^>\s]+)>`
   written as a one-pass state machine over code points. Executable; no proofs. *)
From CV Require Import Model.Base.

(* Unicode White_Space (what `\s` means for the regex crate in Unicode mode) *)
Definition is_ws (c : N) : bool :=
  ((9 <=? c) && (c <=? 13)) || (c =? 32) || (c =? 133) || (c =? 160) || (c =? 5760) ||
  ((8192 <=? c) && (c <=? 8202)) || (c =? 8232) || (c =? 8233) || (c =? 8239) || (c =? 8287) ||
  (c =? 12288).

Definition c_lt : N := 60.   (* '<' *)
Definition c_gt : N := 62.   (* '>' *)

Inductive token := TLit (c : N) | TPh (name : str).

Definition lits (s : str) : list token := map TLit s.

(* `pend = Some b`: a '<' has been read and `rev b` (no '>' and no white space) after it. *)
Fixpoint scan (s : str) (pend : option str) : list token :=
  match s with
  | [] => match pend with None => [] | Some b => lits (c_lt :: rev b) end
  | c :: s' =>
    match pend with
    | None => if c =? c_lt then scan s' (Some []) else TLit c :: scan s' None
    | Some b =>
      if c =? c_gt then
        match b with
        | [] => TLit c_lt :: TLit c_gt :: scan s' None          (* "<>" is not a placeholder *)
        | _ => TPh (rev b) :: scan s' None
        end
      else if is_ws c then lits (c_lt :: rev b) ++ TLit c :: scan s' None
      else scan s' (Some (c :: b))
    end
  end.

Definition tokenize (s : str) : list token := scan s None.

Definition row := list (str * str).       (* header.zip(values): (column name, value) *)

Fixpoint row_find (name : str) (r : row) : option str :=
  match r with
  | [] => None
  | (k, v) :: r' => if str_eqb name k then Some v else row_find name r'
  end.

(* `replace_templates`: the replaced string, or the LAST unknown placeholder of the string
   (`err` is overwritten by every failing callback) *)
Fixpoint render (r : row) (ts : list token) (acc : str) (err : option str) : str * option str :=
  match ts with
  | [] => (acc, err)
  | TLit c :: ts' => render r ts' (acc ++ [c]) err
  | TPh name :: ts' =>
    match row_find name r with
    | Some v => render r ts' (acc ++ v) err
    | None => render r ts' acc (Some name)
    end
  end.

Definition subst (r : row) (s : str) : str + str :=
  let '(out, err) := render r (tokenize s) [] None in
  match err with Some name => inr name | None => inl out end.

Record ostep := mk_ostep {
  os_value : str; os_doc : option str; os_table : option (list (list str));
  os_line : N; os_col : N }.
Record example := mk_example {
  ex_line : N; ex_col : N; ex_tags : list str; ex_table : option (list (list str)) }.
Record oscen := mk_oscen {
  o_name : str; o_tags : list str; o_steps : list ostep; o_examples : list example;
  o_line : N; o_col : N }.
Record xerr := mk_xerr { xe_line : N; xe_col : N; xe_name : str }.

(* monadic helpers over (T + xerr) *)
Fixpoint map_err {A B} (f : A -> B + xerr) (l : list A) : list B + xerr :=
  match l with
  | [] => inl []
  | x :: l' =>
    match f x with
    | inr e => inr e
    | inl y => match map_err f l' with inr e => inr e | inl ys => inl (y :: ys) end
    end
  end.

Definition subst_at (r : row) (line col : N) (s : str) : str + xerr :=
  match subst r s with inl out => inl out | inr name => inr (mk_xerr line col name) end.

(* lines 144-153: value, then docstring, then table cells row by row *)
Definition subst_step (r : row) (s : ostep) : ostep + xerr :=
  let at_ := subst_at r (os_line s) (os_col s) in
  match at_ (os_value s) with
  | inr e => inr e
  | inl v =>
    match (match os_doc s with
           | None => inl None
           | Some d => match at_ d with inl d' => inl (Some d') | inr e => inr e end
           end) with
    | inr e => inr e
    | inl d =>
      match (match os_table s with
             | None => inl None
             | Some t => match map_err (map_err at_) t with inl t' => inl (Some t') | inr e => inr e end
             end) with
      | inr e => inr e
      | inl t => inl (mk_ostep v d t (os_line s) (os_col s))
      end
    end
  end.

(* one row of one Examples table (lines 101-156); `id` = index of the row in its table *)
Definition instantiate (sc : oscen) (ex : example) (id : N) (r : row) : oscen + xerr :=
  let line := ex_line ex + (id + 2) in
  let col := ex_col ex in
  match subst_at r line col (o_name sc) with
  | inr e => inr e
  | inl name =>
    match map_err (subst_step r) (o_steps sc) with
    | inr e => inr e
    | inl steps => inl (mk_oscen name (o_tags sc ++ ex_tags ex) steps (o_examples sc) line col)
    end
  end.

Fixpoint zip_rows (sc : oscen) (ex : example) (header : list str) (vals : list (list str)) (id : N)
  : list (oscen + xerr) :=
  match vals with
  | [] => []
  | v :: vals' => instantiate sc ex id (combine header v) :: zip_rows sc ex header vals' (id + 1)
  end.

(* lines 77-158 *)
Definition expand_scenario (sc : oscen) : list (oscen + xerr) :=
  match o_examples sc with
  | [] => [inl sc]
  | exs =>
    flat_map (fun ex =>
      match ex_table ex with
      | Some (header :: vals) => zip_rows sc ex header vals 0
      | _ => []
      end) exs
  end.

(* `collect::<Result<Vec<_>, _>>()`: the first error wins *)
Fixpoint collect {A} (l : list (A + xerr)) : list A + xerr :=
  match l with
  | [] => inl []
  | inr e :: _ => inr e
  | inl x :: l' => match collect l' with inr e => inr e | inl xs => inl (x :: xs) end
  end.

Definition expand_list (scs : list oscen) : list oscen + xerr :=
  collect (flat_map expand_scenario scs).

(* lines 55-70: rules first, then the feature's own scenarios *)
Definition expand_feature (rules : list (list oscen)) (top : list oscen)
  : (list (list oscen) * list oscen) + xerr :=
  match map_err expand_list rules with
  | inr e => inr e
  | inl rs => match expand_list top with inr e => inr e | inl t => inl (rs, t) end
  end.
