(* ReportersSpec3.v — two report specifications restated from the TEXT of C14, after the statement review:
   A (M2)      the JUnit classification of an attempt, written over the attempt's events without looking at the
               reporter's `junit_status` ("the last relevant event");
   B (H4 tail) the facts of a Cucumber-JSON document with the EXACT status code the report must show, and with the
               passed hooks as facts of their own.
   Executable; no proofs here (Proofs/ReportersP7.v). *)
From CV Require Import Model.Base Model.Events Model.Stats Model.StatsSpec Model.Attempt Model.AttemptSpec
  Model.Reporters Model.ReportersSpec.

(* ================================================================================================ *)
(* A. JUnit: the class of one attempt                                                                *)
(* ================================================================================================ *)
Definition is_failed_step (x : scev) : bool :=
  match x with ScBg _ (StFailed _) | ScStep _ (StFailed _) => true | _ => false end.
Definition is_failed_hook (x : scev) : bool :=
  match x with ScHook _ (HFailed _) => true | _ => false end.
Definition is_skipped_step (x : scev) : bool :=
  match x with ScBg _ StSkipped | ScStep _ StSkipped => true | _ => false end.

(* 1 failure: a Failed step (background or own) or a Failed hook (before or after) occurred;
   else 2 skipped: a Skipped step occurred; else 0 success *)
Definition attempt_class_spec (evs : list scev) : N :=
  if existsb is_failed_step evs || existsb is_failed_hook evs then 1
  else if existsb is_skipped_step evs then 2
  else 0.

(* ---- a canonical attempt: the C02 shape (`AttemptSpec.wf_events`) for SOME hooks / declared steps, log lines apart.
   The hook flags and the declared steps are read off the events themselves (the steps that were started);
   ReportersP7.canonical_attempt_complete shows nothing is lost: whenever `wf_events hb ha decl` accepts the events for
   any hb, ha, decl, `canonical_attempt` accepts them. *)
Definition not_log (x : scev) : bool := match x with ScLog _ => false | _ => true end.
Definition started_steps (evs : list scev) : list (bool * N) :=
  flat_map (fun x => match x with
                     | ScBg st StStarted => [(true, st)]
                     | ScStep st StStarted => [(false, st)]
                     | _ => [] end) evs.
Definition hook_started (b : bool) (evs : list scev) : bool :=
  existsb (fun x => match x with ScHook b' HStarted => Bool.eqb b b' | _ => false end) evs.
Definition canonical_attempt (evs : list scev) : bool :=
  let core := filter not_log evs in
  wf_events (hook_started true core) (hook_started false core) (started_steps core) core.

(* ---- the attempts of a stream: same grouping as `ReportersSpec.attempt_outcomes` (the events seen so far with the
   attempt's feature, scenario and retries), but the events themselves are kept *)
Definition attempt_groups (es : list ev) : list (option N * N * list scev) :=
  let fix go (seen : list ev) (l : list ev) : list (option N * N * list scev) :=
    match l with
    | [] => []
    | EvScen f r s rt ScFinished :: t =>
      let mine := flat_map (fun e => match e with
                                     | EvScen f' r' s' rt' x =>
                                       if (s' =? s) && retr_eqb rt rt' && (f' =? f) then [x] else []
                                     | _ => [] end) seen in
      (r, s, mine) :: go seen t
    | e :: t => go (seen ++ [e]) t
    end in go [] (before_finished es).

(* expected testcases: one per finished attempt, in order, classified by what happened in the attempt *)
Definition attempt_outcomes_spec (es : list ev) : list (option N * N * N) :=
  map (fun g => (fst (fst g), snd (fst g), attempt_class_spec (snd g))) (attempt_groups es).

(* every finished attempt of the stream is canonical (its events, closed by its Finished) *)
Definition attempts_canonical (es : list ev) : bool :=
  forallb (fun g => canonical_attempt (snd g ++ [ScFinished])) (attempt_groups es).

(* `c14_junit_ok` with the independent classification *)
Definition c14_junit_ok3 (es : list ev) (rfs : list rf) : bool :=
  if existsb (fun e => match e with EvFinished => true | _ => false end) es then
    same_multiset (map case_fact (junit_cases rfs false)) (map case_fact (attempt_outcomes_spec es))
    && list_eqb N.eqb (map (fun c => snd (fst c)) (junit_cases rfs true))
                      (flat_map (fun e => match e with EvParseErr i => [i] | _ => [] end) (before_finished es))
    && same_multiset (filter (fun f => match f with 3 :: _ => false | _ => true end) (stream_line_facts es))
                     (line_facts 0 0 rfs)
  else match rfs with [] => true | _ => false end.

(* ================================================================================================ *)
(* B. Cucumber JSON: exact statuses, passed hooks                                                    *)
(* ================================================================================================ *)
(* the status code the document must show for a step result (Cucumber JSON: passed / failed / skipped / undefined /
   ambiguous) *)
Definition step_code (x : stepev) : option N :=
  match x with
  | StPassed => Some 0
  | StFailed (EPanic _) => Some 1
  | StSkipped => Some 2
  | StFailed ENotFound => Some 3
  | StFailed EAmbiguous => Some 4
  | StStarted => None
  end.

(* a fact = [kind; feature; rule?; rule; scenario; 0; step; background? / before?; status code shown] with
   kind 1 step result, 2 failed hook (code 1), 3 parser error (code 1: failed), 4 passed hook (code 0) *)
Definition facts_of_event2 (e : ev) : list fact :=
  match e with
  | EvParseErr i => [[3; 0; 0; 0; i; 0; 0; 0; 1]]
  | EvScen f r s _ (ScHook b (HFailed _)) => [[2; f] ++ ropt r ++ [s; 0; 0; (if b then 1 else 0); 1]]
  | EvScen f r s _ (ScHook b HPassed) => [[4; f] ++ ropt r ++ [s; 0; 0; (if b then 1 else 0); 0]]
  | EvScen f r s _ (ScBg st x) =>
    match step_code x with Some k => [[1; f] ++ ropt r ++ [s; 0; st; 1; k]] | None => [] end
  | EvScen f r s _ (ScStep st x) =>
    match step_code x with Some k => [[1; f] ++ ropt r ++ [s; 0; st; 0; k]] | None => [] end
  | _ => []
  end.
Definition stream_facts2 (es : list ev) : list fact := flat_map facts_of_event2 (before_finished es).

(* the facts a document states: every step entry with the status it shows, every hook entry (passed: kind 4, anything
   else: kind 2) with the status it shows *)
Fixpoint json_facts2 (cur_f : N) (cur_el : option (option N * N * N)) (rfs : list rf) : list fact :=
  match rfs with
  | [] => []
  | RJFeature _ f :: t => json_facts2 f None t
  | RJElement r s ty :: t => json_facts2 cur_f (Some (r, s, ty)) t
  | RJStep line status :: t =>
    match cur_el with
    | Some (r, s, ty) =>
      (if cur_f =? 0 then [3; 0; 0; 0; line; 0; 0; 0; status]
       else [1; cur_f] ++ ropt r ++ [s; 0; line; ty; status]) :: json_facts2 cur_f cur_el t
    | None => [99] :: json_facts2 cur_f cur_el t
    end
  | RJHook b status :: t =>
    match cur_el with
    | Some (r, s, _) =>
      ([(if status =? 0 then 4 else 2); cur_f] ++ ropt r ++ [s; 0; 0; (if b then 1 else 0); status])
        :: json_facts2 cur_f cur_el t
    | None => [99] :: json_facts2 cur_f cur_el t
    end
  | _ :: t => json_facts2 cur_f cur_el t
  end.

Definition c14_json_ok2 (es : list ev) (rfs : list rf) : bool :=
  if existsb (fun e => match e with EvFinished => true | _ => false end) es then
    same_multiset (stream_facts2 es) (json_facts2 0 None rfs) && nodup_facts (json_containers rfs)
  else match rfs with [] => true | _ => false end.
