(* AttemptSpec.v — what C02 / C05 / C09 / C10 say about ONE scenario, as executable recognisers
   over observations (events, callbacks), written against the property text and independent
   of Model/Attempt.v. *)
From CV Require Import Model.Base Model.Events Model.Attempt.

Definition reason_eqb (a b : reason) : bool :=
  match a, b with
  | RBeforeHookFailed p, RBeforeHookFailed q => p =? q
  | RStepPassed, RStepPassed | RStepSkipped, RStepSkipped => true
  | RStepFailed k, RStepFailed k' => errk_eqb k k'
  | _, _ => false
  end.
Definition world_eqb : world -> world -> bool := list_eqb N.eqb.
Definition callback_eqb (a b : callback) : bool :=
  match a, b with
  | CWorldNew, CWorldNew => true
  | CBefore w, CBefore w' => world_eqb w w'
  | CStep s w, CStep s' w' => (s =? s') && world_eqb w w'
  | CAfter r w, CAfter r' w' => reason_eqb r r' && option_eqb world_eqb w w'
  | _, _ => false
  end.

(* ---------- C02: the canonical event sequence of one attempt ---------- *)
(* declared steps: (is_background, id), feature background ++ rule background ++ own, in order *)
Fixpoint parse_steps (decl : list (bool * N)) (evs : list scev) : option (list scev) :=
  match decl with
  | [] => Some evs
  | (bg, st) :: d =>
    match evs with
    | e1 :: e2 :: rest =>
      if scev_eqb e1 (step_ev bg st StStarted) then
        if scev_eqb e2 (step_ev bg st StPassed) then parse_steps d rest
        else if scev_eqb e2 (step_ev bg st StSkipped) then Some rest       (* stop after the first Skipped *)
        else match e2 with
             | ScBg st' (StFailed _) => if bg && (st' =? st) then Some rest else None   (* ... or Failed *)
             | ScStep st' (StFailed _) => if negb bg && (st' =? st) then Some rest else None
             | _ => None
             end
      else None
    | _ => None
    end
  end.

Definition parse_after (has_after : bool) (evs : list scev) : bool :=
  if has_after then
    match evs with
    | [ScHook false HStarted; ScHook false HPassed; ScFinished] => true
    | [ScHook false HStarted; ScHook false (HFailed _); ScFinished] => true
    | _ => false
    end
  else match evs with [ScFinished] => true | _ => false end.

Definition wf_events (has_before has_after : bool) (decl : list (bool * N)) (evs : list scev) : bool :=
  match evs with
  | ScStarted :: rest =>
    if has_before then
      match rest with
      | ScHook true HStarted :: ScHook true HPassed :: r1 =>
        match parse_steps decl r1 with Some r2 => parse_after has_after r2 | None => false end
      | ScHook true HStarted :: ScHook true (HFailed _) :: r1 => parse_after has_after r1   (* no step runs *)
      | _ => false
      end
    else match parse_steps decl rest with Some r2 => parse_after has_after r2 | None => false end
  | _ => false
  end.

(* ---------- C09: World lifecycle and hook contract, on the callback log ---------- *)
Definition ocall := (callback * option N)%type.            (* callback, World instance id it saw *)

Definition is_new (c : callback) := match c with CWorldNew => true | _ => false end.
Definition is_after (c : callback) := match c with CAfter _ _ => true | _ => false end.
Definition is_step_call (c : callback) := match c with CStep _ _ => true | _ => false end.
Definition is_before_call (c : callback) := match c with CBefore _ => true | _ => false end.

(* every executed step sees the mutations of everything before it, in order *)
Fixpoint steps_see_history (w : world) (cs : list callback) : bool :=
  match cs with
  | [] => true
  | CStep st w' :: t => world_eqb w w' && steps_see_history (w ++ [st]) t
  | CBefore w' :: t => world_eqb w' [] && world_eqb w [] && steps_see_history [before_mark] t
  | _ :: t => steps_see_history w t
  end.
Fixpoint final_world (w : world) (cs : list callback) : world :=
  match cs with
  | [] => w
  | CStep st _ :: t => final_world (w ++ [st]) t
  | CBefore _ :: t => final_world [before_mark] t
  | _ :: t => final_world w t
  end.

Definition true_reason (evs : list scev) : reason :=
  match find (fun e => match e with ScHook true (HFailed _) => true | _ => false end) evs with
  | Some (ScHook _ (HFailed p)) => RBeforeHookFailed p
  | _ =>
    match find (fun e => match e with ScBg _ (StFailed _) | ScStep _ (StFailed _) => true | _ => false end) evs with
    | Some (ScBg _ (StFailed k)) | Some (ScStep _ (StFailed k)) => RStepFailed k
    | _ =>
      if existsb (fun e => match e with ScBg _ StSkipped | ScStep _ StSkipped => true | _ => false end) evs
      then RStepSkipped else RStepPassed
    end
  end.

Definition step_matched (evs : list scev) : bool :=
  existsb (fun e => match e with
                    | ScBg _ StPassed | ScStep _ StPassed
                    | ScBg _ (StFailed (EPanic _)) | ScStep _ (StFailed (EPanic _)) => true
                    | _ => false end) evs.

Definition same_instance (cs : list ocall) : bool :=
  match flat_map (fun c => match snd c with Some w => [w] | None => [] end) cs with
  | [] => true
  | w :: t => forallb (N.eqb w) t
  end.

Definition c09_ok (has_before has_after : bool) (evs : list scev) (ocs : list ocall) : bool :=
  let cs := map fst ocs in
  let n_new := length (filter is_new cs) in
  let created := existsb is_before_call cs || existsb is_step_call cs in
  (* a World is created at most once, and exactly when a before hook is set or a step matched *)
  Nat.leb n_new 1 && Bool.eqb (Nat.eqb n_new 1) (has_before || step_matched evs)
  (* the before hook runs first, on a fresh World *)
  && (negb has_before || match cs with
                         | CWorldNew :: CBefore w :: _ => world_eqb w []
                         | CWorldNew :: t => negb (existsb is_before_call t) && negb (existsb is_step_call t)
                         | _ => false end)
  && (has_before || negb (existsb is_before_call cs))
  (* one World instance, carrying all previous mutations *)
  && same_instance ocs && steps_see_history [] cs
  (* the after hook: exactly once iff set, last, with the World if one exists, and the true reason *)
  && (if has_after then
        match rev cs with
        | CAfter r w :: before_it =>
          negb (existsb is_after before_it) && reason_eqb r (true_reason evs)
          && option_eqb world_eqb w (if created then Some (final_world [] cs) else None)
        | _ => false
        end
      else negb (existsb is_after cs)).

(* ---------- C05 (one scenario): the chain of attempts ---------- *)
Definition attempt_failed (evs : list scev) : bool :=
  existsb (fun e => match e with
                    | ScBg _ (StFailed _) | ScStep _ (StFailed _) | ScHook _ (HFailed _) => true
                    | _ => false end) evs.

(* groups: (retries carried by the attempt's events, its events), in stream order *)
Fixpoint chain_ok (budget : option N) (k : N) (groups : list (retr * list scev)) : bool :=
  match groups with
  | [] => false
  | [(rt, evs)] =>
    retr_eqb rt (match budget with Some n => Some (k, n - k) | None => None end)
    (* no further attempt: it did not fail, or the budget is exhausted *)
    && (negb (attempt_failed evs) || match budget with Some n => n <=? k | None => true end)
  | (rt, evs) :: rest =>
    retr_eqb rt (match budget with Some n => Some (k, n - k) | None => None end)
    && attempt_failed evs && match budget with Some n => k <? n | None => false end
    && chain_ok budget (k + 1) rest
  end.

Fixpoint nodup_N (l : list N) : bool :=
  match l with [] => true | x :: t => negb (existsb (N.eqb x) t) && nodup_N t end.
