(* Filter.v — model of the scenario filter built in `Cucumber::filter_run`
   (src/cucumber.rs:722-765). Executable; no proofs here. *)
From CV Require Import Model.Base Model.TagExpr Model.Gherkin.

Section Filter.
  (* `Regex::is_match` of the `--name` regex on a scenario name (oracle). *)
  Variable re_match : str -> bool.
  (* The user's closure.  It is handed the feature with `scenarios` taken out /
     already filtered and the rule with `scenarios` taken out (mem::take);
     the model passes the stable parts only: feature, rule identity and the scenario. *)
  Variable user : feature -> option rule -> scen -> bool.

  Definition rule_tags (r : option rule) : list str :=
    match r with Some r => r_tags r | None => [] end.

  (* lines 722-744: --name wins over --tags, which wins over the closure *)
  Definition accept (re_given : bool) (tags : option tagop)
             (f : feature) (r : option rule) (s : scen) : bool :=
    if re_given then re_match (s_name s)
    else match tags with
         | Some t => tag_eval t (f_tags f ++ rule_tags r ++ s_tags s)
         | None => user f r s
         end.

  (* lines 750-768 *)
  Definition filter_feature (re_given : bool) (tags : option tagop) (f : feature) : feature :=
    let f1 := set_f_scens f (filter (accept re_given tags f None) (f_scens f)) in
    set_f_rules f1
      (map (fun r => set_r_scens r (filter (accept re_given tags f (Some r)) (r_scens r)))
           (f_rules f)).
End Filter.
