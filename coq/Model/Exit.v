(* Exit.v — the last link of C01: `Cucumber::run_and_exit` / `filter_run_and_exit` (src/cucumber.rs:1199-1237).
   After the run the writer is asked `execution_has_failed()`; if so the function panics (so the test binary exits
   non-zero) with a message assembled from the non-zero ones of failed steps, parsing errors and hook errors, in this
   order. Executable; no proofs here. *)
From CV Require Import Model.Base Model.Events Model.Stats.

(* the parts of the panic message: (kind, count) with kind 0 = steps failed, 1 = parsing errors, 2 = hook errors *)
Definition exit_parts (g : getters) : list (N * N) :=
  filter (fun p => 0 <? snd p) [(0, g_failed g); (1, g_parsing g); (2, g_hooks g)].

(* None: returns normally; Some parts: panics with these parts *)
Definition run_and_exit (g : getters) : option (list (N * N)) :=
  if g_has_failed g then Some (exit_parts g) else None.
