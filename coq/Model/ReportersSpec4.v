(* ReportersSpec4.v — C14, the HEADER lines of the terminal listing are facts of their own, and the listing is ORDERED.
   `ReportersSpec2.c14_basic_attr_ok` reads the `Feature:` and `Rule:` lines only as context for the lines below them:
   they yield no fact, and the rule conjunct is a SUB-multiset. So an invented `Rule:` line, invented or repeated
   `Feature:` lines, a `Rule:` line under the wrong feature and a completely scrambled listing are all accepted (second
   review). The predicate below closes that:
     - header facts   [50; feature] per `Feature:` line, [51; feature; rule] per `Rule:` line (the feature being the one
                      of the last `Feature:` line above it, POISON [99] if there is none); they must be the MULTISET of
                      the features and rules started in the stream: each exactly once, none invented, a rule under ITS
                      feature;
     - order          the header facts, the attributed line facts of `ReportersSpec2.line_facts2` (scenario headers,
                      step results, failed hooks) and the parser errors, as ONE list in document order, must be EQUAL
                      (list equality) to the list of the same facts computed from the stream in stream order: behind
                      Normalize the terminal writer prints in stream order.
   Written over the event stream and the parsed-back lines, independently of `Reporters.basic_lines`.
   Executable; no proofs here (Proofs/ReportersP8.v).  Fact kinds added: 50 feature line, 51 rule line. *)
From CV Require Import Model.Base Model.Events Model.Contract Model.Stats Model.StatsSpec Model.Reporters
  Model.ReportersSpec Model.ReportersSpec2.

(* ============================== the header facts ============================== *)
(* the lines, read top-down keeping cf: the feature of the last `RLFeature` line (None before the first) *)
Fixpoint line_hdr_facts (cf : option N) (rfs : list rf) : list fact :=
  match rfs with
  | [] => []
  | RLFeature f :: t => [50; f] :: line_hdr_facts (Some f) t
  | RLRule r :: t => match cf with Some f => [51; f; r] | None => poison end :: line_hdr_facts cf t
  | _ :: t => line_hdr_facts cf t
  end.

(* the stream: the feature and the rule are those the event carries *)
Definition shf1 (e : ev) : list fact :=
  match e with
  | EvFeatS f => [[50; f]]
  | EvRuleS f r => [[51; f; r]]
  | _ => []
  end.
Definition stream_hdr_facts (es : list ev) : list fact := flat_map shf1 (before_finished es).

(* each header exactly once, none invented, a rule under its own feature *)
Definition hdr_multiset_ok (es : list ev) (rfs : list rf) : bool :=
  same_multiset (stream_hdr_facts es) (line_hdr_facts None rfs).

(* ============================== the document, in order ============================== *)
(* the reading state of `ReportersSpec2.line_facts2` after one line: cf, the feature of the last `RLFeature` line;
   cur, the scenario and attempt of the last `RLScenario` line since that feature line *)
Definition next_cf (cf : option N) (x : rf) : option N :=
  match x with RLFeature f => Some f | _ => cf end.
Definition next_cur (cur : option (N * N)) (x : rf) : option (N * N) :=
  match x with
  | RLFeature _ => None
  | RLScenario s rt => Some (s, hdr_att rt)
  | _ => cur
  end.

(* line by line: the header fact of the line (if it is a header line) and the attributed fact `line_facts2` reads from
   it (if it is a scenario header, a result line or a parser error) in the state reached so far *)
Fixpoint doc_facts_go (cf : option N) (cur : option (N * N)) (rfs : list rf) : list fact :=
  match rfs with
  | [] => []
  | x :: t => line_hdr_facts cf [x] ++ line_facts2 cf cur [x] ++ doc_facts_go (next_cf cf x) (next_cur cur x) t
  end.
Definition doc_facts (rfs : list rf) : list fact := doc_facts_go None None rfs.

(* the same list from the events, in stream order *)
Definition sdf1 (e : ev) : list fact := shf1 e ++ slf2 e.
Definition stream_doc_facts (es : list ev) : list fact := flat_map sdf1 (before_finished es).

(* LIST equality: the document states the facts of the stream in the order of the stream *)
Definition doc_order_ok (es : list ev) (rfs : list rf) : bool :=
  list_eqb fact_eqb (doc_facts rfs) (stream_doc_facts es).

Definition c14_basic_hdr_ok (es : list ev) (rfs : list rf) : bool :=
  hdr_multiset_ok es rfs && doc_order_ok es rfs.

(* the whole C14 terminal predicate: facts (ReportersSpec), attribution (ReportersSpec2), headers and order *)
Definition c14_basic_full_ok (es : list ev) (rfs : list rf) : bool :=
  c14_basic_ok es rfs && c14_basic_attr_ok es rfs && c14_basic_hdr_ok es rfs.
