(* Sched.v — the scheduler of runner::Basic as a labelled transition system:
   insert_features (src/runner/basic.rs:861-911), execute (927-1106), Features::{insert,
   insert_retried_scenario, insert_scenarios, get, is_finished} (2200-2440),
   FinishedRulesAndFeatures (1960-2110), and the re-insertion of retries at the end of
   Executor::run_scenario (1376-1400).

   One label = one atomic segment of the real, single-threaded code. What happens INSIDE an
   attempt is Attempt.v's business: here an attempt only emits opaque middle events and finally
   says whether it failed.  The model describes the code after the repairs F1 (idle branch
   yields) and F2 (a Serial entry is taken only when nothing runs), built with the clock hook
   (an idle sleep of `d` advances the virtual clock by d+1ns instead).  Executable; no proofs. *)
From CV Require Import Model.Base Model.Events.

(* ---- static input: what the parser delivers ---- *)
Record sscen := mk_sscen {
  ss_id : N;
  ss_rule : option N;
  ss_serial : bool;                       (* which_scenario = Serial *)
  ss_retry : option (N * option N) }.     (* RetryOptions: retries left, delay in ns *)
Record sfeature := mk_sfeature {
  sf_id : N;
  sf_scens : list sscen;                  (* top-level scenarios, then each rule's, in file order *)
  sf_nrules : N;                          (* `f.rules.len()` (rules without scenarios included) *)
  sf_nsteps : N }.                        (* `f.count_steps()` *)

Definition scens_of_rule (f : sfeature) (r : N) : N :=
  N.of_nat (length (filter (fun s => option_eqb N.eqb (ss_rule s) (Some r)) (sf_scens f))).
Definition scens_of_feature (f : sfeature) : N := N.of_nat (length (sf_scens f)).

(* ---- configuration ---- *)
Record cfg := mk_cfg {
  cf_concurrency : option nat;            (* cli.concurrency.or(max_concurrent_scenarios) *)
  cf_fail_fast : bool }.

(* ---- dynamic state ---- *)
Record entry := mk_entry {
  e_f : N; e_r : option N; e_s : N;
  e_serial : bool;
  e_retr : retr;                          (* Retries of this attempt *)
  e_delay : option N;                     (* RetryOptions::after *)
  e_base : option N;                      (* Some t: re-inserted at time t (deadline base); None: no deadline *)
  e_nf : N; e_nr : N }.                   (* scenarios of its feature / of its rule (for the brackets) *)

Definition akey := (N * N)%type.          (* (scenario id, Retries::current or 0) *)
Definition cur_of (rt : retr) : N := match rt with Some (c, _) => c | None => 0 end.
Definition key_of (e : entry) : akey := (e_s e, cur_of (e_retr e)).
Definition akey_eqb (a b : akey) : bool := (fst a =? fst b) && (snd a =? snd b).

Inductive phase := Dispatched | Opened | Ended.
Inductive flowT := Break | Cont (slots : option nat).
Inductive pcT := NotBegun | Awaiting | Yielded | Done.

Record msg := mk_msg { m_f : N; m_r : option N; m_nf : N; m_nr : N; m_failed : bool; m_retried : bool }.

Record st := mk_st {
  qS : list entry; qC : list entry;                 (* Features::scenarios[Serial], [Concurrent] *)
  pdone : bool;                                     (* Features::finished *)
  perrs : bool;                                     (* insert_features stopped (parser end or fail-fast error) *)
  flow : flowT;                                     (* started_scenarios *)
  running : list (entry * phase);                   (* run_scenarios *)
  msgs : list msg;                                  (* finished_sender channel *)
  fcount : list (N * N);                            (* features_scenarios_count *)
  rcount : list ((N * N) * N);                      (* rule_scenarios_count *)
  pf : N * N * N * N * N;                           (* insert_features counters *)
  now : N;
  pc : pcT;
  hook_suppressed : bool }.                         (* the process panic hook is replaced (C10) *)

Definition init_st (c : cfg) : st :=
  mk_st [] [] false false (Cont (cf_concurrency c)) [] [] [] [] (0, 0, 0, 0, 0) 0 NotBegun false.

(* setters *)
Definition upd (s : st) qs qc fl rn ms fc rc n p :=
  mk_st qs qc (pdone s) (perrs s) fl rn ms fc rc (pf s) n p (hook_suppressed s).

(* ---- Features::get ---- *)
(* RetryOptionsWithDeadline::left_until_retry: Some (delay - elapsed) while elapsed <= delay *)
Definition left_until (now : N) (e : entry) : option N :=
  match e_delay e, e_base e with
  | Some d, Some b => let el := now - b in if el <=? d then Some (d - el) else None
  | _, _ => None
  end.
Definition min_opt (a : option N) (b : N) : option N :=
  match a with Some x => Some (N.min x b) | None => Some b end.

(* drain_filter with a count limit: up to n ready entries, order kept; waiting entries feed min_dur *)
Fixpoint take_ready (n : option nat) (now : N) (md : option N) (l : list entry)
  : list entry * list entry * option N :=
  match l with
  | [] => ([], [], md)
  | e :: t =>
    match n with
    | Some O => ([], l, md)
    | _ =>
      match left_until now e with
      | None => let '(a, b, m) := take_ready (option_map pred n) now md t in (e :: a, b, m)
      | Some lft => let '(a, b, m) := take_ready n now (min_opt md lft) t in (a, e :: b, m)
      end
    end
  end.

Definition is_nil {A} (l : list A) : bool := match l with [] => true | _ => false end.

(* (batch, qS', qC', min_dur). Repaired (F2): Serial only when nothing is running. *)
Definition get (n : option nat) (s : st) : list entry * list entry * list entry * option N :=
  match n with
  | Some O => ([], qS s, qC s, None)
  | _ =>
    if is_nil (running s) then
      let '(bs, rs, md) := take_ready (Some 1%nat) (now s) None (qS s) in
      match bs with
      | _ :: _ => (bs, rs, qC s, md)
      | [] => let '(bc, rc, md2) := take_ready n (now s) md (qC s) in (bc, qS s, rc, md2)
      end
    else
      let '(bc, rc, md2) := take_ready n (now s) None (qC s) in (bc, qS s, rc, md2)
  end.

(* ---- FinishedRulesAndFeatures ---- *)
Definition rk_eqb (a b : N * N) : bool := (fst a =? fst b) && (snd a =? snd b).
Fixpoint lookupN {K} (eqb : K -> K -> bool) (k : K) (l : list (K * N)) : option N :=
  match l with [] => None | (k', v) :: t => if eqb k k' then Some v else lookupN eqb k t end.
Fixpoint removeK {K} (eqb : K -> K -> bool) (k : K) (l : list (K * N)) : list (K * N) :=
  match l with [] => [] | (k', v) :: t => if eqb k k' then removeK eqb k t else (k', v) :: removeK eqb k t end.
Fixpoint setN {K} (eqb : K -> K -> bool) (k : K) (v : N) (l : list (K * N)) : list (K * N) :=
  match l with [] => [(k, v)] | (k', v') :: t => if eqb k k' then (k', v) :: t else (k', v') :: setN eqb k v t end.

(* `Itertools::dedup`: consecutive duplicates removed *)
Fixpoint dedup {A} (eqb : A -> A -> bool) (l : list A) : list A :=
  match l with
  | [] => []
  | x :: t => match t with
              | y :: _ => if eqb x y then dedup eqb t else x :: dedup eqb t
              | [] => [x]
              end
  end.

(* start_scenarios (2056-2108): Started events for brackets seen for the first time *)
Fixpoint start_feats (fs : list N) (fc : list (N * N)) : list ev * list (N * N) :=
  match fs with
  | [] => ([], fc)
  | f :: t =>
    match lookupN N.eqb f fc with
    | Some _ => start_feats t fc
    | None => let '(o, fc') := start_feats t (setN N.eqb f 0 fc) in (EvFeatS f :: o, fc')
    end
  end.
Fixpoint start_rules (rs : list (N * N)) (rc : list ((N * N) * N)) : list ev * list ((N * N) * N) :=
  match rs with
  | [] => ([], rc)
  | k :: t =>
    match lookupN rk_eqb k rc with
    | Some _ => start_rules t rc
    | None => let '(o, rc') := start_rules t (setN rk_eqb k 0 rc) in (EvRuleS (fst k) (snd k) :: o, rc')
    end
  end.
Definition start_scenarios (batch : list entry) (fc : list (N * N)) (rc : list ((N * N) * N))
  : list ev * list (N * N) * list ((N * N) * N) :=
  let '(o1, fc') := start_feats (dedup N.eqb (map e_f batch)) fc in
  let rks := flat_map (fun e => match e_r e with Some r => [(e_f e, r)] | None => [] end) batch in
  let '(o2, rc') := start_rules (dedup rk_eqb rks) rc in
  (o1 ++ o2, fc', rc').

(* rule_scenario_finished / feature_scenario_finished for one drained message.
   A missing counter is a panic in the real code (`no Rule` / `no Feature`); here: no event. *)
Definition finish_msg (m : msg) (fc : list (N * N)) (rc : list ((N * N) * N))
  : list ev * list (N * N) * list ((N * N) * N) :=
  if m_retried m then ([], fc, rc) else
  let '(o1, rc1) :=
    match m_r m with
    | Some r =>
      match lookupN rk_eqb (m_f m, r) rc with
      | Some n => if n + 1 =? m_nr m then ([EvRuleF (m_f m) r], removeK rk_eqb (m_f m, r) rc)
                  else ([], setN rk_eqb (m_f m, r) (n + 1) rc)
      | None => ([], rc)
      end
    | None => ([], rc)
    end in
  let '(o2, fc1) :=
    match lookupN N.eqb (m_f m) fc with
    | Some n => if n + 1 =? m_nf m then ([EvFeatF (m_f m)], removeK N.eqb (m_f m) fc)
                else ([], setN N.eqb (m_f m) (n + 1) fc)
    | None => ([], fc)
    end in
  (o1 ++ o2, fc1, rc1).

(* the `while let Ok(Some(..)) = finished_receiver.try_next()` loop (1081-1106) *)
Fixpoint drain (ff : bool) (ms : list msg) (fl : flowT) (fc : list (N * N)) (rc : list ((N * N) * N))
  : list ev * flowT * list (N * N) * list ((N * N) * N) :=
  match ms with
  | [] => ([], fl, fc, rc)
  | m :: t =>
    let '(o, fc1, rc1) := finish_msg m fc rc in
    let fl1 := if ff && m_failed m && negb (m_retried m) then Break else fl in
    let '(o2, fl2, fc2, rc2) := drain ff t fl1 fc1 rc1 in
    (o ++ o2, fl2, fc2, rc2)
  end.

(* finish_all_rules_and_features: HashMap drain order is arbitrary; the model emits in map order and
   the comparison canonicalises the run of closing brackets before run-Finished *)
Definition finish_all (fc : list (N * N)) (rc : list ((N * N) * N)) : list ev :=
  map (fun kv => EvRuleF (fst (fst kv)) (snd (fst kv))) rc ++ map (fun kv => EvFeatF (fst kv)) fc.

Definition sub_slots (f : flowT) (k : nat) : flowT :=
  match f with Cont (Some n) => Cont (Some (n - k)%nat) | x => x end.
Definition add_slot (f : flowT) : flowT :=
  match f with Cont (Some n) => Cont (Some (S n)) | x => x end.
Definition is_break (f : flowT) : bool := match f with Break => true | _ => false end.

(* one turn of the `loop` in execute, from its top up to the next await / break *)
Definition loop_top (s : st) : st * list ev :=
  let n := match flow s with Break => Some O | Cont k => k end in
  let '(batch, qs, qc, md) := get n s in
  if is_nil (running s) && is_nil batch then
    if pdone s && (is_break (flow s) || (is_nil (qS s) && is_nil (qC s))) then
      (mk_st qs qc (pdone s) (perrs s) (flow s) (running s) (msgs s) [] [] (pf s) (now s) Done false,
       finish_all (fcount s) (rcount s) ++ [EvFinished])
    else
      (* idle: under the clock hook a sleep of d is `advance(d + 1ns)`; then (F1) yield *)
      (upd s qs qc (flow s) (running s) (msgs s) (fcount s) (rcount s)
           (match md with Some d => now s + d + 1 | None => now s end) Yielded, [])
  else
    let '(o, fc, rc) := start_scenarios batch (fcount s) (rcount s) in
    (upd s qs qc (sub_slots (flow s) (length batch)) (running s ++ map (fun e => (e, Dispatched)) batch)
         (msgs s) fc rc (now s) Awaiting, o).

(* ---- Features::insert / insert_scenarios ---- *)
Definition entry_of (f : sfeature) (sc : sscen) : entry :=
  mk_entry (sf_id f) (ss_rule sc) (ss_id sc) (ss_serial sc)
           (match ss_retry sc with Some (l, _) => Some (0, l) | None => None end)
           (match ss_retry sc with Some (_, d) => d | None => None end)
           None
           (scens_of_feature f) (match ss_rule sc with Some r => scens_of_rule f r | None => 0 end).

Definition insert_feature (f : sfeature) (s : st) : st :=
  let es := map (entry_of f) (sf_scens f) in
  let ss := filter e_serial es in
  let cs := filter (fun e => negb (e_serial e)) es in
  (* a batch that contains Serial scenarios goes in FRONT (for the types present in the batch) *)
  let '(qs, qc) := if is_nil ss then (qS s, qC s ++ cs) else (ss ++ qS s, cs ++ qC s) in
  let '(a, b, c, d, e) := pf s in
  mk_st qs qc (pdone s) (perrs s) (flow s) (running s) (msgs s) (fcount s) (rcount s)
        (a + 1, b + sf_nrules f, c + scens_of_feature f, d + sf_nsteps f, e) (now s) (pc s) (hook_suppressed s).

(* ---- the attempts ---- *)
Fixpoint set_phase (k : akey) (from to : phase) (l : list (entry * phase)) : option (entry * list (entry * phase)) :=
  match l with
  | [] => None
  | (e, p) :: t =>
    if akey_eqb (key_of e) k then
      match p, from with
      | Dispatched, Dispatched | Opened, Opened => Some (e, (e, to) :: t)
      | _, _ => None
      end
    else match set_phase k from to t with Some (e', t') => Some (e', (e, p) :: t') | None => None end
  end.
Fixpoint find_open (k : akey) (l : list (entry * phase)) : option entry :=
  match l with
  | [] => None
  | (e, p) :: t => if akey_eqb (key_of e) k then (match p with Opened => Some e | _ => None end) else find_open k t
  end.
Fixpoint remove_ended (l : list (entry * phase)) : option (list (entry * phase)) :=
  match l with
  | [] => None
  | (e, Ended) :: t => Some t
  | x :: t => match remove_ended t with Some t' => Some (x :: t') | None => None end
  end.

Definition scen_ev (e : entry) (x : scev) : ev := EvScen (e_f e) (e_r e) (e_s e) (e_retr e) x.
Definition is_middle (x : scev) : bool := match x with ScStarted | ScFinished => false | _ => true end.

(* RetryOptions::next_try, only for a failed attempt *)
Definition next_try (e : entry) (failed : bool) (now : N) : option entry :=
  match e_retr e with
  | Some (c, l) =>
    if failed && (0 <? l)
    then Some (mk_entry (e_f e) (e_r e) (e_s e) (e_serial e) (Some (c + 1, l - 1)) (e_delay e) (Some now) (e_nf e) (e_nr e))
    else None
  | None => None
  end.

Inductive label :=
| LFeature (f : sfeature)        (* insert_features consumed Ok(feature) *)
| LParseErr (id : N)             (* ... Err(e): forwarded; with fail-fast, ingestion stops *)
| LParserEnd                     (* ... the end of the stream (or stopped): ParsingFinished, Features::finish *)
| LTop                           (* a turn of execute's loop: the first is preceded by run-Started *)
| LAttStart (k : akey)
| LAttEv (k : akey) (x : scev)
| LAttEnd (k : akey) (failed : bool)
| LTick (d : N).

Definition step (c : cfg) (s : st) (l : label) : option (st * list ev) :=
  match l with
  | LFeature f =>
    if perrs s then None else Some (insert_feature f s, [])
  | LParseErr id =>
    if perrs s then None else
    let '(a, b, c0, d, e) := pf s in
    Some (mk_st (qS s) (qC s) (pdone s) (cf_fail_fast c) (flow s) (running s) (msgs s) (fcount s) (rcount s)
                (a, b, c0, d, e + 1) (now s) (pc s) (hook_suppressed s), [EvParseErr id])
  | LParserEnd =>
    if pdone s then None else
    let '(a, b, c0, d, e) := pf s in
    Some (mk_st (qS s) (qC s) true true (flow s) (running s) (msgs s) (fcount s) (rcount s)
                (pf s) (now s) (pc s) (hook_suppressed s), [EvParsingFinished a b c0 d e])
  | LTop =>
    match pc s with
    | NotBegun =>
      let s0 := mk_st (qS s) (qC s) (pdone s) (perrs s) (flow s) (running s) (msgs s) (fcount s) (rcount s)
                      (pf s) (now s) (pc s) true in
      let '(s', o) := loop_top s0 in Some (s', EvStarted :: o)
    | Yielded => Some (loop_top s)
    | Awaiting =>
      (* the await returned one completed attempt; then all finished-messages are drained *)
      match remove_ended (running s) with
      | None => None
      | Some r =>
        let '(o1, fl, fc, rc) := drain (cf_fail_fast c) (msgs s) (add_slot (flow s)) (fcount s) (rcount s) in
        let '(s', o2) := loop_top (upd s (qS s) (qC s) fl r [] fc rc (now s) Awaiting) in
        Some (s', o1 ++ o2)
      end
    | Done => None
    end
  | LAttStart k =>
    match set_phase k Dispatched Opened (running s) with
    | Some (e, r) => Some (upd s (qS s) (qC s) (flow s) r (msgs s) (fcount s) (rcount s) (now s) (pc s),
                           [scen_ev e ScStarted])
    | None => None
    end
  | LAttEv k x =>
    if is_middle x then
      match find_open k (running s) with
      | Some e => Some (s, [scen_ev e x])
      | None => None
      end
    else None
  | LAttEnd k failed =>
    match set_phase k Opened Ended (running s) with
    | Some (e, r) =>
      let nt := next_try e failed (now s) in
      let '(qs, qc) := match nt with
                       | Some e' => if e_serial e' then (e' :: qS s, qC s) else (qS s, e' :: qC s)
                       | None => (qS s, qC s)
                       end in
      Some (upd s qs qc (flow s) r
                (msgs s ++ [mk_msg (e_f e) (e_r e) (e_nf e) (e_nr e) failed (is_some nt)])
                (fcount s) (rcount s) (now s) (pc s),
            [scen_ev e ScFinished])
    | None => None
    end
  | LTick d => Some (upd s (qS s) (qC s) (flow s) (running s) (msgs s) (fcount s) (rcount s) (now s + d) (pc s), [])
  end.

Fixpoint exec_from (c : cfg) (s : st) (ls : list label) : option (st * list ev) :=
  match ls with
  | [] => Some (s, [])
  | l :: t =>
    match step c s l with
    | Some (s', o) => match exec_from c s' t with Some (s'', o') => Some (s'', o ++ o') | None => None end
    | None => None
    end
  end.
Definition exec (c : cfg) (ls : list label) := exec_from c (init_st c) ls.
