(* ReportersSpec.v — what C14 demands of a parsed-back report: "every executed step, failed hook and
   parser error appears exactly once under its feature / rule / scenario with the right status, and nothing
   that did not happen appears"; totals and verdict agree with the entries. Written over the event stream,
   independently of Model/Reporters.v. *)
From CV Require Import Model.Base Model.Events Model.Stats Model.StatsSpec Model.Reporters.

(* a fact = [kind; feature; rule?; rule; scenario; attempt; step; background?; status] with
   kind 1 step result, 2 failed hook, 3 parser error, 4 passed hook *)
Definition fact := list N.
Definition fact_eqb : fact -> fact -> bool := list_eqb N.eqb.

Definition st_status (x : stepev) : option N :=
  match x with StPassed => Some 1 | StFailed _ => Some 2 | StSkipped => Some 3 | StStarted => None end.
Definition ropt (r : option N) : list N := match r with Some x => [1; x] | None => [0; 0] end.

Definition cur_of_retr (rt : retr) : N := match rt with Some (c, _) => c | None => 0 end.
Definition is_finished_ev (e : ev) : bool := match e with EvFinished => true | _ => false end.

Definition facts_of_event (with_attempt : bool) (e : ev) : list fact :=
  match e with
  | EvParseErr i => [[3; 0; 0; 0; i; 0; 0; 0; 2]]
  | EvScen f r s rt (ScHook b (HFailed _)) =>
    [[2; f] ++ ropt r ++ [s; (if with_attempt then cur_of_retr rt else 0); 0; (if b then 1 else 0); 2]]
  | EvScen f r s rt (ScBg st x) =>
    match st_status x with
    | Some k => [[1; f] ++ ropt r ++ [s; (if with_attempt then cur_of_retr rt else 0); st; 1; k]]
    | None => []
    end
  | EvScen f r s rt (ScStep st x) =>
    match st_status x with
    | Some k => [[1; f] ++ ropt r ++ [s; (if with_attempt then cur_of_retr rt else 0); st; 0; k]]
    | None => []
    end
  | _ => []
  end.

Definition stream_facts (with_attempt : bool) (es : list ev) : list fact :=
  flat_map (facts_of_event with_attempt) (before_finished es).

(* multiset equality of fact lists *)
Fixpoint remove1 (x : fact) (l : list fact) : option (list fact) :=
  match l with
  | [] => None
  | y :: t => if fact_eqb x y then Some t else match remove1 x t with Some t' => Some (y :: t') | None => None end
  end.
Fixpoint same_multiset (a b : list fact) : bool :=
  match a with
  | [] => match b with [] => true | _ => false end
  | x :: t => match remove1 x b with Some b' => same_multiset t b' | None => false end
  end.

(* ---------- Libtest ---------- *)
Definition nth0 (l : list N) (i : nat) : N := nth i l 0.
(* fact of a result line, from its name tuple (see Reporters.lt_name) *)
Definition lt_fact (kind : N) (nm : list N) : list fact :=
  let what := nth0 nm 8 in
  if what =? 4 then (if kind =? 2 then [[3; 0; 0; 0; 0; 0; 0; 0; 2]] else [])
  else
    let base := [nth0 nm 0; nth0 nm 2; nth0 nm 3; nth0 nm 4; nth0 nm 6] in
    if (what =? 2) || (what =? 3) then
      (if kind =? 2 then [[2] ++ base ++ [0; (if what =? 2 then 1 else 0); 2]] else [])
    else
      match kind with
      | 1 => [[1] ++ base ++ [nth0 nm 9; what; 1]]
      | 2 => [[1] ++ base ++ [nth0 nm 9; what; 2]]
      | 3 => [[1] ++ base ++ [nth0 nm 9; what; 3]]
      | _ => []
      end.
Definition libtest_facts (rfs : list rf) : list fact :=
  flat_map (fun r => match r with RTest k nm => lt_fact k nm | _ => [] end) rfs.
(* parser-error facts carry no id in libtest names: compare them by count *)
Definition anon_parse (f : fact) : fact := match f with 3 :: _ => [3; 0; 0; 0; 0; 0; 0; 0; 2] | _ => f end.

(* every `started` line has exactly one result line with the same name, after it; every result line has its
   started line (pass-through entries such as parser errors may legitimately come in between) *)
Fixpoint remove_name (nm : list N) (l : list (list N)) : option (list (list N)) :=
  match l with
  | [] => None
  | x :: t => if list_eqb N.eqb nm x then Some t
              else match remove_name nm t with Some t' => Some (x :: t') | None => None end
  end.
Fixpoint lt_paired_ms (open : list (list N)) (rfs : list rf) : bool :=
  match rfs with
  | [] => match open with [] => true | _ => false end
  | RTest 0 nm :: t => lt_paired_ms (nm :: open) t
  | RTest _ nm :: t => match remove_name nm open with Some o => lt_paired_ms o t | None => false end
  | _ :: t => lt_paired_ms open t
  end.
Definition lt_paired (_ : option (list N)) (rfs : list rf) : bool := lt_paired_ms [] rfs.

Definition lt_count_kind (k : N) (rfs : list rf) : N :=
  N.of_nat (length (filter (fun r => match r with RTest k' _ => k' =? k | _ => false end) rfs)).

(* suite totals agree with the entries: passed = ok lines, ignored = ignored lines, failed = failed lines
   that are not retried step failures; verdict ok iff that total is 0 *)
Definition lt_totals_ok (es : list ev) (rfs : list rf) : bool :=
  let retried := count is_step_failed_retried (before_finished es) in
  forallb (fun r => match r with
                    | RSuiteResult ok p f i =>
                      (p =? lt_count_kind 1 rfs) && (i =? lt_count_kind 3 rfs)
                      && (f + retried =? lt_count_kind 2 rfs) && Bool.eqb ok (f =? 0)
                    | _ => true end) rfs
  && (N.of_nat (length (filter (fun r => match r with RSuiteResult _ _ _ _ => true | _ => false end) rfs))
      =? (if existsb is_finished_ev es then 1 else 0)).

Definition c14_libtest_ok (es : list ev) (rfs : list rf) : bool :=
  same_multiset (map anon_parse (stream_facts true es)) (libtest_facts rfs)
  && lt_paired None rfs && lt_totals_ok es rfs.

(* ---------- Cucumber JSON ---------- *)
Fixpoint json_facts (cur_f : N) (cur_el : option (option N * N * N)) (rfs : list rf) : list fact :=
  match rfs with
  | [] => []
  | RJFeature _ f :: t => json_facts f None t
  | RJElement r s ty :: t => json_facts cur_f (Some (r, s, ty)) t
  | RJStep line status :: t =>
    match cur_el with
    | Some (r, s, ty) =>
      (if cur_f =? 0 then [3; 0; 0; 0; line; 0; 0; 0; 2]
       else [1; cur_f] ++ ropt r ++ [s; 0; line; ty;
                                     (match status with 0 => 1 | 2 => 3 | _ => 2 end)]) :: json_facts cur_f cur_el t
    | None => [99] :: json_facts cur_f cur_el t
    end
  | RJHook b status :: t =>
    match cur_el with
    | Some (r, s, _) =>
      (if status =? 0 then [] else [[2; cur_f] ++ ropt r ++ [s; 0; 0; (if b then 1 else 0); 2]]) ++ json_facts cur_f cur_el t
    | None => [99] :: json_facts cur_f cur_el t
    end
  | _ :: t => json_facts cur_f cur_el t
  end.
(* each feature / element appears once *)
Fixpoint nodup_facts (l : list fact) : bool :=
  match l with [] => true | x :: t => negb (existsb (fact_eqb x) t) && nodup_facts t end.
Definition json_containers (rfs : list rf) : list fact :=
  let fix go (cur_f : N) (l : list rf) : list fact :=
    match l with
    | [] => []
    | RJFeature _ f :: t => (if f =? 0 then [] else [[10; f]]) ++ go f t
    | RJElement r s ty :: t => (if cur_f =? 0 then [] else [[11; cur_f] ++ ropt r ++ [s; ty]]) ++ go cur_f t
    | _ :: t => go cur_f t
    end in go 0 rfs.
Definition c14_json_ok (es : list ev) (rfs : list rf) : bool :=
  if existsb (fun e => match e with EvFinished => true | _ => false end) es then
    same_multiset (stream_facts false es) (json_facts 0 None rfs) && nodup_facts (json_containers rfs)
  else match rfs with [] => true | _ => false end.

(* ---------- terminal lines ---------- *)
(* facts of a listing: lines are attributed to the scenario header above them *)
Fixpoint line_facts (cur_s : N) (cur_a : N) (rfs : list rf) : list fact :=
  match rfs with
  | [] => []
  | RLScenario s rt :: t => line_facts s (match rt with Some (c, _) => c | None => 0 end) t
  | RCase _ s _ :: t => line_facts cur_s cur_a t
  | RLStep m bg st :: t => [1; cur_s; cur_a; st; (if bg then 1 else 0); m] :: line_facts cur_s cur_a t
  | RLHookFailed b s :: t => [2; s; cur_a; 0; (if b then 1 else 0); 2] :: line_facts cur_s cur_a t
  | RLParseErr :: t => [3] :: line_facts cur_s cur_a t
  | _ :: t => line_facts cur_s cur_a t
  end.
Definition stream_line_facts (es : list ev) : list fact :=
  flat_map (fun e => match e with
    | EvParseErr _ => [[3]]
    | EvScen _ _ s rt (ScHook b (HFailed _)) => [[2; s; (match rt with Some (c, _) => c | None => 0 end); 0; (if b then 1 else 0); 2]]
    | EvScen _ _ s rt (ScBg st x) =>
      match st_status x with Some k => [[1; s; (match rt with Some (c, _) => c | None => 0 end); st; 1; k]] | None => [] end
    | EvScen _ _ s rt (ScStep st x) =>
      match st_status x with Some k => [[1; s; (match rt with Some (c, _) => c | None => 0 end); st; 0; k]] | None => [] end
    | _ => [] end) (before_finished es).
Definition c14_basic_ok (es : list ev) (rfs : list rf) : bool :=
  same_multiset (stream_line_facts es) (line_facts 0 0 rfs).

(* ---------- JUnit ---------- *)
(* one testcase per finished attempt, in order, classified by its outcome; one Errors suite per parser
   error; the listings state the attempts' step results *)
Definition attempt_outcomes (es : list ev) : list (option N * N * N) :=
  let fix go (seen : list ev) (l : list ev) : list (option N * N * N) :=
    match l with
    | [] => []
    | EvScen f r s rt ScFinished :: t =>
      let mine := flat_map (fun e => match e with
                                     | EvScen f' r' s' rt' x =>
                                       if (s' =? s) && retr_eqb rt rt' && (f' =? f) then [x] else []
                                     | _ => [] end) seen in
      (r, s, junit_status mine) :: go seen t
    | e :: t => go (seen ++ [e]) t
    end in go [] (before_finished es).
Definition junit_cases (rfs : list rf) (errors : bool) : list (option N * N * N) :=
  let fix go (in_err : bool) (l : list rf) :=
    match l with
    | [] => []
    | RSuite e _ :: t => go e t
    | RCase r s st :: t => (if Bool.eqb in_err errors then [(r, s, st)] else []) ++ go in_err t
    | _ :: t => go in_err t
    end in go false rfs.
Definition case_eqb (a b : option N * N * N) : bool :=
  match a, b with (r, s, x), (r', s', x') => option_eqb N.eqb r r' && (s =? s') && (x =? x') end.
Definition case_fact (c : option N * N * N) : fact := match c with (r, s, x) => ropt r ++ [s; x] end.
Definition c14_junit_ok (es : list ev) (rfs : list rf) : bool :=
  if existsb (fun e => match e with EvFinished => true | _ => false end) es then
    (* one testcase per finished attempt with its classification; the report lists them in normalized order *)
    same_multiset (map case_fact (junit_cases rfs false)) (map case_fact (attempt_outcomes es))
    && list_eqb N.eqb (map (fun c => snd (fst c)) (junit_cases rfs true))
                      (flat_map (fun e => match e with EvParseErr i => [i] | _ => [] end) (before_finished es))
    && same_multiset (filter (fun f => match f with 3 :: _ => false | _ => true end) (stream_line_facts es))
                     (line_facts 0 0 rfs)
  else match rfs with [] => true | _ => false end.
