(* Normalize.v — model of writer::Normalize (src/writer/normalize.rs).
   Nested FIFO queues (LinkedHashMap = association list in insertion order):
     CucumberQueue : feature id  -> FeatureQueue
     FeatureQueue  : KRule r | KScen (s, retries) -> RulesQueue | ScenariosQueue
     RulesQueue    : (s, retries) -> ScenariosQueue
   Each Queue has `initial` (metadata of its Started event, taken when emitted) and a
   FinishedState.  Executable; no proofs here. *)
From CV Require Import Model.Base Model.Events.

Inductive fstate := NotFinished | FinNotEmitted (m : N) | FinEmitted.

Definition akey := (N * retr)%type.                    (* (scenario, retries) *)
Definition aev := (N * scev)%type.                     (* (metadata, scenario event) *)
Inductive ikey := KRule (r : N) | KScen (k : akey).

Record rqueue := mk_rq { rq_init : option N; rq_state : fstate; rq_atts : list (akey * list aev) }.
Inductive item := IRule (q : rqueue) | IScen (evs : list aev).
Record fqueue := mk_fq { fq_init : option N; fq_state : fstate; fq_items : list (ikey * item) }.
Record nstate := mk_ns { ns_feats : list (N * fqueue); ns_state : fstate }.

Definition akey_eqb (a b : akey) : bool := (fst a =? fst b) && retr_eqb (snd a) (snd b).
Definition ikey_eqb (a b : ikey) : bool :=
  match a, b with
  | KRule r1, KRule r2 => r1 =? r2
  | KScen k1, KScen k2 => akey_eqb k1 k2
  | _, _ => false
  end.

(* association-list versions of the LinkedHashMap operations *)
Fixpoint aremove {K V} (eqb : K -> K -> bool) (k : K) (l : list (K * V)) : list (K * V) :=
  match l with
  | [] => []
  | (k', v) :: t => if eqb k k' then aremove eqb k t else (k', v) :: aremove eqb k t
  end.
(* `insert`: an existing key is replaced and moved to the back *)
Definition ainsert {K V} (eqb : K -> K -> bool) (k : K) (v : V) (l : list (K * V)) : list (K * V) :=
  aremove eqb k l ++ [(k, v)].
(* `get_mut(k).map(f)`: in place; the real code panics when the key is absent (contract violation) *)
Fixpoint amodify {K V} (eqb : K -> K -> bool) (k : K) (f : V -> V) (l : list (K * V)) : list (K * V) :=
  match l with
  | [] => []
  | (k', v) :: t => if eqb k k' then (k', f v) :: t else (k', v) :: amodify eqb k f t
  end.
(* `entry(k).or_insert_with(d)` followed by an update: in place, or appended *)
Fixpoint aupsert {K V} (eqb : K -> K -> bool) (k : K) (f : option V -> V) (l : list (K * V)) : list (K * V) :=
  match l with
  | [] => [(k, f None)]
  | (k', v) :: t => if eqb k k' then (k', f (Some v)) :: t else (k', v) :: aupsert eqb k f t
  end.

Definition new_rq (m : N) := mk_rq (Some m) NotFinished [].
Definition new_fq (m : N) := mk_fq (Some m) NotFinished [].
Definition ninit : nstate := mk_ns [] NotFinished.

Definition set_fq_state (q : fqueue) (st : fstate) := mk_fq (fq_init q) st (fq_items q).
Definition set_fq_items (q : fqueue) (l : list (ikey * item)) := mk_fq (fq_init q) (fq_state q) l.
Definition set_rq_state (q : rqueue) (st : fstate) := mk_rq (rq_init q) st (rq_atts q).
Definition set_rq_atts (q : rqueue) (l : list (akey * list aev)) := mk_rq (rq_init q) (rq_state q) l.
Definition set_feats (s : nstate) (l : list (N * fqueue)) := mk_ns l (ns_state s).

Definition push_ev (e : aev) (o : option (list aev)) : list aev :=
  match o with None => [e] | Some es => es ++ [e] end.

(* the `match event` of handle_event (95-132) for events that are queued *)
Definition enqueue (s : nstate) (e : mev) : nstate :=
  let m := fst e in
  match snd e with
  | EvStarted | EvParsingFinished _ _ _ _ _ | EvParseErr _ => s
  | EvFinished => mk_ns (ns_feats s) (FinNotEmitted m)
  | EvFeatS f => set_feats s (ainsert N.eqb f (new_fq m) (ns_feats s))
  | EvFeatF f => set_feats s (amodify N.eqb f (fun q => set_fq_state q (FinNotEmitted m)) (ns_feats s))
  | EvRuleS f r =>
    set_feats s (amodify N.eqb f (fun q =>
      set_fq_items q (ainsert ikey_eqb (KRule r) (IRule (new_rq m)) (fq_items q))) (ns_feats s))
  | EvRuleF f r =>
    set_feats s (amodify N.eqb f (fun q =>
      set_fq_items q (amodify ikey_eqb (KRule r) (fun it =>
        match it with IRule rq => IRule (set_rq_state rq (FinNotEmitted m)) | x => x end) (fq_items q)))
      (ns_feats s))
  | EvScen f None sc rt x =>
    set_feats s (amodify N.eqb f (fun q =>
      set_fq_items q (aupsert ikey_eqb (KScen (sc, rt)) (fun o =>
        match o with
        | Some (IScen es) => IScen (es ++ [(m, x)])
        | _ => IScen [(m, x)]
        end) (fq_items q))) (ns_feats s))
  | EvScen f (Some r) sc rt x =>
    set_feats s (amodify N.eqb f (fun q =>
      set_fq_items q (amodify ikey_eqb (KRule r) (fun it =>
        match it with
        | IRule rq => IRule (set_rq_atts rq (aupsert akey_eqb (sc, rt) (push_ev (m, x)) (rq_atts rq)))
        | x => x
        end) (fq_items q))) (ns_feats s))
  end.

Definition is_sc_finished (x : scev) : bool := match x with ScFinished => true | _ => false end.
Definition mk_scen (f : N) (r : option N) (k : akey) (e : aev) : mev :=
  (fst e, EvScen f r (fst k) (snd k) (snd e)).

(* ScenariosQueue::emit (808-836): drain in order; stop right after a Finished.
   Returns (emitted, remaining, finished?) *)
Fixpoint emit_att (f : N) (r : option N) (k : akey) (es : list aev) : list mev * list aev * bool :=
  match es with
  | [] => ([], [], false)
  | e :: t =>
    if is_sc_finished (snd e) then ([mk_scen f r k e], t, true)
    else let '(o, rest, b) := emit_att f r k t in (mk_scen f r k e :: o, rest, b)
  end.

(* the `while let Some(..) = self.current_item()` loop of RulesQueue::emit (744-757): a finished
   head attempt is removed (whatever is still queued behind its Finished is dropped with it) *)
Fixpoint emit_atts (f r : N) (l : list (akey * list aev)) : list mev * list (akey * list aev) :=
  match l with
  | [] => ([], [])
  | (k, es) :: t =>
    let '(o, rest, b) := emit_att f (Some r) k es in
    if b then let '(o2, l2) := emit_atts f r t in (o ++ o2, l2)
    else (o, (k, rest) :: t)
  end.

Definition take_fin (st : fstate) : option N * fstate :=
  match st with FinNotEmitted m => (Some m, FinEmitted) | x => (None, x) end.

Definition init_evs (i : option N) (e : ev) : list mev := match i with Some m => [(m, e)] | None => [] end.

(* RulesQueue::emit (726-771) *)
Definition emit_rule (f r : N) (rq : rqueue) : list mev * rqueue * bool :=
  let o1 := init_evs (rq_init rq) (EvRuleS f r) in
  let '(o2, atts) := emit_atts f r (rq_atts rq) in
  match take_fin (rq_state rq) with
  | (Some m, st) => (o1 ++ o2 ++ [(m, EvRuleF f r)], mk_rq None st atts, true)
  | (None, st) => (o1 ++ o2, mk_rq None st atts, false)
  end.

(* the `while let Some(..) = events.emit(..)` loop of CucumberQueue::emit over FeatureQueue::emit *)
Fixpoint emit_items (f : N) (l : list (ikey * item)) : list mev * list (ikey * item) :=
  match l with
  | [] => ([], [])
  | (KRule r, IRule rq) :: t =>
    let '(o, rq', b) := emit_rule f r rq in
    if b then let '(o2, l2) := emit_items f t in (o ++ o2, l2)
    else (o, (KRule r, IRule rq') :: t)
  | (KScen k, IScen es) :: t =>
    let '(o, rest, b) := emit_att f None k es in
    if b then let '(o2, l2) := emit_items f t in (o ++ o2, l2)
    else (o, (KScen k, IScen rest) :: t)
  | x :: t => ([], x :: t)             (* key/value kinds disagree: `unreachable!()` in the code *)
  end.

(* CucumberQueue::emit (531-563) for the head feature *)
Definition emit_feat (f : N) (q : fqueue) : list mev * fqueue * bool :=
  let o1 := init_evs (fq_init q) (EvFeatS f) in
  let '(o2, items) := emit_items f (fq_items q) in
  match take_fin (fq_state q) with
  | (Some m, st) => (o1 ++ o2 ++ [(m, EvFeatF f)], mk_fq None st items, true)
  | (None, st) => (o1 ++ o2, mk_fq None st items, false)
  end.

(* the `while let Some(feature_to_remove) = self.queue.emit(..)` loop of handle_event (134-138) *)
Fixpoint emit_feats (l : list (N * fqueue)) : list mev * list (N * fqueue) :=
  match l with
  | [] => ([], [])
  | (f, q) :: t =>
    let '(o, q', b) := emit_feat f q in
    if b then let '(o2, l2) := emit_feats t in (o ++ o2, l2)
    else (o, (f, q') :: t)
  end.

Definition is_emitted (st : fstate) : bool := match st with FinEmitted => true | _ => false end.
Definition is_pass (e : ev) : bool :=
  match e with EvStarted | EvParsingFinished _ _ _ _ _ | EvParseErr _ => true | _ => false end.

(* one `handle_event` call: new state, events handed to the inner writer (in order) *)
Definition nhandle (s : nstate) (e : mev) : nstate * list mev :=
  if is_emitted (ns_state s) then (s, [e]) else
  let o0 := if is_pass (snd e) then [e] else [] in
  let s1 := enqueue s e in
  let '(o1, fs) := emit_feats (ns_feats s1) in
  match take_fin (ns_state s1) with
  | (Some m, st) => (mk_ns fs st, o0 ++ o1 ++ [(m, EvFinished)])
  | (None, st) => (mk_ns fs st, o0 ++ o1)
  end.

Fixpoint nrun_from (s : nstate) (es : list mev) : list (list mev) :=
  match es with
  | [] => []
  | e :: t => let '(s', o) := nhandle s e in o :: nrun_from s' t
  end.
Definition nrun (es : list mev) : list (list mev) := nrun_from ninit es.

(* everything buffered, flattened in the order it would be emitted *)
Definition fin_evs (st : fstate) (e : ev) : list mev := match st with FinNotEmitted m => [(m, e)] | _ => [] end.
Definition att_evs (f : N) (r : option N) (ka : akey * list aev) : list mev := map (mk_scen f r (fst ka)) (snd ka).
Definition item_evs (f : N) (ki : ikey * item) : list mev :=
  match ki with
  | (KRule r, IRule rq) =>
    init_evs (rq_init rq) (EvRuleS f r) ++ flat_map (att_evs f (Some r)) (rq_atts rq) ++ fin_evs (rq_state rq) (EvRuleF f r)
  | (KScen k, IScen es) => att_evs f None (k, es)
  | _ => []
  end.
Definition feat_evs (fq : N * fqueue) : list mev :=
  init_evs (fq_init (snd fq)) (EvFeatS (fst fq)) ++ flat_map (item_evs (fst fq)) (fq_items (snd fq))
  ++ fin_evs (fq_state (snd fq)) (EvFeatF (fst fq)).
Definition pending (s : nstate) : list mev := flat_map feat_evs (ns_feats s) ++ fin_evs (ns_state s) EvFinished.
