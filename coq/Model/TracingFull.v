(* TracingFull.v — the log-forwarding PROTOCOL (Tracing.v) and the ATTRIBUTION of an event to a scenario (TracingAttr.v)
   in ONE transition system, so that "a log is delivered to the scenario attempt that emitted it, exactly once, before
   its step's result" can be stated about one run. A layer over both models, which are left untouched:
     - the state carries a `Tracing.tstate` (channels, forwarder), a `TracingAttr.tbl` (span table), the collector's
       registry `TracingAttr.regt`, and the runner's bookkeeping: the attempt span of every id ever registered, the
       attempt id of every step / hook span, the step / hook spans whose result event is out;
     - an event logged in span y is FORMATTED when it is emitted (`scope_lookup (Some y)`, the id of the outermost span
       of its scope that has one) and queued with that resolved id; the forwarder hands a queued log to
       `recipients registry k` AT THE MOMENT IT FORWARDS IT;
     - the runner's order: an attempt's id is registered when its span is created (`FAttempt`), its step / hook spans
       are created directly below that span while the id is registered (`FStepSpan`), and the id is removed
       (`FFinish`, finish_scenario) only when every step / hook span recorded for it has had its result event.
   Not modelled (see Proofs/TracingFullP.v, last section): the granularity of `TFwd` (one forwarder run drains the whole
   queue against ONE registry), After-hook ordering of Started events (TracingStart.v), span ids being reused.
   Executable; no proofs here. *)
From CV Require Import Model.Base Model.Events Model.Tracing Model.TracingAttr.

(* the resolved id travels in the `scen` field of the protocol's log: 0 = nothing resolved, id + 1 = resolved to id *)
Definition enc (k : option N) : N := match k with Some id => id + 1 | None => 0 end.
Definition dec (n : N) : option N := if n =? 0 then None else Some (n - 1).

Inductive flabel :=
| FAttempt (sid sc : N) (rt : retr) (a : N) (p : option N)
    (* start_scenarios + the `scenario` span: register the fresh id sid -> (sc, rt); create span a under p carrying sid *)
| FStepSpan (x sid : N)              (* the span x of a step or hook of attempt sid, directly below the attempt's span *)
| FSpan (y : N) (p id : option N)    (* any other span, below an existing one or a root: user spans, nested `scenario` spans (own id) *)
| FEmit (m y x : N)                  (* an event with message m logged in span y; the result of span x (at or above y) waits for it *)
| FBase (b : tlabel)                 (* TClose x | TSub x | TFwd | TResult x of the protocol (TEmit only through FEmit) *)
| FFinish (sid : N).                 (* finish_scenario: the Finished event of the attempt is out, the id is removed *)

Inductive fout := FDeliver (sc : N) (rt : retr) (m : N) | FRes (span : N).

Record fstate := mk_fs {
  f_base : tstate;
  f_tbl : tbl;
  f_reg : regt;
  f_att : list (N * N);               (* id -> the attempt's span; every id ever registered (never removed) *)
  f_steps : list (N * N);             (* step / hook span -> the id of its attempt *)
  f_done : list N }.                  (* spans whose result event has been emitted *)

Definition finit : fstate := mk_fs tinit [] [] [] [] [].

(* a span created with its id (`on_new_span`): the two records of TracingAttr.v, one after the other *)
Definition new_span (t : tbl) (x : N) (p : option N) (id : option N) : tbl :=
  match id with
  | Some k => tbl_step (tbl_step t (ANewSpan x p)) (ASpanSid x k)
  | None => tbl_step t (ANewSpan x p)
  end.

(* y is x or a descendant of x, and both are in the table *)
Fixpoint below_b (fuel : nat) (t : tbl) (y x : N) : bool :=
  match fuel with
  | O => false
  | S k =>
    match alookup y t with
    | None => false
    | Some s => (y =? x) || match sp_parent s with Some p => below_b k t p x | None => false end
    end
  end.

(* what the forwarder's output becomes: one Log event per recipient, by the registry of THAT moment *)
Definition deliver (r : regt) (o : tout) : list fout :=
  match o with
  | TLog k m => map (fun e => FDeliver (fst e) (snd e) m) (recipients r (dec k))
  | TRes x => [FRes x]
  end.

Definition run_base (s : fstate) (b : tlabel) : option (fstate * list fout) :=
  match tstep (f_base s) b with
  | Some (b', o) =>
    Some (mk_fs b' (f_tbl s) (f_reg s) (f_att s) (f_steps s)
                (match b with TResult x => x :: f_done s | _ => f_done s end),
          flat_map (deliver (f_reg s)) o)
  | None => None
  end.

(* the protocol label a layer label stands for, in state s *)
Definition base_of (s : fstate) (l : flabel) : list tlabel :=
  match l with
  | FEmit m y x => [TEmit (enc (scope_lookup (f_tbl s) (Some y))) m x]
  | FBase b => [b]
  | _ => []
  end.

(* every step / hook span recorded for sid has had its result *)
Definition steps_done (s : fstate) (sid : N) : bool :=
  forallb (fun e => negb (snd e =? sid) || memN (fst e) (f_done s)) (f_steps s).

Definition fstep (s : fstate) (l : flabel) : option (fstate * list fout) :=
  match l with
  | FAttempt sid sc rt a p =>
    if negb (is_some (alookup sid (f_att s))) && rec_wf (f_tbl s) (ANewSpan a p)
       && negb (is_some (scope_lookup (f_tbl s) p))
    then Some (mk_fs (f_base s) (new_span (f_tbl s) a p (Some sid)) (reg_insert sid sc rt (f_reg s))
                     ((sid, a) :: f_att s) (f_steps s) (f_done s), [])
    else None
  | FStepSpan x sid =>
    match alookup sid (f_att s) with
    | Some a =>
      if is_some (alookup sid (f_reg s)) && rec_wf (f_tbl s) (ANewSpan x (Some a))
      then Some (mk_fs (f_base s) (new_span (f_tbl s) x (Some a) None) (f_reg s) (f_att s)
                       ((x, sid) :: f_steps s) (f_done s), [])
      else None
    | None => None
    end
  | FSpan y p id =>
    if rec_wf (f_tbl s) (ANewSpan y p)
    then Some (mk_fs (f_base s) (new_span (f_tbl s) y p id) (f_reg s) (f_att s) (f_steps s) (f_done s), [])
    else None
  | FEmit m y x =>
    if below_b (length (f_tbl s)) (f_tbl s) y x then run_base s (TEmit (enc (scope_lookup (f_tbl s) (Some y))) m x)
    else None
  | FBase (TEmit _ _ _) => None
  | FBase b => run_base s b
  | FFinish sid =>
    if is_some (alookup sid (f_reg s)) && steps_done s sid
    then Some (mk_fs (f_base s) (f_tbl s) (reg_remove sid (f_reg s)) (f_att s) (f_steps s) (f_done s), [])
    else None
  end.

Fixpoint fexec (s : fstate) (ls : list flabel) : option (fstate * list fout) :=
  match ls with
  | [] => Some (s, [])
  | l :: t =>
    match fstep s l with
    | Some (s1, o) => match fexec s1 t with Some (s2, o2) => Some (s2, o ++ o2) | None => None end
    | None => None
    end
  end.

(* the executable projection onto the protocol: the labels of Tracing.texec a run of the layer performs *)
Fixpoint fproj (s : fstate) (ls : list flabel) : list tlabel :=
  match ls with
  | [] => []
  | l :: t => base_of s l ++ match fstep s l with Some (s1, _) => fproj s1 t | None => [] end
  end.

(* the executable projection onto the attribution model: the records of TracingAttr.v a run of the layer performs *)
Definition recs_of (s : fstate) (l : flabel) : list arec :=
  match l with
  | FAttempt sid sc rt a p => [AReg sid sc rt; ANewSpan a p; ASpanSid a sid]
  | FStepSpan x sid => match alookup sid (f_att s) with Some a => [ANewSpan x (Some a)] | None => [] end
  | FSpan y p id => ANewSpan y p :: match id with Some k => [ASpanSid y k] | None => [] end
  | FFinish sid => [AUnreg sid]
  | _ => []
  end.
Fixpoint frecs (s : fstate) (ls : list flabel) : list arec :=
  match ls with
  | [] => []
  | l :: t => recs_of s l ++ match fstep s l with Some (s1, _) => frecs s1 t | None => [] end
  end.

(* the message ids of the events logged in a run *)
Definition fmsgs (ls : list flabel) : list N :=
  flat_map (fun l => match l with FEmit m _ _ => [m] | _ => [] end) ls.

(* the deliveries of message m, in order *)
Definition dels (m : N) (out : list fout) : list fout :=
  filter (fun o => match o with FDeliver _ _ m' => m' =? m | FRes _ => false end) out.

(* the queued logs carrying message m *)
Definition queued (m : N) (s : fstate) : list log :=
  filter (fun lg => l_msg lg =? m) (t_logs (f_base s)).
