(* Base.v — shared vocabulary of all models: strings as code-point lists,
   decidable equalities, small list utilities.  No proofs about the models here. *)
From Coq Require Export List NArith Bool Ascii String.
Export ListNotations.
Open Scope N_scope.
(* `String` is exported for literals only; `length` always means the list one. *)
Notation length := List.length (only parsing).
Notation concat := List.concat (only parsing).

(* A Rust `String`/`&str` is modelled as the list of its Unicode scalar values. *)
Definition str := list N.

Definition lit (s : string) : str :=
  List.map N_of_ascii (list_ascii_of_string s).

Fixpoint list_eqb {A} (eqb : A -> A -> bool) (a b : list A) : bool :=
  match a, b with
  | [], [] => true
  | x :: a', y :: b' => eqb x y && list_eqb eqb a' b'
  | _, _ => false
  end.

Definition str_eqb : str -> str -> bool := list_eqb N.eqb.

Definition option_eqb {A} (eqb : A -> A -> bool) (a b : option A) : bool :=
  match a, b with
  | None, None => true
  | Some x, Some y => eqb x y
  | _, _ => false
  end.

Definition pair_eqb {A B} (ea : A -> A -> bool) (eb : B -> B -> bool)
  (a b : A * B) : bool := ea (fst a) (fst b) && eb (snd a) (snd b).

(* `str::strip_prefix` *)
Fixpoint strip_prefix (p s : str) : option str :=
  match p with
  | [] => Some s
  | c :: p' =>
    match s with
    | [] => None
    | d :: s' => if N.eqb c d then strip_prefix p' s' else None
    end
  end.

(* `str::split_once(char)`: split at the FIRST occurrence of `c`. *)
Fixpoint split_once (c : N) (s : str) : option (str * str) :=
  match s with
  | [] => None
  | d :: s' =>
    if N.eqb d c then Some ([], s')
    else match split_once c s' with
         | None => None
         | Some (a, b) => Some (d :: a, b)
         end
  end.

Definition mem_str (x : str) (l : list str) : bool := existsb (str_eqb x) l.

(* `Iterator::find_map` *)
Fixpoint find_map {A B} (f : A -> option B) (l : list A) : option B :=
  match l with
  | [] => None
  | x :: l' => match f x with Some y => Some y | None => find_map f l' end
  end.

Definition or_else {A} (a : option A) (b : option A) : option A :=
  match a with Some _ => a | None => b end.

Definition unwrap_or {A} (a : option A) (d : A) : A :=
  match a with Some x => x | None => d end.

Definition is_some {A} (a : option A) : bool :=
  match a with Some _ => true | None => false end.

(* Association lists with N keys *)
Fixpoint alookup {V} (k : N) (l : list (N * V)) : option V :=
  match l with
  | [] => None
  | (k', v) :: l' => if N.eqb k k' then Some v else alookup k l'
  end.

Fixpoint slookup {V} (k : str) (l : list (str * V)) : option V :=
  match l with
  | [] => None
  | (k', v) :: l' => if str_eqb k k' then Some v else slookup k l'
  end.
