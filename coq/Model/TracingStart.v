(* TracingStart.v — the log-forwarding protocol (Tracing.v) together with the STARTED events of the steps and hooks
   whose spans the logs are emitted in, so that "a log is delivered after the Started event of the step or hook that
   emitted it" can be stated. A layer on top of Tracing.tstep (which is left untouched):
     - the runner emits the Started event of a step or Before hook BEFORE it runs its body: a log can only be emitted
       inside a span whose Started event is out, and the result event follows the Started event;
     - for an AFTER hook the runner runs the body first and emits Started and the result only afterwards
       (src/runner/basic.rs:1404-1450, 1711-1727): its Started event is emitted when the hook's span has been
       released, and logs may be emitted inside the span before that. `is_after` says which spans are After-hook spans.
   Executable; no proofs here. *)
From CV Require Import Model.Base Model.Tracing.

Inductive tlabel2 := LBase (l : tlabel) | LStart (span : N).
Inductive tout2 := OBase (o : tout) | OStart (span : N).
Record tstate2 := mk_ts2 { t2_base : tstate; t2_started : list N }.
Definition tinit2 : tstate2 := mk_ts2 tinit [].

Section Start.
  Variable is_after : N -> bool.

  Definition tstep2 (s : tstate2) (l : tlabel2) : option (tstate2 * list tout2) :=
    match l with
    | LStart x =>
      if memN x (t2_started s) then None
      else if is_after x then
        (if memN x (t_released (t2_base s)) then Some (mk_ts2 (t2_base s) (x :: t2_started s), [OStart x]) else None)
      else
        (if memN x (t_closed (t2_base s)) then None else Some (mk_ts2 (t2_base s) (x :: t2_started s), [OStart x]))
    | LBase b =>
      let ok := match b with
                | TEmit _ _ x => is_after x || memN x (t2_started s)
                | TResult x => memN x (t2_started s)
                | _ => true
                end in
      if ok then
        match tstep (t2_base s) b with
        | Some (s', o) => Some (mk_ts2 s' (t2_started s), map OBase o)
        | None => None
        end
      else None
    end.

  Fixpoint texec2 (s : tstate2) (ls : list tlabel2) : option (tstate2 * list tout2) :=
    match ls with
    | [] => Some (s, [])
    | l :: t =>
      match tstep2 s l with
      | Some (s1, o) => match texec2 s1 t with Some (s2, o2) => Some (s2, o ++ o2) | None => None end
      | None => None
      end
    end.
End Start.
