(* TracingAttr.v — HOW a tracing event is attributed to a scenario (src/tracing.rs: the layer
   `RecordScenarioId` (`on_new_span` / `on_record`), the formatter `AppendScenarioMsg::format_event`, and the
   collector's registry `start_scenarios` / `finish_scenario` / `emitted_logs`).
     - a span table: span -> (parent, the scenario id stored IN THAT SPAN);
     - `scope_lookup`: the id an event resolves to = the id stored in the OUTERMOST span of its scope that has one
       (`ctx.event_scope().from_root().find_map(..)`);
     - the registry id -> (scenario, retries) and `recipients`: who gets a message with a resolved id;
     - the monitor `attr_ok` over the observation records `arec` of a real run.
   Not modelled: span closing / id reuse (the harness numbers spans freshly), message formatting, the
   forwarding protocol itself (Tracing.v). Executable; no proofs here (Proofs/TracingAttrP.v). *)
From CV Require Import Model.Base Model.Events.

Inductive arec :=
| ANewSpan (x : N) (parent : option N)      (* span x created with this parent (None = root); ids are fresh *)
| ASpanSid (x sid : N)                      (* span x carries / is recorded the scenario id sid *)
| AEmit (sc m : N)                          (* harness: a step or hook of scenario sc is about to log message m; the NEXT AFmt is that event *)
| AFmt (scope : option N) (resolved : option N)  (* format_event ran: innermost span of the event's scope; the id THE REAL CODE resolved *)
| AReg (sid sc : N) (rt : retr)             (* start_scenarios: id sid now stands for scenario sc with these retries *)
| AUnreg (sid : N)                          (* finish_scenario *)
| ADeliver (sc : N) (rt : retr) (m : option N).  (* an observed Log event of scenario sc (retries rt) carrying harness message m *)

(* ---- the span table ---- *)
Record span := mk_span { sp_parent : option N; sp_sid : option N }.
Definition tbl := list (N * span).          (* newest first; `alookup` finds the newest entry of a span *)

(* `extensions_mut().replace(id)`: the id is stored in span x only, a later one replaces an earlier one *)
Fixpoint set_sid (x sid : N) (t : tbl) : tbl :=
  match t with
  | [] => []
  | (y, s) :: t' =>
    if x =? y then (y, mk_span (sp_parent s) (Some sid)) :: t' else (y, s) :: set_sid x sid t'
  end.

(* the id of the OUTERMOST span with an id on the path from x up to the root: what the walk finds further up
   takes precedence over the span's own id. A span that is not in the table ends the walk (no id). *)
Fixpoint walk_up (fuel : nat) (t : tbl) (x : N) : option N :=
  match fuel with
  | O => None
  | S k =>
    match alookup x t with
    | None => None
    | Some s =>
      or_else (match sp_parent s with Some p => walk_up k t p | None => None end) (sp_sid s)
    end
  end.

(* WHY `length t` IS ENOUGH FUEL. In a table built from a record list in which every `ANewSpan x p` has x fresh and p
   created earlier, the entry of a span's parent lies strictly DEEPER in the list than the span's own entry
   (`set_sid` changes neither keys nor parents nor the order). So every hop of the walk moves strictly towards the
   end of the list, the walk from any span makes at most `length t` look-ups, and more fuel changes nothing
   (Proofs/TracingAttrP.v: `walk_cons`, `walk_fuel`, and the fuel-free equation `lookup_step`). *)
Definition scope_lookup (t : tbl) (scope : option N) : option N :=
  match scope with
  | None => None                            (* no span at all: "unknown" *)
  | Some x => walk_up (length t) t x
  end.

(* ---- the registry ---- *)
Definition regt := list (N * (N * retr)).   (* id -> (scenario, retries); at most one entry per id *)
Definition reg_remove (sid : N) (r : regt) : regt := filter (fun e => negb (fst e =? sid)) r.
Definition reg_insert (sid sc : N) (rt : retr) (r : regt) : regt := (sid, (sc, rt)) :: reg_remove sid r.

(* who gets a message whose resolved id is k: the registered scenario, else EVERY registered scenario *)
Definition recipients (r : regt) (k : option N) : list (N * retr) :=
  match k with
  | Some id => match alookup id r with Some e => [e] | None => map snd r end
  | None => map snd r
  end.

Definition entry_eqb : N * retr -> N * retr -> bool := pair_eqb N.eqb retr_eqb.

(* ---- the walk ---- *)
Definition tbl_step (t : tbl) (r : arec) : tbl :=
  match r with
  | ANewSpan x p => (x, mk_span p None) :: t
  | ASpanSid x sid => set_sid x sid t
  | _ => t
  end.
Definition tbl_of (rs : list arec) : tbl := fold_left tbl_step rs [].

Record astate := mk_ast {
  a_tbl : tbl;
  a_reg : regt;
  a_pending : option (N * N);               (* (scenario, message) of the last AEmit, until the next AFmt *)
  a_known : list (N * N) }.                 (* message -> the id it was resolved to *)
Definition ainit : astate := mk_ast [] [] None [].

Definition astep (s : astate) (r : arec) : astate :=
  match r with
  | ANewSpan _ _ | ASpanSid _ _ => mk_ast (tbl_step (a_tbl s) r) (a_reg s) (a_pending s) (a_known s)
  | AEmit sc m => mk_ast (a_tbl s) (a_reg s) (Some (sc, m)) (a_known s)
  | AFmt _ resolved =>
    mk_ast (a_tbl s) (a_reg s) None
           (match a_pending s, resolved with
            | Some (_, m), Some k => (m, k) :: a_known s
            | _, _ => a_known s
            end)
  | AReg sid sc rt => mk_ast (a_tbl s) (reg_insert sid sc rt (a_reg s)) (a_pending s) (a_known s)
  | AUnreg sid => mk_ast (a_tbl s) (reg_remove sid (a_reg s)) (a_pending s) (a_known s)
  | ADeliver _ _ _ => s
  end.
Definition arun (rs : list arec) : astate := fold_left astep rs ainit.

(* 0 = the record is fine; 1, 2, 3 = clause (a), (b), (c) is violated *)
Definition acheck (s : astate) (r : arec) : N :=
  match r with
  | AFmt scope resolved =>
    (* (a) the real code resolved what the model's lookup resolves *)
    if negb (option_eqb N.eqb resolved (scope_lookup (a_tbl s) scope)) then 1
    else match a_pending s with
         | None => 0
         | Some (sc, _) =>
           (* (b) the harness's message resolves to a REGISTERED id that stands for the emitting scenario *)
           match resolved with
           | Some k => match alookup k (a_reg s) with
                       | Some (sc', _) => if sc' =? sc then 0 else 2
                       | None => 2
                       end
           | None => 2
           end
         end
  | ADeliver sc rt (Some m) =>
    (* (c) delivered to the registered owner of the id (same retries), or, if the id is not registered, to one
       of the registered scenarios *)
    match alookup m (a_known s) with
    | Some k => if existsb (entry_eqb (sc, rt)) (recipients (a_reg s) (Some k)) then 0 else 3
    | None => 0
    end
  | _ => 0
  end.

Fixpoint attr_walk (s : astate) (i : nat) (rs : list arec) : option (nat * N) :=
  match rs with
  | [] => None
  | r :: rs' =>
    let c := acheck s r in
    if c =? 0 then attr_walk (astep s r) (S i) rs' else Some (i, c)
  end.

(* index of the first offending record and the violated clause (1 = a, 2 = b, 3 = c) *)
Definition attr_first_bad_why (rs : list arec) : option (nat * N) := attr_walk ainit O rs.
Definition attr_first_bad (rs : list arec) : option nat :=
  match attr_first_bad_why rs with Some (i, _) => Some i | None => None end.
Definition attr_ok (rs : list arec) : bool :=
  match attr_first_bad_why rs with Some _ => false | None => true end.

(* ---- the shape of the record list (checked separately from attr_ok; hypotheses of the theorems) ---- *)
Fixpoint all_steps (chk : tbl -> arec -> bool) (t : tbl) (rs : list arec) : bool :=
  match rs with
  | [] => true
  | r :: rs' => chk t r && all_steps chk (tbl_step t r) rs'
  end.

(* every new span is fresh and its parent was created earlier *)
Definition rec_wf (t : tbl) (r : arec) : bool :=
  match r with
  | ANewSpan x p =>
    negb (is_some (alookup x t)) && match p with None => true | Some q => is_some (alookup q t) end
  | _ => true
  end.
Definition has_child (t : tbl) (x : N) : bool :=
  existsb (fun e => option_eqb N.eqb (sp_parent (snd e)) (Some x)) t.
(* the runner's spans get their id AT CREATION (`on_new_span`): the span exists, has no id yet and no child yet *)
Definition sid_at_creation (t : tbl) (r : arec) : bool :=
  match r with
  | ASpanSid x _ =>
    match alookup x t with Some s => negb (is_some (sp_sid s)) | None => false end && negb (has_child t x)
  | _ => true
  end.
Definition stream_wf (rs : list arec) : bool := all_steps rec_wf [] rs.
Definition shaped_chk (t : tbl) (r : arec) : bool := rec_wf t r && sid_at_creation t r.
Definition shaped (rs : list arec) : bool := all_steps shaped_chk [] rs.
