(* ReviewP3.v — three small statements a review found missing, all about runs of the scheduler model
   (`exec c ls = Some (s, tr)`: any configuration, any label list).
   A. C06, limit 1: on the emitted stream the attempts never interleave (`no_interleaving`, executable), derived
      from a key-level bracket walker `att_run K` that every run satisfies for its own limit K.
   B. C04, "the runner does not spin": what a loop turn does, by cases; two turns in a row that leave the loop
      yielded happen only while the runner waits for the parser (or with a limit of 0); after the parser has
      ended an idle turn is always followed by a turn that dispatches.  Witnesses for every exception.
   C. C07 in plain words: `iso_walk` + the bracket walker give the statement about plain lists. *)
From CV Require Import Model.SchedSpec.
From CV Require Import Model.Base Model.Events Model.Sched
  Proofs.BaseP Proofs.SchedP Proofs.SchedP2 Proofs.SchedP3 Proofs.SchedP4 Proofs.SchedP5 Proofs.SchedP7 Proofs.SchedP8
  Proofs.SchedP10 Proofs.SchedP11.
From CV Require Proofs.SchedP12.
From Coq Require Import Permutation Lia Arith PeanoNat.

(* ================================================================================================ *)
(* 0. the attempts open on the stream, by KEY (scenario id, Retries), with the limit                 *)
(* ================================================================================================ *)
Definition att := (N * retr)%type.
Definition att_eqb (a b : att) : bool := (fst a =? fst b) && retr_eqb (snd a) (snd b).
Lemma att_eqb_spec a b : att_eqb a b = true <-> a = b.
Proof.
  destruct a as [s rt], b as [s' rt']. unfold att_eqb. cbn [fst snd].
  rewrite andb_true_iff, N.eqb_eq, retr_eqb_spec. split; [intros [-> ->]; reflexivity|intros X; inversion X; auto].
Qed.
Lemma att_eqb_refl a : att_eqb a a = true.
Proof. apply att_eqb_spec. reflexivity. Qed.

Definition memA (k : att) (l : list att) : bool := existsb (att_eqb k) l.
Fixpoint rm_att (k : att) (l : list att) : list att :=
  match l with [] => [] | y :: t => if att_eqb y k then t else y :: rm_att k t end.

Lemma memA_in k l : memA k l = true <-> In k l.
Proof.
  unfold memA. rewrite existsb_exists. split.
  - intros (x & I & E). apply att_eqb_spec in E. subst. exact I.
  - intros I. exists k. split; [exact I|apply att_eqb_refl].
Qed.

(* the walker: a Started opens its key (never more than K open), a Finished closes ONE open attempt with its key,
   any other scenario event needs an open attempt with its key; everything else passes *)
Definition att_step (K : option nat) (open : list att) (e : ev) : option (list att) :=
  match e with
  | EvScen _ _ s rt ScStarted => if leK (S (length open)) K then Some ((s, rt) :: open) else None
  | EvScen _ _ s rt ScFinished => if memA (s, rt) open then Some (rm_att (s, rt) open) else None
  | EvScen _ _ s rt _ => if memA (s, rt) open then Some open else None
  | _ => Some open
  end.
Fixpoint att_run (K : option nat) (open : list att) (es : list ev) : option (list att) :=
  match es with
  | [] => Some open
  | e :: t => match att_step K open e with Some o => att_run K o t | None => None end
  end.
Definition att_walk (K : option nat) (es : list ev) : bool := is_some (att_run K [] es).

Lemma att_run_app K a : forall open b,
  att_run K open (a ++ b) = match att_run K open a with Some o => att_run K o b | None => None end.
Proof.
  induction a as [|e a IH]; intros open b; [reflexivity|]. cbn [app att_run].
  destruct (att_step K open e) as [o|]; [apply IH|reflexivity].
Qed.
Lemma att_run_brk K o : all_brk o -> forall open, att_run K open o = Some open.
Proof.
  induction 1 as [|e t He Ht IH]; intros open; [reflexivity|]. cbn [att_run].
  destruct e; try discriminate He; cbn [att_step]; apply IH.
Qed.

(* dropping the limit *)
Lemma att_step_unbounded K open e open' : att_step K open e = Some open' -> att_step None open e = Some open'.
Proof.
  destruct e as [| | | | | | | |f r s rt x]; cbn [att_step]; try (intros H; exact H).
  destruct x; cbn [leK]; try (intros H; exact H). destruct (leK _ K); [intros H; exact H|discriminate].
Qed.
Lemma att_run_unbounded K : forall es open open', att_run K open es = Some open' -> att_run None open es = Some open'.
Proof.
  induction es as [|e t IH]; intros open open' H; cbn [att_run] in *; [exact H|].
  destruct (att_step K open e) as [o|] eqn:E; [|discriminate]. rewrite (att_step_unbounded _ _ _ _ E). apply IH. exact H.
Qed.

Lemma rm_att_perm k l : In k l -> Permutation l (k :: rm_att k l).
Proof.
  induction l as [|y t IH]; intros H; [destruct H|]. cbn [rm_att]. destruct (att_eqb y k) eqn:E.
  - apply att_eqb_spec in E. subst. apply Permutation_refl.
  - destruct H as [H|H]; [subst; rewrite att_eqb_refl in E; discriminate|].
    eapply perm_trans; [apply perm_skip, IH, H|apply perm_swap].
Qed.
Lemma rm_att_mid open a k b : Permutation open (a ++ k :: b) -> Permutation (rm_att k open) (a ++ b).
Proof.
  intros P. assert (I : In k open).
  { eapply Permutation_in; [apply Permutation_sym, P|]. apply in_or_app. right. left. reflexivity. }
  pose proof (rm_att_perm _ _ I) as Q. apply (Permutation_cons_inv (a := k)).
  eapply perm_trans; [apply Permutation_sym, Q|]. eapply perm_trans; [exact P|].
  apply Permutation_sym, Permutation_middle.
Qed.
Lemma rm_att_other k k' l : In k l -> k <> k' -> In k (rm_att k' l).
Proof.
  induction l as [|y t IH]; intros I NE; [destruct I|]. cbn [rm_att]. destruct (att_eqb y k') eqn:E.
  - apply att_eqb_spec in E. subst. destruct I as [I|I]; [congruence|exact I].
  - destruct I as [I|I]; [left; exact I|right; apply IH; assumption].
Qed.

(* ---- the keys of the open attempts, read off the state ---- *)
Definition okey (x : entry * phase) : att := (e_s (fst x), e_retr (fst x)).
Definition opened_keys (r : list (entry * phase)) : list att := map okey (filter SchedP2.is_opened r).
Lemma opened_keys_app a b : opened_keys (a ++ b) = opened_keys a ++ opened_keys b.
Proof. unfold opened_keys. rewrite filter_app, map_app. reflexivity. Qed.
Lemma opened_keys_disp b : opened_keys (map (fun e => (e, Dispatched)) b) = [].
Proof. induction b as [|e b IH]; [reflexivity|]. exact IH. Qed.
Lemma opened_keys_len r : (length (opened_keys r) <= length r)%nat.
Proof.
  unfold opened_keys. rewrite map_length. induction r as [|x r IH]; [apply le_n|].
  cbn [filter]. destruct (SchedP2.is_opened x); cbn [length]; lia.
Qed.
Lemma opened_keys_in e r : In (e, Opened) r -> In (e_s e, e_retr e) (opened_keys r).
Proof.
  intros I. unfold opened_keys. apply in_map_iff. exists (e, Opened). split; [reflexivity|].
  apply filter_In. split; [exact I|reflexivity].
Qed.

Definition WA (s : st) (open : list att) : Prop := Permutation open (opened_keys (running s)).

Lemma loop_top_okeys s : opened_keys (running (fst (loop_top s))) = opened_keys (running s).
Proof.
  unfold loop_top. destruct (get _ s) as [[[batch qs] qc] md].
  destruct (is_nil (running s) && is_nil batch).
  - destruct (pdone s && _); reflexivity.
  - destruct (start_scenarios _ _ _) as [[o fc] rc]. unfold upd. cbn [fst running].
    rewrite opened_keys_app, opened_keys_disp, app_nil_r. reflexivity.
Qed.

Lemma slots_leK K s : slots_ok K s -> forall n, (n <= length (running s))%nat -> leK n K = true.
Proof.
  intros SL n L. destruct K as [k|]; [|reflexivity]. cbn [leK]. apply Nat.leb_le.
  pose proof (SchedP12.slots_ok_bound _ _ SL). lia.
Qed.

(* every step of the model is a run of the walker, for the limit of the invariant *)
Lemma step_att K c s l s' o open :
  Inv K s -> WA s open -> step c s l = Some (s', o) ->
  exists open', att_run K open o = Some open' /\ WA s' open'.
Proof.
  intros I WW ST. pose proof (step_inv _ _ _ _ _ _ I ST) as I'.
  destruct l as [F|id| | |k|k x|k failed|d]; cbn [step] in ST.
  - destruct (perrs s); [discriminate|]. inversion ST; subst. exists open. split; [reflexivity|].
    unfold WA. destruct (insert_feature_frame F s) as (-> & _). exact WW.
  - destruct (perrs s); [discriminate|]. destruct (pf s) as [[[[a b] c0] d0] e]. inversion ST; subst.
    exists open. split; [reflexivity|exact WW].
  - destruct (pdone s); [discriminate|]. destruct (pf s) as [[[[a b] c0] d0] e]. inversion ST; subst.
    exists open. split; [reflexivity|exact WW].
  - destruct (pc s).
    + set (s0 := mk_st _ _ _ _ _ _ _ _ _ _ _ _ _) in ST. pose proof (loop_top_okeys s0) as LO.
      pose proof (loop_top_brk s0) as LB. destruct (loop_top s0) as [s1 o1]. inversion ST; subst.
      exists open. split.
      * change (EvStarted :: o1) with ([EvStarted] ++ o1). rewrite att_run_app. cbn [att_run att_step].
        apply att_run_brk. exact LB.
      * unfold WA. cbn [fst] in LO. rewrite LO. exact WW.
    + destruct (remove_ended (running s)) as [r|] eqn:RE; [|discriminate].
      pose proof (drain_brk (cf_fail_fast c) (msgs s) (add_slot (flow s)) (fcount s) (rcount s)) as DB.
      destruct (drain _ _ _ _ _) as [[[o1 fl] fc] rc].
      set (s1 := upd s (qS s) (qC s) fl r [] fc rc (now s) Awaiting) in ST.
      pose proof (loop_top_okeys s1) as LO. pose proof (loop_top_brk s1) as LB.
      destruct (loop_top s1) as [s2 o2]. inversion ST; subst. exists open. split.
      * rewrite att_run_app, (att_run_brk _ _ DB). apply att_run_brk. exact LB.
      * unfold WA. cbn [fst snd] in *. rewrite LO. unfold s1, upd. cbn [running].
        destruct (SchedP7.remove_ended_shape _ _ RE) as (e0 & l1 & l2 & E1 & ->). unfold WA in WW. rewrite E1 in WW.
        rewrite opened_keys_app in *. exact WW.
    + pose proof (loop_top_okeys s) as LO. pose proof (loop_top_brk s) as LB.
      destruct (loop_top s) as [s2 o2]. inversion ST; subst. exists open. split.
      * apply att_run_brk. exact LB.
      * unfold WA. cbn [fst] in LO. rewrite LO. exact WW.
    + discriminate.
  - destruct (set_phase k Dispatched Opened (running s)) as [[e r]|] eqn:SP; [|discriminate]. inversion ST; subst.
    destruct (SchedP7.set_phase_shape _ _ _ _ _ _ SP) as (l1 & l2 & RUN & -> & _ & _).
    exists ((e_s e, e_retr e) :: open). split.
    + unfold scen_ev. cbn [att_run att_step].
      assert (G : leK (S (length open)) K = true).
      { destruct I as (SL & _). apply (slots_leK _ _ SL). unfold WA in WW. rewrite (Permutation_length WW), RUN.
        rewrite opened_keys_app, !app_length.
        change (opened_keys ((e, Dispatched) :: l2)) with (opened_keys l2). cbn [length].
        pose proof (opened_keys_len l1). pose proof (opened_keys_len l2). lia. }
      rewrite G. reflexivity.
    + unfold WA, upd. cbn [running]. unfold WA in WW. rewrite RUN in WW. rewrite opened_keys_app in *.
      change (opened_keys ((e, Opened) :: l2)) with ((e_s e, e_retr e) :: opened_keys l2).
      change (opened_keys ((e, Dispatched) :: l2)) with (opened_keys l2) in WW.
      eapply perm_trans; [apply perm_skip, WW|apply Permutation_middle].
  - destruct (is_middle x) eqn:MI; [|discriminate].
    destruct (find_open k (running s)) as [e|] eqn:FO; [|discriminate]. inversion ST; subst.
    destruct (SchedP7.find_open_in _ _ _ FO) as [IN _].
    assert (G : memA (e_s e, e_retr e) open = true).
    { apply memA_in. eapply Permutation_in; [apply Permutation_sym, WW|]. apply opened_keys_in. exact IN. }
    exists open. split; [|exact WW]. unfold scen_ev. cbn [att_run att_step].
    destruct x; try discriminate MI; rewrite G; reflexivity.
  - destruct (set_phase k Opened Ended (running s)) as [[e r]|] eqn:SP; [|discriminate].
    destruct (SchedP7.set_phase_shape _ _ _ _ _ _ SP) as (l1 & l2 & RUN & -> & _ & _).
    assert (IN : In (e, Opened) (running s)) by (rewrite RUN; apply in_or_app; right; left; reflexivity).
    assert (G : memA (e_s e, e_retr e) open = true).
    { apply memA_in. eapply Permutation_in; [apply Permutation_sym, WW|]. apply opened_keys_in. exact IN. }
    assert (WW' : Permutation (rm_att (e_s e, e_retr e) open) (opened_keys (l1 ++ (e, Ended) :: l2))).
    { unfold WA in WW. rewrite RUN in WW. rewrite opened_keys_app in *.
      change (opened_keys ((e, Opened) :: l2)) with ((e_s e, e_retr e) :: opened_keys l2) in WW.
      change (opened_keys ((e, Ended) :: l2)) with (opened_keys l2). apply rm_att_mid. exact WW. }
    exists (rm_att (e_s e, e_retr e) open).
    destruct (next_try e failed (now s)) as [e'|]; [destruct (e_serial e')|]; inversion ST; subst;
      (split; [unfold scen_ev; cbn [att_run att_step]; rewrite G; reflexivity | exact WW']).
  - inversion ST; subst. exists open. split; [reflexivity|exact WW].
Qed.

Lemma exec_from_att K c : forall ls s s' o open,
  Inv K s -> WA s open -> exec_from c s ls = Some (s', o) ->
  exists open', att_run K open o = Some open' /\ WA s' open'.
Proof.
  induction ls as [|l t IH]; intros s s' o open I WW H; cbn [exec_from] in H.
  - inversion H; subst. exists open. split; [reflexivity|exact WW].
  - destruct (step c s l) as [[s1 o1]|] eqn:S1; [|discriminate].
    destruct (exec_from c s1 t) as [[s2 o2]|] eqn:S2; [|discriminate]. inversion H; subst.
    destruct (step_att _ _ _ _ _ _ _ I WW S1) as (op1 & R1 & W1).
    destruct (IH _ _ _ _ (step_inv _ _ _ _ _ _ I S1) W1 S2) as (op2 & R2 & W2).
    exists op2. split; [rewrite att_run_app, R1; exact R2|exact W2].
Qed.

(* ON THE STREAM OF EVERY RUN, no hypothesis on the input: every scenario event lies between the Started and the
   Finished of an attempt with its own key (scenario id AND retry counter), and never more than the limit are open *)
Theorem stream_attempt_brackets c ls s tr :
  exec c ls = Some (s, tr) ->
  exists open, att_run (cf_concurrency c) [] tr = Some open /\ Permutation open (opened_keys (running s)).
Proof.
  intros H. apply (exec_from_att (cf_concurrency c) c ls (init_st c) s tr [] (init_inv c)); [|exact H].
  apply Permutation_refl.
Qed.
Corollary stream_att_walk c ls s tr : exec c ls = Some (s, tr) -> att_walk (cf_concurrency c) tr = true.
Proof. intros H. unfold att_walk. destruct (stream_attempt_brackets _ _ _ _ H) as (op & R & _). rewrite R. reflexivity. Qed.

(* ================================================================================================ *)
(* A. C06 with a limit of 1: the attempts never interleave                                           *)
(* ================================================================================================ *)
(* the recogniser: `cur` is the attempt between its Started and its Finished, if any *)
Definition ni_step (cur : option att) (e : ev) : option (option att) :=
  match e with
  | EvScen _ _ s rt ScStarted => match cur with None => Some (Some (s, rt)) | Some _ => None end
  | EvScen _ _ s rt ScFinished => match cur with Some k => if att_eqb k (s, rt) then Some None else None | None => None end
  | EvScen _ _ s rt _ => match cur with Some k => if att_eqb k (s, rt) then Some cur else None | None => None end
  | _ => Some cur
  end.
Fixpoint ni_run (cur : option att) (es : list ev) : option (option att) :=
  match es with
  | [] => Some cur
  | e :: t => match ni_step cur e with Some c' => ni_run c' t | None => None end
  end.
Definition no_interleaving (es : list ev) : bool := is_some (ni_run None es).

Lemma ni_run_app a : forall cur b,
  ni_run cur (a ++ b) = match ni_run cur a with Some c' => ni_run c' b | None => None end.
Proof.
  induction a as [|e a IH]; intros cur b; [reflexivity|]. cbn [app ni_run].
  destruct (ni_step cur e) as [c'|]; [apply IH|reflexivity].
Qed.

(* with a limit of 1 the bracket walker IS the no-interleaving recogniser *)
Lemma att1_ni_step open e open' :
  (length open <= 1)%nat -> att_step (Some 1%nat) open e = Some open' ->
  (length open' <= 1)%nat /\ ni_step (hd_error open) e = Some (hd_error open').
Proof.
  intros L H. destruct e as [| | | | | | | |f r s rt x]; cbn [att_step] in H; try (inversion H; subst; split; [exact L|reflexivity]).
  destruct open as [|k [|k2 t]]; [| |cbn [length] in L; lia].
  - destruct x; cbn [leK length Nat.leb memA existsb] in H; try discriminate H.
    inversion H; subst. split; [cbn; lia|reflexivity].
  - destruct x; cbn [leK length Nat.leb] in H; try discriminate H.
    all: cbn [memA existsb] in H; rewrite orb_false_r in H; destruct (att_eqb (s, rt) k) eqn:E; try discriminate H;
      apply att_eqb_spec in E; subst k; inversion H; subst; cbn [rm_att hd_error ni_step]; rewrite att_eqb_refl;
      (split; [cbn; lia|reflexivity]).
Qed.
Lemma att1_ni_run : forall es open open',
  (length open <= 1)%nat -> att_run (Some 1%nat) open es = Some open' ->
  ni_run (hd_error open) es = Some (hd_error open').
Proof.
  induction es as [|e t IH]; intros open open' L H; cbn [att_run ni_run] in *; [inversion H; reflexivity|].
  destruct (att_step (Some 1%nat) open e) as [o|] eqn:E; [|discriminate].
  destruct (att1_ni_step _ _ _ L E) as [L' N1]. rewrite N1. apply IH; assumption.
Qed.

(* C06, K = 1, ON THE EMITTED STREAM: the recogniser accepts the stream of every run *)
Theorem limit_one_no_interleaving c ls s tr :
  exec c ls = Some (s, tr) -> cf_concurrency c = Some 1%nat -> no_interleaving tr = true.
Proof.
  intros H K1. destruct (stream_attempt_brackets _ _ _ _ H) as (op & R & _). rewrite K1 in R.
  pose proof (att1_ni_run tr [] op (Nat.le_0_l 1) R) as X. cbn [hd_error] in X.
  unfold no_interleaving. rewrite X. reflexivity.
Qed.

(* what the recogniser says, in plain words about plain lists *)
Definition scen_key (e : ev) : option att := match e with EvScen _ _ s rt _ => Some (s, rt) | _ => None end.
Definition is_fin_of (k : att) (e : ev) : Prop := exists f r, e = EvScen f r (fst k) (snd k) ScFinished.
Definition own_middle (k : att) (e : ev) : Prop :=
  forall f r s rt x, e = EvScen f r s rt x -> s = fst k /\ rt = snd k /\ is_middle x = true.

Lemma ni_open_segment k : forall mid post r,
  ni_run (Some k) (mid ++ post) = Some r -> (forall e, In e mid -> ~ is_fin_of k e) ->
  (forall e, In e mid -> own_middle k e) /\ ni_run (Some k) mid = Some (Some k).
Proof.
  induction mid as [|e t IH]; intros post r H NF; [split; [intros e []|reflexivity]|].
  cbn [app ni_run] in H. destruct (ni_step (Some k) e) as [c'|] eqn:E; [|discriminate].
  assert (X : c' = Some k /\ own_middle k e).
  { destruct e as [| | | | | | | |f r0 s rt x]; cbn [ni_step] in E;
      try (inversion E; subst; split; [reflexivity|intros f' r' s' rt' x' X; discriminate X]).
    destruct x; try discriminate E.
    5:{ exfalso. destruct (att_eqb k (s, rt)) eqn:AE; [|discriminate]. apply att_eqb_spec in AE. subst k.
        apply (NF _ (or_introl eq_refl)). exists f, r0. reflexivity. }
    all: destruct (att_eqb k (s, rt)) eqn:AE; [|discriminate]; apply att_eqb_spec in AE; subst k;
      inversion E; subst; split; [reflexivity|]; intros f' r' s' rt' x' X; inversion X; subst; cbn; auto. }
  destruct X as [-> OM].
  destruct (IH post r H (fun e0 I0 => NF e0 (or_intror I0))) as [A B]. split.
  - intros e0 [<-|I0]; [exact OM|exact (A e0 I0)].
  - cbn [ni_run]. rewrite E. exact B.
Qed.

Lemma no_interleaving_plain tr : no_interleaving tr = true ->
  forall pre f r sid rt mid post,
    tr = pre ++ EvScen f r sid rt ScStarted :: mid ++ post ->
    (forall e, In e mid -> ~ is_fin_of (sid, rt) e) ->
    forall e, In e mid -> own_middle (sid, rt) e.
Proof.
  unfold no_interleaving. intros H pre f r sid rt mid post -> NF.
  rewrite ni_run_app in H. destruct (ni_run None pre) as [c1|]; [|discriminate H]. cbn [ni_run ni_step] in H.
  destruct c1; [discriminate H|].
  destruct (ni_run (Some (sid, rt)) (mid ++ post)) as [r0|] eqn:E; [|discriminate H].
  exact (proj1 (ni_open_segment _ _ _ _ E NF)).
Qed.

(* C06, K = 1, in plain words: in the stream of every run with a limit of 1, between the Started event of an
   attempt and its Finished event every scenario event is a middle event of that same attempt: same scenario id,
   same retry counter — no event of another attempt, and no other Started or Finished at all *)
Theorem limit_one_attempts_never_interleave c ls s tr :
  exec c ls = Some (s, tr) -> cf_concurrency c = Some 1%nat ->
  forall pre f r sid rt mid post,
    tr = pre ++ EvScen f r sid rt ScStarted :: mid ++ post ->
    (forall f' r', ~ In (EvScen f' r' sid rt ScFinished) mid) ->
    forall f' r' s' rt' x, In (EvScen f' r' s' rt' x) mid -> s' = sid /\ rt' = rt /\ is_middle x = true.
Proof.
  intros H K1 pre f r sid rt mid post E NF f' r' s' rt' x I.
  refine (no_interleaving_plain tr (limit_one_no_interleaving _ _ _ _ H K1) pre f r sid rt mid post E _ _ I _ _ _ _ _ eq_refl).
  intros e Ie (f0 & r0 & ->). exact (NF f0 r0 Ie).
Qed.

Lemma fin_in_dec sid rt : forall l : list ev,
  (exists f' r', In (EvScen f' r' sid rt ScFinished) l) \/ (forall f' r', ~ In (EvScen f' r' sid rt ScFinished) l).
Proof.
  induction l as [|e l [(f' & r' & I)|N]]; [right; intros f' r' []|left; exists f', r'; right; exact I|].
  destruct e as [| | | | | | | |f0 r0 s0 rt0 x0]; try (right; intros f' r' [X|X]; [discriminate X|exact (N _ _ X)]).
  destruct (att_eqb (s0, rt0) (sid, rt)) eqn:AE.
  - apply att_eqb_spec in AE. inversion AE; subst. destruct x0;
      try (right; intros f' r' [X|X]; [discriminate X|exact (N _ _ X)]).
    left. exists f0, r0. left. reflexivity.
  - right. intros f' r' [X|X]; [|exact (N _ _ X)]. inversion X; subst. rewrite att_eqb_refl in AE. discriminate.
Qed.

(* ... in particular no attempt starts while another one is between its Started and its Finished *)
Corollary limit_one_starts_are_serialised c ls s tr :
  exec c ls = Some (s, tr) -> cf_concurrency c = Some 1%nat ->
  forall pre f r sid rt mid f2 r2 s2 rt2 post,
    tr = pre ++ EvScen f r sid rt ScStarted :: mid ++ EvScen f2 r2 s2 rt2 ScStarted :: post ->
    exists f' r', In (EvScen f' r' sid rt ScFinished) mid.
Proof.
  intros H K1 pre f r sid rt mid f2 r2 s2 rt2 post E.
  pose proof (fin_in_dec sid rt) as D.
  destruct (D mid) as [Y|NF]; [exact Y|exfalso].
  change (EvScen f2 r2 s2 rt2 ScStarted :: post) with ([EvScen f2 r2 s2 rt2 ScStarted] ++ post) in E.
  rewrite app_assoc in E.
  assert (NF' : forall f' r', ~ In (EvScen f' r' sid rt ScFinished) (mid ++ [EvScen f2 r2 s2 rt2 ScStarted])).
  { intros f' r' I. apply in_app_or in I as [I|[I|[]]]; [exact (NF _ _ I)|discriminate I]. }
  destruct (limit_one_attempts_never_interleave _ _ _ _ H K1 _ _ _ _ _ _ _ E NF' f2 r2 s2 rt2 ScStarted) as (_ & _ & M).
  - apply in_or_app. right. left. reflexivity.
  - discriminate M.
Qed.

(* the recogniser rejects an interleaved stream (a run with a limit of 2) and accepts a limit-1 run with a retry *)
Example no_interleaving_examples :
  let f := mk_sfeature 1 [mk_sscen 11 None false (Some (1, None)); mk_sscen 12 None false None] 0 2 in
  (* limit 2: 11 and 12 are open together *)
  match exec (mk_cfg (Some 2%nat) false)
             [LFeature f; LParserEnd; LTop; LAttStart (11, 0); LAttStart (12, 0); LAttEv (11, 0) (ScLog 7);
              LAttEnd (12, 0) false; LAttEnd (11, 0) false] with
  | Some (_, tr) => (no_interleaving tr, att_walk (Some 2%nat) tr, att_walk (Some 1%nat) tr, n_started tr)
  | None => (true, false, true, 0%nat)
  end = (false, true, false, 2%nat)
  /\
  (* limit 1: 11 fails, is retried at once, then 12 *)
  match exec (mk_cfg (Some 1%nat) false)
             [LFeature f; LParserEnd; LTop; LAttStart (11, 0); LAttEv (11, 0) (ScLog 7); LAttEnd (11, 0) true; LTop;
              LAttStart (11, 1); LAttEnd (11, 1) false; LTop; LAttStart (12, 0); LAttEnd (12, 0) false; LTop] with
  | Some (s, tr) => (no_interleaving tr, n_started tr, match pc s with Done => true | _ => false end)
  | None => (false, 0%nat, false)
  end = (true, 3%nat, true)
  /\ no_interleaving [EvScen 1 None 11 None ScStarted; EvScen 1 None 12 None ScStarted] = false
  /\ no_interleaving [EvScen 1 None 11 (Some (0, 1)) ScStarted; EvScen 1 None 11 (Some (1, 0)) (ScLog 1)] = false.
Proof. vm_compute. repeat split. Qed.

(* ================================================================================================ *)
(* B. C04: the runner does not spin                                                                  *)
(* ================================================================================================ *)
(* A loop turn is the label LTop. `C04_no_deadlock` says a turn is always ENABLED; here: what a turn DOES.
   Vocabulary: after a turn the loop is `Awaiting` (something is in flight), `Done` (the run is over) or
   `Yielded` (nothing in flight, nothing handed out: the idle branch, which sleeps until the smallest retry deadline
   — under the clock hook: advances the clock past it — and yields to the executor). *)

(* ---- the parser has ended = the label LParserEnd has occurred ---- *)
Definition is_pend (l : label) : bool := match l with LParserEnd => true | _ => false end.

Lemma step_pdone c s l s' o : step c s l = Some (s', o) -> pdone s' = pdone s || is_pend l.
Proof.
  intros H. destruct l as [F|id| | |k|k x|k failed|d]; cbn [is_pend]; rewrite ?orb_false_r.
  - cbn [step] in H. destruct (perrs s); [discriminate|]. inversion H; subst.
    destruct (insert_feature_frame F s) as (_ & _ & _ & _ & _ & E). exact E.
  - cbn [step] in H. destruct (perrs s); [discriminate|]. destruct (pf s) as [[[[a b] c0] d] e]. inversion H; subst. reflexivity.
  - cbn [step] in H. destruct (pdone s); [discriminate|]. destruct (pf s) as [[[[a b] c0] d] e]. inversion H; subst. reflexivity.
  - destruct (step_top_cases _ _ _ _ H) as (s1 & o2 & LT & CS).
    destruct (loop_top_cases _ _ _ LT) as (batch & qs & qc & md & _ & _ & _ & E1 & _ & _). rewrite E1.
    destruct CS as [(P & ->)|[(P & ->)|(P & r & o1 & fl & fc & rc & RE & DR & ->)]]; reflexivity.
  - cbn [step] in H. destruct (set_phase k Dispatched Opened (running s)) as [[e r]|]; [|discriminate].
    inversion H; subst. reflexivity.
  - cbn [step] in H. destruct (is_middle x); [|discriminate]. destruct (find_open k (running s)); [|discriminate].
    inversion H; subst. reflexivity.
  - cbn [step] in H. destruct (set_phase k Opened Ended (running s)) as [[e r]|]; [|discriminate].
    destruct (match next_try e failed (now s) with
              | Some e' => if e_serial e' then (e' :: qS s, qC s) else (qS s, e' :: qC s)
              | None => (qS s, qC s) end) as [qs qc].
    inversion H; subst. reflexivity.
  - cbn [step] in H. inversion H; subst. reflexivity.
Qed.

Lemma exec_from_pdone c : forall ls s s' o, exec_from c s ls = Some (s', o) -> pdone s' = pdone s || existsb is_pend ls.
Proof.
  induction ls as [|l t IH]; intros s s' o H; cbn [exec_from] in H.
  - inversion H; subst. cbn [existsb]. rewrite orb_false_r. reflexivity.
  - destruct (step c s l) as [[s1 o1]|] eqn:S1; [|discriminate].
    destruct (exec_from c s1 t) as [[s2 o2]|] eqn:S2; [|discriminate]. inversion H; subst.
    rewrite (IH _ _ _ S2), (step_pdone _ _ _ _ _ S1). cbn [existsb]. rewrite orb_assoc. reflexivity.
Qed.

Lemma existsb_pend ls : existsb is_pend ls = true <-> In LParserEnd ls.
Proof.
  rewrite existsb_exists. split.
  - intros (l & I & E). destruct l; try discriminate E. exact I.
  - intros I. exists LParserEnd. split; [exact I|reflexivity].
Qed.

(* the flag `pdone` of a reachable state says exactly that the label LParserEnd has occurred *)
Theorem pdone_iff_parser_end c ls s tr : exec c ls = Some (s, tr) -> (pdone s = true <-> In LParserEnd ls).
Proof.
  intros H. rewrite (exec_from_pdone c ls _ _ _ H). change (pdone (init_st c)) with false. cbn [orb]. apply existsb_pend.
Qed.

(* ---- what a turn that ends Yielded has done ---- *)
Lemma loop_top_yield s s' o : loop_top s = (s', o) -> pc s' = Yielded ->
  o = [] /\ running s = [] /\ running s' = [] /\ qS s' = qS s /\ qC s' = qC s /\ flow s' = flow s /\
  pdone s' = pdone s /\ perrs s' = perrs s /\ fin_cond s = false /\ now s <= now s' /\
  (slots_of s <> Some 0%nat -> base_ok s -> qS s ++ qC s <> [] -> rdy s' = true /\ now s < now s').
Proof.
  intros LT PY.
  assert (O : o = []).
  { revert LT. unfold loop_top. destruct (get _ s) as [[[batch qs] qc] md].
    destruct (is_nil (running s) && is_nil batch).
    - destruct (pdone s && _); intros X; inversion X; subst; [cbn in PY; discriminate|reflexivity].
    - destruct (start_scenarios _ _ _) as [[o' fc] rc]. intros X; inversion X; subst. cbn in PY. discriminate. }
  destruct (loop_top_cases _ _ _ LT) as (batch & qs & qc & md & G & Q1 & Q2 & PD & PE & CS).
  destruct CS as [(_ & _ & _ & P & _)|[(R & B & FC & _ & R' & FL & NOW)|(_ & P & _)]]; try congruence.
  subst batch.
  assert (Z : slots_of s = Some 0%nat \/ slots_of s <> Some 0%nat).
  { destruct (slots_of s) as [[|k]|]; [left; reflexivity|right; discriminate|right; discriminate]. }
  assert (NL : now s <= now s') by (rewrite NOW; destruct md; lia).
  destruct Z as [Z|NZ].
  - rewrite Z in G. cbn [get] in G.
    assert (E1 : qs = qS s) by congruence. assert (E2 : qc = qC s) by congruence. rewrite E1 in Q1. rewrite E2 in Q2.
    refine (conj O (conj R (conj R' (conj Q1 (conj Q2 (conj FL (conj PD (conj PE (conj FC (conj NL _)))))))))).
    intros X. contradiction.
  - destruct (get_idle _ _ _ _ _ NZ R G) as (E1 & E2 & FW & WIT). rewrite E1 in Q1. rewrite E2 in Q2.
    refine (conj O (conj R (conj R' (conj Q1 (conj Q2 (conj FL (conj PD (conj PE (conj FC (conj NL _)))))))))).
    intros _ BO QNE. destruct (WIT QNE) as (e & d & I & L & ->). split; [|lia].
    unfold rdy. rewrite Q1, Q2, NOW. apply existsb_exists. exists e. split; [exact I|]. unfold readyb.
    rewrite (ready_after_sleep _ _ _ L (fun b => BO e b I)). reflexivity.
Qed.

Lemma loop_top_done_out s s' o : loop_top s = (s', o) -> pc s' = Done -> exists o', o = o' ++ [EvFinished].
Proof.
  unfold loop_top. destruct (get _ s) as [[[batch qs] qc] md].
  destruct (is_nil (running s) && is_nil batch).
  - destruct (pdone s && _); intros X PD; inversion X; subst; [eexists; reflexivity|cbn in PD; discriminate].
  - destruct (start_scenarios _ _ _) as [[o' fc] rc]. intros X PD; inversion X; subst. cbn in PD. discriminate.
Qed.

(* EVERY LOOP TURN, BY CASES. A turn taken while the loop awaits consumes the completion of an attempt that has ended
   (that is progress: an LAttEnd lies before it, and each is consumed once). A turn taken with nothing in flight
   either is the last one (run-Finished is emitted), or dispatches, or is IDLE: it leaves the loop yielded, emits
   nothing (the very first turn: run-Started only) and leaves the queues as they are. *)
Theorem loop_turn_kinds c ls s tr s' o :
  exec c ls = Some (s, tr) -> step c s LTop = Some (s', o) ->
  (pc s = Awaiting /\ exists e, In (e, Ended) (running s)) \/
  (running s = [] /\
   ( (pc s' = Done /\ exists o', o = o' ++ [EvFinished])
     \/ (pc s' = Awaiting /\ running s' <> [])
     \/ (pc s' = Yielded /\ running s' = [] /\ (o = [] \/ o = [EvStarted]) /\ qS s' = qS s /\ qC s' = qC s) )).
Proof.
  intros H ST. pose proof (exec_from_inv _ c ls _ _ _ (init_inv c) H) as (_ & _ & _ & PCO).
  pose proof (exec_from_aw c ls _ _ _ (init_aw c) H) as AW. pose proof (step_aw _ _ _ _ _ AW ST) as AW'.
  destruct (pc s) eqn:P.
  - right. unfold pc_ok in PCO. rewrite P in PCO. split; [exact PCO|]. cbn [step] in ST. rewrite P in ST.
    destruct (loop_top _) as [s1 o1] eqn:LT. inversion ST; subst.
    destruct (pc s') eqn:P'.
    + exfalso. pose proof (loop_top_frame2 (mk_st (qS s) (qC s) (pdone s) (perrs s) (flow s) (running s) (msgs s)
         (fcount s) (rcount s) (pf s) (now s) NotBegun true)) as [_ X]. rewrite LT in X. cbn [fst] in X. congruence.
    + right; left. split; [reflexivity|]. apply AW'. exact P'.
    + right; right. destruct (loop_top_yield _ _ _ LT P') as (-> & _ & R' & Q1 & Q2 & _).
      split; [reflexivity|]. split; [exact R'|]. split; [right; reflexivity|]. split; [exact Q1|exact Q2].
    + left. split; [reflexivity|]. destruct (loop_top_done_out _ _ _ LT P') as (o' & ->).
      exists (EvStarted :: o'). reflexivity.
  - left. split; [reflexivity|]. cbn [step] in ST. rewrite P in ST.
    destruct (remove_ended (running s)) as [r|] eqn:RE; [|discriminate].
    destruct (SchedP7.remove_ended_shape _ _ RE) as (e & l1 & l2 & -> & _). exists e.
    apply in_or_app. right. left. reflexivity.
  - right. unfold pc_ok in PCO. rewrite P in PCO. split; [exact PCO|]. cbn [step] in ST. rewrite P in ST.
    assert (LT : loop_top s = (s', o)) by congruence.
    destruct (pc s') eqn:P'.
    + exfalso. pose proof (loop_top_frame2 s) as [_ X]. rewrite LT in X. cbn [fst] in X. congruence.
    + right; left. split; [reflexivity|]. apply AW'. exact P'.
    + right; right. destruct (loop_top_yield _ _ _ LT P') as (-> & _ & R' & Q1 & Q2 & _).
      split; [reflexivity|]. split; [exact R'|]. split; [left; reflexivity|]. split; [exact Q1|exact Q2].
    + left. split; [reflexivity|]. exact (loop_top_done_out _ _ _ LT P').
  - cbn [step] in ST. rewrite P in ST. discriminate.
Qed.

(* ---- a turn (from any pc) that leaves the loop yielded ---- *)
Lemma turn_yields c s s1 o1 :
  base_ok s -> step c s LTop = Some (s1, o1) -> pc s1 = Yielded ->
  running s1 = [] /\ pdone s1 = pdone s /\ perrs s1 = perrs s /\ now s <= now s1 /\
  (pdone s1 = true -> flow s1 <> Break /\ qS s1 ++ qC s1 <> []) /\
  (flow s1 <> Break -> flow s1 <> Cont (Some 0%nat) -> qS s1 ++ qC s1 <> [] -> rdy s1 = true /\ now s < now s1).
Proof.
  intros BO ST PY.
  assert (X : exists s' o2, loop_top s' = (s1, o2) /\ qS s' = qS s /\ qC s' = qC s /\ now s' = now s /\
                            pdone s' = pdone s /\ perrs s' = perrs s).
  { destruct (step_top_cases _ _ _ _ ST) as (s' & o2 & LT & CS). exists s', o2. split; [exact LT|].
    destruct CS as [(P & ->)|[(P & ->)|(P & r & o0 & fl & fc & rc & RE & DR & ->)]]; repeat split; reflexivity. }
  destruct X as (s' & o2 & LT & Q1 & Q2 & NW & PD & PE).
  assert (BO' : base_ok s').
  { intros e b I EB. rewrite Q1, Q2 in I. rewrite NW. exact (BO e b I EB). }
  destruct (loop_top_yield _ _ _ LT PY) as (_ & _ & R' & E1 & E2 & FL & PD' & PE' & FC & NOW & PR).
  split; [exact R'|]. split; [congruence|]. split; [congruence|]. split; [lia|]. split.
  - intros PT. unfold fin_cond in FC. rewrite <- PD', PT in FC. cbn [andb] in FC. apply orb_false_elim in FC as [NB NQ]. split.
    + rewrite FL. intros B. rewrite B in NB. discriminate NB.
    + rewrite E1, E2. intros Q. apply app_eq_nil in Q as [A B]. rewrite A, B in NQ. discriminate NQ.
  - intros NB NZ QNE. rewrite E1, E2 in QNE. rewrite FL in NB, NZ.
    assert (SZ : slots_of s' <> Some 0%nat).
    { unfold slots_of. destruct (flow s') as [|k]; [congruence|]. intros Y. apply NZ. rewrite Y. reflexivity. }
    destruct (PR SZ BO' QNE) as [A B]. split; [exact A|lia].
Qed.

(* ---- between two turns, with nothing in flight: only the environment moves ---- *)
Definition env_label (l : label) : Prop :=
  match l with LFeature _ | LParseErr _ | LParserEnd | LTick _ => True | _ => False end.
Definition tick_label (l : label) : Prop := match l with LTick _ => True | _ => False end.

Lemma insert_feature_flow F s : flow (insert_feature F s) = flow s.
Proof. unfold insert_feature. destruct (pf s) as [[[[a b] c0] d] e]. destruct (is_nil _); reflexivity. Qed.

Lemma entry_of_ready now F sc : left_until now (entry_of F sc) = None.
Proof. unfold left_until, entry_of. cbn [e_delay e_base]. destruct (match ss_retry sc with Some (_, d) => d | None => None end); reflexivity. Qed.

Lemma step_quiet c s l s' o :
  pc s = Yielded -> running s = [] -> is_top l = false -> step c s l = Some (s', o) ->
  pc s' = Yielded /\ running s' = [] /\ flow s' = flow s /\ env_label l /\
  (rdy s = true -> rdy s' = true) /\
  (rdy s = true \/ qS s ++ qC s = [] -> rdy s' = true \/ qS s' ++ qC s' = []) /\
  (pdone s = true -> perrs s = true -> tick_label l).
Proof.
  intros PY R NT H. destruct l as [F|id| | |k|k x|k failed|d]; cbn [env_label tick_label].
  - cbn [step] in H. destruct (perrs s) eqn:PE; [discriminate|]. inversion H; subst.
    destruct (insert_feature_frame F s) as (E1 & _ & _ & _ & E5 & _). destruct (insert_feature_now F s) as [NW _].
    pose proof (insert_feature_queue F s) as QP. unfold SchedP7.queue in QP.
    assert (RD : rdy s = true -> rdy (insert_feature F s) = true).
    { unfold rdy. rewrite NW. intros X. apply existsb_exists in X as (e & I & RE). apply existsb_exists. exists e.
      split; [|exact RE]. eapply Permutation_in; [exact QP|]. apply in_or_app. right. exact I. }
    split; [congruence|]. split; [congruence|]. split; [apply insert_feature_flow|]. split; [exact I|].
    split; [exact RD|]. split; [|discriminate].
    intros [X|X]; [left; exact (RD X)|]. rewrite X in QP. rewrite app_nil_r in QP.
    destruct (sf_scens F) as [|sc t] eqn:SC.
    + right. cbn [map] in QP. apply Permutation_nil in QP. exact QP.
    + left. unfold rdy. apply existsb_exists. exists (entry_of F sc). split.
      * eapply Permutation_in; [exact QP|]. left. reflexivity.
      * unfold readyb. rewrite entry_of_ready. reflexivity.
  - cbn [step] in H. destruct (perrs s) eqn:PE; [discriminate|]. destruct (pf s) as [[[[a b] c0] d0] e]. inversion H; subst.
    split; [exact PY|]. split; [exact R|]. split; [reflexivity|]. split; [exact I|].
    split; [intros X; exact X|]. split; [intros X; exact X|discriminate].
  - cbn [step] in H. destruct (pdone s) eqn:PD; [discriminate|]. destruct (pf s) as [[[[a b] c0] d0] e]. inversion H; subst.
    split; [exact PY|]. split; [exact R|]. split; [reflexivity|]. split; [exact I|].
    split; [intros X; exact X|]. split; [intros X; exact X|discriminate].
  - discriminate NT.
  - cbn [step] in H. rewrite R in H. cbn [set_phase] in H. discriminate.
  - cbn [step] in H. rewrite R in H. cbn [find_open] in H. destruct (is_middle x); discriminate.
  - cbn [step] in H. rewrite R in H. cbn [set_phase] in H. discriminate.
  - cbn [step] in H. inversion H; subst.
    assert (RD : rdy s = true ->
                 rdy (upd s (qS s) (qC s) (flow s) (running s) (msgs s) (fcount s) (rcount s) (now s + d) (pc s)) = true).
    { unfold rdy, upd. cbn [qS qC now]. intros X. apply (rdy_mono (now s)); [exact X|lia]. }
    split; [exact PY|]. split; [exact R|]. split; [reflexivity|]. split; [exact I|]. split; [exact RD|].
    split; [|intros _ _; exact I]. intros [X|X]; [left; exact (RD X)|right; exact X].
Qed.

Lemma tops_zero_cons l t : tops (l :: t) = 0%nat -> is_top l = false /\ tops t = 0%nat.
Proof. rewrite tops_cons. destruct (is_top l); [discriminate|]. intros X. split; [reflexivity|exact X]. Qed.

Lemma exec_quiet c : forall mid s s' o,
  pc s = Yielded -> running s = [] -> tops mid = 0%nat -> exec_from c s mid = Some (s', o) ->
  pc s' = Yielded /\ running s' = [] /\ flow s' = flow s /\ Forall env_label mid /\
  (rdy s = true -> rdy s' = true) /\
  (rdy s = true \/ qS s ++ qC s = [] -> rdy s' = true \/ qS s' ++ qC s' = []) /\
  (pdone s = true -> perrs s = true -> Forall tick_label mid).
Proof.
  induction mid as [|l t IH]; intros s s' o PY R TZ H; cbn [exec_from] in H.
  - inversion H; subst. split; [exact PY|]. split; [exact R|]. split; [reflexivity|]. split; [constructor|].
    split; [intros X; exact X|]. split; [intros X; exact X|intros _ _; constructor].
  - destruct (step c s l) as [[s1 o1]|] eqn:S1; [|discriminate].
    destruct (exec_from c s1 t) as [[s2 o2]|] eqn:S2; [|discriminate]. inversion H; subst.
    destruct (tops_zero_cons _ _ TZ) as [NT TZ'].
    destruct (step_quiet _ _ _ _ _ PY R NT S1) as (PY1 & R1 & F1 & EL & RD1 & RQ1 & TK1).
    destruct (IH _ _ _ PY1 R1 TZ' S2) as (PY2 & R2 & F2 & ELS & RD2 & RQ2 & TK2).
    split; [exact PY2|]. split; [exact R2|]. split; [congruence|]. split; [constructor; assumption|].
    split; [intros X; exact (RD2 (RD1 X))|]. split; [intros X; exact (RQ2 (RQ1 X))|].
    intros PD PE. pose proof (TK1 PD PE) as TL. constructor; [exact TL|]. apply TK2.
    + rewrite (step_pdone _ _ _ _ _ S1), PD. reflexivity.
    + destruct l; try contradiction TL. cbn [step] in S1. inversion S1; subst. exact PE.
Qed.

(* reachable states: the invariants used below *)
Lemma reach_facts c ls s tr : exec c ls = Some (s, tr) -> Inv (cf_concurrency c) s /\ pe_ok s /\ base_ok s.
Proof.
  intros H. split; [exact (exec_from_inv _ c ls _ _ _ (init_inv c) H)|]. exact (exec_from_aux c ls _ _ _ (init_aux c) H).
Qed.

(* NO SPINNING. Take any run; a loop turn that leaves the loop yielded (so: nothing in flight, nothing handed out), then
   any labels other than LTop, then the next loop turn. If that turn leaves the loop yielded too, then the limit is 0
   or THE PARSER HAS NOT ENDED and either fail-fast has stopped the dispatching (the runner only waits for the parser
   to end) or both queues were empty after the first turn and still are: there is nothing the runner could run. In every
   other case — in particular always once the parser has ended, see below — the first idle turn has moved the clock
   past the smallest retry deadline and the second turn dispatches. *)
Theorem two_idle_turns_only_while_waiting_for_the_parser c pre s0 tr0 s1 o1 mid s2 tr2 s3 o3 :
  exec c pre = Some (s0, tr0) ->
  step c s0 LTop = Some (s1, o1) -> pc s1 = Yielded ->
  exec_from c s1 mid = Some (s2, tr2) -> tops mid = 0%nat ->
  step c s2 LTop = Some (s3, o3) -> pc s3 = Yielded ->
  cf_concurrency c = Some 0%nat \/
  (pdone s2 = false /\ (flow s2 = Break \/ (qS s1 ++ qC s1 = [] /\ qS s2 ++ qC s2 = []))).
Proof.
  intros H0 ST1 PY1 HM TZ ST3 PY3.
  destruct (reach_facts _ _ _ _ H0) as (I0 & _ & BO0).
  pose proof (step_inv _ _ _ _ _ _ I0 ST1) as (SL1 & _).
  destruct (turn_yields _ _ _ _ BO0 ST1 PY1) as (R1 & _ & _ & _ & _ & PRIME).
  destruct (exec_quiet _ _ _ _ _ PY1 R1 TZ HM) as (PY2 & R2 & F2 & _ & RD & RQ & _).
  assert (LT : loop_top s2 = (s3, o3)) by (cbn [step] in ST3; rewrite PY2 in ST3; congruence).
  destruct (loop_top_yield _ _ _ LT PY3) as (_ & _ & _ & _ & _ & _ & _ & _ & FC & _).
  assert (Z : cf_concurrency c = Some 0%nat \/ cf_concurrency c <> Some 0%nat).
  { destruct (cf_concurrency c) as [[|k]|]; [left; reflexivity|right; discriminate|right; discriminate]. }
  destruct Z as [Z|NZ]; [left; exact Z|right].
  pose proof (flow_nz _ _ NZ SL1 R1) as FNZ.
  (* a ready entry at the second turn is dispatched *)
  assert (NOTRDY : flow s1 <> Break -> rdy s2 = true -> False).
  { intros NB X. assert (PA : pc s3 = Awaiting).
    { apply (primed_turn_dispatches _ _ _ LT R2); [rewrite F2; exact FNZ|rewrite F2; exact NB|].
      rewrite (primedb_yielded _ PY2). exact X. }
    congruence. }
  unfold fin_cond in FC.
  destruct (flow s1) as [|k] eqn:FL.
  - (* the flow is broken *)
    split; [|left; exact F2]. destruct (pdone s2); [|reflexivity]. rewrite F2 in FC. cbn in FC. discriminate FC.
  - assert (NB : Cont k <> Break) by discriminate.
    destruct (qS s1 ++ qC s1) as [|e0 t0] eqn:Q1.
    + destruct (RQ (or_intror eq_refl)) as [X|X]; [destruct (NOTRDY NB X)|].
      split; [|right; split; [reflexivity|exact X]].
      apply app_eq_nil in X as [A B]. rewrite A, B in FC. cbn [is_nil andb] in FC. rewrite orb_true_r, andb_true_r in FC. exact FC.
    + exfalso. assert (QNE : e0 :: t0 <> []) by discriminate.
      destruct (PRIME NB FNZ QNE) as [X _]. exact (NOTRDY NB (RD X)).
Qed.

Lemma exec_from_app_fwd c : forall a s b s1 o1 s2 o2,
  exec_from c s a = Some (s1, o1) -> exec_from c s1 b = Some (s2, o2) -> exec_from c s (a ++ b) = Some (s2, o1 ++ o2).
Proof.
  induction a as [|x a IH]; intros s b s1 o1 s2 o2 H1 H2; cbn [app exec_from] in *.
  - inversion H1; subst. rewrite H2. reflexivity.
  - destruct (step c s x) as [[sa oa]|]; [|discriminate].
    destruct (exec_from c sa a) as [[sb ob]|] eqn:EB; [|discriminate]. inversion H1; subst.
    rewrite (IH _ _ _ _ _ _ EB H2). rewrite app_assoc. reflexivity.
Qed.

(* the same about label lists only: two turns in a row that leave the loop yielded — limit 0, or the parser has not ended *)
Corollary two_idle_turns_labels c pre mid s1 tr1 s3 tr3 :
  exec c (pre ++ [LTop]) = Some (s1, tr1) -> pc s1 = Yielded ->
  tops mid = 0%nat ->
  exec c ((pre ++ [LTop]) ++ mid ++ [LTop]) = Some (s3, tr3) -> pc s3 = Yielded ->
  cf_concurrency c = Some 0%nat \/ ~ In LParserEnd (pre ++ [LTop] ++ mid).
Proof.
  intros H1 PY1 TZ H3 PY3. unfold exec in *.
  destruct (SchedP12.exec_from_app _ _ _ _ _ _ H1) as (s0 & tr0 & o1 & H0 & ST1 & _).
  cbn [exec_from] in ST1. destruct (step c s0 LTop) as [[s1' o1']|] eqn:S1; [|discriminate]. inversion ST1; subst.
  destruct (SchedP12.exec_from_app _ _ _ _ _ _ H3) as (s1' & tr1' & o2 & H1' & H23 & _).
  rewrite H1 in H1'. inversion H1'; subst s1' tr1'.
  destruct (SchedP12.exec_from_app _ _ _ _ _ _ H23) as (s2 & tr2 & o3 & HM & ST3 & _).
  cbn [exec_from] in ST3. destruct (step c s2 LTop) as [[s3' o3']|] eqn:S3; [|discriminate]. inversion ST3; subst.
  destruct (two_idle_turns_only_while_waiting_for_the_parser c pre s0 tr0 s1 o1' mid s2 tr2 s3 o3' H0 S1 PY1 HM TZ S3 PY3)
    as [Z|(PD & _)]; [left; exact Z|right].
  intros IN.
  assert (E : exec c ((pre ++ [LTop]) ++ mid) = Some (s2, tr1 ++ tr2)).
  { unfold exec. exact (exec_from_app_fwd _ _ _ _ _ _ _ _ H1 HM). }
  rewrite <- app_assoc in E. apply (pdone_iff_parser_end _ _ _ _ E) in IN. congruence.
Qed.

(* AFTER THE PARSER HAS ENDED (limit not 0): an idle turn has moved the clock, after it nothing but clock ticks can
   happen, and the very next loop turn DISPATCHES. So two idle turns never occur in a row: at most one idle turn
   between two turns that make progress. *)
Theorem after_parsing_an_idle_turn_is_followed_by_a_dispatch c pre s0 tr0 s1 o1 mid s2 tr2 s3 o3 :
  exec c pre = Some (s0, tr0) -> In LParserEnd pre -> cf_concurrency c <> Some 0%nat ->
  step c s0 LTop = Some (s1, o1) -> pc s1 = Yielded ->
  exec_from c s1 mid = Some (s2, tr2) -> tops mid = 0%nat ->
  step c s2 LTop = Some (s3, o3) ->
  now s0 < now s1 /\ Forall tick_label mid /\ pc s3 = Awaiting /\ running s3 <> [].
Proof.
  intros H0 PEND NZ ST1 PY1 HM TZ ST3.
  destruct (reach_facts _ _ _ _ H0) as (I0 & PE0 & BO0).
  pose proof (proj2 (pdone_iff_parser_end _ _ _ _ H0) PEND) as PD0.
  pose proof (step_inv _ _ _ _ _ _ I0 ST1) as (SL1 & _).
  destruct (turn_yields _ _ _ _ BO0 ST1 PY1) as (R1 & PD1 & PE1 & _ & FIN & PRIME).
  rewrite PD0 in PD1. rewrite (PE0 PD0) in PE1.
  destruct (FIN PD1) as [NB QNE]. pose proof (flow_nz _ _ NZ SL1 R1) as FNZ.
  destruct (PRIME NB FNZ QNE) as [RDY1 CLK].
  destruct (exec_quiet _ _ _ _ _ PY1 R1 TZ HM) as (PY2 & R2 & F2 & _ & RD & _ & TK).
  assert (LT : loop_top s2 = (s3, o3)) by (cbn [step] in ST3; rewrite PY2 in ST3; congruence).
  assert (PA : pc s3 = Awaiting).
  { apply (primed_turn_dispatches _ _ _ LT R2); [rewrite F2; exact FNZ|rewrite F2; exact NB|].
    rewrite (primedb_yielded _ PY2). exact (RD RDY1). }
  split; [exact CLK|]. split; [exact (TK PD1 PE1)|]. split; [exact PA|].
  assert (AW2 : aw_ok s2) by (intros X; congruence).
  exact (step_aw _ _ _ _ _ AW2 ST3 PA).
Qed.

Corollary after_parsing_no_two_idle_turns c pre s0 tr0 s1 o1 mid s2 tr2 s3 o3 :
  exec c pre = Some (s0, tr0) -> In LParserEnd pre -> cf_concurrency c <> Some 0%nat ->
  step c s0 LTop = Some (s1, o1) -> pc s1 = Yielded ->
  exec_from c s1 mid = Some (s2, tr2) -> tops mid = 0%nat ->
  step c s2 LTop = Some (s3, o3) -> pc s3 <> Yielded.
Proof.
  intros H0 PEND NZ ST1 PY1 HM TZ ST3.
  destruct (after_parsing_an_idle_turn_is_followed_by_a_dispatch _ _ _ _ _ _ _ _ _ _ _ H0 PEND NZ ST1 PY1 HM TZ ST3)
    as (_ & _ & PA & _). congruence.
Qed.

(* ---- the premises are satisfiable: the run of SchedP10 (limit 1, a retry after 5ns): its third turn is idle ---- *)
Definition pc_code (p : pcT) : nat := match p with NotBegun => 0 | Awaiting => 1 | Yielded => 2 | Done => 3 end.
Example idle_turn_then_dispatch_example :
  match exec ex_c (ex_ls0 ++ firstn 6 ex_ls) with
  | Some (s0, _) =>
    match step ex_c s0 LTop with
    | Some (s1, o1) =>
      match exec_from ex_c s1 [LTick 3] with
      | Some (s2, _) =>
        match step ex_c s2 LTop with
        | Some (s3, _) => (pdone s0, pc_code (pc s1), o1, now s0, now s1, pc_code (pc s3), length (running s3))
        | None => (false, 0%nat, [], 0, 0, 0%nat, 0%nat)
        end
      | None => (false, 0%nat, [], 0, 0, 0%nat, 0%nat)
      end
    | None => (false, 0%nat, [], 0, 0, 0%nat, 0%nat)
    end
  | None => (false, 0%nat, [], 0, 0, 0%nat, 0%nat)
  end = (true, 2%nat, [], 0, 6, 1%nat, 1%nat).
Proof. vm_compute. reflexivity. Qed.

(* ---- the exceptions are real: three runs that spin for as long as the executor polls them ---- *)
Lemma spin_forever c s : step c s LTop = Some (s, []) -> forall n, exec_from c s (repeat LTop n) = Some (s, []).
Proof. intros H. induction n as [|n IH]; [reflexivity|]. cbn [repeat exec_from]. rewrite H, IH. reflexivity. Qed.

Definition state_after (c : cfg) (ls : list label) : st := match exec c ls with Some (s, _) => s | None => init_st c end.
Definition stream_after (c : cfg) (ls : list label) : list ev := match exec c ls with Some (_, tr) => tr | None => [] end.

Lemma spins c ls : exec c ls <> None -> step c (state_after c ls) LTop = Some (state_after c ls, []) ->
  forall n, exec c (ls ++ repeat LTop n) = Some (state_after c ls, stream_after c ls).
Proof.
  intros NE FIX n. unfold state_after, stream_after in *. destruct (exec c ls) as [[s tr]|] eqn:E; [|congruence].
  unfold exec in *. rewrite (exec_from_app_fwd _ _ _ _ _ _ _ _ E (spin_forever _ _ FIX n)). rewrite app_nil_r. reflexivity.
Qed.

(* (1) the parser has delivered nothing yet: every turn is idle, the clock stands still *)
Definition w1_c : cfg := mk_cfg (Some 1%nat) false.
Example spin_while_the_parser_is_silent :
  forall n, exec w1_c ([LTop] ++ repeat LTop n) = Some (state_after w1_c [LTop], [EvStarted])
  /\ pc (state_after w1_c [LTop]) = Yielded /\ pdone (state_after w1_c [LTop]) = false
  /\ qS (state_after w1_c [LTop]) ++ qC (state_after w1_c [LTop]) = [].
Proof.
  intros n. split; [|vm_compute; repeat split].
  apply (spins w1_c [LTop]); [vm_compute; discriminate|vm_compute; reflexivity].
Qed.

(* (2) fail-fast has tripped before the parser ended: scenario 12 stays queued, every turn is idle until LParserEnd *)
Definition w2_c : cfg := mk_cfg (Some 1%nat) true.
Definition w2_ls : list label :=
  [LFeature (mk_sfeature 1 [mk_sscen 11 None false None; mk_sscen 12 None false None] 0 2);
   LTop; LAttStart (11, 0); LAttEnd (11, 0) true; LTop].
Example spin_after_fail_fast_before_parser_end :
  forall n, exec w2_c (w2_ls ++ repeat LTop n) = Some (state_after w2_c w2_ls, stream_after w2_c w2_ls)
  /\ pc (state_after w2_c w2_ls) = Yielded /\ pdone (state_after w2_c w2_ls) = false
  /\ flow (state_after w2_c w2_ls) = Break /\ length (qC (state_after w2_c w2_ls)) = 1%nat.
Proof.
  intros n. split; [|vm_compute; repeat split].
  apply (spins w2_c w2_ls); [vm_compute; discriminate|vm_compute; reflexivity].
Qed.
(* ... and the parser's end stops it: the next turn is the last *)
Example spin_after_fail_fast_ends_with_the_parser :
  match exec w2_c (w2_ls ++ [LTop; LTop; LParserEnd; LTop]) with
  | Some (s, tr) => (pc_code (pc s), last tr EvStarted)
  | None => (0%nat, EvStarted)
  end = (3%nat, EvFinished).
Proof. vm_compute. reflexivity. Qed.

(* (3) a limit of 0: the parser has ended, a scenario is queued, and the loop idles for ever (the hypothesis
   `cf_concurrency c <> Some 0` of the theorems above and of the turn bounds cannot be dropped) *)
Definition w3_c : cfg := mk_cfg (Some 0%nat) false.
Definition w3_ls : list label := [LFeature (mk_sfeature 1 [mk_sscen 11 None false None] 0 1); LParserEnd; LTop].
Example spin_with_limit_zero :
  forall n, exec w3_c (w3_ls ++ repeat LTop n) = Some (state_after w3_c w3_ls, stream_after w3_c w3_ls)
  /\ pc (state_after w3_c w3_ls) = Yielded /\ pdone (state_after w3_c w3_ls) = true
  /\ length (qC (state_after w3_c w3_ls)) = 1%nat.
Proof.
  intros n. split; [|vm_compute; repeat split].
  apply (spins w3_c w3_ls); [vm_compute; discriminate|vm_compute; reflexivity].
Qed.

(* the converse, in general: a turn taken from a yielded state that is not the last one and finds no slot (limit 0,
   or the flow broken) or nothing queued is idle, emits nothing and changes nothing but the clock — so it repeats *)
Lemma waiting_turn_is_idle c s :
  pc s = Yielded -> running s = [] -> fin_cond s = false -> (slots_of s = Some 0%nat \/ qS s ++ qC s = []) ->
  exists s', step c s LTop = Some (s', []) /\ pc s' = Yielded.
Proof.
  intros PY R FC Z. cbn [step]. rewrite PY. unfold loop_top.
  change (match flow s with Break => Some 0%nat | Cont k => k end) with (slots_of s).
  assert (G : exists qs qc md, get (slots_of s) s = ([], qs, qc, md)).
  { destruct Z as [Z|Z]; [rewrite Z; cbn [get]; eauto|]. apply app_eq_nil in Z as [A B].
    rewrite (get_nil_queues _ _ A B). eauto. }
  destruct G as (qs & qc & md & ->). rewrite R. cbn [is_nil andb]. unfold fin_cond in FC. rewrite FC.
  eexists. split; reflexivity.
Qed.

(* ================================================================================================ *)
(* C. C07, serial isolation on the stream, in plain words                                            *)
(* ================================================================================================ *)
(* `iso_walk ser` follows the scenario IDS with an open attempt, the bracket walker the KEYS: they agree *)
Lemma iso_att_step ser io ao e io' ao' :
  iso_step ser io e = Some io' -> att_step None ao e = Some ao' ->
  Permutation io (map fst ao) -> Permutation io' (map fst ao').
Proof.
  intros HI HA P. destruct e as [| | | | | | | |f r s rt x]; cbn [iso_step att_step] in HI, HA;
    try (inversion HI; inversion HA; subst; exact P).
  destruct x.
  - destruct (if ser s then is_nil io else negb (existsb ser io)); [|discriminate]. cbn [leK] in HA.
    inversion HI; inversion HA; subst. cbn [map fst]. apply perm_skip. exact P.
  - destruct (own_or_plain ser s io); [|discriminate]. destruct (memA (s, rt) ao); [|discriminate].
    inversion HI; inversion HA; subst. exact P.
  - destruct (own_or_plain ser s io); [|discriminate]. destruct (memA (s, rt) ao); [|discriminate].
    inversion HI; inversion HA; subst. exact P.
  - destruct (own_or_plain ser s io); [|discriminate]. destruct (memA (s, rt) ao); [|discriminate].
    inversion HI; inversion HA; subst. exact P.
  - destruct (own_or_plain ser s io); [|discriminate]. destruct (memA (s, rt) ao); [|discriminate].
    inversion HI; inversion HA; subst. exact P.
  - destruct (own_or_plain ser s io); [|discriminate]. destruct (memA (s, rt) ao) eqn:M; [|discriminate].
    inversion HI; inversion HA; subst. apply memA_in in M.
    pose proof (Permutation_map fst (rm_att_perm _ _ M)) as Q. cbn [map fst] in Q.
    assert (IS : In s io).
    { eapply Permutation_in; [apply Permutation_sym, P|]. eapply Permutation_in; [apply Permutation_sym, Q|]. left. reflexivity. }
    apply (Permutation_cons_inv (a := s)).
    eapply perm_trans; [apply Permutation_sym, (remove_one_perm _ _ IS)|]. eapply perm_trans; [exact P|exact Q].
Qed.

Lemma iso_att_run ser : forall es io ao io' ao',
  iso_run ser io es = Some io' -> att_run None ao es = Some ao' ->
  Permutation io (map fst ao) -> Permutation io' (map fst ao').
Proof.
  induction es as [|e t IH]; intros io ao io' ao' HI HA P; cbn [iso_run att_run] in HI, HA.
  - inversion HI; inversion HA; subst. exact P.
  - destruct (iso_step ser io e) as [io1|] eqn:E1; [|discriminate].
    destruct (att_step None ao e) as [ao1|] eqn:E2; [|discriminate].
    exact (IH _ _ _ _ HI HA (iso_att_step _ _ _ _ _ _ E1 E2 P)).
Qed.

(* while the only open attempt is the serial one (sid, rt): every scenario event is a middle event of its own *)
Lemma serial_segment ser sid rt : ser sid = true -> forall mid post r1 r2,
  iso_run ser [sid] (mid ++ post) = Some r1 -> att_run None [(sid, rt)] (mid ++ post) = Some r2 ->
  (forall f' r', ~ In (EvScen f' r' sid rt ScFinished) mid) ->
  forall e, In e mid -> own_middle (sid, rt) e.
Proof.
  intros SS. induction mid as [|e t IH]; intros post r1 r2 HI HA NF; [intros e []|].
  cbn [app iso_run att_run] in HI, HA.
  destruct (iso_step ser [sid] e) as [io1|] eqn:E1; [|discriminate].
  destruct (att_step None [(sid, rt)] e) as [ao1|] eqn:E2; [|discriminate].
  assert (X : io1 = [sid] /\ ao1 = [(sid, rt)] /\ own_middle (sid, rt) e).
  { destruct e as [| | | | | | | |f r s' rt' x]; cbn [iso_step att_step] in E1, E2;
      try (inversion E1; inversion E2; subst; split; [reflexivity|split; [reflexivity|intros f' r' s0 rt0 x0 X; discriminate X]]).
    destruct x.
    - exfalso. cbn [is_nil existsb] in E1. rewrite SS in E1. cbn in E1. destruct (ser s'); discriminate E1.
    - destruct (own_or_plain ser s' [sid]); [|discriminate]. cbn [memA existsb] in E2. rewrite orb_false_r in E2.
      destruct (att_eqb (s', rt') (sid, rt)) eqn:AE; [|discriminate]. apply att_eqb_spec in AE. inversion AE; subst.
      inversion E1; inversion E2; subst. split; [reflexivity|split; [reflexivity|]].
      intros f' r' s0 rt0 x0 X. inversion X; subst. cbn. auto.
    - destruct (own_or_plain ser s' [sid]); [|discriminate]. cbn [memA existsb] in E2. rewrite orb_false_r in E2.
      destruct (att_eqb (s', rt') (sid, rt)) eqn:AE; [|discriminate]. apply att_eqb_spec in AE. inversion AE; subst.
      inversion E1; inversion E2; subst. split; [reflexivity|split; [reflexivity|]].
      intros f' r' s0 rt0 x0 X. inversion X; subst. cbn. auto.
    - destruct (own_or_plain ser s' [sid]); [|discriminate]. cbn [memA existsb] in E2. rewrite orb_false_r in E2.
      destruct (att_eqb (s', rt') (sid, rt)) eqn:AE; [|discriminate]. apply att_eqb_spec in AE. inversion AE; subst.
      inversion E1; inversion E2; subst. split; [reflexivity|split; [reflexivity|]].
      intros f' r' s0 rt0 x0 X. inversion X; subst. cbn. auto.
    - destruct (own_or_plain ser s' [sid]); [|discriminate]. cbn [memA existsb] in E2. rewrite orb_false_r in E2.
      destruct (att_eqb (s', rt') (sid, rt)) eqn:AE; [|discriminate]. apply att_eqb_spec in AE. inversion AE; subst.
      inversion E1; inversion E2; subst. split; [reflexivity|split; [reflexivity|]].
      intros f' r' s0 rt0 x0 X. inversion X; subst. cbn. auto.
    - exfalso. cbn [memA existsb] in E2. rewrite orb_false_r in E2.
      destruct (att_eqb (s', rt') (sid, rt)) eqn:AE; [|discriminate]. apply att_eqb_spec in AE. inversion AE; subst.
      apply (NF f r). left. reflexivity. }
  destruct X as (-> & -> & OM). intros e0 [<-|I0]; [exact OM|].
  exact (IH post r1 r2 HI HA (fun f' r' I1 => NF f' r' (or_intror I1)) e0 I0).
Qed.

(* an open attempt stays open until its own Finished *)
Lemma att_keeps k : forall mid ao ao',
  att_run None ao mid = Some ao' -> In k ao ->
  (forall f' r', ~ In (EvScen f' r' (fst k) (snd k) ScFinished) mid) -> In k ao'.
Proof.
  induction mid as [|e t IH]; intros ao ao' HA IN NF; cbn [att_run] in HA; [inversion HA; subst; exact IN|].
  destruct (att_step None ao e) as [ao1|] eqn:E; [|discriminate].
  apply (IH ao1 ao' HA); [|intros f' r' I1; exact (NF f' r' (or_intror I1))].
  destruct e as [| | | | | | | |f r s rt x]; cbn [att_step] in E; try (inversion E; subst; exact IN).
  destruct x; cbn [leK] in E; try (destruct (memA (s, rt) ao); [|discriminate]); inversion E; subst;
    try exact IN; [right; exact IN|].
  apply rm_att_other; [exact IN|]. intros ->. apply (NF f r). left. reflexivity.
Qed.

(* C07 ON THE EMITTED STREAM, IN PLAIN WORDS (any configuration, any label list; `ser` says which scenario ids are
   serial and the features handed over are tagged consistently with it, as in C07_stream_serial_isolation):
   (1) between the Started event of an attempt of a SERIAL scenario and its Finished event, every scenario event is a
       middle event of that same attempt — same scenario id, same retry counter: no event of any other attempt, and no
       other Started or Finished at all;
   (2) no attempt of a serial scenario starts while another attempt is between its Started and its Finished. *)
Theorem serial_attempt_runs_alone ser c ls s tr :
  exec c ls = Some (s, tr) -> tagged ser ls ->
  forall pre f r sid rt mid post,
    tr = pre ++ EvScen f r sid rt ScStarted :: mid ++ post -> ser sid = true ->
    (forall f' r', ~ In (EvScen f' r' sid rt ScFinished) mid) ->
    forall f' r' s' rt' x, In (EvScen f' r' s' rt' x) mid -> s' = sid /\ rt' = rt /\ is_middle x = true.
Proof.
  intros H TG pre f r sid rt mid post E SS NF f' r' s' rt' x IN.
  pose proof (stream_serial_isolation ser _ _ _ _ H TG) as IW. unfold iso_walk in IW.
  destruct (stream_attempt_brackets _ _ _ _ H) as (op & AR & _). apply att_run_unbounded in AR.
  subst tr. rewrite iso_run_app in IW. rewrite att_run_app in AR.
  destruct (iso_run ser [] pre) as [io1|] eqn:I1; [|discriminate IW].
  destruct (att_run None [] pre) as [ao1|] eqn:A1; [|discriminate AR].
  pose proof (iso_att_run ser _ _ _ _ _ I1 A1 (Permutation_refl _)) as P1.
  cbn [iso_run iso_step att_run att_step leK] in IW, AR. rewrite SS in IW.
  destruct io1 as [|y io1]; [|discriminate IW]. cbn [is_nil] in IW.
  apply Permutation_nil in P1. destruct ao1 as [|z ao1]; [|discriminate P1].
  destruct (iso_run ser [sid] (mid ++ post)) as [r1|] eqn:I2; [|discriminate IW].
  refine (serial_segment ser sid rt SS mid post r1 op I2 AR NF _ IN _ _ _ _ _ eq_refl).
Qed.

Theorem serial_attempt_starts_alone ser c ls s tr :
  exec c ls = Some (s, tr) -> tagged ser ls ->
  forall pre f r sid rt mid f2 r2 s2 rt2 post,
    tr = pre ++ EvScen f r sid rt ScStarted :: mid ++ EvScen f2 r2 s2 rt2 ScStarted :: post -> ser s2 = true ->
    exists f' r', In (EvScen f' r' sid rt ScFinished) mid.
Proof.
  intros H TG pre f r sid rt mid f2 r2 s2 rt2 post E SS.
  destruct (fin_in_dec sid rt mid) as [Y|NF]; [exact Y|exfalso].
  pose proof (stream_serial_isolation ser _ _ _ _ H TG) as IW. unfold iso_walk in IW.
  destruct (stream_attempt_brackets _ _ _ _ H) as (op & AR & _). apply att_run_unbounded in AR.
  subst tr. rewrite iso_run_app in IW. rewrite att_run_app in AR.
  destruct (iso_run ser [] pre) as [io1|] eqn:I1; [|discriminate IW].
  destruct (att_run None [] pre) as [ao1|] eqn:A1; [|discriminate AR].
  pose proof (iso_att_run ser _ _ _ _ _ I1 A1 (Permutation_refl _)) as P1.
  cbn [iso_run att_run] in IW, AR.
  destruct (iso_step ser io1 (EvScen f r sid rt ScStarted)) as [io2|] eqn:I2; [|discriminate IW].
  destruct (att_step None ao1 (EvScen f r sid rt ScStarted)) as [ao2|] eqn:A2; [|discriminate AR].
  pose proof (iso_att_step _ _ _ _ _ _ I2 A2 P1) as P2.
  assert (IN2 : In (sid, rt) ao2) by (cbn [att_step leK] in A2; inversion A2; subst; left; reflexivity).
  rewrite iso_run_app in IW. rewrite att_run_app in AR.
  destruct (iso_run ser io2 mid) as [io3|] eqn:I3; [|discriminate IW].
  destruct (att_run None ao2 mid) as [ao3|] eqn:A3; [|discriminate AR].
  pose proof (iso_att_run ser _ _ _ _ _ I3 A3 P2) as P3.
  pose proof (att_keeps (sid, rt) _ _ _ A3 IN2 NF) as IN3.
  cbn [iso_run iso_step] in IW. rewrite SS in IW.
  destruct io3 as [|y io3]; [|discriminate IW].
  apply Permutation_nil in P3. destruct ao3; [destruct IN3|discriminate P3].
Qed.

(* the premises are satisfiable: a serial scenario (12) with a retry, then a plain one; in the stream the two attempts
   of 12 are contiguous blocks *)
Example serial_plain_example :
  let f := mk_sfeature 1 [mk_sscen 11 None false None; mk_sscen 12 None true (Some (1, None))] 0 2 in
  let ls := [LFeature f; LParserEnd; LTop; LAttStart (12, 0); LAttEv (12, 0) (ScLog 3); LAttEnd (12, 0) true; LTop;
             LAttStart (12, 1); LAttEnd (12, 1) false; LTop; LAttStart (11, 0)] in
  tagged (fun x => x =? 12) ls /\
  match exec (mk_cfg (Some 2%nat) false) ls with
  | Some (_, tr) => tr
  | None => []
  end = [EvParsingFinished 1 0 2 2 0; EvStarted; EvFeatS 1;
         EvScen 1 None 12 (Some (0, 1)) ScStarted; EvScen 1 None 12 (Some (0, 1)) (ScLog 3);
         EvScen 1 None 12 (Some (0, 1)) ScFinished;
         EvScen 1 None 12 (Some (1, 0)) ScStarted; EvScen 1 None 12 (Some (1, 0)) ScFinished;
         EvScen 1 None 11 None ScStarted].
Proof.
  split; [|vm_compute; reflexivity].
  repeat constructor.
Qed.

(* the hypothesis `tagged` is needed: if `ser` calls 12 serial but the parser delivered it untagged, the runner
   (rightly) runs it concurrently with 11 and the stream is not isolated with respect to that `ser` *)
Example tagged_is_needed :
  let f := mk_sfeature 1 [mk_sscen 11 None false None; mk_sscen 12 None false None] 0 2 in
  match exec (mk_cfg (Some 2%nat) false) [LFeature f; LParserEnd; LTop; LAttStart (12, 0); LAttStart (11, 0)] with
  | Some (_, tr) => (iso_walk (fun x => x =? 12) tr, att_walk (Some 2%nat) tr)
  | None => (true, false)
  end = (false, true).
Proof. vm_compute. reflexivity. Qed.

Print Assumptions limit_one_no_interleaving.
Print Assumptions limit_one_attempts_never_interleave.
Print Assumptions limit_one_starts_are_serialised.
Print Assumptions stream_attempt_brackets.
Print Assumptions loop_turn_kinds.
Print Assumptions pdone_iff_parser_end.
Print Assumptions waiting_turn_is_idle.
Print Assumptions two_idle_turns_only_while_waiting_for_the_parser.
Print Assumptions two_idle_turns_labels.
Print Assumptions after_parsing_an_idle_turn_is_followed_by_a_dispatch.
Print Assumptions spin_while_the_parser_is_silent.
Print Assumptions spin_after_fail_fast_before_parser_end.
Print Assumptions spin_with_limit_zero.
Print Assumptions serial_attempt_runs_alone.
Print Assumptions serial_attempt_starts_alone.
