(* ReportersP4.v — C14, whole documents: the terminal listing (writer::Basic) and the JUnit report state exactly the
   facts of the event stream, for every stream accepted by the SEQUENTIAL ordering contract.
   Part 0: the executable recogniser `shape` (feature brackets, one attempt at a time, Finished last) and the proof
           that the sequential contract automaton implies it.
   Part A: terminal lines.   Part B: JUnit (B1 testcases, B2 Errors suites, B3 listings).   Part C: examples. *)
From CV Require Import Model.Base Model.Events Model.Stats Model.StatsSpec Model.Contract Model.Reporters
  Model.ReportersSpec Proofs.BaseP.
From Coq Require Import Lia.

(* ================================================================================================ *)
(* Part 0: the shape of a sequential stream                                                          *)
(* ================================================================================================ *)

Lemma retr_eqb_spec4 a b : retr_eqb a b = true <-> a = b.
Proof. unfold retr_eqb. apply option_eqb_spec. apply pair_eqb_spec; apply N.eqb_eq. Qed.
Lemma optN_eqb_spec4 (a b : option N) : option_eqb N.eqb a b = true <-> a = b.
Proof. apply option_eqb_spec. apply N.eqb_eq. Qed.
Lemma atkey_eqb_spec4 a b : atkey_eqb a b = true <-> a = b.
Proof.
  destruct a as [[[f r] s] rt], b as [[[f' r'] s'] rt']. unfold atkey_eqb.
  rewrite !andb_true_iff, !N.eqb_eq, optN_eqb_spec4, retr_eqb_spec4.
  split; [intros [[[-> ->] ->] ->]; reflexivity|intros X; inversion X; auto].
Qed.

Section Assoc4.
  Context {K : Type} (eqb : K -> K -> bool).
  Hypothesis eqb_spec : forall a b, eqb a b = true <-> a = b.

  Lemma eqb_refl4 a : eqb a a = true.
  Proof. apply eqb_spec. reflexivity. Qed.
  Lemma eqb_neq4 a b : a <> b -> eqb a b = false.
  Proof. intros H. destruct (eqb a b) eqn:E; [apply eqb_spec in E; contradiction|reflexivity]. Qed.

  Lemma lookup_setk_same4 {V} k (v : V) l : lookup eqb k (setk eqb k v l) = Some v.
  Proof.
    induction l as [|[k' v'] t IH]; cbn [setk lookup].
    - rewrite eqb_refl4. reflexivity.
    - destruct (eqb k k') eqn:E; cbn [lookup]; rewrite E; [reflexivity|exact IH].
  Qed.
  Lemma lookup_setk_other4 {V} k k2 (v : V) l : k2 <> k -> lookup eqb k2 (setk eqb k v l) = lookup eqb k2 l.
  Proof.
    intros NE. induction l as [|[k' v'] t IH]; cbn [setk lookup].
    - rewrite (eqb_neq4 k2 k NE). reflexivity.
    - destruct (eqb k k') eqn:E; cbn [lookup].
      + apply eqb_spec in E. subst k'. rewrite (eqb_neq4 k2 k NE). reflexivity.
      + rewrite IH. reflexivity.
  Qed.
  Lemma lookup_in4 {V} k (v : V) l : lookup eqb k l = Some v -> In (k, v) l.
  Proof.
    induction l as [|[k' v'] t IH]; cbn [lookup]; [discriminate|].
    destruct (eqb k k') eqn:E; [apply eqb_spec in E; subst; intros X; inversion X; left; reflexivity|].
    intros X. right. exact (IH X).
  Qed.
  (* an Open entry makes every "some open entry satisfying p" test true *)
  Lemma open_found (p : K -> bool) k (l : list (K * status)) :
    lookup eqb k l = Some Open -> p k = true -> existsb (fun kv => p (fst kv) && status_eqb (snd kv) Open) l = true.
  Proof.
    intros L P. apply existsb_exists. exists (k, Open). split; [exact (lookup_in4 k Open l L)|].
    cbn [fst snd]. rewrite P. reflexivity.
  Qed.
End Assoc4.

Definition is_none {A} (o : option A) : bool := match o with None => true | Some _ => false end.
Definition okey_is (o : option atkey) (k : atkey) : bool :=
  match o with Some k' => atkey_eqb k' k | None => false end.

Lemma is_none_true {A} (o : option A) : is_none o = true -> o = None.
Proof. destruct o; [discriminate|reflexivity]. Qed.
Lemma is_some_true {A} (o : option A) : is_some o = true -> exists x, o = Some x.
Proof. destruct o as [x|]; [exists x; reflexivity|discriminate]. Qed.
Lemma okey_is_true o k : okey_is o k = true -> o = Some k.
Proof. destruct o as [k'|]; cbn [okey_is]; [|discriminate]. intros E. apply atkey_eqb_spec4 in E. subst. reflexivity. Qed.

(* q: the feature whose bracket is open; o: the attempt that is open.
   - a feature opens only when none is open, closes only when no attempt is open;
   - every scenario event lies inside a feature bracket; an attempt starts only when none is open; every other
     scenario event belongs to the open attempt;
   - run-Finished comes with everything closed and is the last event. *)
Fixpoint shape (q : option N) (o : option atkey) (es : list ev) : bool :=
  match es with
  | [] => true
  | EvFinished :: t => is_none q && is_none o && match t with [] => true | _ => false end
  | EvFeatS f :: t => is_none q && is_none o && shape (Some f) o t
  | EvFeatF f :: t => is_some q && is_none o && shape None o t
  | EvScen f r s rt ScStarted :: t => is_some q && is_none o && shape q (Some (f, r, s, rt)) t
  | EvScen f r s rt ScFinished :: t => is_some q && okey_is o (f, r, s, rt) && shape q None t
  | EvScen f r s rt _ :: t => is_some q && okey_is o (f, r, s, rt) && shape q o t
  | _ :: t => shape q o t
  end.

(* what the (q, o) of `shape` mean in a state of the contract automaton *)
Definition CI (c : cstate) (q : option N) (o : option atkey) : Prop :=
  (forall f, lookup N.eqb f (c_feats c) = Some Open <-> q = Some f) /\
  (forall k, lookup atkey_eqb k (c_atts c) = Some Open <-> o = Some k) /\
  (forall k, o = Some k -> q = Some (att_feat k)).

Lemma guard_inv b c c' : guard b c = Some c' -> b = true /\ c' = c.
Proof. unfold guard. destruct b; [intros E; inversion E; auto|discriminate]. Qed.

Lemma is_open_inv o : is_open o = true -> o = Some Open.
Proof. destruct o as [[|]|]; try discriminate. reflexivity. Qed.

Lemma CI_no_feat c q o : CI c q o -> any_open_feat c = false -> q = None.
Proof.
  intros (HF & _ & _) A. destruct q as [f|]; [|reflexivity]. exfalso.
  assert (L : lookup N.eqb f (c_feats c) = Some Open) by (apply HF; reflexivity).
  unfold any_open_feat in A.
  pose proof (open_found N.eqb N.eqb_eq (fun _ => true) f (c_feats c) L eq_refl) as X. cbn [andb] in X.
  rewrite X in A. discriminate.
Qed.
Lemma CI_no_att c q o : CI c q o -> open_atts_where (fun _ => true) c = false -> o = None.
Proof.
  intros (_ & HA & _) A. destruct o as [k|]; [|reflexivity]. exfalso.
  assert (L : lookup atkey_eqb k (c_atts c) = Some Open) by (apply HA; reflexivity).
  unfold open_atts_where in A.
  rewrite (open_found atkey_eqb atkey_eqb_spec4 (fun _ => true) k (c_atts c) L eq_refl) in A. discriminate.
Qed.

Lemma CI_same_lists c c' q o :
  c_feats c' = c_feats c -> c_atts c' = c_atts c -> CI c q o -> CI c' q o.
Proof. unfold CI. intros -> ->. auto. Qed.

Lemma parents_feat c f (b : bool) : is_open (lookup N.eqb f (c_feats c)) && b = true -> lookup N.eqb f (c_feats c) = Some Open.
Proof. intros H. apply andb_true_iff in H as [H _]. exact (is_open_inv _ H). Qed.

Theorem crun_shape : forall es c c' q o, crun true c es = Some c' -> CI c q o -> shape q o es = true.
Proof.
  induction es as [|e t IH]; intros c c' q o R I; [reflexivity|].
  cbn [crun] in R. destruct (cstep true c e) as [c1|] eqn:S; [|discriminate].
  unfold cstep in S. destruct (c_finished c) eqn:FIN; [discriminate|].
  destruct e as [|fe re se ste er|id| |f|f|f r|f r|f r s rt x].
  - (* Started *) apply guard_inv in S as [_ ->]. cbn [shape]. apply (IH _ _ q o R). exact (CI_same_lists c _ q o eq_refl eq_refl I).
  - apply guard_inv in S as [_ ->]. cbn [shape]. apply (IH _ _ q o R). exact (CI_same_lists c _ q o eq_refl eq_refl I).
  - inversion S; subst c1. cbn [shape]. exact (IH _ _ q o R I).
  - (* Finished *)
    apply guard_inv in S as [G ->]. apply andb_true_iff in G as [_ G]. apply negb_true_iff in G.
    pose proof (CI_no_feat c q o I G) as ->.
    assert (o = None) as ->.
    { destruct I as (_ & _ & HL). destruct o as [k|]; [|reflexivity]. specialize (HL k eq_refl). discriminate. }
    cbn [shape is_none andb]. destruct t as [|e2 t2]; [reflexivity|].
    exfalso. cbn [crun] in R. unfold cstep in R. cbn [c_finished set_finished] in R. discriminate.
  - (* FeatS *)
    apply guard_inv in S as [G ->]. apply andb_true_iff in G as [G G3]. apply andb_true_iff in G as [_ G2].
    cbn [negb orb] in G3. apply negb_true_iff in G3.
    pose proof (CI_no_feat c q o I G3) as ->.
    assert (o = None) as ->.
    { destruct I as (_ & _ & HL). destruct o as [k|]; [|reflexivity]. specialize (HL k eq_refl). discriminate. }
    cbn [shape is_none andb]. apply (IH _ _ _ _ R).
    destruct I as (HF & HA & HL). split; [|split].
    + intros f'. cbn [c_feats set_cfeats]. split.
      * intros L. destruct (N.eq_dec f' f) as [->|NE]; [reflexivity|].
        rewrite (lookup_setk_other4 N.eqb N.eqb_eq) in L by exact NE. apply HF in L. discriminate.
      * intros E. inversion E; subst f'. apply (lookup_setk_same4 N.eqb N.eqb_eq).
    + exact HA.
    + intros k E. discriminate.
  - (* FeatF *)
    apply guard_inv in S as [G ->]. apply andb_true_iff in G as [G G3]. apply andb_true_iff in G as [G1 _].
    apply is_open_inv in G1. apply negb_true_iff in G3.
    destruct I as (HF & HA & HL). pose proof (proj1 (HF f) G1) as Q. subst q.
    assert (o = None) as ->.
    { destruct o as [k|]; [|reflexivity]. exfalso. pose proof (HL k eq_refl) as E. inversion E as [E'].
      assert (L : lookup atkey_eqb k (c_atts c) = Some Open) by (apply HA; reflexivity).
      unfold open_atts_where in G3.
      rewrite (open_found atkey_eqb atkey_eqb_spec4 (fun k0 => att_feat k0 =? f) k (c_atts c) L) in G3; [discriminate|].
      rewrite <- E'. apply N.eqb_refl. }
    cbn [shape is_some is_none andb]. apply (IH _ _ _ _ R). split; [|split].
    + intros f'. cbn [c_feats set_cfeats]. split; [|discriminate].
      intros L. exfalso. destruct (N.eq_dec f' f) as [->|NE].
      * rewrite (lookup_setk_same4 N.eqb N.eqb_eq) in L. discriminate.
      * rewrite (lookup_setk_other4 N.eqb N.eqb_eq) in L by exact NE. apply HF in L. congruence.
    + exact HA.
    + intros k E. discriminate.
  - (* RuleS *) apply guard_inv in S as [_ ->]. cbn [shape]. apply (IH _ _ q o R). exact (CI_same_lists c _ q o eq_refl eq_refl I).
  - (* RuleF *) apply guard_inv in S as [_ ->]. cbn [shape]. apply (IH _ _ q o R). exact (CI_same_lists c _ q o eq_refl eq_refl I).
  - (* scenario events *)
    assert (MID : forall c2, guard
              (is_open (lookup N.eqb f (c_feats c)) &&
               match r with
               | Some r' => is_open (lookup rkey_eqb (f, r') (c_rules c))
               | None => negb true || negb (open_rules_of f c)
               end && is_open (lookup atkey_eqb (f, r, s, rt) (c_atts c))) c2 = Some c1 ->
              c1 = c2 /\ q = Some f /\ o = Some (f, r, s, rt)).
    { intros c2 S2. apply guard_inv in S2 as [G ->]. apply andb_true_iff in G as [G1 G2].
      apply parents_feat in G1. apply is_open_inv in G2. destruct I as (HF & HA & HL).
      split; [reflexivity|]. split; [apply HF; exact G1|apply HA; exact G2]. }
    destruct x as [|b h|st y|st y|m|].
    + (* attempt Started *)
      apply guard_inv in S as [G ->]. apply andb_true_iff in G as [G G5]. cbn [negb orb] in G5. apply negb_true_iff in G5.
      apply andb_true_iff in G as [G _]. apply andb_true_iff in G as [G _]. apply andb_true_iff in G as [G1 _].
      apply parents_feat in G1.
      pose proof (CI_no_att c q o I G5) as ->. destruct I as (HF & HA & HL).
      pose proof (proj1 (HF f) G1) as Q. subst q.
      cbn [shape is_some is_none andb]. apply (IH _ _ _ _ R). split; [|split].
      * exact HF.
      * intros k'. cbn [c_atts set_catts]. split.
        -- intros L. destruct (atkey_eqb k' (f, r, s, rt)) eqn:E; [apply atkey_eqb_spec4 in E; subst; reflexivity|].
           assert (NE : k' <> (f, r, s, rt)) by (intros X; subst k'; rewrite (eqb_refl4 atkey_eqb atkey_eqb_spec4) in E; discriminate).
           rewrite (lookup_setk_other4 atkey_eqb atkey_eqb_spec4) in L by exact NE. apply HA in L. discriminate.
        -- intros E. inversion E; subst k'. apply (lookup_setk_same4 atkey_eqb atkey_eqb_spec4).
      * intros k E. inversion E; subst k. reflexivity.
    + destruct (MID _ S) as (-> & -> & ->). cbn [shape is_some okey_is andb].
      rewrite (eqb_refl4 atkey_eqb atkey_eqb_spec4). destruct h; exact (IH _ _ _ _ R I).
    + destruct (MID _ S) as (-> & -> & ->). cbn [shape is_some okey_is andb].
      rewrite (eqb_refl4 atkey_eqb atkey_eqb_spec4). exact (IH _ _ _ _ R I).
    + destruct (MID _ S) as (-> & -> & ->). cbn [shape is_some okey_is andb].
      rewrite (eqb_refl4 atkey_eqb atkey_eqb_spec4). exact (IH _ _ _ _ R I).
    + destruct (MID _ S) as (-> & -> & ->). cbn [shape is_some okey_is andb].
      rewrite (eqb_refl4 atkey_eqb atkey_eqb_spec4). exact (IH _ _ _ _ R I).
    + (* attempt Finished *)
      destruct (MID _ S) as (-> & -> & ->). cbn [shape is_some okey_is andb].
      rewrite (eqb_refl4 atkey_eqb atkey_eqb_spec4). cbn [andb]. apply (IH _ _ _ _ R).
      destruct I as (HF & HA & HL). split; [|split].
      * exact HF.
      * intros k'. cbn [c_atts set_catts]. split; [|discriminate]. intros L. exfalso.
        destruct (atkey_eqb k' (f, r, s, rt)) eqn:E.
        -- apply atkey_eqb_spec4 in E. subst k'. rewrite (lookup_setk_same4 atkey_eqb atkey_eqb_spec4) in L. discriminate.
        -- assert (NE : k' <> (f, r, s, rt)) by (intros X; subst k'; rewrite (eqb_refl4 atkey_eqb atkey_eqb_spec4) in E; discriminate).
           rewrite (lookup_setk_other4 atkey_eqb atkey_eqb_spec4) in L by exact NE. apply HA in L. congruence.
      * intros k E. discriminate.
Qed.

Lemma CI_init : CI cinit None None.
Proof.
  split; [|split].
  - intros f. cbn. split; discriminate.
  - intros k. cbn. split; discriminate.
  - intros k E. discriminate.
Qed.

(* every stream accepted by the sequential contract has the shape *)
Theorem normalized_prefix_shape es : normalized_prefix es = true -> shape None None es = true.
Proof.
  unfold normalized_prefix. destruct (crun true cinit es) as [c'|] eqn:R; [|discriminate].
  intros _. exact (crun_shape es cinit c' None None R CI_init).
Qed.
Theorem normalized_shape es : normalized es = true -> shape None None es = true.
Proof.
  intros H. apply normalized_prefix_shape. unfold normalized in H. unfold normalized_prefix.
  destruct (crun true cinit es); [reflexivity|discriminate].
Qed.

(* ================================================================================================ *)
(* Part A: terminal lines                                                                            *)
(* ================================================================================================ *)

Lemma fact_eqb_refl (x : fact) : fact_eqb x x = true.
Proof. apply (list_eqb_spec N.eqb N.eqb_eq). reflexivity. Qed.
Lemma same_multiset_refl l : same_multiset l l = true.
Proof. induction l as [|x t IH]; [reflexivity|]. cbn [same_multiset remove1]. rewrite fact_eqb_refl. exact IH. Qed.
Lemma listN_eqb_refl (l : list N) : list_eqb N.eqb l l = true.
Proof. apply (list_eqb_spec N.eqb N.eqb_eq). reflexivity. Qed.

(* the per-event function of `stream_line_facts`, named *)
Definition slf1 (e : ev) : list fact :=
  match e with
  | EvParseErr _ => [[3]]
  | EvScen _ _ s rt (ScHook b (HFailed _)) => [[2; s; (match rt with Some (c, _) => c | None => 0 end); 0; (if b then 1 else 0); 2]]
  | EvScen _ _ s rt (ScBg st x) =>
    match st_status x with Some k => [[1; s; (match rt with Some (c, _) => c | None => 0 end); st; 1; k]] | None => [] end
  | EvScen _ _ s rt (ScStep st x) =>
    match st_status x with Some k => [[1; s; (match rt with Some (c, _) => c | None => 0 end); st; 0; k]] | None => [] end
  | _ => [] end.
Lemma stream_line_facts_eq es : stream_line_facts es = flat_map slf1 (before_finished es).
Proof. reflexivity. Qed.

(* the attempt number a scenario header is decoded to is always `current` *)
Lemma dec_cur (rt : retr) :
  match (match rt with Some (c, l) => if 0 <? c then Some (c, c + l) else None | None => None end) with
  | Some (c, _) => c | None => 0 end = cur_of_retr rt.
Proof.
  destruct rt as [[c l]|]; cbn [cur_of_retr]; [|reflexivity].
  destruct (0 <? c) eqn:E; [reflexivity|]. apply N.ltb_ge in E. lia.
Qed.

(* the weakest executable condition Part A needs: every step result / failed hook is printed under the header of
   its own scenario (id and attempt number), and run-Finished, if any, is the last event *)
Fixpoint lines_ok (cs ca : N) (es : list ev) : bool :=
  match es with
  | [] => true
  | EvFinished :: t => match t with [] => true | _ => false end
  | EvScen _ _ s rt ScStarted :: t => lines_ok s (cur_of_retr rt) t
  | EvScen _ _ s rt (ScHook _ (HFailed _)) :: t => (ca =? cur_of_retr rt) && lines_ok cs ca t
  | EvScen _ _ s rt (ScBg _ x) :: t | EvScen _ _ s rt (ScStep _ x) :: t =>
    match st_status x with Some _ => (cs =? s) && (ca =? cur_of_retr rt) | None => true end && lines_ok cs ca t
  | _ :: t => lines_ok cs ca t
  end.

Theorem basic_lines_facts : forall es cs ca, lines_ok cs ca es = true ->
  line_facts cs ca (basic_lines es) = stream_line_facts es.
Proof.
  unfold basic_lines. intros es. rewrite stream_line_facts_eq.
  induction es as [|e t IH]; intros cs ca H; [reflexivity|].
  destruct e as [|fe re se ste er|id| |f|f|f r|f r|f r s rt x];
    try (cbn [lines_ok] in H; cbn [flat_map basic_line app before_finished slf1 line_facts]; rewrite (IH _ _ H); reflexivity).
  - (* Finished *) cbn [lines_ok] in H. destruct t; [reflexivity|discriminate].
  - destruct x as [|b h|st y|st y|m|].
    + cbn [lines_ok] in H. cbn [flat_map basic_line app before_finished slf1 line_facts]. rewrite dec_cur. exact (IH _ _ H).
    + destruct h as [| |p]; cbn [lines_ok] in H;
        try (cbn [flat_map basic_line app before_finished slf1 line_facts]; rewrite (IH _ _ H); reflexivity).
      apply andb_true_iff in H as [E H]. apply N.eqb_eq in E. subst ca.
      cbn [flat_map basic_line app before_finished slf1 line_facts]. rewrite (IH _ _ H). reflexivity.
    + cbn [lines_ok] in H. apply andb_true_iff in H as [E H].
      destruct y as [| | |k]; cbn [st_status] in E;
        try (apply andb_true_iff in E as [E1 E2]; apply N.eqb_eq in E1, E2; subst cs ca);
        cbn [flat_map basic_line app before_finished slf1 line_facts st_status]; rewrite (IH _ _ H); reflexivity.
    + cbn [lines_ok] in H. apply andb_true_iff in H as [E H].
      destruct y as [| | |k]; cbn [st_status] in E;
        try (apply andb_true_iff in E as [E1 E2]; apply N.eqb_eq in E1, E2; subst cs ca);
        cbn [flat_map basic_line app before_finished slf1 line_facts st_status]; rewrite (IH _ _ H); reflexivity.
    + cbn [lines_ok] in H. cbn [flat_map basic_line app before_finished slf1 line_facts]. rewrite (IH _ _ H). reflexivity.
    + cbn [lines_ok] in H. cbn [flat_map basic_line app before_finished slf1 line_facts]. rewrite (IH _ _ H). reflexivity.
Qed.

(* the shape of a sequential stream implies it *)
Lemma shape_lines_ok : forall es q o cs ca, shape q o es = true ->
  (forall k, o = Some k -> cs = att_scen k /\ ca = cur_of_retr (att_retr k)) -> lines_ok cs ca es = true.
Proof.
  induction es as [|e t IH]; intros q o cs ca H HO; [reflexivity|].
  destruct e as [|fe re se ste er|id| |f|f|f r|f r|f r s rt x]; cbn [shape] in H; cbn [lines_ok];
    try (exact (IH _ _ _ _ H HO)).
  - apply andb_true_iff in H as [_ H]. exact H.
  - apply andb_true_iff in H as [H1 H]. apply andb_true_iff in H1 as [_ H1]. apply is_none_true in H1. subst o.
    apply (IH _ _ _ _ H). intros k E. discriminate.
  - apply andb_true_iff in H as [H1 H]. apply andb_true_iff in H1 as [_ H1]. apply is_none_true in H1. subst o.
    apply (IH _ _ _ _ H). intros k E. discriminate.
  - assert (MID : forall o', is_some q && okey_is o (f, r, s, rt) && shape q o' t = true ->
                  cs = s /\ ca = cur_of_retr rt /\ shape q o' t = true).
    { intros o' H'. apply andb_true_iff in H' as [H1 H']. apply andb_true_iff in H1 as [_ H1]. apply okey_is_true in H1.
      destruct (HO _ H1) as [-> ->]. auto. }
    destruct x as [|b h|st y|st y|m|].
    + apply andb_true_iff in H as [_ H]. apply (IH _ _ _ _ H). intros k E. inversion E; subst k. auto.
    + destruct (MID _ H) as (-> & -> & H'). destruct h as [| |p]; try exact (IH _ _ _ _ H' HO).
      rewrite N.eqb_refl. exact (IH _ _ _ _ H' HO).
    + destruct (MID _ H) as (-> & -> & H'). rewrite !N.eqb_refl, (IH _ _ _ _ H' HO). destruct (st_status y); reflexivity.
    + destruct (MID _ H) as (-> & -> & H'). rewrite !N.eqb_refl, (IH _ _ _ _ H' HO). destruct (st_status y); reflexivity.
    + destruct (MID _ H) as (-> & -> & H'). exact (IH _ _ _ _ H' HO).
    + destruct (MID _ H) as (-> & -> & H'). apply (IH _ _ _ _ H'). intros k E. discriminate.
Qed.

(* A: for every stream accepted by the sequential contract the terminal lines, each read under the scenario header
   above it, state exactly the step results, failed hooks and parser errors of the stream, in order *)
Theorem C14_basic_lines_state_the_stream es : normalized_prefix es = true ->
  line_facts 0 0 (basic_lines es) = stream_line_facts es.
Proof.
  intros H. apply basic_lines_facts. apply (shape_lines_ok es None None 0 0 (normalized_prefix_shape es H)).
  intros k E. discriminate.
Qed.
Theorem C14_basic_ok_weak es : lines_ok 0 0 es = true -> c14_basic_ok es (basic_lines es) = true.
Proof. intros H. unfold c14_basic_ok. rewrite (basic_lines_facts es 0 0 H). apply same_multiset_refl. Qed.
Theorem C14_basic_ok es : normalized_prefix es = true -> c14_basic_ok es (basic_lines es) = true.
Proof. intros H. unfold c14_basic_ok. rewrite (C14_basic_lines_state_the_stream es H). apply same_multiset_refl. Qed.

(* ================================================================================================ *)
(* Part B: JUnit                                                                                     *)
(* ================================================================================================ *)

(* ---- the local fixpoints of the spec, named ---- *)
Fixpoint jcg (errors in_err : bool) (l : list rf) : list (option N * N * N) :=
  match l with
  | [] => []
  | RSuite e _ :: t => jcg errors e t
  | RCase r s st :: t => (if Bool.eqb in_err errors then [(r, s, st)] else []) ++ jcg errors in_err t
  | _ :: t => jcg errors in_err t
  end.
Lemma junit_cases_jcg rfs errors : junit_cases rfs errors = jcg errors false rfs.
Proof.
  unfold junit_cases. generalize false. induction rfs as [|x t IH]; intros b; [reflexivity|].
  destruct x; cbn [jcg]; rewrite <- ?IH; reflexivity.
Qed.

Definition mine_of (f s : N) (rt : retr) (seen : list ev) : list scev :=
  flat_map (fun e => match e with
                     | EvScen f' r' s' rt' x => if (s' =? s) && retr_eqb rt rt' && (f' =? f) then [x] else []
                     | _ => [] end) seen.
Fixpoint ao_go (seen l : list ev) : list (option N * N * N) :=
  match l with
  | [] => []
  | EvScen f r s rt ScFinished :: t => (r, s, junit_status (mine_of f s rt seen)) :: ao_go seen t
  | e :: t => ao_go (seen ++ [e]) t
  end.
Lemma attempt_outcomes_go es : attempt_outcomes es = ao_go [] (before_finished es).
Proof.
  unfold attempt_outcomes.
  match goal with |- ?g [] ?l = ao_go [] ?l => enough (G : forall l' seen, g seen l' = ao_go seen l') by apply G end.
  induction l' as [|e t IH]; intros seen; [reflexivity|].
  destruct e as [|fe re se ste er|id| |f|f|f r|f r|f r s rt x]; try destruct x; cbn [ao_go]; rewrite <- ?IH; reflexivity.
Qed.

Definition perrs (es : list ev) : list N := flat_map (fun e => match e with EvParseErr i => [i] | _ => [] end) es.
Definition noskip (o : option N * N * N) : bool := negb (snd o =? 2).

(* ---- lists of report facts without suite / case markers ---- *)
Definition nosuite (l : list rf) : bool := forallb (fun x => match x with RSuite _ _ => false | _ => true end) l.
Definition nocase (l : list rf) : bool :=
  forallb (fun x => match x with RSuite _ _ | RCase _ _ _ => false | _ => true end) l.

Lemma nocase_nosuite l : nocase l = true -> nosuite l = true.
Proof.
  unfold nocase, nosuite. induction l as [|x t IH]; [reflexivity|]. cbn [forallb]. intros H.
  apply andb_true_iff in H as [H1 H2]. rewrite (IH H2). destruct x; try reflexivity; discriminate.
Qed.
Lemma nosuite_app a b : nosuite (a ++ b) = nosuite a && nosuite b.
Proof. apply forallb_app. Qed.
Lemma nocase_app a b : nocase (a ++ b) = nocase a && nocase b.
Proof. apply forallb_app. Qed.

Lemma jcg_app_nosuite er b a c : nosuite a = true -> jcg er b (a ++ c) = jcg er b a ++ jcg er b c.
Proof.
  unfold nosuite. induction a as [|x t IH]; intros H; [reflexivity|]. cbn [forallb] in H.
  apply andb_true_iff in H as [H1 H2]. destruct x; try discriminate; cbn [app jcg]; rewrite (IH H2); try reflexivity.
  apply app_assoc.
Qed.
Lemma jcg_nocase er b a : nocase a = true -> jcg er b a = [].
Proof.
  unfold nocase. induction a as [|x t IH]; intros H; [reflexivity|]. cbn [forallb] in H.
  apply andb_true_iff in H as [H1 H2]. destruct x; try discriminate; cbn [jcg]; exact (IH H2).
Qed.
Lemma jcg_err_nosuite a : nosuite a = true -> jcg true false a = [].
Proof.
  unfold nosuite. induction a as [|x t IH]; intros H; [reflexivity|]. cbn [forallb] in H.
  apply andb_true_iff in H as [H1 H2]. destruct x; try discriminate; cbn [jcg Bool.eqb app]; exact (IH H2).
Qed.

Lemma basic_line_nocase e : nocase (basic_line e) = true.
Proof.
  destruct e as [|fe re se ste er|id| |f|f|f r|f r|f r s rt x]; try reflexivity.
  destruct x as [|b h|st y|st y|m|]; try reflexivity; [destruct h|destruct y|destruct y]; reflexivity.
Qed.
Lemma listing_nocase f r s rt evs : nocase (junit_listing f r s rt evs) = true.
Proof.
  unfold junit_listing. destruct (junit_status evs =? 2); [reflexivity|].
  induction evs as [|x t IH]; [reflexivity|]. cbn [flat_map]. rewrite nocase_app, basic_line_nocase, IH. reflexivity.
Qed.

(* ---- reading a listing: the header in force ---- *)
Fixpoint lf_st (cs ca : N) (l : list rf) : N * N :=
  match l with
  | [] => (cs, ca)
  | RLScenario s rt :: t => lf_st s (match rt with Some (c, _) => c | None => 0 end) t
  | _ :: t => lf_st cs ca t
  end.
Lemma lf_app : forall a b cs ca,
  line_facts cs ca (a ++ b) = line_facts cs ca a ++ line_facts (fst (lf_st cs ca a)) (snd (lf_st cs ca a)) b.
Proof.
  induction a as [|x t IH]; intros b cs ca; [reflexivity|].
  destruct x; cbn [app line_facts lf_st]; rewrite IH; reflexivity.
Qed.

(* the facts of a piece of a report do not depend on the header in force before it *)
Definition indep (l : list rf) : Prop := forall cs ca cs' ca', line_facts cs ca l = line_facts cs' ca' l.
Lemma indep_nil : indep [].
Proof. intros cs ca cs' ca'. reflexivity. Qed.
Lemma indep_app a b : indep a -> indep b -> indep (a ++ b).
Proof. intros IA IB cs ca cs' ca'. rewrite !lf_app, (IA cs ca cs' ca'). f_equal. apply IB. Qed.
Lemma indep_hdr s rt l : indep (RLScenario s rt :: l).
Proof. intros cs ca cs' ca'. reflexivity. Qed.
Lemma indep_case r s st l : indep l -> indep (RCase r s st :: l).
Proof. intros IL cs ca cs' ca'. cbn [line_facts]. apply IL. Qed.
Lemma indep_suite e g l : indep l -> indep (RSuite e g :: l).
Proof. intros IL cs ca cs' ca'. cbn [line_facts]. apply IL. Qed.
Lemma lf_app_indep a b cs ca : indep b -> line_facts cs ca (a ++ b) = line_facts cs ca a ++ line_facts 0 0 b.
Proof. intros IB. rewrite lf_app. f_equal. apply IB. Qed.

(* one event of the attempt (s, rt), read under the header of that attempt *)
Lemma lf_basic_line_ev f r s rt x rest :
  line_facts s (cur_of_retr rt) (basic_line (EvScen f r s rt x) ++ rest)
  = slf1 (EvScen f r s rt x) ++ line_facts s (cur_of_retr rt) rest.
Proof.
  destruct x as [|b h|st y|st y|m|]; try reflexivity.
  - cbn [basic_line app line_facts slf1]. rewrite dec_cur. reflexivity.
  - destruct h; reflexivity.
  - destruct y; reflexivity.
  - destruct y; reflexivity.
Qed.
Lemma lf_listing_body f r s rt : forall evs rest,
  line_facts s (cur_of_retr rt) (flat_map (fun x => basic_line (EvScen f r s rt x)) evs ++ rest)
  = flat_map (fun x => slf1 (EvScen f r s rt x)) evs ++ line_facts s (cur_of_retr rt) rest.
Proof.
  induction evs as [|x t IH]; intros rest; [reflexivity|].
  cbn [flat_map]. rewrite <- !app_assoc, lf_basic_line_ev, IH. reflexivity.
Qed.
Lemma lf_listing f r s rt evs rest cs ca :
  (junit_status evs =? 2) = false -> evs = ScStarted :: rest ->
  line_facts cs ca (junit_listing f r s rt evs) = flat_map (fun x => slf1 (EvScen f r s rt x)) evs.
Proof.
  intros NS ->. unfold junit_listing. rewrite NS. cbn [flat_map basic_line app line_facts slf1]. rewrite dec_cur.
  pose proof (lf_listing_body f r s rt rest []) as X. rewrite !app_nil_r in X. exact X.
Qed.
Lemma indep_listing f r s rt evs rest : evs = ScStarted :: rest -> indep (junit_listing f r s rt evs).
Proof.
  intros ->. unfold junit_listing. destruct (_ =? 2); [apply indep_nil|]. cbn [flat_map basic_line app]. apply indep_hdr.
Qed.

(* ---- classification: only the events since the attempt's Started matter ---- *)
Lemma find_app4 {A} (p : A -> bool) a b : find p (a ++ b) = match find p a with Some x => Some x | None => find p b end.
Proof. induction a as [|x t IH]; [reflexivity|]. cbn [app find]. destruct (p x); [reflexivity|exact IH]. Qed.
Lemma status_app old evs rest : evs = ScStarted :: rest -> junit_status (old ++ evs) = junit_status evs.
Proof.
  intros ->. unfold junit_status. rewrite rev_app_distr, find_app4.
  assert (E : exists y, find junit_relevant (rev (ScStarted :: rest)) = Some y).
  { cbn [rev]. rewrite find_app4. destruct (find junit_relevant (rev rest)) as [y|]; [exists y; reflexivity|].
    exists ScStarted. reflexivity. }
  destruct E as [y E]. rewrite E. reflexivity.
Qed.

Lemma mine_of_app f s rt a b : mine_of f s rt (a ++ b) = mine_of f s rt a ++ mine_of f s rt b.
Proof. apply flat_map_app. Qed.
Lemma mine_of_own f r s rt x : mine_of f s rt [EvScen f r s rt x] = [x].
Proof.
  unfold mine_of. cbn [flat_map]. rewrite !N.eqb_refl, (proj2 (retr_eqb_spec4 rt rt) eq_refl). reflexivity.
Qed.

(* ---- the invariant between what the spec has seen and the writer's state ---- *)
Definition evs_ok (seen : list ev) (evs : list scev) (o : option atkey) : Prop :=
  match o with
  | None => evs = []
  | Some (f, r, s, rt) => exists old rest, mine_of f s rt seen = old ++ evs /\ evs = ScStarted :: rest
  end.
Definition Inv (seen : list ev) (j : jstate) (q : option N) (o : option atkey) : Prop :=
  js_suite j = q /\ (q = None -> js_cases j = []) /\ nosuite (js_cases j) = true /\ indep (js_cases j) /\
  evs_ok seen (js_events j) o.

Lemma evs_ok_nonscen seen evs o e : (forall f s rt, mine_of f s rt [e] = []) ->
  evs_ok seen evs o -> evs_ok (seen ++ [e]) evs o.
Proof.
  intros NE H. destruct o as [[[[f r] s] rt]|]; [|exact H]. destruct H as (old & rest & M & E).
  exists old, rest. split; [|exact E]. rewrite mine_of_app, NE, app_nil_r. exact M.
Qed.
Lemma evs_ok_start seen f r s rt : evs_ok (seen ++ [EvScen f r s rt ScStarted]) [ScStarted] (Some (f, r, s, rt)).
Proof. exists (mine_of f s rt seen), []. split; [|reflexivity]. rewrite mine_of_app, mine_of_own. reflexivity. Qed.
Lemma evs_ok_mid seen evs f r s rt x : evs_ok seen evs (Some (f, r, s, rt)) ->
  evs_ok (seen ++ [EvScen f r s rt x]) (evs ++ [x]) (Some (f, r, s, rt)).
Proof.
  intros (old & rest & M & E). exists old, (rest ++ [x]). split.
  - rewrite mine_of_app, mine_of_own, M. symmetry. apply app_assoc.
  - rewrite E. reflexivity.
Qed.

Definition nf3 (f : fact) : bool := match f with 3 :: _ => false | _ => true end.
Definition slf1' (e : ev) : list fact := filter nf3 (slf1 e).
Lemma slf1'_scen f r s rt x : slf1' (EvScen f r s rt x) = slf1 (EvScen f r s rt x).
Proof.
  unfold slf1'. destruct x as [|b h|st y|st y|m|]; try reflexivity; [destruct h|destruct y|destruct y]; reflexivity.
Qed.
Lemma filter_flat_map {A B} (p : B -> bool) (g : A -> list B) l :
  filter p (flat_map g l) = flat_map (fun x => filter p (g x)) l.
Proof. induction l as [|x t IH]; [reflexivity|]. cbn [flat_map]. rewrite filter_app, IH. reflexivity. Qed.

(* the facts of the events of the open attempt that the writer still holds back *)
Definition evf (o : option atkey) (evs : list scev) : list fact :=
  match o with Some (f, r, s, rt) => flat_map (fun x => slf1 (EvScen f r s rt x)) evs | None => [] end.

Lemma junit_no_finished : forall es j, existsb is_finished es = false -> junit_run j es = [].
Proof.
  induction es as [|e t IH]; intros j H; [reflexivity|]. cbn [existsb] in H. apply orb_false_iff in H as [H1 H2].
  destruct e; try discriminate; cbn [junit_run]; apply IH; exact H2.
Qed.

(* the four middle events of an attempt (hook, background step, step, log) are handled alike *)
Ltac mid_case x H F IH seen su cs evs dn q o f r s rt I1 I2 I3 I4 I5 :=
  cbn [shape] in H; apply andb_true_iff in H as [H0 H]; apply andb_true_iff in H0 as [_ O]; apply okey_is_true in O; subst o;
  cbn [existsb is_finished orb] in F;
  destruct (IH (seen ++ [EvScen f r s rt x]) (mk_js su cs (evs ++ [x]) dn) q (Some (f, r, s, rt)) H
              (conj I1 (conj I2 (conj I3 (conj I4 (evs_ok_mid seen evs f r s rt x I5))))) F)
    as (D & R & P1 & P2 & P3);
  cbn [js_suite js_cases js_events js_done] in R, P1, P2, P3;
  exists D; split; [exact R|split; [exact P1|split; [exact P2|]]];
  intros NS; destruct (P3 NS) as [ID L]; split; [exact ID|];
  rewrite L; cbn [evf before_finished flat_map]; rewrite flat_map_app, slf1'_scen; cbn [flat_map];
  rewrite <- ?app_assoc; cbn [app]; reflexivity.

Lemma junit_main : forall es seen j q o,
  shape q o es = true -> Inv seen j q o -> existsb is_finished es = true ->
  exists D, junit_run j es = js_done j ++ D /\
    (forall b, jcg false b D = jcg false false (js_cases j) ++ ao_go seen (before_finished es)) /\
    (forall b, map (fun c => snd (fst c)) (jcg true b D) = perrs (before_finished es)) /\
    (forallb noskip (ao_go seen (before_finished es)) = true ->
       indep D /\
       line_facts 0 0 D = line_facts 0 0 (js_cases j) ++ evf o (js_events j) ++ flat_map slf1' (before_finished es)).
Proof.
  induction es as [|e t IH]; intros seen j q o H I F; [discriminate|].
  destruct j as [su cs evs dn]. destruct I as (I1 & I2 & I3 & I4 & I5). cbn [js_suite js_cases js_events js_done] in *.
  destruct e as [|fe re se ste er|id| |f|f|f r|f r|f r s rt x].
  - (* Started *)
    cbn [shape] in H. cbn [existsb is_finished orb] in F.
    destruct (IH (seen ++ [EvStarted]) (mk_js su cs evs dn) q o H
                (conj I1 (conj I2 (conj I3 (conj I4 (evs_ok_nonscen seen evs o EvStarted (fun _ _ _ => eq_refl) I5))))) F)
      as (D & R & P1 & P2 & P3).
    exists D. exact (conj R (conj P1 (conj P2 P3))).
  - cbn [shape] in H. cbn [existsb is_finished orb] in F.
    destruct (IH (seen ++ [EvParsingFinished fe re se ste er]) (mk_js su cs evs dn) q o H
                (conj I1 (conj I2 (conj I3 (conj I4 (evs_ok_nonscen seen evs o (EvParsingFinished fe re se ste er) (fun _ _ _ => eq_refl) I5))))) F)
      as (D & R & P1 & P2 & P3).
    exists D. exact (conj R (conj P1 (conj P2 P3))).
  - (* ParseErr *)
    cbn [shape] in H. cbn [existsb is_finished orb] in F.
    destruct (IH (seen ++ [EvParseErr id]) (mk_js su cs evs (dn ++ [RSuite true 0; RCase None id 1])) q o H
                (conj I1 (conj I2 (conj I3 (conj I4 (evs_ok_nonscen seen evs o (EvParseErr id) (fun _ _ _ => eq_refl) I5))))) F)
      as (D & R & P1 & P2 & P3).
    cbn [js_suite js_cases js_events js_done] in R, P1, P2, P3.
    exists ([RSuite true 0; RCase None id 1] ++ D). split; [|split; [|split]].
    + change (junit_run (mk_js su cs evs dn) (EvParseErr id :: t))
        with (junit_run (mk_js su cs evs (dn ++ [RSuite true 0; RCase None id 1])) t).
      rewrite R. symmetry. apply app_assoc.
    + intros b. change (jcg false b ([RSuite true 0; RCase None id 1] ++ D)) with (jcg false true D). exact (P1 true).
    + intros b. change (jcg true b ([RSuite true 0; RCase None id 1] ++ D)) with ((None, id, 1) :: jcg true true D).
      change (perrs (before_finished (EvParseErr id :: t))) with (id :: perrs (before_finished t)).
      cbn [map fst snd]. rewrite (P2 true). reflexivity.
    + intros NS. destruct (P3 NS) as [ID L]. split.
      * apply indep_suite, indep_case, ID.
      * change (line_facts 0 0 ([RSuite true 0; RCase None id 1] ++ D)) with (line_facts 0 0 D). exact L.
  - (* Finished *)
    cbn [shape] in H. apply andb_true_iff in H as [H0 H]. apply andb_true_iff in H0 as [Q O].
    apply is_none_true in Q, O. subst q o. destruct t as [|e2 t2]; [|discriminate].
    pose proof (I2 eq_refl) as C. subst cs. cbn [evs_ok] in I5. subst evs.
    exists []. split; [reflexivity|]. split; [intros b; reflexivity|]. split; [intros b; reflexivity|].
    intros _. split; [apply indep_nil|reflexivity].
  - (* FeatS *)
    cbn [shape] in H. apply andb_true_iff in H as [H0 H]. apply andb_true_iff in H0 as [Q O].
    apply is_none_true in Q, O. subst q o. cbn [existsb is_finished orb] in F.
    pose proof (I2 eq_refl) as C. subst cs.
    destruct (IH (seen ++ [EvFeatS f]) (mk_js (Some f) [] evs dn) (Some f) None H
                (conj eq_refl (conj (fun _ => eq_refl) (conj eq_refl (conj indep_nil
                   (evs_ok_nonscen seen evs None (EvFeatS f) (fun _ _ _ => eq_refl) I5))))) F)
      as (D & R & P1 & P2 & P3).
    exists D. exact (conj R (conj P1 (conj P2 P3))).
  - (* FeatF *)
    cbn [shape] in H. apply andb_true_iff in H as [H0 H]. apply andb_true_iff in H0 as [Q O].
    apply is_none_true in O. subst o. destruct q as [g|]; [|discriminate]. subst su.
    cbn [evs_ok] in I5. subst evs. cbn [existsb is_finished orb] in F.
    destruct (IH (seen ++ [EvFeatF f]) (mk_js None [] [] (dn ++ RSuite false g :: cs)) None None H
                (conj eq_refl (conj (fun _ => eq_refl) (conj eq_refl (conj indep_nil eq_refl)))) F)
      as (D & R & P1 & P2 & P3).
    cbn [js_suite js_cases js_events js_done] in R, P1, P2, P3.
    exists (RSuite false g :: cs ++ D). split; [|split; [|split]].
    + change (junit_run (mk_js (Some g) cs [] dn) (EvFeatF f :: t))
        with (junit_run (mk_js None [] [] (dn ++ RSuite false g :: cs)) t).
      rewrite R, <- app_assoc. reflexivity.
    + intros b. change (jcg false b (RSuite false g :: cs ++ D)) with (jcg false false (cs ++ D)).
      rewrite (jcg_app_nosuite _ _ _ _ I3), (P1 false). reflexivity.
    + intros b. change (jcg true b (RSuite false g :: cs ++ D)) with (jcg true false (cs ++ D)).
      rewrite (jcg_app_nosuite _ _ _ _ I3), (jcg_err_nosuite _ I3). cbn [app]. rewrite (P2 false). reflexivity.
    + intros NS. destruct (P3 NS) as [ID L]. split.
      * apply indep_suite, indep_app; assumption.
      * change (line_facts 0 0 (RSuite false g :: cs ++ D)) with (line_facts 0 0 (cs ++ D)).
        rewrite (lf_app_indep _ _ _ _ ID), L. reflexivity.
  - (* RuleS *)
    cbn [shape] in H. cbn [existsb is_finished orb] in F.
    destruct (IH (seen ++ [EvRuleS f r]) (mk_js su cs evs dn) q o H
                (conj I1 (conj I2 (conj I3 (conj I4 (evs_ok_nonscen seen evs o (EvRuleS f r) (fun _ _ _ => eq_refl) I5))))) F)
      as (D & R & P1 & P2 & P3).
    exists D. exact (conj R (conj P1 (conj P2 P3))).
  - (* RuleF *)
    cbn [shape] in H. cbn [existsb is_finished orb] in F.
    destruct (IH (seen ++ [EvRuleF f r]) (mk_js su cs evs dn) q o H
                (conj I1 (conj I2 (conj I3 (conj I4 (evs_ok_nonscen seen evs o (EvRuleF f r) (fun _ _ _ => eq_refl) I5))))) F)
      as (D & R & P1 & P2 & P3).
    exists D. exact (conj R (conj P1 (conj P2 P3))).
  - destruct x as [|b h|st y|st y|m|].
    + (* attempt Started *)
      cbn [shape] in H. apply andb_true_iff in H as [H0 H]. apply andb_true_iff in H0 as [_ O].
      apply is_none_true in O. subst o. cbn [evs_ok] in I5. subst evs. cbn [existsb is_finished orb] in F.
      destruct (IH (seen ++ [EvScen f r s rt ScStarted]) (mk_js su cs [ScStarted] dn) q (Some (f, r, s, rt)) H
                  (conj I1 (conj I2 (conj I3 (conj I4 (evs_ok_start seen f r s rt))))) F)
        as (D & R & P1 & P2 & P3).
      exists D. exact (conj R (conj P1 (conj P2 P3))).
    + mid_case (ScHook b h) H F IH seen su cs evs dn q o f r s rt I1 I2 I3 I4 I5.
    + mid_case (ScBg st y) H F IH seen su cs evs dn q o f r s rt I1 I2 I3 I4 I5.
    + mid_case (ScStep st y) H F IH seen su cs evs dn q o f r s rt I1 I2 I3 I4 I5.
    + mid_case (ScLog m) H F IH seen su cs evs dn q o f r s rt I1 I2 I3 I4 I5.
    + (* attempt Finished: the testcase is written *)
      cbn [shape] in H. apply andb_true_iff in H as [H0 H]. apply andb_true_iff in H0 as [Q O].
      apply okey_is_true in O. subst o. destruct q as [g|]; [|discriminate]. subst su.
      cbn [existsb is_finished orb] in F. destruct I5 as (old & rest & M & E).
      pose (lst := junit_listing f r s rt evs).
      assert (NCL : nocase lst = true) by apply listing_nocase.
      assert (IL : indep (RCase r s (junit_status evs) :: lst)) by (apply indep_case, (indep_listing f r s rt evs rest E)).
      assert (I3' : nosuite (cs ++ RCase r s (junit_status evs) :: lst) = true).
      { rewrite nosuite_app, I3. cbn [andb]. change (nosuite (RCase r s (junit_status evs) :: lst)) with (nosuite lst).
        apply nocase_nosuite, NCL. }
      destruct (IH seen (mk_js (Some g) (cs ++ RCase r s (junit_status evs) :: lst) [] dn) (Some g) None H
                  (conj eq_refl (conj (fun X : Some g = None => False_ind _ (eq_ind (Some g) (fun v => match v with Some _ => True | None => False end) Logic.I None X))
                     (conj I3' (conj (indep_app _ _ I4 IL) eq_refl)))) F)
        as (D & R & P1 & P2 & P3).
      cbn [js_suite js_cases js_events js_done] in R, P1, P2, P3.
      assert (ST : junit_status (mine_of f s rt seen) = junit_status evs) by (rewrite M; exact (status_app old evs rest E)).
      exists D. split; [exact R|]. split; [|split].
      * intros b. rewrite (P1 b), (jcg_app_nosuite _ _ _ _ I3).
        change (jcg false false (RCase r s (junit_status evs) :: lst)) with ((r, s, junit_status evs) :: jcg false false lst).
        rewrite (jcg_nocase _ _ _ NCL).
        change (ao_go seen (before_finished (EvScen f r s rt ScFinished :: t)))
          with ((r, s, junit_status (mine_of f s rt seen)) :: ao_go seen (before_finished t)).
        rewrite ST, <- app_assoc. reflexivity.
      * exact P2.
      * intros NS.
        change (ao_go seen (before_finished (EvScen f r s rt ScFinished :: t)))
          with ((r, s, junit_status (mine_of f s rt seen)) :: ao_go seen (before_finished t)) in NS.
        cbn [forallb] in NS. apply andb_true_iff in NS as [NS1 NS2]. unfold noskip in NS1. cbn [snd] in NS1.
        rewrite ST in NS1. apply negb_true_iff in NS1.
        destruct (P3 NS2) as [ID L]. split; [exact ID|].
        rewrite L, (lf_app_indep _ _ _ _ IL).
        change (line_facts 0 0 (RCase r s (junit_status evs) :: lst)) with (line_facts 0 0 lst).
        unfold lst. rewrite (lf_listing f r s rt evs rest 0 0 NS1 E). cbn [evf app].
        change (flat_map slf1' (before_finished (EvScen f r s rt ScFinished :: t))) with (flat_map slf1' (before_finished t)).
        rewrite <- app_assoc. reflexivity.
Qed.

Lemma Inv_init : Inv [] (mk_js None [] [] []) None None.
Proof.
  split; [reflexivity|]. split; [intros _; reflexivity|]. split; [reflexivity|]. split; [apply indep_nil|reflexivity].
Qed.

(* ---- B under the shape hypothesis ---- *)
(* B1: one testcase per finished attempt, in stream order, classified by exactly that attempt's events *)
Theorem junit_cases_are_attempt_outcomes es : shape None None es = true -> existsb is_finished es = true ->
  junit_cases (junit_doc es) false = attempt_outcomes es.
Proof.
  intros S F. destruct (junit_main es [] _ None None S Inv_init F) as (D & R & P1 & _).
  unfold junit_doc. rewrite R. cbn [js_done app]. rewrite junit_cases_jcg, (P1 false), attempt_outcomes_go. reflexivity.
Qed.
(* B2: the Errors suites list the parser errors, in order *)
Theorem junit_error_suites_are_parse_errors es : shape None None es = true -> existsb is_finished es = true ->
  map (fun c => snd (fst c)) (junit_cases (junit_doc es) true)
  = flat_map (fun e => match e with EvParseErr i => [i] | _ => [] end) (before_finished es).
Proof.
  intros S F. destruct (junit_main es [] _ None None S Inv_init F) as (D & R & _ & P2 & _).
  unfold junit_doc. rewrite R. cbn [js_done app]. rewrite junit_cases_jcg. exact (P2 false).
Qed.
(* B3: if no attempt is classified skipped, the listings state the step results and failed hooks of the stream, in order *)
Theorem junit_listings_state_the_stream es : shape None None es = true -> existsb is_finished es = true ->
  forallb (fun o => negb (snd o =? 2)) (attempt_outcomes es) = true ->
  line_facts 0 0 (junit_doc es)
  = filter (fun f => match f with 3 :: _ => false | _ => true end) (stream_line_facts es).
Proof.
  intros S F NS. destruct (junit_main es [] _ None None S Inv_init F) as (D & R & _ & _ & P3).
  rewrite attempt_outcomes_go in NS. destruct (P3 NS) as [_ L].
  unfold junit_doc. rewrite R. cbn [js_done app]. rewrite L. cbn [js_cases js_events line_facts evf app].
  rewrite stream_line_facts_eq. symmetry. exact (filter_flat_map nf3 slf1 (before_finished es)).
Qed.

Theorem junit_doc_without_finished es : existsb is_finished es = false -> junit_doc es = [].
Proof. intros F. exact (junit_no_finished es _ F). Qed.

Theorem C14_junit_ok_shape es : shape None None es = true ->
  forallb (fun o => negb (snd o =? 2)) (attempt_outcomes es) = true ->
  c14_junit_ok es (junit_doc es) = true.
Proof.
  intros S NS. unfold c14_junit_ok.
  change (existsb (fun e : ev => match e with EvFinished => true | _ => false end) es) with (existsb is_finished es).
  destruct (existsb is_finished es) eqn:F.
  - rewrite (junit_cases_are_attempt_outcomes es S F), (junit_error_suites_are_parse_errors es S F),
      (junit_listings_state_the_stream es S F NS).
    rewrite !same_multiset_refl, listN_eqb_refl. reflexivity.
  - rewrite (junit_doc_without_finished es F). reflexivity.
Qed.

(* ---- B for the streams accepted by the sequential contract ---- *)
Lemma cstep_finished_flag seq c e c1 : cstep seq c e = Some c1 -> is_finished e = false -> c_finished c1 = c_finished c.
Proof.
  unfold cstep. destruct (c_finished c) eqn:FIN; [discriminate|]. intros S NF.
  destruct e as [|fe re se ste er|id| |f|f|f r|f r|f r s rt x]; try discriminate NF;
    try (apply guard_inv in S as [_ ->]; cbn; exact FIN).
  - inversion S; subst. exact FIN.
  - destruct x; apply guard_inv in S as [_ ->]; cbn; exact FIN.
Qed.
Lemma crun_finished : forall es seq c c', crun seq c es = Some c' -> c_finished c = false -> c_finished c' = true ->
  existsb is_finished es = true.
Proof.
  induction es as [|e t IH]; intros seq c c' R F0 F1.
  - cbn in R. inversion R; subst. rewrite F0 in F1. discriminate.
  - cbn [crun] in R. destruct (cstep seq c e) as [c1|] eqn:S; [|discriminate]. cbn [existsb].
    destruct (is_finished e) eqn:E; [reflexivity|]. cbn [orb].
    apply (IH seq c1 c' R); [|exact F1]. rewrite (cstep_finished_flag seq c e c1 S E). exact F0.
Qed.
(* a complete sequential run has run-Finished, and (by `shape`) it is its last event *)
Theorem normalized_has_finished es : normalized es = true -> existsb is_finished es = true.
Proof.
  unfold normalized. destruct (crun true cinit es) as [c'|] eqn:R; [|discriminate]. intros F.
  exact (crun_finished es true cinit c' R eq_refl F).
Qed.

Theorem C14_junit_cases es : normalized es = true -> junit_cases (junit_doc es) false = attempt_outcomes es.
Proof. intros H. exact (junit_cases_are_attempt_outcomes es (normalized_shape es H) (normalized_has_finished es H)). Qed.
Theorem C14_junit_errors es : normalized es = true ->
  map (fun c => snd (fst c)) (junit_cases (junit_doc es) true)
  = flat_map (fun e => match e with EvParseErr i => [i] | _ => [] end) (before_finished es).
Proof. intros H. exact (junit_error_suites_are_parse_errors es (normalized_shape es H) (normalized_has_finished es H)). Qed.
Theorem C14_junit_listings es : normalized es = true ->
  forallb (fun o => negb (snd o =? 2)) (attempt_outcomes es) = true ->
  line_facts 0 0 (junit_doc es)
  = filter (fun f => match f with 3 :: _ => false | _ => true end) (stream_line_facts es).
Proof. intros H. exact (junit_listings_state_the_stream es (normalized_shape es H) (normalized_has_finished es H)). Qed.

(* B: the JUnit report of every prefix of a sequential run is right: nothing before run-Finished, and with it the
   testcases, the Errors suites and (when no attempt is classified skipped: K14c) the listings *)
Theorem C14_junit_ok es : normalized_prefix es = true ->
  forallb (fun o => negb (snd o =? 2)) (attempt_outcomes es) = true ->
  c14_junit_ok es (junit_doc es) = true.
Proof. intros H. exact (C14_junit_ok_shape es (normalized_prefix_shape es H)). Qed.

(* ================================================================================================ *)
(* Part C: examples                                                                                  *)
(* ================================================================================================ *)

(* two features, a rule, a retried scenario whose first attempt fails in a step, a failed after hook, a parser error *)
Definition ex_stream : list ev :=
  [EvStarted; EvParsingFinished 2 1 3 5 1; EvParseErr 7;
   EvFeatS 1; EvRuleS 1 10;
   EvScen 1 (Some 10) 100 (Some (0, 1)) ScStarted;
   EvScen 1 (Some 10) 100 (Some (0, 1)) (ScStep 1 StStarted);
   EvScen 1 (Some 10) 100 (Some (0, 1)) (ScStep 1 (StFailed (EPanic 3)));
   EvScen 1 (Some 10) 100 (Some (0, 1)) ScFinished;
   EvScen 1 (Some 10) 100 (Some (1, 0)) ScStarted;
   EvScen 1 (Some 10) 100 (Some (1, 0)) (ScHook true HStarted);
   EvScen 1 (Some 10) 100 (Some (1, 0)) (ScHook true HPassed);
   EvScen 1 (Some 10) 100 (Some (1, 0)) (ScBg 5 StStarted);
   EvScen 1 (Some 10) 100 (Some (1, 0)) (ScBg 5 StPassed);
   EvScen 1 (Some 10) 100 (Some (1, 0)) (ScStep 1 StStarted);
   EvScen 1 (Some 10) 100 (Some (1, 0)) (ScStep 1 StPassed);
   EvScen 1 (Some 10) 100 (Some (1, 0)) ScFinished;
   EvRuleF 1 10;
   EvScen 1 None 101 None ScStarted;
   EvScen 1 None 101 None (ScStep 2 StStarted);
   EvScen 1 None 101 None (ScStep 2 StPassed);
   EvScen 1 None 101 None (ScHook false HStarted);
   EvScen 1 None 101 None (ScHook false (HFailed 9));
   EvScen 1 None 101 None ScFinished;
   EvFeatF 1;
   EvFeatS 2;
   EvScen 2 None 200 None ScStarted;
   EvScen 2 None 200 None (ScStep 3 StStarted);
   EvScen 2 None 200 None (ScStep 3 StPassed);
   EvScen 2 None 200 None (ScLog 4);
   EvScen 2 None 200 None ScFinished;
   EvFeatF 2;
   EvFinished].

Example ex_normalized : normalized ex_stream = true.
Proof. vm_compute. reflexivity. Qed.
Example ex_normalized_prefix : normalized_prefix ex_stream = true.
Proof. vm_compute. reflexivity. Qed.
Example ex_shape : shape None None ex_stream = true.
Proof. vm_compute. reflexivity. Qed.
Example ex_lines_ok : lines_ok 0 0 ex_stream = true.
Proof. vm_compute. reflexivity. Qed.
Example ex_noskip : forallb (fun o => negb (snd o =? 2)) (attempt_outcomes ex_stream) = true.
Proof. vm_compute. reflexivity. Qed.
Example ex_outcomes : attempt_outcomes ex_stream = [(Some 10, 100, 1); (Some 10, 100, 0); (None, 101, 1); (None, 200, 0)].
Proof. vm_compute. reflexivity. Qed.
Example ex_line_facts : stream_line_facts ex_stream =
  [[3]; [1; 100; 0; 1; 0; 2]; [1; 100; 1; 5; 1; 1]; [1; 100; 1; 1; 0; 1]; [1; 101; 0; 2; 0; 1]; [2; 101; 0; 0; 0; 2];
   [1; 200; 0; 3; 0; 1]].
Proof. vm_compute. reflexivity. Qed.
(* the conclusions, by the theorems ... *)
Example ex_basic_by_theorem : c14_basic_ok ex_stream (basic_lines ex_stream) = true.
Proof. exact (C14_basic_ok ex_stream ex_normalized_prefix). Qed.
Example ex_junit_by_theorem : c14_junit_ok ex_stream (junit_doc ex_stream) = true.
Proof. exact (C14_junit_ok ex_stream ex_normalized_prefix ex_noskip). Qed.
(* ... and, independently, by computation *)
Example ex_basic_by_computation : c14_basic_ok ex_stream (basic_lines ex_stream) = true.
Proof. vm_compute. reflexivity. Qed.
Example ex_junit_by_computation : c14_junit_ok ex_stream (junit_doc ex_stream) = true.
Proof. vm_compute. reflexivity. Qed.

(* K14c: the listing of a skipped attempt is dropped, so the no-skipped hypothesis of B3 is needed (B1, B2 are not affected) *)
Definition ex_skipped : list ev :=
  [EvStarted; EvFeatS 1; EvScen 1 None 2 None ScStarted; EvScen 1 None 2 None (ScStep 3 StStarted);
   EvScen 1 None 2 None (ScStep 3 StSkipped); EvScen 1 None 2 None ScFinished; EvFeatF 1; EvFinished].
Example ex_skipped_normalized : normalized ex_skipped = true.
Proof. vm_compute. reflexivity. Qed.
Example ex_skipped_is_skipped : forallb (fun o => negb (snd o =? 2)) (attempt_outcomes ex_skipped) = false.
Proof. vm_compute. reflexivity. Qed.
Example ex_skipped_junit_fails : c14_junit_ok ex_skipped (junit_doc ex_skipped) = false.
Proof. vm_compute. reflexivity. Qed.
Example ex_skipped_listing_lost :
  line_facts 0 0 (junit_doc ex_skipped) = [] /\ stream_line_facts ex_skipped = [[1; 2; 0; 3; 0; 3]].
Proof. vm_compute. split; reflexivity. Qed.
Example ex_skipped_basic_fine : c14_basic_ok ex_skipped (basic_lines ex_skipped) = true.
Proof. vm_compute. reflexivity. Qed.

(* `attempt_outcomes` matches the events of an attempt on (feature, scenario, retries) but not on the rule. This does NOT
   break B1: the events of an earlier attempt with the same triple under another rule come first among the matched
   events, and the classification is decided by the last relevant event, which is never older than the attempt's own
   Started. So no "scenario ids are unique per feature" hypothesis is needed; e.g. scenario 5 under rules 10 and 11: *)
Definition ex_two_rules : list ev :=
  [EvStarted; EvFeatS 1;
   EvRuleS 1 10; EvScen 1 (Some 10) 5 None ScStarted; EvScen 1 (Some 10) 5 None (ScStep 3 StStarted);
   EvScen 1 (Some 10) 5 None (ScStep 3 (StFailed (EPanic 1))); EvScen 1 (Some 10) 5 None ScFinished; EvRuleF 1 10;
   EvRuleS 1 11; EvScen 1 (Some 11) 5 None ScStarted; EvScen 1 (Some 11) 5 None (ScLog 8);
   EvScen 1 (Some 11) 5 None ScFinished; EvRuleF 1 11;
   EvFeatF 1; EvFinished].
Example ex_two_rules_normalized : normalized ex_two_rules = true.
Proof. vm_compute. reflexivity. Qed.
Example ex_two_rules_cases :
  junit_cases (junit_doc ex_two_rules) false = [(Some 10, 5, 1); (Some 11, 5, 0)] /\
  attempt_outcomes ex_two_rules = [(Some 10, 5, 1); (Some 11, 5, 0)].
Proof. vm_compute. split; reflexivity. Qed.

Print Assumptions C14_basic_lines_state_the_stream.
Print Assumptions C14_basic_ok.
Print Assumptions C14_junit_cases.
Print Assumptions C14_junit_errors.
Print Assumptions C14_junit_listings.
Print Assumptions C14_junit_ok.
Print Assumptions junit_doc_without_finished.
