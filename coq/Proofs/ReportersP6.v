(* ReportersP6.v — C14, ATTRIBUTION: the terminal listing (writer::Basic) and the JUnit report of the model state every
   fact UNDER ITS feature / rule / testcase (Model/ReportersSpec2.v), for every stream accepted by the SEQUENTIAL
   ordering contract — the hypotheses of the whole-document theorems of ReportersP4 — and, for the terminal listing,
   end to end behind Normalize (the hypotheses of ReportersP5).
   Part 0: the executable recogniser `shape_fr` (every scenario event lies in the bracket of ITS feature, every attempt of
           a rule starts after the Started of ITS rule, that rule being the last one started in the feature) and the proof
           that the sequential contract automaton implies it.
   Part A: terminal lines.   Part B: JUnit.   Part C: end to end.   Part D: examples. *)
From CV Require Import Model.Base Model.Events Model.Stats Model.StatsSpec Model.Contract Model.Reporters
  Model.ReportersSpec Model.ReportersSpec2 Proofs.BaseP.
From CV Require Import Proofs.ReportersP4.
From CV Require Proofs.ReportersP2 Proofs.ReportersP5.
From Coq Require Import Lia Permutation.

(* ================================================================================================ *)
(* Part 0: features and rules of a sequential stream                                                 *)
(* ================================================================================================ *)
Definition optN_is (o : option N) (x : N) : bool := match o with Some y => y =? x | None => false end.
Lemma optN_is_true o x : optN_is o x = true -> o = Some x.
Proof. destruct o as [y|]; cbn [optN_is]; [|discriminate]. intros E. apply N.eqb_eq in E. subst. reflexivity. Qed.
Lemma optN_is_refl x : optN_is (Some x) x = true.
Proof. apply N.eqb_refl. Qed.

(* q: the feature whose bracket is open; rl: the last rule started in it.
   - a feature is finished, a rule is started, a scenario event occurs only inside the bracket of that very feature;
   - an attempt of rule r starts only when r is the last rule started in the feature. *)
Fixpoint shape_fr (q rl : option N) (es : list ev) : bool :=
  match es with
  | [] => true
  | EvFeatS f :: t => shape_fr (Some f) None t
  | EvFeatF f :: t => optN_is q f && shape_fr None None t
  | EvRuleS f r :: t => optN_is q f && shape_fr q (Some r) t
  | EvScen f r s rt ScStarted :: t =>
    optN_is q f && match r with Some r' => optN_is rl r' | None => true end && shape_fr q rl t
  | EvScen f r s rt _ :: t => optN_is q f && shape_fr q rl t
  | _ :: t => shape_fr q rl t
  end.

Lemma rkey_eqb_spec6 (a b : rkey) : rkey_eqb a b = true <-> a = b.
Proof.
  destruct a as [f r], b as [f' r']. unfold rkey_eqb. cbn [fst snd]. rewrite andb_true_iff, !N.eqb_eq.
  split; [intros [-> ->]; reflexivity|intros X; inversion X; auto].
Qed.

(* what (q, rl) mean in a state of the contract automaton: q is THE open feature; an open rule is rule rl of q *)
Definition FR (c : cstate) (q rl : option N) : Prop :=
  (forall f, lookup N.eqb f (c_feats c) = Some Open <-> q = Some f) /\
  (forall f r, lookup rkey_eqb (f, r) (c_rules c) = Some Open -> q = Some f /\ rl = Some r).

Lemma FR_same_lists c c' q rl : c_feats c' = c_feats c -> c_rules c' = c_rules c -> FR c q rl -> FR c' q rl.
Proof. unfold FR. intros -> ->. auto. Qed.

Lemma FR_no_feat c q rl : FR c q rl -> any_open_feat c = false -> q = None.
Proof.
  intros (HF & _) A. destruct q as [f|]; [|reflexivity]. exfalso.
  assert (L : lookup N.eqb f (c_feats c) = Some Open) by (apply HF; reflexivity).
  unfold any_open_feat in A.
  pose proof (open_found N.eqb N.eqb_eq (fun _ => true) f (c_feats c) L eq_refl) as X. cbn [andb] in X.
  rewrite X in A. discriminate.
Qed.
Lemma FR_no_rule c q rl f r : FR c q rl -> q = Some f -> open_rules_of f c = false ->
  lookup rkey_eqb (f, r) (c_rules c) = Some Open -> False.
Proof.
  intros _ _ A L.
  pose proof (open_found rkey_eqb rkey_eqb_spec6 (fun k : rkey => fst k =? f) (f, r) (c_rules c) L (N.eqb_refl f)) as X.
  assert (E : open_rules_of f c = true) by exact X. rewrite E in A. discriminate.
Qed.

Theorem crun_shape_fr : forall es c c' q rl, crun true c es = Some c' -> FR c q rl -> shape_fr q rl es = true.
Proof.
  induction es as [|e t IH]; intros c c' q rl R I; [reflexivity|].
  cbn [crun] in R. destruct (cstep true c e) as [c1|] eqn:S; [|discriminate].
  unfold cstep in S. destruct (c_finished c) eqn:FIN; [discriminate|].
  destruct e as [|fe re se ste er|id| |f|f|f r|f r|f r s rt x].
  - apply guard_inv in S as [_ ->]. cbn [shape_fr]. apply (IH _ _ q rl R). exact (FR_same_lists c _ q rl eq_refl eq_refl I).
  - apply guard_inv in S as [_ ->]. cbn [shape_fr]. apply (IH _ _ q rl R). exact (FR_same_lists c _ q rl eq_refl eq_refl I).
  - inversion S; subst c1. cbn [shape_fr]. exact (IH _ _ q rl R I).
  - apply guard_inv in S as [_ ->]. cbn [shape_fr]. apply (IH _ _ q rl R). exact (FR_same_lists c _ q rl eq_refl eq_refl I).
  - (* FeatS *)
    apply guard_inv in S as [G ->]. apply andb_true_iff in G as [_ G3]. cbn [negb orb] in G3. apply negb_true_iff in G3.
    pose proof (FR_no_feat c q rl I G3) as ->. cbn [shape_fr]. apply (IH _ _ _ _ R).
    destruct I as (HF & HR). split.
    + intros f'. cbn [c_feats set_cfeats]. split.
      * intros L. destruct (N.eq_dec f' f) as [->|NE]; [reflexivity|].
        rewrite (lookup_setk_other4 N.eqb N.eqb_eq) in L by exact NE. apply HF in L. discriminate.
      * intros E. inversion E; subst f'. apply (lookup_setk_same4 N.eqb N.eqb_eq).
    + intros f' r' L. cbn [c_rules set_cfeats] in L. destruct (HR f' r' L) as [X _]. discriminate.
  - (* FeatF *)
    apply guard_inv in S as [G ->]. apply andb_true_iff in G as [G _]. apply andb_true_iff in G as [G1 G2].
    apply is_open_inv in G1. apply negb_true_iff in G2.
    pose proof I as (HF & HR). pose proof (proj1 (HF f) G1) as Q. subst q.
    cbn [shape_fr]. rewrite optN_is_refl. cbn [andb]. apply (IH _ _ _ _ R). split.
    + intros f'. cbn [c_feats set_cfeats]. split; [|discriminate].
      intros L. exfalso. destruct (N.eq_dec f' f) as [->|NE].
      * rewrite (lookup_setk_same4 N.eqb N.eqb_eq) in L. discriminate.
      * rewrite (lookup_setk_other4 N.eqb N.eqb_eq) in L by exact NE. apply HF in L. congruence.
    + intros f' r' L. cbn [c_rules set_cfeats] in L. exfalso. destruct (HR f' r' L) as [X _]. inversion X; subst f'.
      exact (FR_no_rule c (Some f) rl f r' I eq_refl G2 L).
  - (* RuleS *)
    apply guard_inv in S as [G ->]. apply andb_true_iff in G as [G G3]. apply andb_true_iff in G as [G1 _].
    apply is_open_inv in G1. cbn [negb orb] in G3. apply andb_true_iff in G3 as [G3 _]. apply negb_true_iff in G3.
    pose proof I as (HF & HR). pose proof (proj1 (HF f) G1) as Q. subst q.
    cbn [shape_fr]. rewrite optN_is_refl. cbn [andb]. apply (IH _ _ _ _ R). split; [exact HF|].
    intros f' r' L. cbn [c_rules set_crules] in L.
    destruct (rkey_eqb (f', r') (f, r)) eqn:E.
    + apply rkey_eqb_spec6 in E. inversion E; subst. auto.
    + assert (NE : (f', r') <> (f, r)) by (intros X; rewrite X, (eqb_refl4 rkey_eqb rkey_eqb_spec6) in E; discriminate).
      rewrite (lookup_setk_other4 rkey_eqb rkey_eqb_spec6) in L by exact NE. exfalso.
      destruct (HR f' r' L) as [X _]. inversion X; subst f'. exact (FR_no_rule c (Some f) rl f r' I eq_refl G3 L).
  - (* RuleF *)
    apply guard_inv in S as [_ ->]. cbn [shape_fr]. apply (IH _ _ _ _ R). destruct I as (HF & HR). split; [exact HF|].
    intros f' r' L. cbn [c_rules set_crules] in L.
    destruct (rkey_eqb (f', r') (f, r)) eqn:E.
    + apply rkey_eqb_spec6 in E. inversion E; subst. rewrite (lookup_setk_same4 rkey_eqb rkey_eqb_spec6) in L. discriminate.
    + assert (NE : (f', r') <> (f, r)) by (intros X; rewrite X, (eqb_refl4 rkey_eqb rkey_eqb_spec6) in E; discriminate).
      rewrite (lookup_setk_other4 rkey_eqb rkey_eqb_spec6) in L by exact NE. exact (HR f' r' L).
  - (* scenario events: the parents are open *)
    assert (PAR : forall b, is_open (lookup N.eqb f (c_feats c)) &&
               match r with
               | Some r' => is_open (lookup rkey_eqb (f, r') (c_rules c))
               | None => negb true || negb (open_rules_of f c)
               end && b = true ->
               q = Some f /\ match r with Some r' => rl = Some r' | None => True end).
    { intros b G. apply andb_true_iff in G as [G _]. apply andb_true_iff in G as [G1 G2]. apply is_open_inv in G1.
      destruct I as (HF & HR). split; [apply HF; exact G1|].
      destruct r as [r'|]; [|exact Logic.I]. apply is_open_inv in G2. exact (proj2 (HR f r' G2)). }
    assert (I1 : forall l, FR (set_catts c l) q rl) by (intros l; exact (FR_same_lists c _ q rl eq_refl eq_refl I)).
    destruct x as [|b h|st y|st y|m|].
    + apply guard_inv in S as [G ->]. rewrite <- !andb_assoc in G. rewrite andb_assoc in G. destruct (PAR _ G) as [-> PR].
      cbn [shape_fr]. rewrite optN_is_refl, (IH _ _ _ _ R (I1 _)). destruct r as [r'|]; [rewrite PR, optN_is_refl|]; reflexivity.
    + apply guard_inv in S as [G ->]. destruct (PAR _ G) as [-> _]. cbn [shape_fr]. rewrite optN_is_refl. exact (IH _ _ _ _ R I).
    + apply guard_inv in S as [G ->]. destruct (PAR _ G) as [-> _]. cbn [shape_fr]. rewrite optN_is_refl. exact (IH _ _ _ _ R I).
    + apply guard_inv in S as [G ->]. destruct (PAR _ G) as [-> _]. cbn [shape_fr]. rewrite optN_is_refl. exact (IH _ _ _ _ R I).
    + apply guard_inv in S as [G ->]. destruct (PAR _ G) as [-> _]. cbn [shape_fr]. rewrite optN_is_refl. exact (IH _ _ _ _ R I).
    + apply guard_inv in S as [G ->]. destruct (PAR _ G) as [-> _]. cbn [shape_fr]. rewrite optN_is_refl. exact (IH _ _ _ _ R (I1 _)).
Qed.

Lemma FR_init : FR cinit None None.
Proof. split; [intros f; cbn; split; discriminate|intros f r L; cbn in L; discriminate]. Qed.

Theorem normalized_prefix_shape_fr es : normalized_prefix es = true -> shape_fr None None es = true.
Proof.
  unfold normalized_prefix. destruct (crun true cinit es) as [c'|] eqn:R; [|discriminate].
  intros _. exact (crun_shape_fr es cinit c' None None R FR_init).
Qed.

(* ================================================================================================ *)
(* Part A: terminal lines                                                                            *)
(* ================================================================================================ *)

(* ---- sub_multiset IS multiset inclusion ---- *)
Lemma in_remove1 x : forall l, In x l -> exists l', remove1 x l = Some l'.
Proof.
  induction l as [|y t IH]; intros IN; [destruct IN|]. cbn [remove1].
  destruct (fact_eqb x y) eqn:E; [eexists; reflexivity|]. destruct IN as [->|IN].
  - rewrite fact_eqb_refl in E. discriminate.
  - destruct (IH IN) as [l' ->]. eexists; reflexivity.
Qed.
Lemma sub_multiset_of_perm : forall a b c, Permutation (a ++ c) b -> sub_multiset a b = true.
Proof.
  induction a as [|x t IH]; intros b c P; [reflexivity|]. cbn [sub_multiset].
  assert (IN : In x b) by (apply (Permutation_in x P); left; reflexivity).
  destruct (in_remove1 x b IN) as [b' R]. rewrite R. apply (IH b' c).
  apply ReportersP5.remove1_some in R. apply (Permutation_cons_inv (a := x)). rewrite <- R. exact P.
Qed.
Lemma sub_multiset_perm_ex : forall a b, sub_multiset a b = true -> exists c, Permutation (a ++ c) b.
Proof.
  induction a as [|x t IH]; intros b H; [exists b; reflexivity|]. cbn [sub_multiset] in H.
  destruct (remove1 x b) as [b'|] eqn:R; [|discriminate]. destruct (IH b' H) as [c P]. exists c.
  apply ReportersP5.remove1_some in R. rewrite R. cbn [app]. constructor. exact P.
Qed.
Theorem sub_multiset_iff a b : sub_multiset a b = true <-> exists c, Permutation (a ++ c) b.
Proof. split; [apply sub_multiset_perm_ex|intros [c P]; exact (sub_multiset_of_perm a b c P)]. Qed.
Lemma sub_multiset_perm_l a a' b : Permutation a a' -> sub_multiset a' b = true -> sub_multiset a b = true.
Proof.
  intros P H. apply sub_multiset_perm_ex in H as [c Q]. apply (sub_multiset_of_perm a b c).
  rewrite <- Q. apply Permutation_app_tail. exact P.
Qed.

(* a is b with some elements left out *)
Inductive subseq : list fact -> list fact -> Prop :=
| ss_nil l : subseq [] l
| ss_both x a b : subseq a b -> subseq (x :: a) (x :: b)
| ss_right y a b : subseq a b -> subseq a (y :: b).
Lemma subseq_perm a b : subseq a b -> exists c, Permutation (a ++ c) b.
Proof.
  induction 1 as [l|x a b S [c P]|y a b S [c P]].
  - exists l. reflexivity.
  - exists c. cbn [app]. constructor. exact P.
  - exists (y :: c). rewrite <- P. symmetry. apply Permutation_middle.
Qed.
Lemma subseq_sub_multiset a b : subseq a b -> sub_multiset a b = true.
Proof. intros S. destruct (subseq_perm a b S) as [c P]. exact (sub_multiset_of_perm a b c P). Qed.

(* the attempt number a scenario header is decoded to is always `current` *)
Lemma hdr_dec (rt : retr) :
  hdr_att (match rt with Some (c, l) => if 0 <? c then Some (c, c + l) else None | None => None end) = cur_of_retr rt.
Proof. exact (dec_cur rt). Qed.

(* A1: the facts, each read under the feature line and the scenario header above it, in order *)
Theorem basic_line_facts2 : forall es q rl o cf cur,
  shape q o es = true -> shape_fr q rl es = true ->
  (forall f, q = Some f -> cf = Some f) ->
  (forall k, o = Some k -> cur = Some (att_scen k, cur_of_retr (att_retr k))) ->
  line_facts2 cf cur (basic_lines es) = stream_line_facts2 es.
Proof.
  unfold basic_lines, stream_line_facts2.
  induction es as [|e t IH]; intros q rl o cf cur H F HQ HO; [reflexivity|].
  destruct e as [|fe re se ste er|id| |f|f|f r|f r|f r s rt x]; cbn [shape] in H; cbn [shape_fr] in F.
  - cbn [flat_map basic_line app before_finished slf2]. exact (IH _ _ _ _ _ H F HQ HO).
  - cbn [flat_map basic_line app before_finished slf2]. exact (IH _ _ _ _ _ H F HQ HO).
  - cbn [flat_map basic_line app before_finished slf2 line_facts2]. f_equal. exact (IH _ _ _ _ _ H F HQ HO).
  - apply andb_true_iff in H as [_ H]. destruct t; [reflexivity|discriminate].
  - (* FeatS *)
    apply andb_true_iff in H as [H1 H]. apply andb_true_iff in H1 as [_ O]. apply is_none_true in O. subst o.
    cbn [flat_map basic_line app before_finished slf2 line_facts2]. apply (IH _ _ _ _ _ H F).
    + intros f' E. exact E.
    + intros k E. discriminate.
  - (* FeatF *)
    apply andb_true_iff in H as [H1 H]. apply andb_true_iff in H1 as [_ O]. apply is_none_true in O. subst o.
    apply andb_true_iff in F as [_ F].
    cbn [flat_map basic_line app before_finished slf2 line_facts2]. apply (IH _ _ _ _ _ H F).
    + intros f' E. discriminate.
    + intros k E. discriminate.
  - apply andb_true_iff in F as [_ F]. cbn [flat_map basic_line app before_finished slf2 line_facts2].
    exact (IH _ _ _ _ _ H F HQ HO).
  - cbn [flat_map basic_line app before_finished slf2 line_facts2]. exact (IH _ _ _ _ _ H F HQ HO).
  - assert (MID : forall o', is_some q && okey_is o (f, r, s, rt) && shape q o' t = true ->
                  cur = Some (s, cur_of_retr rt) /\ shape q o' t = true).
    { intros o' H'. apply andb_true_iff in H' as [H1 H']. apply andb_true_iff in H1 as [_ H1]. apply okey_is_true in H1.
      split; [exact (HO _ H1)|exact H']. }
    assert (FQ : forall b, optN_is q f && b = true -> cf = Some f /\ b = true).
    { intros b F'. apply andb_true_iff in F' as [Q F']. apply optN_is_true in Q. split; [exact (HQ f Q)|exact F']. }
    destruct x as [|b h|st y|st y|m|].
    + (* attempt Started: the header *)
      rewrite <- andb_assoc in F. destruct (FQ _ F) as [-> F']. apply andb_true_iff in F' as [_ F'].
      apply andb_true_iff in H as [_ H].
      cbn [flat_map basic_line app before_finished slf2 line_facts2]. rewrite hdr_dec. f_equal.
      apply (IH _ _ _ _ _ H F' HQ). intros k E. inversion E; subst k. reflexivity.
    + destruct (FQ _ F) as [-> F']. destruct (MID _ H) as [-> H'].
      destruct h as [| |p]; cbn [flat_map basic_line app before_finished slf2 line_facts2];
        rewrite ?N.eqb_refl; try f_equal; exact (IH _ _ _ _ _ H' F' HQ HO).
    + destruct (FQ _ F) as [-> F']. destruct (MID _ H) as [-> H'].
      destruct y as [| | |k]; cbn [flat_map basic_line app before_finished slf2 line_facts2 st_status b01];
        try f_equal; exact (IH _ _ _ _ _ H' F' HQ HO).
    + destruct (FQ _ F) as [-> F']. destruct (MID _ H) as [-> H'].
      destruct y as [| | |k]; cbn [flat_map basic_line app before_finished slf2 line_facts2 st_status b01];
        try f_equal; exact (IH _ _ _ _ _ H' F' HQ HO).
    + destruct (FQ _ F) as [-> F']. destruct (MID _ H) as [-> H'].
      cbn [flat_map basic_line app before_finished slf2 line_facts2]. exact (IH _ _ _ _ _ H' F' HQ HO).
    + destruct (FQ _ F) as [-> F']. destruct (MID _ H) as [-> H'].
      cbn [flat_map basic_line app before_finished slf2 line_facts2]. apply (IH _ _ _ _ _ H' F' HQ).
      intros k E. discriminate.
Qed.

(* A2: every attempt of a rule has its header under the line of that rule *)
Theorem basic_rule_facts : forall es q rl cf cr,
  shape_fr q rl es = true -> (forall f, q = Some f -> cf = Some f /\ cr = rl) ->
  subseq (flat_map srf1 (before_finished es)) (line_rule_facts cf cr (basic_lines es)).
Proof.
  unfold basic_lines.
  induction es as [|e t IH]; intros q rl cf cr F HQ; [constructor|].
  destruct e as [|fe re se ste er|id| |f|f|f r|f r|f r s rt x]; cbn [shape_fr] in F;
    try (cbn [flat_map basic_line app before_finished srf1 line_rule_facts]; exact (IH _ _ _ _ F HQ)).
  - constructor.
  - cbn [flat_map basic_line app before_finished srf1 line_rule_facts]. apply (IH _ _ _ _ F).
    intros f' E. inversion E; subst f'. auto.
  - apply andb_true_iff in F as [_ F]. cbn [flat_map basic_line app before_finished srf1 line_rule_facts].
    apply (IH _ _ _ _ F). intros f' E. discriminate.
  - apply andb_true_iff in F as [Q F]. apply optN_is_true in Q. subst q.
    cbn [flat_map basic_line app before_finished srf1 line_rule_facts]. apply (IH _ _ _ _ F).
    intros f' E. inversion E; subst f'. split; [exact (proj1 (HQ f eq_refl))|reflexivity].
  - destruct x as [|b h|st y|st y|m|].
    + rewrite <- andb_assoc in F. apply andb_true_iff in F as [Q F]. apply optN_is_true in Q. subst q.
      apply andb_true_iff in F as [RL F]. destruct (HQ f eq_refl) as [-> ->].
      cbn [flat_map basic_line app before_finished line_rule_facts]. rewrite hdr_dec.
      destruct r as [r'|].
      * apply optN_is_true in RL. subst rl. cbn [srf1 app]. constructor. exact (IH _ _ _ _ F HQ).
      * cbn [srf1 app]. destruct rl as [r''|]; cbn [app]; [constructor|]; exact (IH _ _ _ _ F HQ).
    + apply andb_true_iff in F as [_ F].
      destruct r as [r'|], h as [| |p]; cbn [flat_map basic_line app before_finished srf1 line_rule_facts]; exact (IH _ _ _ _ F HQ).
    + apply andb_true_iff in F as [_ F].
      destruct r as [r'|], y as [| | |k]; cbn [flat_map basic_line app before_finished srf1 line_rule_facts]; exact (IH _ _ _ _ F HQ).
    + apply andb_true_iff in F as [_ F].
      destruct r as [r'|], y as [| | |k]; cbn [flat_map basic_line app before_finished srf1 line_rule_facts]; exact (IH _ _ _ _ F HQ).
    + apply andb_true_iff in F as [_ F].
      destruct r as [r'|]; cbn [flat_map basic_line app before_finished srf1 line_rule_facts]; exact (IH _ _ _ _ F HQ).
    + apply andb_true_iff in F as [_ F].
      destruct r as [r'|]; cbn [flat_map basic_line app before_finished srf1 line_rule_facts]; exact (IH _ _ _ _ F HQ).
Qed.

Theorem C14_basic_attr_ok_shape es : shape None None es = true -> shape_fr None None es = true ->
  line_facts2 None None (basic_lines es) = stream_line_facts2 es /\
  c14_basic_attr_ok es (basic_lines es) = true.
Proof.
  intros S F.
  assert (L : line_facts2 None None (basic_lines es) = stream_line_facts2 es).
  { apply (basic_line_facts2 es None None None None None S F); intros x E; discriminate. }
  split; [exact L|]. unfold c14_basic_attr_ok. rewrite L, same_multiset_refl. cbn [andb].
  apply subseq_sub_multiset. apply (basic_rule_facts es None None None None F). intros f E. discriminate.
Qed.

(* A: for every stream accepted by the sequential contract (every prefix of a run included) the terminal lines, each read
   under the feature line and the scenario header above it, state exactly the step results, failed hooks, parser errors
   and attempts of the stream with THEIR feature, in order; and every attempt of a rule has its header under the line of
   that rule *)
Theorem C14_basic_lines_attributed es : normalized_prefix es = true ->
  line_facts2 None None (basic_lines es) = stream_line_facts2 es.
Proof. intros H. exact (proj1 (C14_basic_attr_ok_shape es (normalized_prefix_shape es H) (normalized_prefix_shape_fr es H))). Qed.
Theorem C14_basic_attr_ok es : normalized_prefix es = true -> c14_basic_attr_ok es (basic_lines es) = true.
Proof. intros H. exact (proj2 (C14_basic_attr_ok_shape es (normalized_prefix_shape es H) (normalized_prefix_shape_fr es H))). Qed.

(* ================================================================================================ *)
(* Part B: JUnit                                                                                     *)
(* ================================================================================================ *)

(* ---- reading a report in pieces ---- *)
(* a piece that starts a suite (or is empty) is read the same whatever precedes it *)
Definition sstart (D : list rf) : bool := match D with [] => true | RSuite _ _ :: _ => true | _ => false end.
Lemma jf2_sstart D su ca hd : sstart D = true -> junit_facts2 su ca hd D = junit_facts2 None None None D.
Proof. destruct D as [|x t]; [reflexivity|]. destruct x; try discriminate. reflexivity. Qed.

(* a piece whose reading does not depend on the testcase and header in force before it *)
Definition indep2 (b : list rf) : Prop := forall su ca hd, junit_facts2 su ca hd b = junit_facts2 su None None b.
Lemma indep2_sstart D : sstart D = true -> indep2 D.
Proof. intros H su ca hd. rewrite (jf2_sstart D su ca hd H), (jf2_sstart D su None None H). reflexivity. Qed.
Lemma indep2_case r s st l : indep2 (RCase r s st :: l).
Proof. intros su ca hd. reflexivity. Qed.

Ltac dmatch :=
  repeat (match goal with
          | |- context [match ?v with _ => _ end] => is_var v; destruct v
          | |- context [if ?c then _ else _] => destruct c
          end; cbn [app junit_facts2]).

Lemma jf2_app : forall a b su ca hd, nosuite a = true -> indep2 b ->
  junit_facts2 su ca hd (a ++ b) = junit_facts2 su ca hd a ++ junit_facts2 su None None b.
Proof.
  unfold nosuite. induction a as [|x t IH]; intros b su ca hd NS IB; [apply IB|].
  cbn [forallb] in NS. apply andb_true_iff in NS as [N1 N2].
  destruct x; try discriminate N1; cbn [app junit_facts2]; dmatch; rewrite ?(IH b _ _ _ N2 IB); reflexivity.
Qed.

(* ---- the listing of one attempt, read inside its testcase ---- *)
Definition not_start (x : scev) : bool := match x with ScStarted => false | _ => true end.

Lemma jf2_basic_line_ev f r s st rt x rest : not_start x = true ->
  junit_facts2 (Some f) (Some (r, s, st)) (Some (cur_of_retr rt)) (basic_line (EvScen f r s rt x) ++ rest)
  = sjf1 (EvScen f r s rt x) ++ junit_facts2 (Some f) (Some (r, s, st)) (Some (cur_of_retr rt)) rest.
Proof.
  intros NS. destruct x as [|b h|k y|k y|m|]; try discriminate NS; try reflexivity.
  - destruct h as [| |p]; cbn [basic_line app junit_facts2 sjf1]; rewrite ?N.eqb_refl; reflexivity.
  - destruct y as [| | |e]; reflexivity.
  - destruct y as [| | |e]; reflexivity.
Qed.
Lemma jf2_listing_body f r s st rt : forall evs, forallb not_start evs = true ->
  junit_facts2 (Some f) (Some (r, s, st)) (Some (cur_of_retr rt)) (flat_map (fun x => basic_line (EvScen f r s rt x)) evs)
  = flat_map (fun x => sjf1 (EvScen f r s rt x)) evs.
Proof.
  induction evs as [|x t IH]; intros NS; [reflexivity|]. cbn [forallb] in NS. apply andb_true_iff in NS as [N1 N2].
  cbn [flat_map]. rewrite (jf2_basic_line_ev f r s st rt x _ N1), (IH N2). reflexivity.
Qed.

Lemma jf2_case f r s rt evs rest :
  evs = ScStarted :: rest -> forallb not_start rest = true -> (junit_status evs =? 2) = false ->
  junit_facts2 (Some f) None None (RCase r s (junit_status evs) :: junit_listing f r s rt evs)
  = ([40; f] ++ ropt r ++ [s; junit_status evs]) :: ([21; f] ++ ropt r ++ [s; cur_of_retr rt; junit_status evs])
    :: flat_map (fun x => sjf1 (EvScen f r s rt x)) evs.
Proof.
  intros E NSt NS. unfold junit_listing. rewrite NS. generalize (junit_status evs). intros st. subst evs.
  cbn [flat_map].
  change (basic_line (EvScen f r s rt ScStarted))
    with [RLScenario s (match rt with Some (c, l) => if 0 <? c then Some (c, c + l) else None | None => None end)].
  change (sjf1 (EvScen f r s rt ScStarted)) with (@nil fact).
  cbn [app junit_facts2]. rewrite N.eqb_refl, hdr_dec.
  rewrite (jf2_listing_body f r s st rt rest NSt). reflexivity.
Qed.

(* ---- the invariant between what the spec has seen and the writer's state ---- *)
Lemma mine2_app f r s rt a b : mine2 f r s rt (a ++ b) = mine2 f r s rt a ++ mine2 f r s rt b.
Proof. apply flat_map_app. Qed.
Lemma mine2_own f r s rt x : mine2 f r s rt [EvScen f r s rt x] = [x].
Proof. unfold mine2. cbn [flat_map]. rewrite (eqb_refl4 atkey_eqb atkey_eqb_spec4). reflexivity. Qed.

Definition evs_ok2 (seen : list ev) (evs : list scev) (o : option atkey) : Prop :=
  match o with
  | None => evs = []
  | Some (f, r, s, rt) =>
    exists old rest, mine2 f r s rt seen = old ++ evs /\ evs = ScStarted :: rest /\ forallb not_start rest = true
  end.
Lemma evs_ok2_nonscen seen evs o e : (forall f r s rt, mine2 f r s rt [e] = []) ->
  evs_ok2 seen evs o -> evs_ok2 (seen ++ [e]) evs o.
Proof.
  intros NE H. destruct o as [[[[f r] s] rt]|]; [|exact H]. destruct H as (old & rest & M & E & NS).
  exists old, rest. split; [|split; assumption]. rewrite mine2_app, NE, app_nil_r. exact M.
Qed.
Lemma evs_ok2_start seen f r s rt : evs_ok2 (seen ++ [EvScen f r s rt ScStarted]) [ScStarted] (Some (f, r, s, rt)).
Proof.
  exists (mine2 f r s rt seen), []. split; [|split; reflexivity]. rewrite mine2_app, mine2_own. reflexivity.
Qed.
Lemma evs_ok2_mid seen evs f r s rt x : not_start x = true -> evs_ok2 seen evs (Some (f, r, s, rt)) ->
  evs_ok2 (seen ++ [EvScen f r s rt x]) (evs ++ [x]) (Some (f, r, s, rt)).
Proof.
  intros NX (old & rest & M & E & NS). exists old, (rest ++ [x]). split; [|split].
  - rewrite mine2_app, mine2_own, M. symmetry. apply app_assoc.
  - rewrite E. reflexivity.
  - rewrite forallb_app, NS. cbn [forallb]. rewrite NX. reflexivity.
Qed.

Definition Inv2 (seen : list ev) (j : jstate) (q : option N) (o : option atkey) : Prop :=
  js_suite j = q /\ (q = None -> js_cases j = []) /\ nosuite (js_cases j) = true /\
  evs_ok seen (js_events j) o /\ evs_ok2 seen (js_events j) o.

(* the facts of the suite being filled, and of the events of the open attempt that the writer still holds back *)
Definition pend (q : option N) (cs : list rf) : list fact :=
  match q with Some g => [30; g] :: junit_facts2 (Some g) None None cs | None => [] end.
Definition evf2 (o : option atkey) (evs : list scev) : list fact :=
  match o with Some (f, r, s, rt) => flat_map (fun x => sjf1 (EvScen f r s rt x)) evs | None => [] end.

Ltac pass_case e H F FIN NS IH seen su cs evs dn q rl o I1 I2 I3 I4 I5 :=
  cbn [existsb is_finished orb] in FIN; cbn [before_finished ao_go] in NS;
  destruct (IH (seen ++ [e]) (mk_js su cs evs dn) q rl o H F
              (conj I1 (conj I2 (conj I3 (conj (evs_ok_nonscen seen evs o e (fun _ _ _ => eq_refl) I4)
                                               (evs_ok2_nonscen seen evs o e (fun _ _ _ _ => eq_refl) I5))))) FIN NS)
    as (D & R & SD & P);
  exists D; split; [exact R|split; [exact SD|exact P]].

Ltac mid_case2 x H F FIN NS IH seen su cs evs dn q rl o f r s rt I1 I2 I3 I4 I5 :=
  cbn [shape] in H; apply andb_true_iff in H as [H0 H]; apply andb_true_iff in H0 as [_ O]; apply okey_is_true in O; subst o;
  cbn [shape_fr] in F; apply andb_true_iff in F as [_ F];
  cbn [existsb is_finished orb] in FIN; cbn [before_finished ao_go] in NS;
  destruct (IH (seen ++ [EvScen f r s rt x]) (mk_js su cs (evs ++ [x]) dn) q rl (Some (f, r, s, rt)) H F
              (conj I1 (conj I2 (conj I3 (conj (evs_ok_mid seen evs f r s rt x I4)
                                               (evs_ok2_mid seen evs f r s rt x eq_refl I5))))) FIN NS)
    as (D & R & SD & P);
  cbn [js_suite js_cases js_events js_done] in R, P;
  exists D; split; [exact R|split; [exact SD|]];
  rewrite P; cbn [js_cases js_events evf2 before_finished sjf_go]; rewrite flat_map_app; cbn [flat_map];
  rewrite ?app_nil_r, <- ?app_assoc; reflexivity.

Lemma junit_main2 : forall es seen j q rl o,
  shape q o es = true -> shape_fr q rl es = true -> Inv2 seen j q o -> existsb is_finished es = true ->
  forallb noskip (ao_go seen (before_finished es)) = true ->
  exists D, junit_run j es = js_done j ++ D /\ sstart D = true /\
    Permutation (junit_facts2 None None None D)
                (pend q (js_cases j) ++ evf2 o (js_events j) ++ sjf_go seen (before_finished es)).
Proof.
  induction es as [|e t IH]; intros seen j q rl o H F I FIN NS; [discriminate|].
  destruct j as [su cs evs dn]. destruct I as (I1 & I2 & I3 & I4 & I5). cbn [js_suite js_cases js_events js_done] in *.
  destruct e as [|fe re se ste er|id| |f|f|f r|f r|f r s rt x].
  - cbn [shape] in H. cbn [shape_fr] in F. pass_case EvStarted H F FIN NS IH seen su cs evs dn q rl o I1 I2 I3 I4 I5.
  - cbn [shape] in H. cbn [shape_fr] in F.
    pass_case (EvParsingFinished fe re se ste er) H F FIN NS IH seen su cs evs dn q rl o I1 I2 I3 I4 I5.
  - (* ParseErr: an Errors suite *)
    cbn [shape] in H. cbn [shape_fr] in F. cbn [existsb is_finished orb] in FIN. cbn [before_finished ao_go] in NS.
    destruct (IH (seen ++ [EvParseErr id]) (mk_js su cs evs (dn ++ [RSuite true 0; RCase None id 1])) q rl o H F
                (conj I1 (conj I2 (conj I3 (conj (evs_ok_nonscen seen evs o (EvParseErr id) (fun _ _ _ => eq_refl) I4)
                                                 (evs_ok2_nonscen seen evs o (EvParseErr id) (fun _ _ _ _ => eq_refl) I5))))) FIN NS)
      as (D & R & SD & P).
    cbn [js_suite js_cases js_events js_done] in R, P.
    exists ([RSuite true 0; RCase None id 1] ++ D). split; [|split].
    + change (junit_run (mk_js su cs evs dn) (EvParseErr id :: t))
        with (junit_run (mk_js su cs evs (dn ++ [RSuite true 0; RCase None id 1])) t).
      rewrite R. symmetry. apply app_assoc.
    + reflexivity.
    + change (junit_facts2 None None None ([RSuite true 0; RCase None id 1] ++ D)) with (junit_facts2 None None None D).
      exact P.
  - (* Finished *)
    cbn [shape] in H. apply andb_true_iff in H as [H0 H]. apply andb_true_iff in H0 as [Q O].
    apply is_none_true in Q, O. subst q o. destruct t as [|e2 t2]; [|discriminate].
    pose proof (I2 eq_refl) as C. subst cs.
    exists []. split; [reflexivity|]. split; [reflexivity|]. constructor.
  - (* FeatS: a suite is opened *)
    cbn [shape] in H. apply andb_true_iff in H as [H0 H]. apply andb_true_iff in H0 as [Q O].
    apply is_none_true in Q, O. subst q o. cbn [shape_fr] in F.
    cbn [existsb is_finished orb] in FIN. cbn [before_finished ao_go] in NS.
    pose proof (I2 eq_refl) as C. subst cs.
    assert (INV : Inv2 (seen ++ [EvFeatS f]) (mk_js (Some f) [] evs dn) (Some f) None).
    { split; [reflexivity|]. split; [intros _; reflexivity|]. split; [reflexivity|]. split.
      - exact (evs_ok_nonscen seen evs None (EvFeatS f) (fun _ _ _ => eq_refl) I4).
      - exact (evs_ok2_nonscen seen evs None (EvFeatS f) (fun _ _ _ _ => eq_refl) I5). }
    destruct (IH _ _ _ _ _ H F INV FIN NS) as (D & R & SD & P).
    exists D. split; [exact R|]. split; [exact SD|exact P].
  - (* FeatF: the suite is written *)
    cbn [shape] in H. apply andb_true_iff in H as [H0 H]. apply andb_true_iff in H0 as [Q O].
    apply is_none_true in O. subst o. destruct q as [g|]; [|discriminate]. subst su.
    cbn [shape_fr] in F. apply andb_true_iff in F as [_ F].
    cbn [evs_ok] in I4. subst evs. cbn [existsb is_finished orb] in FIN. cbn [before_finished ao_go] in NS.
    assert (INV : Inv2 (seen ++ [EvFeatF f]) (mk_js None [] [] (dn ++ RSuite false g :: cs)) None None).
    { split; [reflexivity|]. split; [intros _; reflexivity|]. split; [reflexivity|]. split; reflexivity. }
    destruct (IH _ _ _ _ _ H F INV FIN NS) as (D & R & SD & P).
    cbn [js_suite js_cases js_events js_done pend evf2 app] in R, P.
    exists (RSuite false g :: cs ++ D). split; [|split].
    + change (junit_run (mk_js (Some g) cs [] dn) (EvFeatF f :: t))
        with (junit_run (mk_js None [] [] (dn ++ RSuite false g :: cs)) t).
      rewrite R, <- app_assoc. reflexivity.
    + reflexivity.
    + change (junit_facts2 None None None (RSuite false g :: cs ++ D))
        with ([30; g] :: junit_facts2 (Some g) None None (cs ++ D)).
      rewrite (jf2_app cs D (Some g) None None I3 (indep2_sstart D SD)), (jf2_sstart D (Some g) None None SD).
      cbn [pend evf2 app before_finished sjf_go sjf1]. constructor. apply Permutation_app_head. exact P.
  - (* RuleS *)
    cbn [shape] in H. cbn [shape_fr] in F. apply andb_true_iff in F as [_ F].
    pass_case (EvRuleS f r) H F FIN NS IH seen su cs evs dn q (Some r) o I1 I2 I3 I4 I5.
  - (* RuleF *)
    cbn [shape] in H. cbn [shape_fr] in F. pass_case (EvRuleF f r) H F FIN NS IH seen su cs evs dn q rl o I1 I2 I3 I4 I5.
  - destruct x as [|b h|st y|st y|m|].
    + (* attempt Started *)
      cbn [shape] in H. apply andb_true_iff in H as [H0 H]. apply andb_true_iff in H0 as [_ O].
      apply is_none_true in O. subst o. cbn [evs_ok] in I4. subst evs.
      cbn [shape_fr] in F. apply andb_true_iff in F as [_ F].
      cbn [existsb is_finished orb] in FIN. cbn [before_finished ao_go] in NS.
      destruct (IH (seen ++ [EvScen f r s rt ScStarted]) (mk_js su cs [ScStarted] dn) q rl (Some (f, r, s, rt)) H F
                  (conj I1 (conj I2 (conj I3 (conj (evs_ok_start seen f r s rt) (evs_ok2_start seen f r s rt))))) FIN NS)
        as (D & R & SD & P).
      exists D. split; [exact R|]. split; [exact SD|exact P].
    + mid_case2 (ScHook b h) H F FIN NS IH seen su cs evs dn q rl o f r s rt I1 I2 I3 I4 I5.
    + mid_case2 (ScBg st y) H F FIN NS IH seen su cs evs dn q rl o f r s rt I1 I2 I3 I4 I5.
    + mid_case2 (ScStep st y) H F FIN NS IH seen su cs evs dn q rl o f r s rt I1 I2 I3 I4 I5.
    + mid_case2 (ScLog m) H F FIN NS IH seen su cs evs dn q rl o f r s rt I1 I2 I3 I4 I5.
    + (* attempt Finished: the testcase is written, in the suite of ITS feature *)
      cbn [shape] in H. apply andb_true_iff in H as [H0 H]. apply andb_true_iff in H0 as [_ O].
      apply okey_is_true in O. subst o.
      cbn [shape_fr] in F. apply andb_true_iff in F as [Q F]. apply optN_is_true in Q. subst q. subst su.
      cbn [existsb is_finished orb] in FIN.
      destruct I4 as (old & rest & M & E). destruct I5 as (old2 & rest2 & M2 & E2 & NSt).
      assert (ST : junit_status (mine_of f s rt seen) = junit_status evs) by (rewrite M; exact (status_app old evs rest E)).
      assert (ST2 : junit_status (mine2 f r s rt seen) = junit_status evs) by (rewrite M2; exact (status_app old2 evs rest2 E2)).
      change (ao_go seen (before_finished (EvScen f r s rt ScFinished :: t)))
        with ((r, s, junit_status (mine_of f s rt seen)) :: ao_go seen (before_finished t)) in NS.
      cbn [forallb] in NS. apply andb_true_iff in NS as [NS1 NS]. unfold noskip in NS1. cbn [snd] in NS1.
      rewrite ST in NS1. apply negb_true_iff in NS1.
      pose (lst := junit_listing f r s rt evs).
      assert (NCL : nocase lst = true) by apply listing_nocase.
      assert (INV : Inv2 seen (mk_js (Some f) (cs ++ RCase r s (junit_status evs) :: lst) [] dn) (Some f) None).
      { split; [reflexivity|]. split; [intros X; discriminate X|]. split; [|split; reflexivity].
        cbn [js_cases]. rewrite nosuite_app, I3. cbn [andb].
        change (nosuite (RCase r s (junit_status evs) :: lst)) with (nosuite lst). apply nocase_nosuite, NCL. }
      destruct (IH _ _ _ _ _ H F INV FIN NS) as (D & R & SD & P).
      cbn [js_suite js_cases js_events js_done] in R, P.
      exists D. split; [exact R|]. split; [exact SD|].
      rewrite P. cbn [pend evf2 app].
      rewrite (jf2_app cs _ (Some f) None None I3 (indep2_case r s (junit_status evs) lst)).
      unfold lst. rewrite (jf2_case f r s rt evs rest2 E2 NSt NS1).
      change (sjf_go seen (before_finished (EvScen f r s rt ScFinished :: t)))
        with (([40; f] ++ ropt r ++ [s; junit_status (mine2 f r s rt seen)])
              :: ([21; f] ++ ropt r ++ [s; cur_of_retr rt; junit_status (mine2 f r s rt seen)])
              :: sjf_go seen (before_finished t)).
      rewrite ST2.
      set (F40 := [40; f] ++ ropt r ++ [s; junit_status evs]).
      set (F21 := [21; f] ++ ropt r ++ [s; cur_of_retr rt; junit_status evs]).
      set (E' := flat_map (fun x => sjf1 (EvScen f r s rt x)) evs).
      set (S' := sjf_go seen (before_finished t)).
      set (A' := junit_facts2 (Some f) None None cs).
      constructor. rewrite <- app_assoc. apply Permutation_app_head.
      change (F40 :: F21 :: E') with ([F40; F21] ++ E'). change (F40 :: F21 :: S') with ([F40; F21] ++ S').
      rewrite !app_assoc. apply Permutation_app_tail. apply Permutation_app_comm.
Qed.

Lemma Inv2_init : Inv2 [] (mk_js None [] [] []) None None.
Proof. split; [reflexivity|]. split; [intros _; reflexivity|]. split; [reflexivity|]. split; reflexivity. Qed.

(* B under the shape hypotheses: when no attempt is classified skipped (K14c otherwise: the listing of a skipped case is
   dropped) every suite is the suite of a started feature, every testcase stands in the suite of ITS feature with its rule,
   scenario and classification, and its listing is one header of ITS scenario followed by the results of exactly that
   attempt; without run-Finished nothing is written *)
Theorem C14_junit_attr_ok_shape es : shape None None es = true -> shape_fr None None es = true ->
  forallb (fun o => negb (snd o =? 2)) (attempt_outcomes es) = true ->
  c14_junit_attr_ok es (junit_doc es) = true.
Proof.
  intros S F NS. unfold c14_junit_attr_ok.
  change (existsb is_finished_ev es) with (existsb is_finished es).
  destruct (existsb is_finished es) eqn:FIN.
  - rewrite attempt_outcomes_go in NS.
    destruct (junit_main2 es [] _ None None None S F Inv2_init FIN NS) as (D & R & _ & P).
    unfold junit_doc. rewrite R. cbn [js_done app]. apply ReportersP2.perm_same_multiset. symmetry. exact P.
  - rewrite (junit_doc_without_finished es FIN). reflexivity.
Qed.

(* B: for every stream accepted by the sequential contract (the hypotheses of ReportersP4.C14_junit_ok) *)
Theorem C14_junit_attr_ok es : normalized_prefix es = true ->
  forallb (fun o => negb (snd o =? 2)) (attempt_outcomes es) = true ->
  c14_junit_attr_ok es (junit_doc es) = true.
Proof. intros H. exact (C14_junit_attr_ok_shape es (normalized_prefix_shape es H) (normalized_prefix_shape_fr es H)). Qed.

(* the facts as a permutation, for complete runs *)
Theorem C14_junit_facts_attributed es : normalized es = true ->
  forallb (fun o => negb (snd o =? 2)) (attempt_outcomes es) = true ->
  Permutation (junit_facts2 None None None (junit_doc es)) (stream_junit_facts2 es).
Proof.
  intros H NS. pose proof (normalized_shape es H) as S.
  assert (F : shape_fr None None es = true).
  { apply normalized_prefix_shape_fr. unfold normalized in H. unfold normalized_prefix.
    destruct (crun true cinit es); [reflexivity|discriminate]. }
  rewrite attempt_outcomes_go in NS.
  destruct (junit_main2 es [] _ None None None S F Inv2_init (normalized_has_finished es H) NS) as (D & R & _ & P).
  unfold junit_doc. rewrite R. exact P.
Qed.

(* old and new together *)
Theorem C14_basic_whole_document_attributed es : normalized_prefix es = true ->
  c14_basic_ok es (basic_lines es) = true /\ c14_basic_attr_ok es (basic_lines es) = true.
Proof. intros H. split; [exact (ReportersP4.C14_basic_ok es H)|exact (C14_basic_attr_ok es H)]. Qed.
Theorem C14_junit_whole_document_attributed es : normalized_prefix es = true ->
  forallb (fun o => negb (snd o =? 2)) (attempt_outcomes es) = true ->
  c14_junit_ok es (junit_doc es) = true /\ c14_junit_attr_ok es (junit_doc es) = true.
Proof. intros H NS. split; [exact (ReportersP4.C14_junit_ok es H NS)|exact (C14_junit_attr_ok es H NS)]. Qed.

(* ================================================================================================ *)
(* Part C: END TO END — the writers sit behind Normalize, the facts are read from the RAW stream       *)
(* ================================================================================================ *)
Import ReportersP5.

Theorem C14_basic_attr_end_to_end (es : list mev) : contract (raw_of es) = true ->
  c14_basic_attr_ok (raw_of es) (basic_lines (ns_of es)) = true.
Proof.
  intros C. pose proof (C14_basic_attr_ok (ns_of es) (ns_normalized_prefix es C)) as H.
  unfold c14_basic_attr_ok in *. apply andb_true_iff in H as [H1 H2]. apply andb_true_iff. split.
  - unfold stream_line_facts2 in *.
    rewrite (same_multiset_perm_l _ _ _ (Permutation_flat_map slf2 (before_finished_perm es C))). exact H1.
  - unfold stream_rule_facts in *.
    apply (sub_multiset_perm_l _ _ _ (Permutation_flat_map srf1 (before_finished_perm es C))). exact H2.
Qed.

(* ---- JUnit: the facts of the stream in terms of the per-attempt projections ---- *)
Import NormalizeP7.   (* same_att *)

Lemma mine2_body f r s rt : forall pre, mine2 f r s rt (filter nonfin pre) = body f r s rt pre.
Proof.
  induction pre as [|e t IH]; [reflexivity|].
  change (e :: t) with ([e] ++ t) at 2. rewrite body_app, <- IH. clear IH.
  destruct e as [|fe re se ste er|id| |f'|f'|f' r'|f' r'|f' r' s' rt' x]; try reflexivity.
  unfold body. cbn [filter app].
  destruct x; cbn [nonfin is_sc_fin negb];
    try (destruct (same_att f r s rt (EvScen f' r' s' rt' ScFinished)); reflexivity);
    (cbn [mine2 flat_map]; fold (mine2 f r s rt (filter nonfin t));
     change (atkey_eqb (f', r', s', rt') (f, r, s, rt))
       with ((f' =? f) && option_eqb N.eqb r' r && (s' =? s) && retr_eqb rt' rt);
     cbn [same_att];
     destruct ((f' =? f) && option_eqb N.eqb r' r && (s' =? s) && retr_eqb rt' rt); reflexivity).
Qed.

Definition ofacts (whole : list ev) (k : atkey) : list fact :=
  match k with
  | (f, r, s, rt) =>
    [[40; f] ++ ropt r ++ [s; junit_status (body f r s rt whole)];
     [21; f] ++ ropt r ++ [s; cur_of_retr rt; junit_status (body f r s rt whole)]]
  end.

Lemma sjf_go_spec : forall l pre, fin_closes l ->
  Permutation (sjf_go (filter nonfin pre) l) (flat_map sjf1 l ++ flat_map (ofacts (pre ++ l)) (fin_keys l)).
Proof.
  induction l as [|e t IH]; intros pre FC; [constructor|].
  destruct FC as [KC FC].
  assert (E : pre ++ e :: t = (pre ++ [e]) ++ t) by (rewrite <- app_assoc; reflexivity).
  assert (STEP : nonfin e = true ->
            Permutation (sjf1 e ++ sjf_go (filter nonfin pre ++ [e]) t)
                        (flat_map sjf1 (e :: t) ++ flat_map (ofacts (pre ++ e :: t)) (fin_keys t))).
  { intros NF. cbn [flat_map]. rewrite <- app_assoc. apply Permutation_app_head. rewrite E.
    rewrite <- (IH (pre ++ [e]) FC). rewrite filter_app. cbn [filter]. rewrite NF. reflexivity. }
  destruct e as [|fe re se ste er|id| |f'|f'|f' r'|f' r'|f r s rt x];
    try (cbn [sjf_go fin_keys flat_map app]; fold (fin_keys t); exact (STEP eq_refl)).
  destruct x; try (cbn [sjf_go fin_keys flat_map app]; fold (fin_keys t); exact (STEP eq_refl)).
  clear STEP.
  assert (B : body f r s rt (pre ++ EvScen f r s rt ScFinished :: t) = mine2 f r s rt (filter nonfin pre)).
  { rewrite (mine2_body f r s rt pre). rewrite body_app.
    change (EvScen f r s rt ScFinished :: t) with ([EvScen f r s rt ScFinished] ++ t).
    rewrite body_app, (body_own_fin f r s rt), (body_none f r s rt t KC). rewrite !app_nil_r. reflexivity. }
  assert (P : Permutation (sjf_go (filter nonfin pre) t)
                (flat_map sjf1 t ++ flat_map (ofacts (pre ++ EvScen f r s rt ScFinished :: t)) (fin_keys t))).
  { rewrite E. rewrite <- (IH (pre ++ [EvScen f r s rt ScFinished]) FC).
    rewrite filter_app. cbn [filter nonfin is_sc_fin negb]. rewrite app_nil_r. reflexivity. }
  cbn [sjf_go].
  change (flat_map sjf1 (EvScen f r s rt ScFinished :: t)) with (flat_map sjf1 t).
  change (fin_keys (EvScen f r s rt ScFinished :: t)) with ((f, r, s, rt) :: fin_keys t).
  cbn [flat_map ofacts]. rewrite B.
  set (F40 := [40; f] ++ ropt r ++ [s; junit_status (mine2 f r s rt (filter nonfin pre))]).
  set (F21 := [21; f] ++ ropt r ++ [s; cur_of_retr rt; junit_status (mine2 f r s rt (filter nonfin pre))]).
  rewrite P.
  set (A' := flat_map sjf1 t). set (B' := flat_map (ofacts (pre ++ EvScen f r s rt ScFinished :: t)) (fin_keys t)).
  change (F40 :: F21 :: A' ++ B') with ([F40; F21] ++ A' ++ B').
  rewrite !app_assoc. apply Permutation_app_tail. apply Permutation_app_comm.
Qed.

Theorem stream_junit_facts2_by_projection es : fin_closes es -> ReportersP2.no_finished es = true ->
  Permutation (stream_junit_facts2 (es ++ [EvFinished])) (flat_map sjf1 es ++ flat_map (ofacts es) (fin_keys es)).
Proof.
  intros FC NF. unfold stream_junit_facts2. rewrite ReportersP2.before_finished_closed by exact NF.
  exact (sjf_go_spec es [] FC).
Qed.

Section EndToEnd6.
  Variable es : list mev.
  Hypothesis C : contract (raw_of es) = true.

  (* the attributed JUnit facts of the raw stream and of what the writer receives are the same multiset (no hypothesis
     on rules: the attempts are matched on the full key) *)
  Theorem stream_junit_facts2_perm : Permutation (stream_junit_facts2 (raw_of es)) (stream_junit_facts2 (ns_of es)).
  Proof.
    destruct (raw_ns_closed es C) as (r' & n' & ER & EN & NR & NN & P).
    assert (FR' : fin_closes r').
    { destruct (raw_crun es C) as [c R]. rewrite ER in R. exact (fin_closes_app_l _ _ (crun_fin_closes _ _ _ _ R)). }
    assert (FN : fin_closes n').
    { destruct (ns_crun es C) as [c R]. rewrite EN in R. exact (fin_closes_app_l _ _ (crun_fin_closes _ _ _ _ R)). }
    assert (PR : forall f r s rt, filter (same_att f r s rt) n' = filter (same_att f r s rt) r').
    { intros f r s rt. pose proof (attempt_projection_raw_ns es C f r s rt) as H. rewrite ER, EN, !filter_app in H.
      cbn [filter same_att] in H. rewrite !app_nil_r in H. exact H. }
    rewrite ER, EN. rewrite !stream_junit_facts2_by_projection by assumption.
    apply Permutation_app.
    - apply Permutation_flat_map. exact P.
    - replace (flat_map (ofacts r') (fin_keys r')) with (flat_map (ofacts n') (fin_keys r')).
      + apply Permutation_flat_map. unfold fin_keys. apply Permutation_flat_map. exact P.
      + apply flat_map_ext. intros [[[f r] s] rt]. cbn [ofacts]. unfold body. rewrite PR. reflexivity.
  Qed.

  (* the hypotheses of ReportersP5.C14_junit_end_to_end *)
  Theorem C14_junit_attr_end_to_end :
    rule_of_scen_unique (raw_of es) = true ->
    forallb (fun o => negb (snd o =? 2)) (attempt_outcomes (raw_of es)) = true ->
    c14_junit_attr_ok (raw_of es) (junit_doc (ns_of es)) = true.
  Proof.
    intros RUb NS. pose proof (ns_normalized es C) as NM.
    pose proof (attempt_outcomes_perm es C RUb) as PA.
    assert (NS' : forallb (fun o => negb (snd o =? 2)) (attempt_outcomes (ns_of es)) = true)
      by (rewrite <- (perm_forallb _ _ _ PA); exact NS).
    pose proof (C14_junit_attr_ok (ns_of es) (ns_normalized_prefix es C) NS') as H.
    unfold c14_junit_attr_ok in *. rewrite (existsb_raw_ns es C).
    destruct (existsb is_finished_ev (ns_of es)); [|exact H].
    rewrite (same_multiset_perm_l _ _ _ stream_junit_facts2_perm). exact H.
  Qed.
End EndToEnd6.

(* the attribution itself needs no hypothesis on rules (the attempts are matched on the full key): with the "no attempt
   classified skipped" hypothesis stated on what the writer receives, `rule_of_scen_unique` is not needed *)
Theorem C14_junit_attr_end_to_end_ns (es : list mev) : contract (raw_of es) = true ->
  forallb (fun o => negb (snd o =? 2)) (attempt_outcomes (ns_of es)) = true ->
  c14_junit_attr_ok (raw_of es) (junit_doc (ns_of es)) = true.
Proof.
  intros C NS'. pose proof (C14_junit_attr_ok (ns_of es) (ns_normalized_prefix es C) NS') as H.
  unfold c14_junit_attr_ok in *. rewrite (existsb_raw_ns es C).
  destruct (existsb is_finished_ev (ns_of es)); [|exact H].
  rewrite (same_multiset_perm_l _ _ _ (stream_junit_facts2_perm es C)). exact H.
Qed.

(* ================================================================================================ *)
(* Part D: examples                                                                                  *)
(* ================================================================================================ *)

(* ---- the witnesses of the review: feature 1 / scenario 3 / step 1 passes; feature 2 / scenario 4 / step 1 fails ---- *)
Definition ex_w : list ev :=
  [EvStarted; EvFeatS 1;
   EvScen 1 None 3 None ScStarted; EvScen 1 None 3 None (ScStep 1 StStarted); EvScen 1 None 3 None (ScStep 1 StPassed);
   EvScen 1 None 3 None ScFinished; EvFeatF 1;
   EvFeatS 2;
   EvScen 2 None 4 None ScStarted; EvScen 2 None 4 None (ScStep 1 StStarted);
   EvScen 2 None 4 None (ScStep 1 (StFailed (EPanic 0))); EvScen 2 None 4 None ScFinished; EvFeatF 2;
   EvFinished].
(* terminal: the scenarios under the wrong features, and under a rule that never was *)
Definition w_basic : list rf :=
  [RLFeature 2; RLRule 77; RLScenario 3 None; RLStep 1 false 1; RLFeature 1; RLScenario 4 None; RLStep 2 false 1].
(* JUnit: the listings swapped between the testcases *)
Definition w_junit : list rf :=
  [RSuite false 1; RCase None 3 0; RLScenario 4 None; RLStep 2 false 1;
   RSuite false 2; RCase None 4 1; RLScenario 3 None; RLStep 1 false 1].
(* JUnit: a suite of a feature that never was (listings right / listings swapped) *)
Definition w_junit99 : list rf :=
  [RSuite false 99; RCase None 3 0; RLScenario 3 None; RLStep 1 false 1;
   RSuite false 2; RCase None 4 1; RLScenario 4 None; RLStep 2 false 1].
Definition w_junit99s : list rf :=
  [RSuite false 99; RCase None 3 0; RLScenario 4 None; RLStep 2 false 1;
   RSuite false 2; RCase None 4 1; RLScenario 3 None; RLStep 1 false 1].

Example ex_w_normalized : normalized ex_w = true.
Proof. vm_compute. reflexivity. Qed.
(* the old predicates ACCEPT the witnesses ... *)
Example witnesses_accepted_by_the_old_spec :
  c14_basic_ok ex_w w_basic = true /\ c14_junit_ok ex_w w_junit = true /\
  c14_junit_ok ex_w w_junit99 = true /\ c14_junit_ok ex_w w_junit99s = true.
Proof. vm_compute. repeat split; reflexivity. Qed.
(* ... the new ones REJECT them ... *)
Example witness_basic_rejected : c14_basic_attr_ok ex_w w_basic = false.
Proof. vm_compute. reflexivity. Qed.
Example witness_junit_rejected : c14_junit_attr_ok ex_w w_junit = false.
Proof. vm_compute. reflexivity. Qed.
Example witness_junit99_rejected : c14_junit_attr_ok ex_w w_junit99 = false /\ c14_junit_attr_ok ex_w w_junit99s = false.
Proof. vm_compute. split; reflexivity. Qed.
(* ... and accept the model's own output on that stream *)
Example ex_w_model_output :
  basic_lines ex_w = [RLFeature 1; RLScenario 3 None; RLStep 1 false 1; RLFeature 2; RLScenario 4 None; RLStep 2 false 1] /\
  junit_doc ex_w = [RSuite false 1; RCase None 3 0; RLScenario 3 None; RLStep 1 false 1;
                    RSuite false 2; RCase None 4 1; RLScenario 4 None; RLStep 2 false 1].
Proof. vm_compute. split; reflexivity. Qed.
Example ex_w_model_accepted :
  c14_basic_attr_ok ex_w (basic_lines ex_w) = true /\ c14_junit_attr_ok ex_w (junit_doc ex_w) = true.
Proof. vm_compute. split; reflexivity. Qed.

(* ---- a richer stream (ReportersP4.ex_stream): two features, rule 10 with a RETRIED scenario 100 (attempt 0 fails in a
   step, attempt 1 passes with a background step), a top-level scenario 101 listed AFTER the rule (failed after hook),
   a PARSER ERROR ---- *)
Example ex_rich_lines : basic_lines ex_stream =
  [RLParseErr; RLFeature 1; RLRule 10; RLScenario 100 None; RLStep 2 false 1; RLScenario 100 (Some (1, 1));
   RLStep 1 true 5; RLStep 1 false 1; RLScenario 101 None; RLStep 1 false 2; RLHookFailed false 101;
   RLFeature 2; RLScenario 200 None; RLStep 1 false 3].
Proof. vm_compute. reflexivity. Qed.
Example ex_rich_line_facts : stream_line_facts2 ex_stream =
  [[3]; [21; 1; 100; 0]; [1; 1; 100; 0; 1; 0; 2]; [21; 1; 100; 1]; [1; 1; 100; 1; 5; 1; 1]; [1; 1; 100; 1; 1; 0; 1];
   [21; 1; 101; 0]; [1; 1; 101; 0; 2; 0; 1]; [2; 1; 101; 0; 0; 0; 2]; [21; 2; 200; 0]; [1; 2; 200; 0; 3; 0; 1]].
Proof. vm_compute. reflexivity. Qed.
(* the top-level scenario 101 stands after the line of rule 10: the lines have one rule fact more than the stream *)
Example ex_rich_rule_facts :
  stream_rule_facts ex_stream = [[20; 1; 10; 100; 0]; [20; 1; 10; 100; 1]] /\
  line_rule_facts None None (basic_lines ex_stream) = [[20; 1; 10; 100; 0]; [20; 1; 10; 100; 1]; [20; 1; 10; 101; 0]].
Proof. vm_compute. split; reflexivity. Qed.
Example ex_rich_junit_doc : junit_doc ex_stream =
  [RSuite true 0; RCase None 7 1;
   RSuite false 1; RCase (Some 10) 100 1; RLScenario 100 None; RLStep 2 false 1;
   RCase (Some 10) 100 0; RLScenario 100 (Some (1, 1)); RLStep 1 true 5; RLStep 1 false 1;
   RCase None 101 1; RLScenario 101 None; RLStep 1 false 2; RLHookFailed false 101;
   RSuite false 2; RCase None 200 0; RLScenario 200 None; RLStep 1 false 3].
Proof. vm_compute. reflexivity. Qed.
Example ex_rich_junit_facts : junit_facts2 None None None (junit_doc ex_stream) =
  [[30; 1]; [40; 1; 1; 10; 100; 1]; [21; 1; 1; 10; 100; 0; 1]; [1; 1; 1; 10; 100; 0; 1; 0; 2];
   [40; 1; 1; 10; 100; 0]; [21; 1; 1; 10; 100; 1; 0]; [1; 1; 1; 10; 100; 1; 5; 1; 1]; [1; 1; 1; 10; 100; 1; 1; 0; 1];
   [40; 1; 0; 0; 101; 1]; [21; 1; 0; 0; 101; 0; 1]; [1; 1; 0; 0; 101; 0; 2; 0; 1]; [2; 1; 0; 0; 101; 0; 0; 0; 2];
   [30; 2]; [40; 2; 0; 0; 200; 0]; [21; 2; 0; 0; 200; 0; 0]; [1; 2; 0; 0; 200; 0; 3; 0; 1]].
Proof. vm_compute. reflexivity. Qed.
(* accepted: by the theorems ... *)
Example ex_rich_basic_by_theorem : c14_basic_attr_ok ex_stream (basic_lines ex_stream) = true.
Proof. exact (C14_basic_attr_ok ex_stream ex_normalized_prefix). Qed.
Example ex_rich_junit_by_theorem : c14_junit_attr_ok ex_stream (junit_doc ex_stream) = true.
Proof. exact (C14_junit_attr_ok ex_stream ex_normalized_prefix ex_noskip). Qed.
(* ... and, independently, by computation *)
Example ex_rich_by_computation :
  c14_basic_attr_ok ex_stream (basic_lines ex_stream) = true /\ c14_junit_attr_ok ex_stream (junit_doc ex_stream) = true.
Proof. vm_compute. split; reflexivity. Qed.

(* rejected variants of the rich report. Terminal: the retried scenario under another rule / under no rule line / the
   top-level scenario 101 moved under feature 2 / the failed hook under the header of another scenario *)
Example ex_rich_basic_rejected :
  c14_basic_attr_ok ex_stream
    [RLParseErr; RLFeature 1; RLRule 11; RLScenario 100 None; RLStep 2 false 1; RLScenario 100 (Some (1, 1));
     RLStep 1 true 5; RLStep 1 false 1; RLScenario 101 None; RLStep 1 false 2; RLHookFailed false 101;
     RLFeature 2; RLScenario 200 None; RLStep 1 false 3] = false /\
  c14_basic_attr_ok ex_stream
    [RLParseErr; RLFeature 1; RLScenario 100 None; RLStep 2 false 1; RLScenario 100 (Some (1, 1));
     RLStep 1 true 5; RLStep 1 false 1; RLScenario 101 None; RLStep 1 false 2; RLHookFailed false 101;
     RLFeature 2; RLScenario 200 None; RLStep 1 false 3] = false /\
  c14_basic_attr_ok ex_stream
    [RLParseErr; RLFeature 1; RLRule 10; RLScenario 100 None; RLStep 2 false 1; RLScenario 100 (Some (1, 1));
     RLStep 1 true 5; RLStep 1 false 1;
     RLFeature 2; RLScenario 101 None; RLStep 1 false 2; RLHookFailed false 101; RLScenario 200 None; RLStep 1 false 3] = false /\
  c14_basic_attr_ok ex_stream
    [RLParseErr; RLFeature 1; RLRule 10; RLScenario 100 None; RLStep 2 false 1; RLScenario 100 (Some (1, 1));
     RLStep 1 true 5; RLStep 1 false 1; RLHookFailed false 101; RLScenario 101 None; RLStep 1 false 2;
     RLFeature 2; RLScenario 200 None; RLStep 1 false 3] = false.
Proof. vm_compute. repeat split; reflexivity. Qed.
(* JUnit: testcase 101 (with its listing) moved into the suite of feature 2 / the testcase of attempt 1 listing attempt 0
   and vice versa / testcase 100 stated under no rule *)
Example ex_rich_junit_rejected :
  c14_junit_attr_ok ex_stream
    [RSuite true 0; RCase None 7 1;
     RSuite false 1; RCase (Some 10) 100 1; RLScenario 100 None; RLStep 2 false 1;
     RCase (Some 10) 100 0; RLScenario 100 (Some (1, 1)); RLStep 1 true 5; RLStep 1 false 1;
     RSuite false 2; RCase None 101 1; RLScenario 101 None; RLStep 1 false 2; RLHookFailed false 101;
     RCase None 200 0; RLScenario 200 None; RLStep 1 false 3] = false /\
  c14_junit_attr_ok ex_stream
    [RSuite true 0; RCase None 7 1;
     RSuite false 1; RCase (Some 10) 100 1; RLScenario 100 (Some (1, 1)); RLStep 1 true 5; RLStep 1 false 1;
     RCase (Some 10) 100 0; RLScenario 100 None; RLStep 2 false 1;
     RCase None 101 1; RLScenario 101 None; RLStep 1 false 2; RLHookFailed false 101;
     RSuite false 2; RCase None 200 0; RLScenario 200 None; RLStep 1 false 3] = false /\
  c14_junit_attr_ok ex_stream
    [RSuite true 0; RCase None 7 1;
     RSuite false 1; RCase None 100 1; RLScenario 100 None; RLStep 2 false 1;
     RCase (Some 10) 100 0; RLScenario 100 (Some (1, 1)); RLStep 1 true 5; RLStep 1 false 1;
     RCase None 101 1; RLScenario 101 None; RLStep 1 false 2; RLHookFailed false 101;
     RSuite false 2; RCase None 200 0; RLScenario 200 None; RLStep 1 false 3] = false.
Proof. vm_compute. repeat split; reflexivity. Qed.
(* the second variant above is ACCEPTED by the old predicate (its facts carry no testcase) *)
Example ex_rich_junit_old_accepts_swapped_attempts :
  c14_junit_ok ex_stream
    [RSuite true 0; RCase None 7 1;
     RSuite false 1; RCase (Some 10) 100 1; RLScenario 100 (Some (1, 1)); RLStep 1 true 5; RLStep 1 false 1;
     RCase (Some 10) 100 0; RLScenario 100 None; RLStep 2 false 1;
     RCase None 101 1; RLScenario 101 None; RLStep 1 false 2; RLHookFailed false 101;
     RSuite false 2; RCase None 200 0; RLScenario 200 None; RLStep 1 false 3] = true.
Proof. vm_compute. reflexivity. Qed.

(* K14c: the "no attempt classified skipped" hypothesis (inherited from ReportersP4.C14_junit_ok) is needed for the JUnit
   attribution too — the listing of a skipped case is dropped; the terminal listing is not affected *)
Example ex_skipped_attr :
  normalized ex_skipped = true /\ c14_junit_attr_ok ex_skipped (junit_doc ex_skipped) = false /\
  c14_basic_attr_ok ex_skipped (basic_lines ex_skipped) = true.
Proof. vm_compute. repeat split; reflexivity. Qed.

(* end to end on the interleaved raw stream of ReportersP5: by the theorems and by computation; on `ex5_two_rules` (a
   scenario id under two rules, where the OLD JUnit predicate needs `rule_of_scen_unique`) the attribution still holds *)
Example ex5_attr_by_theorem :
  c14_basic_attr_ok (raw_of ex5) (basic_lines (ns_of ex5)) = true /\
  c14_junit_attr_ok (raw_of ex5) (junit_doc (ns_of ex5)) = true.
Proof.
  destruct ex5_hypotheses as (C & _ & _ & _ & _ & RUb & NS). split.
  - exact (C14_basic_attr_end_to_end ex5 C).
  - exact (C14_junit_attr_end_to_end ex5 C RUb NS).
Qed.
Example ex5_attr_by_computation :
  c14_basic_attr_ok (raw_of ex5) (basic_lines (ns_of ex5)) = true /\
  c14_junit_attr_ok (raw_of ex5) (junit_doc (ns_of ex5)) = true /\
  c14_basic_attr_ok (raw_of ex5_two_rules) (basic_lines (ns_of ex5_two_rules)) = true /\
  c14_junit_attr_ok (raw_of ex5_two_rules) (junit_doc (ns_of ex5_two_rules)) = true /\
  c14_junit_ok (raw_of ex5_two_rules) (junit_doc (ns_of ex5_two_rules)) = false.
Proof. vm_compute. repeat split; reflexivity. Qed.

Print Assumptions crun_shape_fr.
Print Assumptions C14_basic_lines_attributed.
Print Assumptions C14_basic_attr_ok.
Print Assumptions C14_junit_attr_ok.
Print Assumptions C14_junit_facts_attributed.
Print Assumptions C14_basic_whole_document_attributed.
Print Assumptions C14_junit_whole_document_attributed.
Print Assumptions C14_basic_attr_end_to_end.
Print Assumptions C14_junit_attr_end_to_end.
Print Assumptions C14_junit_attr_end_to_end_ns.
