(* SchedP6.v — bracket accounting: the counters of FinishedRulesAndFeatures against the items of the state and
   the status the contract automaton has recorded for every feature and rule. *)
From CV Require Import Model.Base Model.Events Model.Contract Model.Sched
  Proofs.BaseP Proofs.SchedP Proofs.SchedP2 Proofs.SchedP3 Proofs.SchedP4 Proofs.SchedP5.
From Coq Require Import Permutation Lia.

Section Acc1.
  Context {K : Type} (sel : K -> item -> bool) (num : item -> N).

  (* status recorded by the automaton, counter kept by the runner, for one key *)
  Definition acc1 (its : list item) (stat : option status) (cnt : option N) (k : K) : Prop :=
    let T := N.of_nat (cntb (sel k) its) in
    match stat with
    | None => cnt = None /\ forall i, In i its -> sel k i = true -> num i = T
    | Some Open => exists n, cnt = Some n /\ 1 <= T /\ forall i, In i its -> sel k i = true -> num i = T + n
    | Some Closed => cnt = None /\ T = 0
    end.

  Lemma acc1_perm its its' st cn k : Permutation its its' -> acc1 its st cn k -> acc1 its' st cn k.
  Proof.
    intros P. unfold acc1. rewrite (cntb_perm (sel k) _ _ P).
    assert (I : forall i, In i its' -> In i its) by (intros i; apply Permutation_in; apply Permutation_sym; exact P).
    destruct st as [[|]|].
    - intros (n & A & B & C). exists n. repeat split; auto.
    - auto.
    - intros (A & B). split; auto.
  Qed.

  Lemma acc1_unsel i its st cn k : sel k i = false -> acc1 (i :: its) st cn k <-> acc1 its st cn k.
  Proof.
    intros U. unfold acc1. rewrite cntb_cons, U. cbn [Nat.add].
    assert (E : forall (P : item -> Prop), (forall j, In j (i :: its) -> sel k j = true -> P j) <->
                                           (forall j, In j its -> sel k j = true -> P j)).
    { intros P. split; intros H j Hj Hs; [apply H; [right; exact Hj|exact Hs]|].
      destruct Hj as [<-|Hj]; [congruence|apply H; assumption]. }
    destruct st as [[|]|].
    - split; intros (n & A & B & C); exists n; repeat split; auto; apply (E (fun j => num j = _)); exact C.
    - tauto.
    - rewrite (E (fun j => num j = _)). tauto.
  Qed.

  Lemma acc1_unsel_app nw its st cn k :
    (forall i, In i nw -> sel k i = false) -> acc1 (nw ++ its) st cn k <-> acc1 its st cn k.
  Proof.
    induction nw as [|i nw IH]; intros H; [tauto|]. cbn [app]. rewrite acc1_unsel; [|apply H; left; reflexivity].
    apply IH. intros j Hj. apply H. right. exact Hj.
  Qed.

  Lemma acc1_open its k : acc1 its None None k -> (1 <= cntb (sel k) its)%nat -> acc1 its (Some Open) (Some 0) k.
  Proof.
    unfold acc1. intros (_ & A) P. exists 0. split; [reflexivity|]. split; [lia|].
    intros i Hi Hs. rewrite (A i Hi Hs). lia.
  Qed.

  Lemma acc1_fin_close i its n k :
    acc1 (i :: its) (Some Open) (Some n) k -> sel k i = true -> n + 1 = num i -> acc1 its (Some Closed) None k.
  Proof.
    unfold acc1. rewrite cntb_cons. intros (n' & A & B & C) S E. rewrite S in *. inversion A; subst n'.
    specialize (C i (or_introl eq_refl) S). split; [reflexivity|]. lia.
  Qed.

  Lemma acc1_fin_more i its n k :
    acc1 (i :: its) (Some Open) (Some n) k -> sel k i = true -> n + 1 <> num i ->
    acc1 its (Some Open) (Some (n + 1)) k.
  Proof.
    unfold acc1. rewrite cntb_cons. intros (n' & A & B & C) S E. rewrite S in *. inversion A; subst n'.
    pose proof (C i (or_introl eq_refl) S) as Ci. exists (n + 1). split; [reflexivity|]. split; [lia|].
    intros j Hj Sj. rewrite (C j (or_intror Hj) Sj). lia.
  Qed.

  (* a key none of whose items exist yet receives its items all at once *)
  Lemma acc1_add nw its k :
    acc1 its None None k -> cntb (sel k) its = 0%nat ->
    (forall i, In i nw -> sel k i = true -> num i = N.of_nat (cntb (sel k) nw)) ->
    acc1 (nw ++ its) None None k.
  Proof.
    unfold acc1. intros (_ & A) Z H. split; [reflexivity|]. intros i Hi Si. rewrite cntb_app, Z. replace (cntb (sel k) nw + 0)%nat with (cntb (sel k) nw) by lia.
    apply in_app_or in Hi as [Hi|Hi]; [apply H; assumption|].
    pose proof (cntb_pos (sel k) its i Hi Si). lia.
  Qed.

  Lemma acc1_open_pos its cn k : acc1 its (Some Open) cn k -> (1 <= cntb (sel k) its)%nat.
  Proof. unfold acc1. intros (n & _ & B & _). lia. Qed.
  Lemma acc1_closed_zero its cn k : acc1 its (Some Closed) cn k -> cntb (sel k) its = 0%nat.
  Proof. unfold acc1. intros (_ & B). lia. Qed.
End Acc1.

Definition itf (f : N) (i : item) : bool := it_f i =? f.
Definition itr (k : N * N) (i : item) : bool := (it_f i =? fst k) && option_eqb N.eqb (it_r i) (Some (snd k)).

Definition AccF (its : list item) (fc : list (N * N)) (c : cstate) : Prop :=
  forall f, acc1 itf it_nf its (lookup N.eqb f (c_feats c)) (lookupN N.eqb f fc) f.
Definition AccR (its : list item) (rc : list ((N * N) * N)) (c : cstate) : Prop :=
  forall k, acc1 itr it_nr its (lookup rkey_eqb k (c_rules c)) (lookupN rk_eqb k rc) k.
Definition Acc (its : list item) (fc : list (N * N)) (rc : list ((N * N) * N)) (c : cstate) : Prop :=
  AccF its fc c /\ AccR its rc c.

Lemma Acc_perm its its' fc rc c : Permutation its its' -> Acc its fc rc c -> Acc its' fc rc c.
Proof. intros P [A B]. split; intros k; eapply acc1_perm; eauto. Qed.

Lemma itr_itf k i : itr k i = true -> itf (fst k) i = true.
Proof. unfold itr, itf. intros H. apply andb_prop in H as [H _]. exact H. Qed.

(* ---- single steps of the contract automaton (seq = false) ---- *)
Definition live_c (c : cstate) : Prop := c_finished c = false.

Lemma cstep_featS c f : c_finished c = false -> c_started c = true -> lookup N.eqb f (c_feats c) = None ->
  cstep false c (EvFeatS f) = Some (set_cfeats c (setk N.eqb f Open (c_feats c))).
Proof. intros F S L. unfold cstep. rewrite F, S, L. reflexivity. Qed.

Lemma cstep_ruleS c f r : c_finished c = false -> lookup N.eqb f (c_feats c) = Some Open ->
  lookup rkey_eqb (f, r) (c_rules c) = None ->
  cstep false c (EvRuleS f r) = Some (set_crules c (setk rkey_eqb (f, r) Open (c_rules c))).
Proof. intros F S L. unfold cstep. rewrite F, S, L. reflexivity. Qed.

Lemma cstep_ruleF c f r : c_finished c = false -> lookup rkey_eqb (f, r) (c_rules c) = Some Open ->
  open_atts_where (fun k => (att_feat k =? f) && option_eqb N.eqb (att_rule k) (Some r)) c = false ->
  cstep false c (EvRuleF f r) = Some (set_crules c (setk rkey_eqb (f, r) Closed (c_rules c))).
Proof. intros F S L. unfold cstep. rewrite F, S, L. reflexivity. Qed.

Lemma cstep_featF c f : c_finished c = false -> lookup N.eqb f (c_feats c) = Some Open ->
  open_rules_of f c = false -> open_atts_where (fun k => att_feat k =? f) c = false ->
  cstep false c (EvFeatF f) = Some (set_cfeats c (setk N.eqb f Closed (c_feats c))).
Proof. intros F S L1 L2. unfold cstep. rewrite F, S, L1, L2. reflexivity. Qed.

Lemma crun_app seq c a b : crun seq c (a ++ b) = match crun seq c a with Some c' => crun seq c' b | None => None end.
Proof.
  revert c. induction a as [|e a IH]; intros c; [reflexivity|]. cbn [app crun].
  destruct (cstep seq c e); [apply IH|reflexivity].
Qed.

(* well-formed automaton state: every key occurs once *)
Definition WFc (c : cstate) : Prop := nodupk (c_feats c) /\ nodupk (c_rules c) /\ nodupk (c_atts c).

Lemma open_rules_of_false c f : nodupk (c_rules c) ->
  (forall r, lookup rkey_eqb (f, r) (c_rules c) <> Some Open) -> open_rules_of f c = false.
Proof.
  intros ND H. unfold open_rules_of. destruct (existsb _ _) eqn:E; [|reflexivity]. exfalso.
  apply existsb_exists in E as ([[f' r] st] & Hin & Hp). cbn [fst snd] in Hp.
  apply andb_prop in Hp as [Hf Hs]. apply N.eqb_eq in Hf. subst f'. destruct st; [|discriminate].
  apply (H r). apply (nodupk_lookup rkey_eqb rkey_eqb_spec); assumption.
Qed.

Lemma open_atts_where_false c p : nodupk (c_atts c) ->
  (forall k, p k = true -> lookup atkey_eqb k (c_atts c) <> Some Open) -> open_atts_where p c = false.
Proof.
  intros ND H. unfold open_atts_where. destruct (existsb _ _) eqn:E; [|reflexivity]. exfalso.
  apply existsb_exists in E as ([k st] & Hin & Hp). cbn [fst snd] in Hp.
  apply andb_prop in Hp as [Hk Hs]. destruct st; [|discriminate].
  apply (H k Hk). apply (nodupk_lookup atkey_eqb atkey_eqb_spec); assumption.
Qed.

(* ---- opening brackets ---- *)
Definition brk_ext (c c' : cstate) : Prop :=
  c_finished c' = c_finished c /\ c_started c' = c_started c /\ c_pf c' = c_pf c /\ c_atts c' = c_atts c.
Lemma brk_ext_refl c : brk_ext c c.
Proof. repeat split. Qed.
Lemma brk_ext_trans a b c : brk_ext a b -> brk_ext b c -> brk_ext a c.
Proof. intros (A1 & A2 & A3 & A4) (B1 & B2 & B3 & B4). repeat split; congruence. Qed.

Lemma feat_status_of_counter its fc rc c f n :
  Acc its fc rc c -> lookupN N.eqb f fc = Some n -> lookup N.eqb f (c_feats c) = Some Open.
Proof.
  intros [A _] L. specialize (A f). unfold acc1 in A. rewrite L in A.
  destruct (lookup N.eqb f (c_feats c)) as [[|]|]; [reflexivity| |]; destruct A as [A _]; discriminate.
Qed.
Lemma rule_status_of_counter its fc rc c k n :
  Acc its fc rc c -> lookupN rk_eqb k rc = Some n -> lookup rkey_eqb k (c_rules c) = Some Open.
Proof.
  intros [_ A] L. specialize (A k). unfold acc1 in A. rewrite L in A.
  destruct (lookup rkey_eqb k (c_rules c)) as [[|]|]; [reflexivity| |]; destruct A as [A _]; discriminate.
Qed.

Lemma start_feats_ok its rc : forall fs fc c,
  Acc its fc rc c -> WFc c -> nodupk fc -> c_finished c = false -> c_started c = true ->
  (forall f, In f fs -> (1 <= cntb (itf f) its)%nat) ->
  exists c', crun false c (fst (start_feats fs fc)) = Some c' /\ Acc its (snd (start_feats fs fc)) rc c' /\ WFc c' /\
     nodupk (snd (start_feats fs fc)) /\ brk_ext c c' /\ c_rules c' = c_rules c /\
     (forall f, In f fs -> lookup N.eqb f (c_feats c') = Some Open) /\
     (forall f, lookup N.eqb f (c_feats c) = Some Open -> lookup N.eqb f (c_feats c') = Some Open).
Proof.
  induction fs as [|a fs IH]; intros fc c HA HW HN HF HS HT.
  - exists c. cbn [start_feats fst snd crun]. split; [reflexivity|]. split; [exact HA|]. split; [exact HW|].
    split; [exact HN|]. split; [apply brk_ext_refl|]. split; [reflexivity|]. split; [intros f []|auto].
  - cbn [start_feats]. destruct (lookupN N.eqb a fc) as [n|] eqn:L.
    + pose proof (feat_status_of_counter _ _ _ _ _ _ HA L) as OP.
      destruct (IH fc c HA HW HN HF HS (fun f Hf => HT f (or_intror Hf))) as (c' & R & A' & W' & N' & B' & RU & O1 & O2).
      exists c'. split; [exact R|]. split; [exact A'|]. split; [exact W'|]. split; [exact N'|].
      split; [exact B'|]. split; [exact RU|]. split; [|exact O2]. intros f [<-|Hf]; auto.
    + assert (ST : lookup N.eqb a (c_feats c) = None).
      { destruct HA as [A _]. specialize (A a). unfold acc1 in A.
        destruct (lookup N.eqb a (c_feats c)) as [[|]|]; [| |reflexivity].
        - destruct A as (n & X & _). congruence.
        - destruct A as (_ & Z). specialize (HT a (or_introl eq_refl)). lia. }
      set (c1 := set_cfeats c (setk N.eqb a Open (c_feats c))).
      assert (A1 : Acc its (setN N.eqb a 0 fc) rc c1).
      { destruct HA as [Af Ar]. split; [|exact Ar]. intros f. cbn [c1 set_cfeats c_feats].
        destruct (N.eq_dec f a) as [->|NE].
        - rewrite (lookup_setk_same N.eqb N.eqb_eq), (lookupN_setN_same N.eqb N.eqb_eq).
          apply acc1_open; [|apply HT; left; reflexivity]. specialize (Af a). rewrite ST, L in Af. exact Af.
        - rewrite (lookup_setk_other N.eqb N.eqb_eq) by exact NE.
          rewrite (lookupN_setN_other N.eqb N.eqb_eq) by exact NE. apply Af. }
      assert (W1 : WFc c1).
      { destruct HW as (W1 & W2 & W3). split; [|split]; auto. cbn [c1 set_cfeats c_feats].
        apply (nodupk_setk N.eqb N.eqb_eq). exact W1. }
      destruct (IH (setN N.eqb a 0 fc) c1 A1 W1 (nodupk_setN N.eqb N.eqb_eq a 0 fc HN) HF HS
                   (fun f Hf => HT f (or_intror Hf))) as (c' & R & A' & W' & N' & B' & RU & O1 & O2).
      destruct (start_feats fs (setN N.eqb a 0 fc)) as [o fc'] eqn:E. cbn [fst snd] in *.
      exists c'. split; [cbn [crun]; rewrite (cstep_featS c a HF HS ST); exact R|].
      split; [exact A'|]. split; [exact W'|]. split; [exact N'|].
      split; [exact (brk_ext_trans c c1 c' (brk_ext_refl c) B')|]. split; [exact RU|]. split.
      * intros f [<-|Hf]; [|auto]. apply O2. cbn [c1 set_cfeats c_feats].
        apply (lookup_setk_same N.eqb N.eqb_eq).
      * intros f Hf. apply O2. cbn [c1 set_cfeats c_feats]. destruct (N.eq_dec f a) as [->|NE].
        -- apply (lookup_setk_same N.eqb N.eqb_eq).
        -- rewrite (lookup_setk_other N.eqb N.eqb_eq) by exact NE. exact Hf.
Qed.

Lemma rk_dec (a b : N * N) : {a = b} + {a <> b}.
Proof. decide equality; apply N.eq_dec. Qed.

Lemma start_rules_ok its fc : forall rs rc c,
  Acc its fc rc c -> WFc c -> nodupk rc -> c_finished c = false ->
  (forall k, In k rs -> (1 <= cntb (itr k) its)%nat /\ lookup N.eqb (fst k) (c_feats c) = Some Open) ->
  exists c', crun false c (fst (start_rules rs rc)) = Some c' /\ Acc its fc (snd (start_rules rs rc)) c' /\ WFc c' /\
     nodupk (snd (start_rules rs rc)) /\ brk_ext c c' /\ c_feats c' = c_feats c /\
     (forall k, In k rs -> lookup rkey_eqb k (c_rules c') = Some Open) /\
     (forall k, lookup rkey_eqb k (c_rules c) = Some Open -> lookup rkey_eqb k (c_rules c') = Some Open).
Proof.
  induction rs as [|a rs IH]; intros rc c HA HW HN HF HT.
  - exists c. cbn [start_rules fst snd crun]. split; [reflexivity|]. split; [exact HA|]. split; [exact HW|].
    split; [exact HN|]. split; [apply brk_ext_refl|]. split; [reflexivity|]. split; [intros f []|auto].
  - cbn [start_rules]. destruct (lookupN rk_eqb a rc) as [n|] eqn:L.
    + pose proof (rule_status_of_counter _ _ _ _ _ _ HA L) as OP.
      destruct (IH rc c HA HW HN HF (fun f Hf => HT f (or_intror Hf))) as (c' & R & A' & W' & N' & B' & RU & O1 & O2).
      exists c'. split; [exact R|]. split; [exact A'|]. split; [exact W'|]. split; [exact N'|].
      split; [exact B'|]. split; [exact RU|]. split; [|exact O2]. intros f [<-|Hf]; auto.
    + destruct (HT a (or_introl eq_refl)) as [TA FO].
      assert (ST : lookup rkey_eqb a (c_rules c) = None).
      { destruct HA as [_ A]. specialize (A a). unfold acc1 in A.
        destruct (lookup rkey_eqb a (c_rules c)) as [[|]|]; [| |reflexivity].
        - destruct A as (n & X & _). congruence.
        - destruct A as (_ & Z). lia. }
      set (c1 := set_crules c (setk rkey_eqb a Open (c_rules c))).
      assert (A1 : Acc its fc (setN rk_eqb a 0 rc) c1).
      { destruct HA as [Af Ar]. split; [exact Af|]. intros f. cbn [c1 set_crules c_rules].
        destruct (rk_dec f a) as [->|NE].
        - rewrite (lookup_setk_same rkey_eqb rkey_eqb_spec), (lookupN_setN_same rk_eqb rk_eqb_spec).
          apply acc1_open; [|exact TA]. specialize (Ar a). rewrite ST, L in Ar. exact Ar.
        - rewrite (lookup_setk_other rkey_eqb rkey_eqb_spec) by exact NE.
          rewrite (lookupN_setN_other rk_eqb rk_eqb_spec) by exact NE. apply Ar. }
      assert (W1 : WFc c1).
      { destruct HW as (W1 & W2 & W3). split; [|split]; auto. cbn [c1 set_crules c_rules].
        apply (nodupk_setk rkey_eqb rkey_eqb_spec). exact W2. }
      destruct (IH (setN rk_eqb a 0 rc) c1 A1 W1 (nodupk_setN rk_eqb rk_eqb_spec a 0 rc HN) HF
                   (fun f Hf => HT f (or_intror Hf))) as (c' & R & A' & W' & N' & B' & RU & O1 & O2).
      destruct (start_rules rs (setN rk_eqb a 0 rc)) as [o rc'] eqn:E. cbn [fst snd] in *.
      exists c'. split.
      { cbn [crun]. destruct a as [f r]. cbn [fst snd] in *. rewrite (cstep_ruleS c f r HF FO ST). exact R. }
      split; [exact A'|]. split; [exact W'|]. split; [exact N'|].
      split; [exact (brk_ext_trans c c1 c' (brk_ext_refl c) B')|]. split; [exact RU|]. split.
      * intros f [<-|Hf]; [|auto]. apply O2. cbn [c1 set_crules c_rules].
        apply (lookup_setk_same rkey_eqb rkey_eqb_spec).
      * intros f Hf. apply O2. cbn [c1 set_crules c_rules].
        destruct (rk_dec f a) as [->|NE].
        -- apply (lookup_setk_same rkey_eqb rkey_eqb_spec).
        -- rewrite (lookup_setk_other rkey_eqb rkey_eqb_spec) by exact NE. exact Hf.
Qed.

Lemma itf_entry e : itf (e_f e) (item_of_entry e) = true.
Proof. unfold itf, item_of_entry, it_f. apply N.eqb_refl. Qed.
Lemma itr_entry e r : e_r e = Some r -> itr (e_f e, r) (item_of_entry e) = true.
Proof.
  intros H. unfold itr, item_of_entry, it_f, it_r. cbn [fst snd]. rewrite N.eqb_refl, H. cbn.
  apply N.eqb_refl.
Qed.

Lemma start_scenarios_ok its batch fc rc c :
  Acc its fc rc c -> WFc c -> nodupk fc -> nodupk rc -> c_finished c = false -> c_started c = true ->
  (forall e, In e batch -> In (item_of_entry e) its) ->
  exists c', crun false c (fst (fst (start_scenarios batch fc rc))) = Some c' /\
    Acc its (snd (fst (start_scenarios batch fc rc))) (snd (start_scenarios batch fc rc)) c' /\ WFc c' /\
    nodupk (snd (fst (start_scenarios batch fc rc))) /\ nodupk (snd (start_scenarios batch fc rc)) /\ brk_ext c c' /\
    (forall e, In e batch -> lookup N.eqb (e_f e) (c_feats c') = Some Open /\
                             forall r, e_r e = Some r -> lookup rkey_eqb (e_f e, r) (c_rules c') = Some Open) /\
    (forall f, lookup N.eqb f (c_feats c) = Some Open -> lookup N.eqb f (c_feats c') = Some Open) /\
    (forall k, lookup rkey_eqb k (c_rules c) = Some Open -> lookup rkey_eqb k (c_rules c') = Some Open).
Proof.
  intros HA HW NF NR HF HS HI. unfold start_scenarios.
  assert (T1 : forall f, In f (dedup N.eqb (map e_f batch)) -> (1 <= cntb (itf f) its)%nat).
  { intros f Hf. apply (proj1 (dedup_in N.eqb N.eqb_eq _ _)) in Hf. apply in_map_iff in Hf as (e & <- & He).
    eapply cntb_pos; [exact (HI e He)|apply itf_entry]. }
  destruct (start_feats_ok its rc _ fc c HA HW NF HF HS T1) as (c1 & R1 & A1 & W1 & N1 & B1 & RU1 & O1 & M1).
  destruct (start_feats (dedup N.eqb (map e_f batch)) fc) as [o1 fc'] eqn:E1. cbn [fst snd] in *.
  set (rks := flat_map (fun e => match e_r e with Some r => [(e_f e, r)] | None => [] end) batch) in *.
  assert (RK : forall k, In k rks <-> exists e, In e batch /\ e_r e = Some (snd k) /\ e_f e = fst k).
  { intros k. unfold rks. rewrite in_flat_map. split.
    - intros (e & He & Hk). destruct (e_r e) as [r|] eqn:ER; [|destruct Hk]. destruct Hk as [<-|[]].
      exists e. cbn. auto.
    - intros (e & He & H1 & H2). exists e. split; [exact He|]. rewrite H1. left. destruct k; cbn in *; congruence. }
  assert (F1 : c_finished c1 = false) by (destruct B1 as (X & _); congruence).
  assert (T2 : forall k, In k (dedup rk_eqb rks) ->
                 (1 <= cntb (itr k) its)%nat /\ lookup N.eqb (fst k) (c_feats c1) = Some Open).
  { intros k Hk. apply (proj1 (dedup_in rk_eqb rk_eqb_spec _ _)) in Hk. apply RK in Hk as (e & He & H1 & H2). split.
    - eapply cntb_pos; [exact (HI e He)|]. destruct k as [f r]. cbn [fst snd] in *. subst f. apply itr_entry. exact H1.
    - apply O1. apply (dedup_in N.eqb N.eqb_eq). apply in_map_iff. exists e. auto. }
  destruct (start_rules_ok its fc' _ rc c1 A1 W1 NR F1 T2) as (c2 & R2 & A2 & W2 & N2 & B2 & FE2 & O2 & M2).
  destruct (start_rules (dedup rk_eqb rks) rc) as [o2 rc'] eqn:E2. cbn [fst snd] in *.
  exists c2. split; [rewrite crun_app, R1; exact R2|]. split; [exact A2|]. split; [exact W2|].
  split; [exact N1|]. split; [exact N2|]. split; [exact (brk_ext_trans _ _ _ B1 B2)|]. split; [|split].
  - intros e He. split.
    + rewrite FE2. apply O1. apply (dedup_in N.eqb N.eqb_eq). apply in_map_iff. exists e. auto.
    + intros r Hr. apply O2. apply (dedup_in rk_eqb rk_eqb_spec). apply RK. exists e. cbn. auto.
  - intros f Hf. rewrite FE2. apply M1. exact Hf.
  - intros k Hk. apply M2. rewrite RU1. exact Hk.
Qed.

(* ---- closing brackets: one drained message ---- *)
Definition OA (c : cstate) (its : list item) : Prop :=
  forall k, lookup atkey_eqb k (c_atts c) = Some Open ->
    exists i, In i its /\ it_f i = att_feat k /\ it_r i = att_rule k.

Definition mono1 (a b : option status) : Prop := b = a \/ (a = Some Open /\ b = Some Closed).
Definition mono_feats (c c' : cstate) : Prop :=
  forall f, mono1 (lookup N.eqb f (c_feats c)) (lookup N.eqb f (c_feats c')).
Definition mono_rules (c c' : cstate) : Prop :=
  forall k, mono1 (lookup rkey_eqb k (c_rules c)) (lookup rkey_eqb k (c_rules c')).
Lemma mono1_refl a : mono1 a a.
Proof. left. reflexivity. Qed.
Lemma mono1_trans a b c : mono1 a b -> mono1 b c -> mono1 a c.
Proof.
  unfold mono1. intros [->|[-> ->]] [->|[E ->]]; auto; try discriminate E.
Qed.

Lemma itr_msg_only m k : itr k (item_of_msg m) = true -> m_r m = Some (snd k) /\ m_f m = fst k.
Proof.
  unfold itr, item_of_msg, it_f, it_r. intros H. apply andb_prop in H as [H1 H2]. apply N.eqb_eq in H1.
  apply optN_eqb_spec in H2. auto.
Qed.

(* the rule half of finish_msg *)
Definition fin_rule (m : msg) (rc : list ((N * N) * N)) : list ev * list ((N * N) * N) :=
  match m_r m with
  | Some r =>
    match lookupN rk_eqb (m_f m, r) rc with
    | Some n => if n + 1 =? m_nr m then ([EvRuleF (m_f m) r], removeK rk_eqb (m_f m, r) rc)
                else ([], setN rk_eqb (m_f m, r) (n + 1) rc)
    | None => ([], rc)
    end
  | None => ([], rc)
  end.
Definition fin_feat (m : msg) (fc : list (N * N)) : list ev * list (N * N) :=
  match lookupN N.eqb (m_f m) fc with
  | Some n => if n + 1 =? m_nf m then ([EvFeatF (m_f m)], removeK N.eqb (m_f m) fc)
              else ([], setN N.eqb (m_f m) (n + 1) fc)
  | None => ([], fc)
  end.
Lemma finish_msg_split m fc rc : m_retried m = false ->
  finish_msg m fc rc = (fst (fin_rule m rc) ++ fst (fin_feat m fc), snd (fin_feat m fc), snd (fin_rule m rc)).
Proof.
  intros R. unfold finish_msg, fin_rule, fin_feat. rewrite R.
  destruct (m_r m) as [r|].
  - destruct (lookupN rk_eqb (m_f m, r) rc) as [n|]; [destruct (n + 1 =? m_nr m)|];
      (destruct (lookupN N.eqb (m_f m) fc) as [n'|]; [destruct (n' + 1 =? m_nf m)|]); reflexivity.
  - destruct (lookupN N.eqb (m_f m) fc) as [n'|]; [destruct (n' + 1 =? m_nf m)|]; reflexivity.
Qed.

Lemma fin_rule_ok m its rc c :
  AccR (item_of_msg m :: its) rc c -> WFc c -> nodupk rc -> c_finished c = false ->
  (forall r, m_r m = Some r -> lookup rkey_eqb (m_f m, r) (c_rules c) = Some Open) ->
  OA c its ->
  exists c', crun false c (fst (fin_rule m rc)) = Some c' /\ AccR its (snd (fin_rule m rc)) c' /\ WFc c' /\
    nodupk (snd (fin_rule m rc)) /\ brk_ext c c' /\ c_feats c' = c_feats c /\ mono_rules c c'.
Proof.
  intros HA HW NR HF HP HO. unfold fin_rule.
  assert (UNS : forall k, k <> (m_f m, match m_r m with Some r => r | None => 0 end) \/ m_r m = None ->
                  itr k (item_of_msg m) = false).
  { intros k Hk. destruct (itr k (item_of_msg m)) eqn:E; [|reflexivity]. apply itr_msg_only in E as [E1 E2].
    destruct Hk as [Hk|Hk]; [|congruence]. exfalso. apply Hk. rewrite E1. destruct k; cbn in *. congruence. }
  destruct (m_r m) as [r|] eqn:MR.
  2:{ exists c. cbn [fst snd crun]. split; [reflexivity|]. split.
      { intros k. apply (acc1_unsel itr it_nr (item_of_msg m)); [apply UNS; right; reflexivity|apply HA]. }
      split; [exact HW|]. split; [exact NR|]. split; [apply brk_ext_refl|]. split; [reflexivity|].
      intros k. apply mono1_refl. }
  specialize (HP r eq_refl).
  assert (SEL : itr (m_f m, r) (item_of_msg m) = true).
  { unfold itr, item_of_msg, it_f, it_r. cbn [fst snd]. rewrite N.eqb_refl, MR. cbn. apply N.eqb_refl. }
  pose proof (HA (m_f m, r)) as AK. rewrite HP in AK.
  destruct AK as (n & CN & TP & NUM). rewrite CN.
  assert (AK : acc1 itr it_nr (item_of_msg m :: its) (Some Open) (Some n) (m_f m, r)).
  { exists n. auto. }
  assert (NUMm : it_nr (item_of_msg m) = m_nr m) by reflexivity.
  destruct (n + 1 =? m_nr m) eqn:EQ.
  - apply N.eqb_eq in EQ.
    pose proof (acc1_fin_close itr it_nr _ _ _ _ AK SEL (eq_trans EQ (eq_sym NUMm))) as CL.
    pose proof (acc1_closed_zero itr it_nr _ _ _ CL) as Z.
    set (c1 := set_crules c (setk rkey_eqb (m_f m, r) Closed (c_rules c))).
    exists c1. cbn [fst snd]. split.
    { cbn [crun]. rewrite (cstep_ruleF c (m_f m) r HF HP); [reflexivity|].
      destruct HW as (_ & _ & W3). apply open_atts_where_false; [exact W3|].
      intros k Hk Hopen. apply andb_prop in Hk as [K1 K2]. apply N.eqb_eq in K1. apply optN_eqb_spec in K2.
      destruct (HO k Hopen) as (i & Hi & I1 & I2).
      assert (S : itr (m_f m, r) i = true).
      { unfold itr. cbn [fst snd]. rewrite I1, I2, K1, K2, N.eqb_refl. cbn. apply N.eqb_refl. }
      pose proof (cntb_pos _ _ _ Hi S). lia. }
    split.
    { intros k. cbn [c1 set_crules c_rules]. destruct (rk_dec k (m_f m, r)) as [->|NE].
      - rewrite (lookup_setk_same rkey_eqb rkey_eqb_spec), (lookupN_removeK_same rk_eqb). exact CL.
      - rewrite (lookup_setk_other rkey_eqb rkey_eqb_spec) by exact NE.
        rewrite (lookupN_removeK_other rk_eqb rk_eqb_spec) by exact NE.
        apply (acc1_unsel itr it_nr (item_of_msg m)); [apply UNS; left; exact NE|apply HA]. }
    split.
    { destruct HW as (W1 & W2 & W3). split; [|split]; auto. cbn [c1 set_crules c_rules].
      apply (nodupk_setk rkey_eqb rkey_eqb_spec). exact W2. }
    split; [apply (nodupk_removeK rk_eqb); exact NR|]. split; [exact (conj eq_refl (conj eq_refl (conj eq_refl eq_refl)))|]. split; [reflexivity|].
    intros k. cbn [c1 set_crules c_rules]. destruct (rk_dec k (m_f m, r)) as [->|NE].
    + right. split; [exact HP|]. apply (lookup_setk_same rkey_eqb rkey_eqb_spec).
    + left. rewrite (lookup_setk_other rkey_eqb rkey_eqb_spec) by exact NE. reflexivity.
  - apply N.eqb_neq in EQ.
    assert (NE' : n + 1 <> it_nr (item_of_msg m)) by (rewrite NUMm; exact EQ).
    pose proof (acc1_fin_more itr it_nr _ _ _ _ AK SEL NE') as MO.
    exists c. cbn [fst snd crun]. split; [reflexivity|]. split.
    { intros k. destruct (rk_dec k (m_f m, r)) as [->|NE].
      - rewrite HP, (lookupN_setN_same rk_eqb rk_eqb_spec). exact MO.
      - rewrite (lookupN_setN_other rk_eqb rk_eqb_spec) by exact NE.
        apply (acc1_unsel itr it_nr (item_of_msg m)); [apply UNS; left; exact NE|apply HA]. }
    split; [exact HW|]. split; [apply (nodupk_setN rk_eqb rk_eqb_spec); exact NR|].
    split; [apply brk_ext_refl|]. split; [reflexivity|]. intros k. apply mono1_refl.
Qed.

Lemma fin_feat_ok m its fc rc c :
  AccF (item_of_msg m :: its) fc c -> AccR its rc c -> WFc c -> nodupk fc -> c_finished c = false ->
  lookup N.eqb (m_f m) (c_feats c) = Some Open -> OA c its ->
  exists c', crun false c (fst (fin_feat m fc)) = Some c' /\ AccF its (snd (fin_feat m fc)) c' /\ WFc c' /\
    nodupk (snd (fin_feat m fc)) /\ brk_ext c c' /\ c_rules c' = c_rules c /\ mono_feats c c'.
Proof.
  intros HA HR HW NF HF HP HO. unfold fin_feat.
  assert (UNS : forall f, f <> m_f m -> itf f (item_of_msg m) = false).
  { intros f Hf. unfold itf, item_of_msg, it_f. apply N.eqb_neq. congruence. }
  assert (SEL : itf (m_f m) (item_of_msg m) = true) by (unfold itf, item_of_msg, it_f; apply N.eqb_refl).
  pose proof (HA (m_f m)) as AK. rewrite HP in AK.
  destruct AK as (n & CN & TP & NUM). rewrite CN.
  assert (AK : acc1 itf it_nf (item_of_msg m :: its) (Some Open) (Some n) (m_f m)).
  { exists n. auto. }
  assert (NUMm : it_nf (item_of_msg m) = m_nf m) by reflexivity.
  destruct (n + 1 =? m_nf m) eqn:EQ.
  - apply N.eqb_eq in EQ.
    pose proof (acc1_fin_close itf it_nf _ _ _ _ AK SEL (eq_trans EQ (eq_sym NUMm))) as CL.
    pose proof (acc1_closed_zero itf it_nf _ _ _ CL) as Z.
    set (c1 := set_cfeats c (setk N.eqb (m_f m) Closed (c_feats c))).
    exists c1. cbn [fst snd]. split.
    { cbn [crun]. destruct HW as (_ & W2 & W3). rewrite (cstep_featF c (m_f m) HF HP); [reflexivity| |].
      - apply open_rules_of_false; [exact W2|]. intros r Hopen.
        pose proof (HR (m_f m, r)) as AR. rewrite Hopen in AR. apply acc1_open_pos in AR.
        pose proof (cntb_le (itr (m_f m, r)) (itf (m_f m)) its (itr_itf (m_f m, r))). lia.
      - apply open_atts_where_false; [exact W3|]. intros k Hk Hopen. apply N.eqb_eq in Hk.
        destruct (HO k Hopen) as (i & Hi & I1 & I2).
        assert (S : itf (m_f m) i = true) by (unfold itf; rewrite I1, Hk; apply N.eqb_refl).
        pose proof (cntb_pos _ _ _ Hi S). lia. }
    split.
    { intros f. cbn [c1 set_cfeats c_feats]. destruct (N.eq_dec f (m_f m)) as [->|NE].
      - rewrite (lookup_setk_same N.eqb N.eqb_eq), (lookupN_removeK_same N.eqb). exact CL.
      - rewrite (lookup_setk_other N.eqb N.eqb_eq) by exact NE.
        rewrite (lookupN_removeK_other N.eqb N.eqb_eq) by exact NE.
        apply (acc1_unsel itf it_nf (item_of_msg m)); [apply UNS; exact NE|apply HA]. }
    split.
    { destruct HW as (W1 & W2 & W3). split; [|split]; auto. cbn [c1 set_cfeats c_feats].
      apply (nodupk_setk N.eqb N.eqb_eq). exact W1. }
    split; [apply (nodupk_removeK N.eqb); exact NF|].
    split; [exact (conj eq_refl (conj eq_refl (conj eq_refl eq_refl)))|]. split; [reflexivity|].
    intros f. cbn [c1 set_cfeats c_feats]. destruct (N.eq_dec f (m_f m)) as [->|NE].
    + right. split; [exact HP|]. apply (lookup_setk_same N.eqb N.eqb_eq).
    + left. rewrite (lookup_setk_other N.eqb N.eqb_eq) by exact NE. reflexivity.
  - apply N.eqb_neq in EQ.
    assert (NE' : n + 1 <> it_nf (item_of_msg m)) by (rewrite NUMm; exact EQ).
    pose proof (acc1_fin_more itf it_nf _ _ _ _ AK SEL NE') as MO.
    exists c. cbn [fst snd crun]. split; [reflexivity|]. split.
    { intros f. destruct (N.eq_dec f (m_f m)) as [->|NE].
      - rewrite HP, (lookupN_setN_same N.eqb N.eqb_eq). exact MO.
      - rewrite (lookupN_setN_other N.eqb N.eqb_eq) by exact NE.
        apply (acc1_unsel itf it_nf (item_of_msg m)); [apply UNS; exact NE|apply HA]. }
    split; [exact HW|]. split; [apply (nodupk_setN N.eqb N.eqb_eq); exact NF|].
    split; [apply brk_ext_refl|]. split; [reflexivity|]. intros f. apply mono1_refl.
Qed.

Lemma OA_ext c c' its : c_atts c' = c_atts c -> OA c its -> OA c' its.
Proof. intros E H k. rewrite E. apply H. Qed.

Lemma finish_msg_ok m its fc rc c :
  m_retried m = false ->
  Acc (item_of_msg m :: its) fc rc c -> WFc c -> nodupk fc -> nodupk rc -> c_finished c = false ->
  lookup N.eqb (m_f m) (c_feats c) = Some Open ->
  (forall r, m_r m = Some r -> lookup rkey_eqb (m_f m, r) (c_rules c) = Some Open) ->
  OA c its ->
  exists c', crun false c (fst (fst (finish_msg m fc rc))) = Some c' /\
    Acc its (snd (fst (finish_msg m fc rc))) (snd (finish_msg m fc rc)) c' /\ WFc c' /\
    nodupk (snd (fst (finish_msg m fc rc))) /\ nodupk (snd (finish_msg m fc rc)) /\ brk_ext c c' /\
    mono_feats c c' /\ mono_rules c c'.
Proof.
  intros MR [AF AR] HW NF NR HF PF PR HO. rewrite (finish_msg_split m fc rc MR). cbn [fst snd].
  destruct (fin_rule_ok m its rc c AR HW NR HF PR HO) as (c1 & R1 & A1 & W1 & N1 & B1 & FE1 & M1).
  assert (F1 : c_finished c1 = false) by (destruct B1 as (X & _); congruence).
  assert (AF1 : AccF (item_of_msg m :: its) fc c1) by (intros f; rewrite FE1; apply AF).
  assert (PF1 : lookup N.eqb (m_f m) (c_feats c1) = Some Open) by (rewrite FE1; exact PF).
  assert (O1 : OA c1 its) by (destruct B1 as (_ & _ & _ & X); exact (OA_ext c c1 its X HO)).
  destruct (fin_feat_ok m its fc _ c1 AF1 A1 W1 NF F1 PF1 O1) as (c2 & R2 & A2 & W2 & N2 & B2 & RE2 & M2).
  exists c2. split; [rewrite crun_app, R1; exact R2|]. split.
  { split; [exact A2|]. intros k. rewrite RE2. apply A1. }
  split; [exact W2|]. split; [exact N2|]. split; [exact N1|]. split; [exact (brk_ext_trans _ _ _ B1 B2)|]. split.
  - intros f. rewrite <- FE1. apply M2.
  - intros k. rewrite RE2. apply M1.
Qed.

(* a bracket with an item left cannot have been closed *)
Lemma open_stays_feat its fc rc c c' f i :
  Acc its fc rc c' -> mono_feats c c' -> lookup N.eqb f (c_feats c) = Some Open ->
  In i its -> it_f i = f -> lookup N.eqb f (c_feats c') = Some Open.
Proof.
  intros [AF _] M O Hi Hf. destruct (M f) as [E|[_ E]]; [congruence|].
  pose proof (AF f) as A. rewrite E in A. apply acc1_closed_zero in A.
  assert (S : itf f i = true) by (unfold itf; rewrite Hf; apply N.eqb_refl).
  pose proof (cntb_pos _ _ _ Hi S). lia.
Qed.
Lemma open_stays_rule its fc rc c c' k i :
  Acc its fc rc c' -> mono_rules c c' -> lookup rkey_eqb k (c_rules c) = Some Open ->
  In i its -> it_f i = fst k -> it_r i = Some (snd k) -> lookup rkey_eqb k (c_rules c') = Some Open.
Proof.
  intros [_ AR] M O Hi Hf Hr. destruct (M k) as [E|[_ E]]; [congruence|].
  pose proof (AR k) as A. rewrite E in A. apply acc1_closed_zero in A.
  assert (S : itr k i = true).
  { unfold itr. rewrite Hf, Hr, N.eqb_refl. cbn. apply N.eqb_refl. }
  pose proof (cntb_pos _ _ _ Hi S). lia.
Qed.

Definition ParI (its : list item) (c : cstate) : Prop :=
  forall i, In i its -> lookup N.eqb (it_f i) (c_feats c) = Some Open /\
                        forall r, it_r i = Some r -> lookup rkey_eqb (it_f i, r) (c_rules c) = Some Open.

Lemma ParI_mono its0 its fc rc c c' :
  Acc its fc rc c' -> mono_feats c c' -> mono_rules c c' -> incl its0 its -> ParI its0 c -> ParI its0 c'.
Proof.
  intros HA MF MR INC P i Hi. destruct (P i Hi) as [PF PR]. split.
  - eapply open_stays_feat; eauto.
  - intros r Hr. eapply (open_stays_rule its fc rc c c' (it_f i, r) i); eauto.
Qed.

Lemma OA_incl c its its' : incl its its' -> OA c its -> OA c its'.
Proof. intros I H k Hk. destruct (H k Hk) as (i & Hi & X). exists i. split; [apply I; exact Hi|exact X]. Qed.

Definition dr_o {A B C D} (x : A * B * C * D) : A := fst (fst (fst x)).
Definition dr_fc {A B C D} (x : A * B * C * D) : C := snd (fst x).
Definition dr_rc {A B C D} (x : A * B * C * D) : D := snd x.

Lemma drain_ok ff base : forall ms fl fc rc c,
  Acc (base ++ map item_of_msg (finals ms)) fc rc c -> WFc c -> nodupk fc -> nodupk rc -> c_finished c = false ->
  ParI (map item_of_msg (finals ms)) c -> OA c base ->
  exists c', crun false c (dr_o (drain ff ms fl fc rc)) = Some c' /\
    Acc base (dr_fc (drain ff ms fl fc rc)) (dr_rc (drain ff ms fl fc rc)) c' /\ WFc c' /\
    nodupk (dr_fc (drain ff ms fl fc rc)) /\ nodupk (dr_rc (drain ff ms fl fc rc)) /\
    brk_ext c c' /\ mono_feats c c' /\ mono_rules c c'.
Proof.
  induction ms as [|m t IH]; intros fl fc rc c HA HW NF NR HF HP HO.
  - exists c. cbn [drain dr_o dr_fc dr_rc fst snd crun]. cbn [finals filter map] in HA. rewrite app_nil_r in HA.
    split; [reflexivity|]. split; [exact HA|]. split; [exact HW|]. split; [exact NF|]. split; [exact NR|].
    split; [apply brk_ext_refl|]. split; intros k; apply mono1_refl.
  - cbn [drain]. destruct (m_retried m) eqn:MR.
    + (* a retried attempt: nothing is counted *)
      assert (FM : finish_msg m fc rc = ([], fc, rc)) by (unfold finish_msg; rewrite MR; reflexivity).
      rewrite FM. assert (FT : finals (m :: t) = finals t) by (unfold finals; cbn [filter]; rewrite MR; reflexivity).
      rewrite FT in HA, HP. rewrite andb_false_r.
      destruct (IH fl fc rc c HA HW NF NR HF HP HO) as (c' & R & X).
      destruct (drain ff t fl fc rc) as [[[o2 fl2] fc2] rc2]. cbn [dr_o dr_fc dr_rc fst snd app] in *.
      exists c'. split; [exact R|exact X].
    + assert (FT : finals (m :: t) = m :: finals t) by (unfold finals; cbn [filter]; rewrite MR; reflexivity).
      rewrite FT in HA, HP. cbn [map] in HA, HP.
      set (its := base ++ map item_of_msg (finals t)) in *.
      assert (HA' : Acc (item_of_msg m :: its) fc rc c).
      { eapply Acc_perm; [|exact HA]. apply Permutation_sym. apply Permutation_middle. }
      destruct (HP (item_of_msg m) (or_introl eq_refl)) as [PF PR].
      assert (HO' : OA c its) by (eapply OA_incl; [|exact HO]; intros x Hx; apply in_or_app; left; exact Hx).
      destruct (finish_msg_ok m its fc rc c MR HA' HW NF NR HF PF PR HO')
        as (c1 & R1 & A1 & W1 & N1 & N1' & B1 & MF1 & MR1).
      destruct (finish_msg m fc rc) as [[o1 fc1] rc1]. cbn [fst snd] in *.
      assert (F1 : c_finished c1 = false) by (destruct B1 as (X & _); congruence).
      assert (P1 : ParI (map item_of_msg (finals t)) c1).
      { eapply (ParI_mono _ its fc1 rc1 c c1); eauto.
        - intros x Hx. apply in_or_app. right. exact Hx.
        - intros i Hi. apply HP. right. exact Hi. }
      assert (O1 : OA c1 base) by (destruct B1 as (_ & _ & _ & X); exact (OA_ext c c1 base X HO)).
      destruct (IH (if ff && m_failed m && negb false then Break else fl) fc1 rc1 c1 A1 W1 N1 N1' F1 P1 O1)
        as (c' & R & A' & W' & N' & N'' & B' & MF' & MR').
      destruct (drain ff t _ fc1 rc1) as [[[o2 fl2] fc2] rc2]. cbn [dr_o dr_fc dr_rc fst snd] in *.
      exists c'. split; [rewrite crun_app, R1; exact R|]. split; [exact A'|]. split; [exact W'|].
      split; [exact N'|]. split; [exact N''|]. split; [exact (brk_ext_trans _ _ _ B1 B')|]. split.
      * intros f. eapply mono1_trans; [apply MF1|apply MF'].
      * intros k. eapply mono1_trans; [apply MR1|apply MR'].
Qed.

(* ---- finish_all_rules_and_features at the end of the run ---- *)
Definition no_open_atts (c : cstate) : Prop := forall k, lookup atkey_eqb k (c_atts c) <> Some Open.

Lemma close_rules_ok : forall l c,
  NoDup l -> (forall k, In k l -> lookup rkey_eqb k (c_rules c) = Some Open) ->
  c_finished c = false -> no_open_atts c -> WFc c ->
  exists c', crun false c (map (fun k => EvRuleF (fst k) (snd k)) l) = Some c' /\ brk_ext c c' /\
    c_feats c' = c_feats c /\ WFc c' /\
    (forall k, In k l -> lookup rkey_eqb k (c_rules c') = Some Closed) /\
    (forall k, ~ In k l -> lookup rkey_eqb k (c_rules c') = lookup rkey_eqb k (c_rules c)).
Proof.
  induction l as [|a l IH]; intros c ND HO HF NA HW.
  - exists c. cbn [map crun]. split; [reflexivity|]. split; [apply brk_ext_refl|]. split; [reflexivity|].
    split; [exact HW|]. split; [intros k []|reflexivity].
  - inversion ND as [|? ? NI ND']; subst. destruct a as [f r].
    set (c1 := set_crules c (setk rkey_eqb (f, r) Closed (c_rules c))).
    assert (W1 : WFc c1).
    { destruct HW as (W1 & W2 & W3). split; [|split]; auto. cbn [c1 set_crules c_rules].
      apply (nodupk_setk rkey_eqb rkey_eqb_spec). exact W2. }
    assert (HO1 : forall k, In k l -> lookup rkey_eqb k (c_rules c1) = Some Open).
    { intros k Hk. cbn [c1 set_crules c_rules]. rewrite (lookup_setk_other rkey_eqb rkey_eqb_spec).
      - apply HO. right. exact Hk.
      - intros ->. exact (NI Hk). }
    destruct (IH c1 ND' HO1 HF NA W1) as (c' & R & B & FE & W' & C1 & C2).
    exists c'. split.
    { cbn [map crun fst snd]. rewrite (cstep_ruleF c f r HF (HO _ (or_introl eq_refl))); [exact R|].
      destruct HW as (_ & _ & W3). apply open_atts_where_false; [exact W3|]. intros k _. apply NA. }
    split; [exact (brk_ext_trans c c1 c' (conj eq_refl (conj eq_refl (conj eq_refl eq_refl))) B)|].
    split; [exact FE|]. split; [exact W'|]. split.
    + intros k [<-|Hk]; [|apply C1; exact Hk]. rewrite (C2 _ NI). cbn [c1 set_crules c_rules].
      apply (lookup_setk_same rkey_eqb rkey_eqb_spec).
    + intros k Hk. rewrite C2 by (intros X; apply Hk; right; exact X). cbn [c1 set_crules c_rules].
      apply (lookup_setk_other rkey_eqb rkey_eqb_spec). intros ->. apply Hk. left. reflexivity.
Qed.

Lemma close_feats_ok : forall l c,
  NoDup l -> (forall f, In f l -> lookup N.eqb f (c_feats c) = Some Open) ->
  c_finished c = false -> no_open_atts c -> WFc c ->
  (forall k, lookup rkey_eqb k (c_rules c) <> Some Open) ->
  exists c', crun false c (map EvFeatF l) = Some c' /\ brk_ext c c' /\ WFc c' /\
    (forall f, In f l -> lookup N.eqb f (c_feats c') = Some Closed) /\
    (forall f, ~ In f l -> lookup N.eqb f (c_feats c') = lookup N.eqb f (c_feats c)).
Proof.
  induction l as [|f l IH]; intros c ND HO HF NA HW NR.
  - exists c. cbn [map crun]. split; [reflexivity|]. split; [apply brk_ext_refl|].
    split; [exact HW|]. split; [intros k []|reflexivity].
  - inversion ND as [|? ? NI ND']; subst.
    set (c1 := set_cfeats c (setk N.eqb f Closed (c_feats c))).
    assert (W1 : WFc c1).
    { destruct HW as (W1 & W2 & W3). split; [|split]; auto. cbn [c1 set_cfeats c_feats].
      apply (nodupk_setk N.eqb N.eqb_eq). exact W1. }
    assert (HO1 : forall k, In k l -> lookup N.eqb k (c_feats c1) = Some Open).
    { intros k Hk. cbn [c1 set_cfeats c_feats]. rewrite (lookup_setk_other N.eqb N.eqb_eq).
      - apply HO. right. exact Hk.
      - intros ->. exact (NI Hk). }
    destruct (IH c1 ND' HO1 HF NA W1 NR) as (c' & R & B & W' & C1 & C2).
    exists c'. split.
    { cbn [map crun]. destruct HW as (_ & W2 & W3).
      rewrite (cstep_featF c f HF (HO _ (or_introl eq_refl))); [exact R| |].
      - apply open_rules_of_false; [exact W2|]. intros r. apply NR.
      - apply open_atts_where_false; [exact W3|]. intros k _. apply NA. }
    split; [exact (brk_ext_trans c c1 c' (conj eq_refl (conj eq_refl (conj eq_refl eq_refl))) B)|].
    split; [exact W'|]. split.
    + intros k [<-|Hk]; [|apply C1; exact Hk]. rewrite (C2 _ NI). cbn [c1 set_cfeats c_feats].
      apply (lookup_setk_same N.eqb N.eqb_eq).
    + intros k Hk. rewrite C2 by (intros X; apply Hk; right; exact X). cbn [c1 set_cfeats c_feats].
      apply (lookup_setk_other N.eqb N.eqb_eq). intros ->. apply Hk. left. reflexivity.
Qed.

Lemma cstep_finished c : c_finished c = false -> c_started c = true -> any_open_feat c = false ->
  cstep false c EvFinished = Some (set_finished c).
Proof. intros F S L. unfold cstep. rewrite F, S, L. reflexivity. Qed.

Lemma finish_all_ok its fc rc c :
  Acc its fc rc c -> WFc c -> nodupk fc -> nodupk rc -> c_finished c = false -> c_started c = true ->
  no_open_atts c ->
  exists c', crun false c (finish_all fc rc ++ [EvFinished]) = Some c' /\ c_finished c' = true.
Proof.
  intros HA HW NF NR HF HS NA. unfold finish_all.
  assert (E1 : map (fun kv : N * N * N => EvRuleF (fst (fst kv)) (snd (fst kv))) rc =
               map (fun k => EvRuleF (fst k) (snd k)) (map fst rc)) by (rewrite map_map; reflexivity).
  assert (E2 : map (fun kv : N * N => EvFeatF (fst kv)) fc = map EvFeatF (map fst fc)) by (rewrite map_map; reflexivity).
  rewrite E1, E2.
  assert (OR : forall k, In k (map fst rc) -> lookup rkey_eqb k (c_rules c) = Some Open).
  { intros k Hk. apply in_map_iff in Hk as ([k' n] & <- & Hin). cbn [fst].
    eapply rule_status_of_counter; [exact HA|]. apply (nodupk_lookupN rk_eqb rk_eqb_spec); eassumption. }
  destruct (close_rules_ok (map fst rc) c NR OR HF NA HW) as (c1 & R1 & B1 & FE1 & W1 & C1 & C1').
  assert (F1 : c_finished c1 = false) by (destruct B1 as (X & _); congruence).
  assert (NA1 : no_open_atts c1) by (destruct B1 as (_ & _ & _ & X); intros k; rewrite X; apply NA).
  assert (NR1 : forall k, lookup rkey_eqb k (c_rules c1) <> Some Open).
  { intros k. destruct (in_dec rk_dec k (map fst rc)) as [I|NI].
    - rewrite (C1 k I). discriminate.
    - rewrite (C1' k NI). intros Hopen. apply NI. destruct HA as [_ AR]. pose proof (AR k) as A.
      rewrite Hopen in A. destruct A as (n & CN & _). apply (lookupN_in rk_eqb rk_eqb_spec) in CN.
      apply in_map_iff. exists (k, n). auto. }
  assert (OF : forall f, In f (map fst fc) -> lookup N.eqb f (c_feats c1) = Some Open).
  { intros f Hf. rewrite FE1. apply in_map_iff in Hf as ([f' n] & <- & Hin). cbn [fst].
    eapply feat_status_of_counter; [exact HA|]. apply (nodupk_lookupN N.eqb N.eqb_eq); eassumption. }
  destruct (close_feats_ok (map fst fc) c1 NF OF F1 NA1 W1 NR1) as (c2 & R2 & B2 & W2 & C2 & C2').
  assert (F2 : c_finished c2 = false) by (destruct B2 as (X & _); congruence).
  assert (S2 : c_started c2 = true) by (destruct B1 as (_ & X & _), B2 as (_ & Y & _); congruence).
  assert (NO : any_open_feat c2 = false).
  { unfold any_open_feat. destruct (existsb _ _) eqn:E; [|reflexivity]. exfalso.
    apply existsb_exists in E as ([f st] & Hin & Hp). cbn [snd] in Hp. destruct st; [|discriminate].
    destruct W2 as (W2 & _). pose proof (nodupk_lookup N.eqb N.eqb_eq f Open _ W2 Hin) as L.
    destruct (in_dec N.eq_dec f (map fst fc)) as [I|NI].
    - rewrite (C2 f I) in L. discriminate.
    - rewrite (C2' f NI), FE1 in L. apply NI. destruct HA as [AF _]. pose proof (AF f) as A.
      rewrite L in A. destruct A as (n & CN & _). apply (lookupN_in N.eqb N.eqb_eq) in CN.
      apply in_map_iff. exists (f, n). auto. }
  exists (set_finished c2). split; [|reflexivity].
  rewrite <- app_assoc, crun_app, R1, crun_app, R2. cbn [crun]. rewrite (cstep_finished c2 F2 S2 NO). reflexivity.
Qed.
