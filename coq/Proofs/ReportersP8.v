(* ReportersP8.v — C14, the `Feature:` and `Rule:` lines of the terminal listing (writer::Basic) are facts of their own
   and the listing is in STREAM ORDER (Model/ReportersSpec4.v), for every stream accepted by the SEQUENTIAL ordering
   contract — the hypothesis of ReportersP6.C14_basic_attr_ok — and end to end behind Normalize.
   Part A: the model satisfies `c14_basic_hdr_ok` (header facts exact, document facts in stream order).
   Part B: what the ordered clause alone implies (the header multiset and the attributed line facts of ReportersSpec2).
   Part C: end to end. The ORDERED clause is stated against the normalized stream `ns_of es` (the raw stream is
           interleaved: `ex5_order_not_raw` shows the clause is FALSE against `raw_of es`); the multiset clauses are
           stated against the raw stream.
   Part D: examples: the four witnesses of the second review are rejected, the model's own output is accepted. *)
From CV Require Import Model.Base Model.Events Model.Stats Model.StatsSpec Model.Contract Model.Reporters
  Model.ReportersSpec Model.ReportersSpec2 Model.ReportersSpec4 Proofs.BaseP.
From CV Require Import Proofs.ReportersP4 Proofs.ReportersP6.
From CV Require Proofs.ReportersP2 Proofs.ReportersP5.
From Coq Require Import Lia Permutation.

(* ================================================================================================ *)
(* Part A: the model                                                                                 *)
(* ================================================================================================ *)

(* list_eqb on facts IS equality *)
Lemma facts_eqb_eq (a b : list fact) : list_eqb fact_eqb a b = true <-> a = b.
Proof. apply list_eqb_spec. exact ReportersP2.fact_eqb_eq. Qed.
Theorem doc_order_ok_iff es rfs : doc_order_ok es rfs = true <-> doc_facts rfs = stream_doc_facts es.
Proof. unfold doc_order_ok. apply facts_eqb_eq. Qed.

(* A1: the header facts, each rule read under the feature line above it, in order *)
Theorem basic_hdr_facts : forall es q rl o cf,
  shape q o es = true -> shape_fr q rl es = true ->
  (forall f, q = Some f -> cf = Some f) ->
  line_hdr_facts cf (basic_lines es) = stream_hdr_facts es.
Proof.
  unfold basic_lines, stream_hdr_facts.
  induction es as [|e t IH]; intros q rl o cf H F HQ; [reflexivity|].
  destruct e as [|fe re se ste er|id| |f|f|f r|f r|f r s rt x]; cbn [shape] in H; cbn [shape_fr] in F.
  - cbn [flat_map basic_line app before_finished shf1]. exact (IH _ _ _ _ H F HQ).
  - cbn [flat_map basic_line app before_finished shf1]. exact (IH _ _ _ _ H F HQ).
  - cbn [flat_map basic_line app before_finished shf1 line_hdr_facts]. exact (IH _ _ _ _ H F HQ).
  - apply andb_true_iff in H as [_ H]. destruct t; [reflexivity|discriminate].
  - (* FeatS *)
    apply andb_true_iff in H as [_ H].
    cbn [flat_map basic_line app before_finished shf1 line_hdr_facts]. f_equal. apply (IH _ _ _ _ H F).
    intros f' E. exact E.
  - (* FeatF *)
    apply andb_true_iff in H as [_ H]. apply andb_true_iff in F as [_ F].
    cbn [flat_map basic_line app before_finished shf1 line_hdr_facts]. apply (IH _ _ _ _ H F).
    intros f' E. discriminate.
  - (* RuleS: the line stands under the line of ITS feature *)
    apply andb_true_iff in F as [Q F]. apply optN_is_true in Q. rewrite (HQ f Q).
    cbn [flat_map basic_line app before_finished shf1 line_hdr_facts]. f_equal. apply (IH _ _ _ _ H F).
    intros f' E. rewrite <- (HQ f Q). exact (HQ f' E).
  - cbn [flat_map basic_line app before_finished shf1 line_hdr_facts]. exact (IH _ _ _ _ H F HQ).
  - assert (H' : exists o', shape q o' t = true).
    { destruct x as [|b h|st y|st y|m|]; apply andb_true_iff in H as [_ H]; eexists; exact H. }
    destruct H' as [o' H'].
    assert (F' : shape_fr q rl t = true).
    { destruct x as [|b h|st y|st y|m|]; [rewrite <- andb_assoc in F|..]; apply andb_true_iff in F as [_ F];
        [apply andb_true_iff in F as [_ F]|..]; exact F. }
    destruct x as [|b h|st y|st y|m|].
    + cbn [flat_map basic_line app before_finished shf1 line_hdr_facts]. exact (IH _ _ _ _ H' F' HQ).
    + destruct h as [| |p]; cbn [flat_map basic_line app before_finished shf1 line_hdr_facts]; exact (IH _ _ _ _ H' F' HQ).
    + destruct y as [| | |k]; cbn [flat_map basic_line app before_finished shf1 line_hdr_facts]; exact (IH _ _ _ _ H' F' HQ).
    + destruct y as [| | |k]; cbn [flat_map basic_line app before_finished shf1 line_hdr_facts]; exact (IH _ _ _ _ H' F' HQ).
    + cbn [flat_map basic_line app before_finished shf1 line_hdr_facts]. exact (IH _ _ _ _ H' F' HQ).
    + cbn [flat_map basic_line app before_finished shf1 line_hdr_facts]. exact (IH _ _ _ _ H' F' HQ).
Qed.

(* A2: header facts, attributed line facts and parser errors as ONE list: document order is stream order *)
Theorem basic_doc_facts : forall es q rl o cf cur,
  shape q o es = true -> shape_fr q rl es = true ->
  (forall f, q = Some f -> cf = Some f) ->
  (forall k, o = Some k -> cur = Some (att_scen k, cur_of_retr (att_retr k))) ->
  doc_facts_go cf cur (basic_lines es) = stream_doc_facts es.
Proof.
  unfold basic_lines, stream_doc_facts.
  induction es as [|e t IH]; intros q rl o cf cur H F HQ HO; [reflexivity|].
  destruct e as [|fe re se ste er|id| |f|f|f r|f r|f r s rt x]; cbn [shape] in H; cbn [shape_fr] in F.
  - cbn [flat_map basic_line app before_finished sdf1 shf1 slf2]. exact (IH _ _ _ _ _ H F HQ HO).
  - cbn [flat_map basic_line app before_finished sdf1 shf1 slf2]. exact (IH _ _ _ _ _ H F HQ HO).
  - cbn [flat_map basic_line app before_finished sdf1 shf1 slf2 doc_facts_go line_hdr_facts line_facts2 next_cf next_cur].
    f_equal. exact (IH _ _ _ _ _ H F HQ HO).
  - apply andb_true_iff in H as [_ H]. destruct t; [reflexivity|discriminate].
  - (* FeatS *)
    apply andb_true_iff in H as [H1 H]. apply andb_true_iff in H1 as [_ O]. apply is_none_true in O. subst o.
    cbn [flat_map basic_line app before_finished sdf1 shf1 slf2 doc_facts_go line_hdr_facts line_facts2 next_cf next_cur].
    f_equal. apply (IH _ _ _ _ _ H F).
    + intros f' E. exact E.
    + intros k E. discriminate.
  - (* FeatF *)
    apply andb_true_iff in H as [H1 H]. apply andb_true_iff in H1 as [_ O]. apply is_none_true in O. subst o.
    apply andb_true_iff in F as [_ F].
    cbn [flat_map basic_line app before_finished sdf1 shf1 slf2]. apply (IH _ _ _ _ _ H F).
    + intros f' E. discriminate.
    + intros k E. discriminate.
  - (* RuleS *)
    apply andb_true_iff in F as [Q F]. apply optN_is_true in Q. pose proof (HQ f Q) as CF. subst cf.
    cbn [flat_map basic_line app before_finished sdf1 shf1 slf2 doc_facts_go line_hdr_facts line_facts2 next_cf next_cur].
    f_equal. exact (IH _ _ _ _ _ H F HQ HO).
  - cbn [flat_map basic_line app before_finished sdf1 shf1 slf2]. exact (IH _ _ _ _ _ H F HQ HO).
  - assert (MID : forall o', is_some q && okey_is o (f, r, s, rt) && shape q o' t = true ->
                  cur = Some (s, cur_of_retr rt) /\ shape q o' t = true).
    { intros o' H'. apply andb_true_iff in H' as [H1 H']. apply andb_true_iff in H1 as [_ H1]. apply okey_is_true in H1.
      split; [exact (HO _ H1)|exact H']. }
    assert (FQ : forall b, optN_is q f && b = true -> cf = Some f /\ b = true).
    { intros b F'. apply andb_true_iff in F' as [Q F']. apply optN_is_true in Q. split; [exact (HQ f Q)|exact F']. }
    destruct x as [|b h|st y|st y|m|].
    + (* attempt Started: the header *)
      rewrite <- andb_assoc in F. destruct (FQ _ F) as [-> F']. apply andb_true_iff in F' as [_ F'].
      apply andb_true_iff in H as [_ H].
      cbn [flat_map basic_line app before_finished sdf1 shf1 slf2 doc_facts_go line_hdr_facts line_facts2 next_cf next_cur].
      rewrite hdr_dec. f_equal.
      apply (IH _ _ _ _ _ H F' HQ). intros k E. inversion E; subst k. reflexivity.
    + destruct (FQ _ F) as [-> F']. destruct (MID _ H) as [-> H'].
      destruct h as [| |p];
        cbn [flat_map basic_line app before_finished sdf1 shf1 slf2 doc_facts_go line_hdr_facts line_facts2 next_cf next_cur];
        rewrite ?N.eqb_refl; try f_equal; exact (IH _ _ _ _ _ H' F' HQ HO).
    + destruct (FQ _ F) as [-> F']. destruct (MID _ H) as [-> H'].
      destruct y as [| | |k];
        cbn [flat_map basic_line app before_finished sdf1 shf1 slf2 doc_facts_go line_hdr_facts line_facts2 next_cf next_cur
             st_status b01];
        try f_equal; exact (IH _ _ _ _ _ H' F' HQ HO).
    + destruct (FQ _ F) as [-> F']. destruct (MID _ H) as [-> H'].
      destruct y as [| | |k];
        cbn [flat_map basic_line app before_finished sdf1 shf1 slf2 doc_facts_go line_hdr_facts line_facts2 next_cf next_cur
             st_status b01];
        try f_equal; exact (IH _ _ _ _ _ H' F' HQ HO).
    + destruct (FQ _ F) as [-> F']. destruct (MID _ H) as [-> H'].
      cbn [flat_map basic_line app before_finished sdf1 shf1 slf2]. exact (IH _ _ _ _ _ H' F' HQ HO).
    + destruct (FQ _ F) as [-> F']. destruct (MID _ H) as [-> H'].
      cbn [flat_map basic_line app before_finished sdf1 shf1 slf2]. apply (IH _ _ _ _ _ H' F' HQ).
      intros k E. discriminate.
Qed.

Theorem C14_basic_hdr_ok_shape es : shape None None es = true -> shape_fr None None es = true ->
  line_hdr_facts None (basic_lines es) = stream_hdr_facts es /\
  doc_facts (basic_lines es) = stream_doc_facts es /\
  c14_basic_hdr_ok es (basic_lines es) = true.
Proof.
  intros S F.
  assert (L : line_hdr_facts None (basic_lines es) = stream_hdr_facts es).
  { apply (basic_hdr_facts es None None None None S F). intros x E. discriminate. }
  assert (D : doc_facts (basic_lines es) = stream_doc_facts es).
  { apply (basic_doc_facts es None None None None None S F); intros x E; discriminate. }
  split; [exact L|]. split; [exact D|].
  unfold c14_basic_hdr_ok, hdr_multiset_ok. rewrite L, same_multiset_refl. cbn [andb].
  apply doc_order_ok_iff. exact D.
Qed.

(* A: for every stream accepted by the sequential contract (every prefix of a run included): every feature line and
   every rule line of the terminal listing states a feature / a rule started in the stream — each exactly once, a rule
   under the line of ITS feature, in order — and the whole listing (headers, scenario headers, results, parser errors)
   is in the order of the stream *)
Theorem C14_basic_hdr_facts_exact es : normalized_prefix es = true ->
  line_hdr_facts None (basic_lines es) = stream_hdr_facts es.
Proof. intros H. exact (proj1 (C14_basic_hdr_ok_shape es (normalized_prefix_shape es H) (normalized_prefix_shape_fr es H))). Qed.
Theorem C14_basic_doc_in_stream_order es : normalized_prefix es = true ->
  doc_facts (basic_lines es) = stream_doc_facts es.
Proof.
  intros H. exact (proj1 (proj2 (C14_basic_hdr_ok_shape es (normalized_prefix_shape es H) (normalized_prefix_shape_fr es H)))).
Qed.
Theorem C14_basic_hdr_ok es : normalized_prefix es = true -> c14_basic_hdr_ok es (basic_lines es) = true.
Proof.
  intros H. exact (proj2 (proj2 (C14_basic_hdr_ok_shape es (normalized_prefix_shape es H) (normalized_prefix_shape_fr es H)))).
Qed.

(* facts, attribution, headers and order together *)
Theorem C14_basic_full_ok es : normalized_prefix es = true -> c14_basic_full_ok es (basic_lines es) = true.
Proof.
  intros H. unfold c14_basic_full_ok.
  rewrite (ReportersP4.C14_basic_ok es H), (C14_basic_attr_ok es H), (C14_basic_hdr_ok es H). reflexivity.
Qed.

(* ================================================================================================ *)
(* Part B: what the ORDERED clause alone implies                                                     *)
(* ================================================================================================ *)
(* Reading ANY lines `rfs` (not only the model's): if the document facts equal the stream's list then the header facts of
   the lines ARE the stream's header facts and the attributed line facts of ReportersSpec2 ARE the stream's, both as
   lists in order. (The two kinds of fact are told apart by their first number; POISON, which a header line and a result
   line share, does not occur in a stream.) *)
Definition is_hdr_fact (x : fact) : bool := match x with k :: _ => (k =? 50) || (k =? 51) | [] => false end.
Definition not_poison (x : fact) : bool := negb (fact_eqb x poison).

Lemma doc_split : forall rfs cf cur, forallb not_poison (doc_facts_go cf cur rfs) = true ->
  filter is_hdr_fact (doc_facts_go cf cur rfs) = line_hdr_facts cf rfs /\
  filter (fun x => negb (is_hdr_fact x)) (doc_facts_go cf cur rfs) = line_facts2 cf cur rfs.
Proof.
  induction rfs as [|x t IH]; intros cf cur NP; [split; reflexivity|].
  destruct x;
    try (cbn [doc_facts_go line_hdr_facts line_facts2 next_cf next_cur app] in *; exact (IH _ _ NP)).
  - (* RLFeature *)
    cbn [doc_facts_go line_hdr_facts line_facts2 next_cf next_cur app forallb] in *.
    apply andb_true_iff in NP as [_ NP]. destruct (IH _ _ NP) as [A B].
    cbn [filter is_hdr_fact N.eqb Pos.eqb orb negb]. rewrite A, B. split; reflexivity.
  - (* RLRule *)
    cbn [doc_facts_go line_hdr_facts line_facts2 next_cf next_cur app forallb] in *.
    apply andb_true_iff in NP as [P NP]. destruct (IH _ _ NP) as [A B].
    destruct cf as [f|]; [|discriminate P].
    cbn [filter is_hdr_fact N.eqb Pos.eqb orb negb]. rewrite A, B. split; reflexivity.
  - (* RLScenario *)
    cbn [doc_facts_go line_hdr_facts line_facts2 next_cf next_cur app forallb] in *.
    apply andb_true_iff in NP as [P NP]. destruct (IH _ _ NP) as [A B].
    destruct cf as [f|]; [|discriminate P].
    cbn [filter is_hdr_fact N.eqb Pos.eqb orb negb]. rewrite A, B. split; reflexivity.
  - (* RLStep *)
    cbn [doc_facts_go line_hdr_facts line_facts2 next_cf next_cur app forallb] in *.
    apply andb_true_iff in NP as [P NP]. destruct (IH _ _ NP) as [A B].
    destruct cf as [f|]; [|discriminate P]. destruct cur as [[s a]|]; [|discriminate P].
    cbn [filter is_hdr_fact N.eqb Pos.eqb orb negb]. rewrite A, B. split; reflexivity.
  - (* RLHookFailed *)
    cbn [doc_facts_go line_hdr_facts line_facts2 next_cf next_cur app forallb] in *.
    apply andb_true_iff in NP as [P NP]. destruct (IH _ _ NP) as [A B].
    destruct cf as [f|]; [|discriminate P]. destruct cur as [[s a]|]; [|discriminate P].
    destruct (sid =? s); [|discriminate P].
    cbn [filter is_hdr_fact N.eqb Pos.eqb orb negb]. rewrite A, B. split; reflexivity.
  - (* RLParseErr *)
    cbn [doc_facts_go line_hdr_facts line_facts2 next_cf next_cur app forallb] in *.
    apply andb_true_iff in NP as [_ NP]. destruct (IH _ _ NP) as [A B].
    cbn [filter is_hdr_fact N.eqb Pos.eqb orb negb]. rewrite A, B. split; reflexivity.
Qed.

Lemma sdf1_split e :
  forallb not_poison (sdf1 e) = true /\
  filter is_hdr_fact (sdf1 e) = shf1 e /\
  filter (fun x => negb (is_hdr_fact x)) (sdf1 e) = slf2 e.
Proof.
  destruct e as [|fe re se ste er|id| |f|f|f r|f r|f r s rt x]; try (repeat split; reflexivity).
  destruct x as [|b h|st y|st y|m|]; try (repeat split; reflexivity).
  - destruct h as [| |p]; repeat split; reflexivity.
  - destruct y as [| | |k]; repeat split; reflexivity.
  - destruct y as [| | |k]; repeat split; reflexivity.
Qed.
Lemma stream_doc_split : forall l,
  forallb not_poison (flat_map sdf1 l) = true /\
  filter is_hdr_fact (flat_map sdf1 l) = flat_map shf1 l /\
  filter (fun x => negb (is_hdr_fact x)) (flat_map sdf1 l) = flat_map slf2 l.
Proof.
  induction l as [|e t (I1 & I2 & I3)]; [repeat split; reflexivity|].
  destruct (sdf1_split e) as (E1 & E2 & E3). cbn [flat_map].
  rewrite forallb_app, !filter_app, E1, E2, E3, I1, I2, I3. repeat split; reflexivity.
Qed.

Theorem doc_order_implies es rfs : doc_order_ok es rfs = true ->
  line_hdr_facts None rfs = stream_hdr_facts es /\ line_facts2 None None rfs = stream_line_facts2 es.
Proof.
  intros H. apply doc_order_ok_iff in H. unfold doc_facts, stream_doc_facts in H.
  destruct (stream_doc_split (before_finished es)) as (S1 & S2 & S3).
  rewrite <- H in S1, S2, S3. destruct (doc_split rfs None None S1) as [A B].
  unfold stream_hdr_facts, stream_line_facts2. rewrite <- S2, <- S3, A, B. split; reflexivity.
Qed.

(* so for ANY lines: `c14_basic_hdr_ok` is its ordered clause, and it implies the first conjunct of
   `ReportersSpec2.c14_basic_attr_ok` as a LIST equality *)
Theorem c14_basic_hdr_ok_is_order es rfs : c14_basic_hdr_ok es rfs = doc_order_ok es rfs.
Proof.
  unfold c14_basic_hdr_ok. destruct (doc_order_ok es rfs) eqn:E; [|apply andb_false_r].
  destruct (doc_order_implies es rfs E) as [A _]. unfold hdr_multiset_ok. rewrite A, same_multiset_refl. reflexivity.
Qed.
Theorem c14_basic_hdr_ok_sound es rfs : c14_basic_hdr_ok es rfs = true ->
  doc_facts rfs = stream_doc_facts es /\
  line_hdr_facts None rfs = stream_hdr_facts es /\
  line_facts2 None None rfs = stream_line_facts2 es.
Proof.
  rewrite c14_basic_hdr_ok_is_order. intros H. split; [apply doc_order_ok_iff; exact H|exact (doc_order_implies es rfs H)].
Qed.

(* ================================================================================================ *)
(* Part C: END TO END — the writer sits behind Normalize, the facts are read from the RAW stream       *)
(* ================================================================================================ *)
Import ReportersP5.

Section EndToEnd8.
  Variable es : list mev.
  Hypothesis C : contract (raw_of es) = true.

  Theorem stream_hdr_facts_perm : Permutation (stream_hdr_facts (raw_of es)) (stream_hdr_facts (ns_of es)).
  Proof. unfold stream_hdr_facts. apply Permutation_flat_map. exact (before_finished_perm es C). Qed.
  Theorem stream_doc_facts_perm : Permutation (stream_doc_facts (raw_of es)) (stream_doc_facts (ns_of es)).
  Proof. unfold stream_doc_facts. apply Permutation_flat_map. exact (before_finished_perm es C). Qed.

  (* the header lines of the listing written behind Normalize state the features and rules started in the RAW stream:
     each exactly once, none invented, a rule under its own feature *)
  Theorem C14_basic_hdr_multiset_end_to_end : hdr_multiset_ok (raw_of es) (basic_lines (ns_of es)) = true.
  Proof.
    unfold hdr_multiset_ok. rewrite (same_multiset_perm_l _ _ _ stream_hdr_facts_perm).
    rewrite (C14_basic_hdr_facts_exact (ns_of es) (ns_normalized_prefix es C)). apply ReportersP4.same_multiset_refl.
  Qed.

  (* the ORDER is the order of the normalized stream (the raw stream is interleaved: see `ex5_order_not_raw`) *)
  Theorem C14_basic_doc_order_behind_normalize : doc_order_ok (ns_of es) (basic_lines (ns_of es)) = true.
  Proof. apply doc_order_ok_iff. exact (C14_basic_doc_in_stream_order (ns_of es) (ns_normalized_prefix es C)). Qed.

  (* against the raw stream the whole list of document facts is the right MULTISET *)
  Theorem C14_basic_doc_multiset_end_to_end :
    same_multiset (stream_doc_facts (raw_of es)) (doc_facts (basic_lines (ns_of es))) = true.
  Proof.
    rewrite (same_multiset_perm_l _ _ _ stream_doc_facts_perm).
    rewrite (C14_basic_doc_in_stream_order (ns_of es) (ns_normalized_prefix es C)). apply ReportersP4.same_multiset_refl.
  Qed.

  (* ... and WITHIN every attempt the order of the document is the order of the raw stream: the facts of the attempt's
     events, in the order the writer receives them (= document order, by the theorem above), are those of the raw
     stream in raw order *)
  Theorem C14_basic_attempt_order_end_to_end f r s rt :
    flat_map sdf1 (filter (NormalizeP7.same_att f r s rt) (ns_of es))
    = flat_map sdf1 (filter (NormalizeP7.same_att f r s rt) (raw_of es)).
  Proof. rewrite (attempt_projection_raw_ns es C f r s rt). reflexivity. Qed.

  Theorem C14_basic_hdr_end_to_end :
    hdr_multiset_ok (raw_of es) (basic_lines (ns_of es)) = true /\
    same_multiset (stream_doc_facts (raw_of es)) (doc_facts (basic_lines (ns_of es))) = true /\
    doc_order_ok (ns_of es) (basic_lines (ns_of es)) = true /\
    c14_basic_hdr_ok (ns_of es) (basic_lines (ns_of es)) = true.
  Proof.
    split; [exact C14_basic_hdr_multiset_end_to_end|]. split; [exact C14_basic_doc_multiset_end_to_end|].
    split; [exact C14_basic_doc_order_behind_normalize|]. exact (C14_basic_hdr_ok (ns_of es) (ns_normalized_prefix es C)).
  Qed.
End EndToEnd8.

(* ================================================================================================ *)
(* Part D: examples                                                                                  *)
(* ================================================================================================ *)
Definition old_both (es : list ev) (d : list rf) : bool := c14_basic_ok es d && c14_basic_attr_ok es d.

(* ---- the witnesses of the second review ---- *)
(* 1. an INVENTED rule line (stream `ex_w` has no rule 77) *)
Definition w1_invented_rule : list rf :=
  [RLFeature 1; RLRule 77; RLScenario 3 None; RLStep 1 false 1; RLFeature 2; RLScenario 4 None; RLStep 2 false 1].
(* 2. INVENTED / REPEATED feature lines, a rule line before any feature line *)
Definition w2_invented_features : list rf :=
  [RLRule 5; RLFeature 1; RLScenario 3 None; RLStep 1 false 1; RLFeature 99; RLRule 6; RLFeature 2; RLFeature 2;
   RLScenario 4 None; RLStep 2 false 1; RLFeature 98].
(* 3. a rule line under the WRONG feature: on `ex_w` (rule 10 is of no feature there) and, as in the review, on the rich
      stream `ex_stream` whose rule 10 belongs to feature 1 (a second "Rule: 10" under feature 2) *)
Definition w3_rule_wrong_feature_w : list rf :=
  [RLFeature 1; RLScenario 3 None; RLStep 1 false 1; RLFeature 2; RLRule 10; RLScenario 4 None; RLStep 2 false 1].
Definition w3_rule_wrong_feature : list rf :=
  [RLParseErr; RLFeature 1; RLRule 10; RLScenario 100 None; RLStep 2 false 1; RLScenario 100 (Some (1, 1));
   RLStep 1 true 5; RLStep 1 false 1; RLScenario 101 None; RLStep 1 false 2; RLHookFailed false 101;
   RLFeature 2; RLRule 10; RLScenario 200 None; RLStep 1 false 3].
(* the rule line MOVED to the wrong feature (printed once, under feature 2) *)
Definition w3_rule_moved : list rf :=
  [RLParseErr; RLFeature 1; RLScenario 100 None; RLStep 2 false 1; RLScenario 100 (Some (1, 1));
   RLStep 1 true 5; RLStep 1 false 1; RLScenario 101 None; RLStep 1 false 2; RLHookFailed false 101;
   RLFeature 2; RLRule 10; RLScenario 200 None; RLStep 1 false 3].
(* 4. everything SCRAMBLED: on `ex_w` feature 2 printed first; on `ex_stream`, as in the review, feature 2 first, attempt
      1 before attempt 0, the top-level scenario 101 between the attempts of rule 10, the parser error last *)
Definition w4_scrambled_w : list rf :=
  [RLFeature 2; RLScenario 4 None; RLStep 2 false 1; RLFeature 1; RLScenario 3 None; RLStep 1 false 1].
Definition w4_scrambled : list rf :=
  [RLFeature 2; RLScenario 200 None; RLStep 1 false 3;
   RLFeature 1; RLRule 10; RLScenario 100 (Some (1, 1)); RLStep 1 false 1; RLStep 1 true 5;
   RLScenario 101 None; RLHookFailed false 101; RLStep 1 false 2;
   RLScenario 100 None; RLStep 2 false 1; RLParseErr].

(* the old predicates (facts + attribution) ACCEPT all of them ... *)
Example witnesses_accepted_by_the_old_spec :
  old_both ex_w w1_invented_rule = true /\ old_both ex_w w2_invented_features = true /\
  old_both ex_w w3_rule_wrong_feature_w = true /\ old_both ex_stream w3_rule_wrong_feature = true /\
  old_both ex_w w4_scrambled_w = true /\ old_both ex_stream w4_scrambled = true.
Proof. vm_compute. repeat split; reflexivity. Qed.
(* ... the new one REJECTS them ... *)
Example w1_rejected : c14_basic_hdr_ok ex_w w1_invented_rule = false.
Proof. vm_compute. reflexivity. Qed.
Example w2_rejected : c14_basic_hdr_ok ex_w w2_invented_features = false.
Proof. vm_compute. reflexivity. Qed.
Example w3_rejected :
  c14_basic_hdr_ok ex_w w3_rule_wrong_feature_w = false /\ c14_basic_hdr_ok ex_stream w3_rule_wrong_feature = false /\
  c14_basic_hdr_ok ex_stream w3_rule_moved = false.
Proof. vm_compute. repeat split; reflexivity. Qed.
Example w4_rejected : c14_basic_hdr_ok ex_w w4_scrambled_w = false /\ c14_basic_hdr_ok ex_stream w4_scrambled = false.
Proof. vm_compute. split; reflexivity. Qed.
(* ... each clause on its own: the header MULTISET already rejects 1-3; the scrambled listings have the right headers
   (and the right multiset of facts), only the ORDER clause rejects them *)
Example witnesses_by_clause :
  hdr_multiset_ok ex_w w1_invented_rule = false /\ hdr_multiset_ok ex_w w2_invented_features = false /\
  hdr_multiset_ok ex_w w3_rule_wrong_feature_w = false /\ hdr_multiset_ok ex_stream w3_rule_wrong_feature = false /\
  hdr_multiset_ok ex_stream w3_rule_moved = false /\
  hdr_multiset_ok ex_w w4_scrambled_w = true /\ hdr_multiset_ok ex_stream w4_scrambled = true /\
  same_multiset (stream_doc_facts ex_stream) (doc_facts w4_scrambled) = true /\
  doc_order_ok ex_w w4_scrambled_w = false /\ doc_order_ok ex_stream w4_scrambled = false.
Proof. vm_compute. repeat split; reflexivity. Qed.
(* what the readers see in witness 2 and 3 *)
Example w2_hdr_facts :
  line_hdr_facts None w2_invented_features = [[99]; [50; 1]; [50; 99]; [51; 99; 6]; [50; 2]; [50; 2]; [50; 98]] /\
  stream_hdr_facts ex_w = [[50; 1]; [50; 2]].
Proof. vm_compute. split; reflexivity. Qed.
Example w3_hdr_facts :
  line_hdr_facts None w3_rule_wrong_feature = [[50; 1]; [51; 1; 10]; [50; 2]; [51; 2; 10]] /\
  stream_hdr_facts ex_stream = [[50; 1]; [51; 1; 10]; [50; 2]].
Proof. vm_compute. split; reflexivity. Qed.
(* smaller disorders: the rule line printed AFTER the first attempt of its rule; two result lines of one attempt swapped;
   the parser error after the first feature line *)
Example ex_rich_disorder_rejected :
  c14_basic_hdr_ok ex_stream
    [RLParseErr; RLFeature 1; RLScenario 100 None; RLStep 2 false 1; RLRule 10; RLScenario 100 (Some (1, 1));
     RLStep 1 true 5; RLStep 1 false 1; RLScenario 101 None; RLStep 1 false 2; RLHookFailed false 101;
     RLFeature 2; RLScenario 200 None; RLStep 1 false 3] = false /\
  c14_basic_hdr_ok ex_stream
    [RLParseErr; RLFeature 1; RLRule 10; RLScenario 100 None; RLStep 2 false 1; RLScenario 100 (Some (1, 1));
     RLStep 1 false 1; RLStep 1 true 5; RLScenario 101 None; RLStep 1 false 2; RLHookFailed false 101;
     RLFeature 2; RLScenario 200 None; RLStep 1 false 3] = false /\
  c14_basic_hdr_ok ex_stream
    [RLFeature 1; RLParseErr; RLRule 10; RLScenario 100 None; RLStep 2 false 1; RLScenario 100 (Some (1, 1));
     RLStep 1 true 5; RLStep 1 false 1; RLScenario 101 None; RLStep 1 false 2; RLHookFailed false 101;
     RLFeature 2; RLScenario 200 None; RLStep 1 false 3] = false.
Proof. vm_compute. repeat split; reflexivity. Qed.

(* ---- the model's own output is accepted: on `ex_w` and on the rich stream, by computation and by the theorem ---- *)
Example ex_w_model_accepted8 : c14_basic_hdr_ok ex_w (basic_lines ex_w) = true /\ c14_basic_full_ok ex_w (basic_lines ex_w) = true.
Proof. vm_compute. split; reflexivity. Qed.
Example ex_rich_model_accepted8 :
  c14_basic_hdr_ok ex_stream (basic_lines ex_stream) = true /\ c14_basic_full_ok ex_stream (basic_lines ex_stream) = true.
Proof. vm_compute. split; reflexivity. Qed.
Example ex_rich_by_theorem8 : c14_basic_hdr_ok ex_stream (basic_lines ex_stream) = true.
Proof. exact (C14_basic_hdr_ok ex_stream ex_normalized_prefix). Qed.
Example ex_rich_doc_facts : doc_facts (basic_lines ex_stream) =
  [[3]; [50; 1]; [51; 1; 10]; [21; 1; 100; 0]; [1; 1; 100; 0; 1; 0; 2]; [21; 1; 100; 1]; [1; 1; 100; 1; 5; 1; 1];
   [1; 1; 100; 1; 1; 0; 1]; [21; 1; 101; 0]; [1; 1; 101; 0; 2; 0; 1]; [2; 1; 101; 0; 0; 0; 2];
   [50; 2]; [21; 2; 200; 0]; [1; 2; 200; 0; 3; 0; 1]].
Proof. vm_compute. reflexivity. Qed.

(* ---- end to end on the interleaved raw stream of ReportersP5: by the theorem and by computation; the ORDERED clause
   does NOT hold against the raw stream (it is interleaved), which is why it is stated against `ns_of` ---- *)
Example ex5_hdr_by_theorem :
  hdr_multiset_ok (raw_of ex5) (basic_lines (ns_of ex5)) = true /\
  same_multiset (stream_doc_facts (raw_of ex5)) (doc_facts (basic_lines (ns_of ex5))) = true /\
  doc_order_ok (ns_of ex5) (basic_lines (ns_of ex5)) = true /\
  c14_basic_hdr_ok (ns_of ex5) (basic_lines (ns_of ex5)) = true.
Proof. destruct ex5_hypotheses as (C & _). exact (C14_basic_hdr_end_to_end ex5 C). Qed.
Example ex5_hdr_by_computation :
  hdr_multiset_ok (raw_of ex5) (basic_lines (ns_of ex5)) = true /\
  same_multiset (stream_doc_facts (raw_of ex5)) (doc_facts (basic_lines (ns_of ex5))) = true /\
  doc_order_ok (ns_of ex5) (basic_lines (ns_of ex5)) = true.
Proof. vm_compute. repeat split; reflexivity. Qed.
Example ex5_order_not_raw :
  contract (raw_of ex5) = true /\ doc_order_ok (raw_of ex5) (basic_lines (ns_of ex5)) = false /\
  c14_basic_hdr_ok (raw_of ex5) (basic_lines (ns_of ex5)) = false.
Proof. vm_compute. repeat split; reflexivity. Qed.

Print Assumptions basic_hdr_facts.
Print Assumptions basic_doc_facts.
Print Assumptions C14_basic_hdr_facts_exact.
Print Assumptions C14_basic_doc_in_stream_order.
Print Assumptions C14_basic_hdr_ok.
Print Assumptions C14_basic_full_ok.
Print Assumptions doc_order_implies.
Print Assumptions c14_basic_hdr_ok_is_order.
Print Assumptions c14_basic_hdr_ok_sound.
Print Assumptions C14_basic_hdr_multiset_end_to_end.
Print Assumptions C14_basic_doc_order_behind_normalize.
Print Assumptions C14_basic_doc_multiset_end_to_end.
Print Assumptions C14_basic_attempt_order_end_to_end.
Print Assumptions C14_basic_hdr_end_to_end.
