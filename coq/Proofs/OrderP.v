(* OrderP.v — total orders on the model's keys; insertion sort is invariant
   under permutation for an antisymmetric total order. *)
From CV Require Import Model.Base Model.StepMatch Proofs.BaseP.
From Coq Require Import Lia Permutation.

Record total_order {A} (le : A -> A -> bool) : Prop := {
  to_total : forall x y, le x y = true \/ le y x = true;
  to_antisym : forall x y, le x y = true -> le y x = true -> x = y;
  to_trans : forall x y z, le x y = true -> le y z = true -> le x z = true;
}.

Lemma to_refl {A} (le : A -> A -> bool) : total_order le -> forall x, le x x = true.
Proof. intros H x. destruct (to_total _ H x x); auto. Qed.

Lemma N_leb_order : total_order N.leb.
Proof.
  split; intros; rewrite ?N.leb_le in *; lia.
Qed.

Lemma str_leb_order : total_order str_leb.
Proof.
  split.
  - induction x as [|a x IH]; intros [|b y]; cbn; auto.
    destruct (N.ltb_spec a b), (N.ltb_spec b a); auto; try lia.
  - induction x as [|a x IH]; intros [|b y]; cbn; auto; try discriminate.
    destruct (N.ltb_spec a b), (N.ltb_spec b a); try discriminate; try lia.
    intros H1 H2. assert (a = b) by lia. subst. f_equal. auto.
  - induction x as [|a x IH]; intros [|b y] [|c z]; cbn; auto; try discriminate.
    destruct (N.ltb_spec a b), (N.ltb_spec b a), (N.ltb_spec b c), (N.ltb_spec c b),
      (N.ltb_spec a c), (N.ltb_spec c a); try discriminate; try lia; auto.
    apply IH.
Qed.

Lemma lex_order {A B} (eqa lea : A -> A -> bool) (leb : B -> B -> bool) :
  (forall x y, eqa x y = true <-> x = y) ->
  total_order lea -> total_order leb -> total_order (lex_leb eqa lea leb).
Proof.
  intros He Ha Hb. split; unfold lex_leb.
  - intros [a b] [a' b']; cbn.
    destruct (eqa a a') eqn:E1, (eqa a' a) eqn:E2.
    + apply (to_total _ Hb).
    + apply He in E1. subst. assert (eqa a' a' = true) by (apply He; auto). congruence.
    + apply He in E2. subst. assert (eqa a a = true) by (apply He; auto). congruence.
    + apply (to_total _ Ha).
  - intros [a b] [a' b']; cbn.
    destruct (eqa a a') eqn:E1, (eqa a' a) eqn:E2.
    + apply He in E1. subst. intros. f_equal. apply (to_antisym _ Hb); auto.
    + apply He in E1. subst. assert (eqa a' a' = true) by (apply He; auto). congruence.
    + apply He in E2. subst. assert (eqa a a = true) by (apply He; auto). congruence.
    + intros H1 H2. pose proof (to_antisym _ Ha _ _ H1 H2). subst.
      assert (eqa a' a' = true) by (apply He; auto). congruence.
  - assert (forall x, eqa x x = true) as Er by (intros; apply He; auto).
    intros [a b] [a' b'] [a'' b'']; cbn.
    destruct (eqa a a') eqn:E1, (eqa a' a'') eqn:E2, (eqa a a'') eqn:E3;
      try apply He in E1; try apply He in E2; try apply He in E3; subst;
      rewrite ?Er in *; try discriminate; auto;
      try solve [apply (to_trans _ Hb)]; try solve [apply (to_trans _ Ha)];
      try solve [intros H1 H2; pose proof (to_antisym _ Ha _ _ H1 H2); subst;
                 rewrite ?Er in *; discriminate].
Qed.

Lemma opt_order {A} (le : A -> A -> bool) : total_order le -> total_order (opt_leb le).
Proof.
  intros H. split.
  - intros [x|] [y|]; cbn; auto. apply (to_total _ H).
  - intros [x|] [y|]; cbn; auto; try discriminate. intros. f_equal. apply (to_antisym _ H); auto.
  - intros [x|] [y|] [z|]; cbn; auto; try discriminate. apply (to_trans _ H).
Qed.

Lemma N_pair_order : total_order (lex_leb N.eqb N.leb N.leb).
Proof. apply lex_order; [apply N.eqb_eq | apply N_leb_order | apply N_leb_order]. Qed.

Lemma loc_tuple_inj a b : loc_tuple a = loc_tuple b -> a = b.
Proof. destruct a, b; unfold loc_tuple; cbn. intros H; inversion H; auto. Qed.

Lemma loc_leb_order : total_order loc_leb.
Proof.
  pose proof (lex_order str_eqb str_leb _ str_eqb_eq str_leb_order N_pair_order) as H.
  unfold loc_leb. split.
  - intros x y. apply (to_total _ H).
  - intros x y H1 H2. apply loc_tuple_inj. apply (to_antisym _ H); auto.
  - intros x y z. apply (to_trans _ H).
Qed.

Lemma key_leb_order : total_order key_leb.
Proof.
  apply lex_order; [apply str_eqb_eq | apply str_leb_order | apply opt_order, loc_leb_order].
Qed.

(* ---- generic insertion sort ---- *)
Section Sort.
  Context {A : Type} (le : A -> A -> bool) (Hle : total_order le).

  Fixpoint ins (x : A) (l : list A) : list A :=
    match l with
    | [] => [x]
    | y :: l' => if le x y then x :: l else y :: ins x l'
    end.
  Definition isort (l : list A) : list A := fold_right ins [] l.

  Inductive sorted : list A -> Prop :=
  | sorted_nil : sorted []
  | sorted_cons x l : (forall y, In y l -> le x y = true) -> sorted l -> sorted (x :: l).

  Lemma ins_perm x l : Permutation (x :: l) (ins x l).
  Proof.
    induction l as [|y l IH]; cbn; auto. destruct (le x y); auto.
    eapply perm_trans; [apply perm_swap|]. constructor; auto.
  Qed.

  Lemma ins_in x l y : In y (ins x l) <-> y = x \/ In y l.
  Proof.
    split; intros H.
    - apply Permutation_in with (l' := x :: l) in H; [|apply Permutation_sym, ins_perm].
      destruct H; auto.
    - apply Permutation_in with (l := x :: l); [apply ins_perm|]. destruct H; [left|right]; auto.
  Qed.

  Lemma ins_sorted x l : sorted l -> sorted (ins x l).
  Proof.
    induction 1 as [|y l Hy Hs IH]; cbn.
    - constructor; [intros ? []|constructor].
    - destruct (le x y) eqn:E.
      + constructor; [|constructor; auto].
        intros z [<-|Hz]; auto. apply (to_trans _ Hle _ y); auto.
      + constructor; auto. intros z Hz. apply ins_in in Hz as [->|Hz]; auto.
        destruct (to_total _ Hle x y); congruence.
  Qed.

  Lemma isort_sorted l : sorted (isort l).
  Proof. induction l; cbn; [constructor | apply ins_sorted; auto]. Qed.

  Lemma isort_perm l : Permutation l (isort l).
  Proof.
    induction l as [|x l IH]; cbn; auto.
    eapply perm_trans; [|apply ins_perm]. constructor; auto.
  Qed.

  (* two sorted permutations of each other are equal *)
  Lemma sorted_perm_eq l1 : forall l2, sorted l1 -> sorted l2 -> Permutation l1 l2 -> l1 = l2.
  Proof.
    induction l1 as [|x l1 IH]; intros l2 S1 S2 P.
    - apply Permutation_nil in P. auto.
    - destruct l2 as [|y l2]; [apply Permutation_sym, Permutation_nil in P; discriminate|].
      inversion S1 as [|? ? Hx S1']; inversion S2 as [|? ? Hy S2']; subst.
      assert (x = y) as ->.
      { assert (In x (y :: l2)) as Ix by (eapply Permutation_in; [exact P|left; auto]).
        assert (In y (x :: l1)) as Iy by (eapply Permutation_in; [apply Permutation_sym; exact P|left; auto]).
        destruct Ix as [->|Ix]; auto. destruct Iy as [->|Iy]; auto.
        apply (to_antisym _ Hle); auto. }
      f_equal. apply IH; auto. eapply Permutation_cons_inv; eauto.
  Qed.

  Theorem isort_perm_invariant l1 l2 : Permutation l1 l2 -> isort l1 = isort l2.
  Proof.
    intros P. apply sorted_perm_eq; try apply isort_sorted.
    eapply perm_trans; [apply Permutation_sym, isort_perm|].
    eapply perm_trans; [exact P|apply isort_perm].
  Qed.
End Sort.

Lemma sort_keys_is_isort l : sort_keys l = isort key_leb l.
Proof. reflexivity. Qed.
