(* NormalizeP4c.v — C11 "sequential", part 3: the items of one feature (rules and top-level attempts). *)
From CV Require Import Proofs.SchedP5.
From CV Require Import Model.Base Model.Events Model.Contract Model.Normalize
  Proofs.BaseP Proofs.NormalizeP Proofs.NormalizeP2 Proofs.NormalizeP3 Proofs.NormalizeP4 Proofs.NormalizeP4b.
From Coq Require Import Lia Permutation.

Record items_static (c : cstate) (f : N) (l : list (ikey * item)) : Prop := mk_items_static {
  is_nodup : NoDup (keys l);
  is_wf : items_wf l = true;
  is_shape : forall k es, In (KScen k, IScen es) l -> att_shape es = true;
  is_rule : forall r rq, In (KRule r, IRule rq) l -> atts_static c f (Some r) (rq_atts rq);
  is_tail : forall ki, In ki (tl l) -> pr_item ki;
  is_freshR : forall r rq, In (KRule r, IRule rq) l -> rq_init rq <> None ->
              lookup rkey_eqb (f, r) (c_rules c) = None /\ pr_atts (rq_atts rq);
  is_headR : forall r rq, In (KRule r, IRule rq) l -> rq_init rq = None -> lookup rkey_eqb (f, r) (c_rules c) = Some Open;
  is_freshA : forall k es, In (KScen k, IScen es) l -> starts_started es = true ->
              lookup atkey_eqb (att_key f None k) (c_atts c) = None;
  is_headA : forall k es, In (KScen k, IScen es) l -> starts_started es = false ->
             lookup atkey_eqb (att_key f None k) (c_atts c) = Some Open;
  is_prev : forall k es, In (KScen k, IScen es) l -> prev_ok c f None KScen (keys l) k }.

(* witnesses for what may be open in the automaton *)
Definition witA (f : N) (its : list (ikey * item)) (k' : atkey) : Prop :=
  (exists k es, In (KScen k, IScen es) its /\ k' = att_key f None k /\ starts_started es = false) \/
  (exists r rq k es, In (KRule r, IRule rq) its /\ In (k, es) (rq_atts rq) /\ k' = att_key f (Some r) k /\ starts_started es = false).
Definition witR (f : N) (its : list (ikey * item)) (k' : rkey) : Prop :=
  exists r rq, In (KRule r, IRule rq) its /\ k' = (f, r) /\ rq_init rq = None.
Definition items_open (c : cstate) (f : N) (l : list (ikey * item)) : Prop :=
  (forall k', lookup atkey_eqb k' (c_atts c) = Some Open -> witA f l k') /\
  (forall k', lookup rkey_eqb k' (c_rules c) = Some Open -> witR f l k').

Lemma pr_atts_not k es l : pr_atts l -> In (k, es) l -> starts_started es = false -> False.
Proof. intros P H S. rewrite (P k es H) in S. discriminate. Qed.

Lemma witA_head_rule f r rq t k' : pr_items t -> witA f ((KRule r, IRule rq) :: t) k' ->
  exists k es, In (k, es) (rq_atts rq) /\ k' = att_key f (Some r) k /\ starts_started es = false.
Proof.
  intros PT [(k & es & [H|H] & E & SS)|(r2 & rq2 & k & es & [H|H] & Hes & E & SS)].
  - discriminate H.
  - exfalso. specialize (PT _ H). cbn in PT. congruence.
  - inversion H; subst. exists k, es. auto.
  - exfalso. specialize (PT _ H). cbn in PT. destruct PT as [_ PT]. exact (pr_atts_not _ _ _ PT Hes SS).
Qed.
Lemma witA_head_scen f k es t k' : pr_items t -> witA f ((KScen k, IScen es) :: t) k' ->
  k' = att_key f None k /\ starts_started es = false.
Proof.
  intros PT [(k2 & es2 & [H|H] & E & SS)|(r2 & rq2 & k2 & es2 & [H|H] & Hes & E & SS)].
  - inversion H; subst. auto.
  - exfalso. specialize (PT _ H). cbn in PT. congruence.
  - discriminate H.
  - exfalso. specialize (PT _ H). cbn in PT. destruct PT as [_ PT]. exact (pr_atts_not _ _ _ PT Hes SS).
Qed.
Lemma witR_head_rule f r rq t k' : pr_items t -> witR f ((KRule r, IRule rq) :: t) k' -> k' = (f, r) /\ rq_init rq = None.
Proof.
  intros PT (r2 & rq2 & [H|H] & E & IN).
  - inversion H; subst. auto.
  - exfalso. specialize (PT _ H). cbn in PT. destruct PT as [PT _]. exact (PT IN).
Qed.
Lemma witR_head_scen f k es t k' : pr_items t -> witR f ((KScen k, IScen es) :: t) k' -> False.
Proof.
  intros PT (r2 & rq2 & [H|H] & E & IN); [discriminate H|].
  specialize (PT _ H). cbn in PT. destruct PT as [PT _]. exact (PT IN).
Qed.

Lemma open_rules_all_false c f : nodupk (c_rules c) ->
  (forall k, lookup rkey_eqb k (c_rules c) <> Some Open) -> open_rules_of f c = false.
Proof.
  intros ND H. unfold open_rules_of. destruct (existsb _ _) eqn:E; [|reflexivity]. exfalso.
  apply existsb_exists in E as ([k st] & Hin & Hp). cbn [fst snd] in Hp. apply andb_prop in Hp as [_ Hp].
  destruct st; [|discriminate]. apply (H k). apply (nodupk_lookup rkey_eqb rkey_eqb_spec); assumption.
Qed.

Lemma same_but_atts_rules_refl c : same_but_atts_rules c c.
Proof. repeat split. Qed.
Lemma same_but_atts_rules_trans a b c : same_but_atts_rules a b -> same_but_atts_rules b c -> same_but_atts_rules a c.
Proof. intros (A1 & A2 & A3 & A4) (B1 & B2 & B3 & B4). repeat split; congruence. Qed.
Lemma same_but_atts_weaken a b : same_but_atts a b -> same_but_atts_rules a b.
Proof. intros (A1 & A2 & A3 & A4 & A5). repeat split; assumption. Qed.

Lemma prev_key_shape f ro k pk : prev_key f ro k = Some pk -> att_feat pk = f /\ att_rule pk = ro.
Proof.
  unfold prev_key. destruct (snd k) as [[cur lft]|]; [|discriminate]. destruct (cur =? 0); [discriminate|].
  intros X. inversion X. auto.
Qed.

Lemma items_wf_cons x t : items_wf (x :: t) = true -> item_wf x = true /\ items_wf t = true.
Proof. unfold items_wf. cbn [forallb]. intros H. apply andb_prop in H. exact H. Qed.

(* the invariant for the tail once the head item has been emitted completely *)
Lemma items_static_drop_head c c' f x t :
  items_static c f (x :: t) ->
  (forall r rq, In (KRule r, IRule rq) t -> lookup rkey_eqb (f, r) (c_rules c') = lookup rkey_eqb (f, r) (c_rules c)) ->
  (forall r rq k, In (KRule r, IRule rq) t -> att_feat k = f -> att_rule k = Some r ->
                  lookup atkey_eqb k (c_atts c') = lookup atkey_eqb k (c_atts c)) ->
  (forall k es, In (KScen k, IScen es) t -> lookup atkey_eqb (att_key f None k) (c_atts c') = lookup atkey_eqb (att_key f None k) (c_atts c)) ->
  (forall k, lookup atkey_eqb k (c_atts c) = Some Closed -> lookup atkey_eqb k (c_atts c') = Some Closed) ->
  (forall k0, fst x = KScen k0 -> lookup atkey_eqb (att_key f None k0) (c_atts c') = Some Closed) ->
  items_static c' f t.
Proof.
  intros [ND WF SH RU TL FR HR FA HA PV] AR AA AS CP CH.
  inversion ND as [|? ? NI ND']; subst. cbn [tl] in TL.
  constructor.
  - exact ND'.
  - exact (proj2 (items_wf_cons _ _ WF)).
  - intros k es H. apply (SH k es). right. exact H.
  - intros r rq H. apply (atts_static_agree c c' f (Some r)); [|apply RU; right; exact H].
    intros k E1 E2. exact (AA r rq k H E1 E2).
  - intros ki H. apply TL. exact (in_tl _ _ H).
  - intros r rq H NI2. rewrite (AR r rq H). apply (FR r rq); [right; exact H|exact NI2].
  - intros r rq H IN. exfalso. specialize (TL _ H). cbn in TL. destruct TL as [X _]. exact (X IN).
  - intros k es H SS. rewrite (AS k es H). apply (FA k es); [right; exact H|exact SS].
  - intros k es H SS. exfalso. specialize (TL _ H). cbn in TL. congruence.
  - intros k es H. specialize (PV k es (or_intror H)). unfold prev_ok in *.
    destruct (prev_key f None k) as [pk|] eqn:PK; [|exact I]. destruct PV as [X|(k0 & KE & KB)]; [left; exact (CP _ X)|].
    change (keys (x :: t)) with (fst x :: keys t) in KB. apply kbefore_cons_inv in KB as [[E _]|KB].
    + left. rewrite <- KE. apply CH. symmetry. exact E.
    + right. exists k0. auto.
Qed.

Lemma rkey_dec (a b : rkey) : {a = b} + {a <> b}.
Proof. destruct (rkey_eqb a b) eqn:E; [left; apply rkey_eqb_spec; exact E|right; intros ->; rewrite (proj2 (rkey_eqb_spec _ _) eq_refl) in E; discriminate]. Qed.
Lemma atkey_dec (a b : atkey) : {a = b} + {a <> b}.
Proof. destruct (atkey_eqb a b) eqn:E; [left; apply atkey_eqb_spec; exact E|right; intros ->; rewrite (proj2 (atkey_eqb_spec _ _) eq_refl) in E; discriminate]. Qed.

(* level D: the emission loop over the items of a feature *)
Lemma seq_items f : forall l c,
  items_static c f l -> items_open c f l -> WFc c -> c_finished c = false ->
  lookup N.eqb f (c_feats c) = Some Open ->
  exists c', crun true c (map snd (fst (emit_items f l))) = Some c' /\ same_but_atts_rules c c' /\ WFc c' /\
    items_static c' f (snd (emit_items f l)) /\ items_open c' f (snd (emit_items f l)) /\
    (forall k, fst k <> f -> lookup rkey_eqb k (c_rules c') = lookup rkey_eqb k (c_rules c)) /\
    (forall k, att_feat k <> f -> lookup atkey_eqb k (c_atts c') = lookup atkey_eqb k (c_atts c)).
Proof.
  induction l as [|[key it] t IH]; intros c ST OP W CF FO.
  - exists c. cbn [emit_items fst snd map crun]. split; [reflexivity|]. split; [apply same_but_atts_rules_refl|].
    split; [exact W|]. split; [exact ST|]. split; [exact OP|]. split; intros; reflexivity.
  - pose proof ST as [ND WF SH RU TL FR HR FA HA PV]. cbn [tl] in TL.
    assert (PT : pr_items t) by exact TL.
    destruct (items_wf_cons _ _ WF) as [WF1 WF2].
    inversion ND as [|? ? NI ND']; subst.
    destruct OP as [OA OR].
    destruct key as [r|k]; destruct it as [rq|es]; cbn [item_wf] in WF1; try discriminate WF1.
    + (* ---- a rule ---- *)
      assert (AO : atts_open c f (Some r) (rq_atts rq)).
      { intros k' L. exact (witA_head_rule f r rq t k' PT (OA k' L)). }
      pose proof (atts_inv_of_static _ _ _ _ (RU r rq (or_introl eq_refl)) AO) as INV.
      assert (INIT : match rq_init rq with
                     | Some _ => lookup rkey_eqb (f, r) (c_rules c) = None /\ open_rules_of f c = false /\
                                 (forall k', lookup atkey_eqb k' (c_atts c) <> Some Open)
                     | None => lookup rkey_eqb (f, r) (c_rules c) = Some Open end).
      { destruct (rq_init rq) as [m0|] eqn:RI.
        - destruct (FR r rq (or_introl eq_refl)) as [AB PA]; [rewrite RI; discriminate|].
          split; [exact AB|]. split.
          + apply open_rules_all_false; [exact (proj1 (proj2 W))|]. intros k' L.
            destruct (witR_head_rule f r rq t k' PT (OR k' L)) as [_ X]. congruence.
          + intros k' L. destruct (AO k' L) as (k & es & H & _ & SS). exact (pr_atts_not _ _ _ PA H SS).
        - apply (HR r rq); [left; reflexivity|exact RI]. }
      destruct (seq_rule f r rq c CF W FO WF1 INV INIT) as (c1 & R1 & SB1 & W1 & LR1 & LA1 & RES).
      pose proof (emit_rule_wf f r rq WF1) as ERW.
      cbn [emit_items]. destruct (emit_rule f r rq) as [[o rq'] b] eqn:ER. cbn [fst snd] in *.
      assert (LA : forall k', (att_feat k' <> f \/ att_rule k' <> Some r) ->
                              lookup atkey_eqb k' (c_atts c1) = lookup atkey_eqb k' (c_atts c)).
      { intros k' H. apply LA1. intros k0 _ ->. unfold att_key in H. cbn in H. destruct H as [H|H]; apply H; reflexivity. }
      assert (NR : forall r2 rq2, In (KRule r2, IRule rq2) t -> r2 <> r).
      { intros r2 rq2 H ->. apply NI. exact (in_keys _ _ _ H). }
      destruct SB1 as (E1f & E1fin & E1s & E1p).
      assert (CF1 : c_finished c1 = false) by congruence.
      assert (FO1 : lookup N.eqb f (c_feats c1) = Some Open) by (rewrite E1f; exact FO).
      destruct b.
      * (* the rule is finished: it has been emitted completely, go on with the next item *)
        destruct RES as (RC & NOA & _).
        assert (ST1 : items_static c1 f t).
        { apply (items_static_drop_head c c1 f (KRule r, IRule rq) t ST).
          - intros r2 rq2 H. apply LR1. intros X. inversion X. exact (NR r2 rq2 H (eq_sym (eq_sym H1))).
          - intros r2 rq2 k0 H _ E2. apply LA. right. rewrite E2. intros X. inversion X. exact (NR r2 rq2 H H1).
          - intros k0 es0 _. apply LA. right. cbn. discriminate.
          - intros k0 X. exact (crun_closed_att _ _ _ _ _ R1 X).
          - intros k0 X. discriminate X. }
        assert (OP1 : items_open c1 f t).
        { split; intros k' L; exfalso.
          - exact (NOA k' L).
          - destruct (rkey_dec k' (f, r)) as [->|NE]; [congruence|]. rewrite (LR1 k' NE) in L.
            destruct (witR_head_rule f r rq t k' PT (OR k' L)) as [X _]. exact (NE X). }
        destruct (IH c1 ST1 OP1 W1 CF1 FO1) as (c' & R' & SB' & W' & ST' & OP' & LR' & LA').
        destruct (emit_items f t) as [o2 l2]. cbn [fst snd] in *.
        exists c'. split; [rewrite map_app; eapply crun_app_intro; [exact R1|exact R']|].
        split; [apply (same_but_atts_rules_trans c c1 c'); [repeat split; assumption|exact SB']|].
        split; [exact W'|]. split; [exact ST'|]. split; [exact OP'|]. split.
        -- intros k0 NE. rewrite (LR' k0 NE). apply LR1. intros ->. apply NE. reflexivity.
        -- intros k0 NE. rewrite (LA' k0 NE). apply LA. left. exact NE.
      * (* the rule stays at the head *)
        cbn [fst snd]. destruct RES as (RO & INV' & RI' & RS').
        destruct ERW as (_ & _ & RW' & _).
        destruct (atts_static_of_inv _ _ _ _ INV') as [AS' AO'].
        exists c1. split; [exact R1|]. split; [repeat split; assumption|]. split; [exact W1|]. split; [|split; [|split]].
        -- constructor.
           ++ exact ND.
           ++ unfold items_wf in *. cbn [forallb item_wf]. rewrite RW'. exact WF2.
           ++ intros k0 es0 [H|H]; [discriminate H|apply (SH k0 es0); right; exact H].
           ++ intros r2 rq2 [H|H]; [inversion H; subst; exact AS'|].
              apply (atts_static_agree c c1 f (Some r2)); [|apply RU; right; exact H].
              intros k0 _ E2. apply LA. right. rewrite E2. intros X. inversion X. exact (NR r2 rq2 H H1).
           ++ exact TL.
           ++ intros r2 rq2 [H|H] NI2; [inversion H; subst; contradiction|].
              rewrite LR1 by (intros X; inversion X; exact (NR r2 rq2 H H1)). apply (FR r2 rq2); [right; exact H|exact NI2].
           ++ intros r2 rq2 [H|H] IN; [inversion H; subst; exact RO|].
              exfalso. specialize (PT _ H). cbn in PT. destruct PT as [X _]. exact (X IN).
           ++ intros k0 es0 [H|H] SS; [discriminate H|]. rewrite LA by (right; cbn; discriminate).
              apply (FA k0 es0); [right; exact H|exact SS].
           ++ intros k0 es0 [H|H] SS; [discriminate H|]. exfalso. specialize (PT _ H). cbn in PT. congruence.
           ++ intros k0 es0 [H|H]; [discriminate H|]. specialize (PV k0 es0 (or_intror H)). unfold prev_ok in *.
              change (keys ((KRule r, IRule rq') :: t)) with (keys ((KRule r, IRule rq) :: t)).
              destruct (prev_key f None k0); [|exact I]. destruct PV as [X|X]; [left; exact (crun_closed_att _ _ _ _ _ R1 X)|right; exact X].
        -- split.
           ++ intros k' L. right. destruct (AO' k' L) as (k0 & es0 & Hin & E & SS). exists r, rq', k0, es0.
              split; [left; reflexivity|auto].
           ++ intros k' L. destruct (rkey_dec k' (f, r)) as [->|NE]; [exists r, rq'; split; [left; reflexivity|auto]|].
              rewrite (LR1 k' NE) in L. destruct (witR_head_rule f r rq t k' PT (OR k' L)) as [X _]. contradiction.
        -- intros k0 NE. apply LR1. intros ->. apply NE. reflexivity.
        -- intros k0 NE. apply LA. left. exact NE.
    + (* ---- a top-level attempt ---- *)
      assert (NOR : forall k', lookup rkey_eqb k' (c_rules c) <> Some Open).
      { intros k' L. exact (witR_head_scen f k es t k' PT (OR k' L)). }
      assert (PS : parents_seq c f None).
      { split; [exact FO|]. apply open_rules_all_false; [exact (proj1 (proj2 W))|exact NOR]. }
      pose proof (SH k es (or_introl eq_refl)) as SHk.
      assert (PRE1 : starts_started es = true ->
                     lookup atkey_eqb (att_key f None k) (c_atts c) = None /\ open_atts_where (fun _ => true) c = false /\
                     prev_attempt_closed c f None (fst k) (snd k) = true).
      { intros SS. split; [exact (FA k es (or_introl eq_refl) SS)|]. split.
        - apply open_atts_all_false; [exact (proj2 (proj2 W))|]. intros k' L.
          destruct (witA_head_scen f k es t k' PT (OA k' L)) as [_ X]. congruence.
        - apply prev_closed_of_key. pose proof (PV k es (or_introl eq_refl)) as P. unfold prev_ok in P.
          destruct (prev_key f None k); [|exact I]. destruct P as [X|(k0 & _ & KB)]; [exact X|]. exfalso.
          exact (kbefore_nodup_head (KScen k) (keys t) (KScen k0) ND KB). }
      assert (PRE2 : starts_started es = false -> es = [] \/ lookup atkey_eqb (att_key f None k) (c_atts c) = Some Open).
      { intros SS. right. exact (HA k es (or_introl eq_refl) SS). }
      destruct (seq_att f None k es c CF PS SHk PRE1 PRE2) as (c1 & R1 & SB1 & LO1 & LK1 & LE1).
      cbn [emit_items]. rewrite (emit_att_wf f None k es (att_shape_fin_last _ SHk)).
      pose proof (crun_WFc _ _ _ _ R1 W) as W1.
      pose proof SB1 as (E1f & E1r & E1fin & E1s & E1p).
      assert (CF1 : c_finished c1 = false) by congruence.
      assert (FO1 : lookup N.eqb f (c_feats c1) = Some Open) by (rewrite E1f; exact FO).
      assert (NK : forall k2 es2, In (KScen k2, IScen es2) t -> att_key f None k2 <> att_key f None k).
      { intros k2 es2 H X. apply att_key_inj in X. subst k2. apply NI. exact (in_keys _ _ _ H). }
      assert (LOR : forall k0, att_rule k0 <> None -> lookup atkey_eqb k0 (c_atts c1) = lookup atkey_eqb k0 (c_atts c)).
      { intros k0 H. apply LO1. intros ->. apply H. reflexivity. }
      destruct (has_fin es) eqn:HF.
      * pose proof (LK1 (has_fin_nonempty _ HF)) as CL. cbn iota in CL.
        assert (ST1 : items_static c1 f t).
        { apply (items_static_drop_head c c1 f (KScen k, IScen es) t ST).
          - intros r2 rq2 _. rewrite E1r. reflexivity.
          - intros r2 rq2 k0 _ _ E2. apply LOR. rewrite E2. discriminate.
          - intros k2 es2 H. apply LO1. exact (NK k2 es2 H).
          - intros k0 X. exact (crun_closed_att _ _ _ _ _ R1 X).
          - intros k0 X. cbn in X. inversion X. subst k0. exact CL. }
        assert (OP1 : items_open c1 f t).
        { split; intros k' L; exfalso.
          - destruct (atkey_dec k' (att_key f None k)) as [->|NE]; [congruence|]. rewrite (LO1 k' NE) in L.
            destruct (witA_head_scen f k es t k' PT (OA k' L)) as [X _]. exact (NE X).
          - rewrite E1r in L. exact (NOR k' L). }
        destruct (IH c1 ST1 OP1 W1 CF1 FO1) as (c' & R' & SB' & W' & ST' & OP' & LR' & LA').
        destruct (emit_items f t) as [o2 l2]. cbn [fst snd] in *.
        exists c'. split; [rewrite map_app; eapply crun_app_intro; [exact R1|exact R']|].
        split; [apply (same_but_atts_rules_trans c c1 c'); [apply same_but_atts_weaken; exact SB1|exact SB']|].
        split; [exact W'|]. split; [exact ST'|]. split; [exact OP'|]. split.
        -- intros k0 NE. rewrite (LR' k0 NE). rewrite E1r. reflexivity.
        -- intros k0 NE. rewrite (LA' k0 NE). apply LO1. intros ->. apply NE. reflexivity.
      * cbn [fst snd].
        assert (KOPEN : lookup atkey_eqb (att_key f None k) (c_atts c1) = Some Open).
        { destruct es as [|e0 es0].
          - rewrite (LE1 eq_refl). apply (HA k []); [left; reflexivity|reflexivity].
          - rewrite (LK1 ltac:(discriminate)). reflexivity. }
        exists c1. split; [exact R1|]. split; [apply same_but_atts_weaken; exact SB1|]. split; [exact W1|].
        split; [|split; [|split]].
        -- constructor.
           ++ exact ND.
           ++ unfold items_wf in *. cbn [forallb item_wf fin_last]. exact WF2.
           ++ intros k0 es0 [H|H]; [inversion H; subst; reflexivity|apply (SH k0 es0); right; exact H].
           ++ intros r2 rq2 [H|H]; [discriminate H|].
              apply (atts_static_agree c c1 f (Some r2)); [|apply RU; right; exact H].
              intros k0 _ E2. apply LOR. rewrite E2. discriminate.
           ++ exact TL.
           ++ intros r2 rq2 [H|H] NI2; [discriminate H|]. rewrite E1r. apply (FR r2 rq2); [right; exact H|exact NI2].
           ++ intros r2 rq2 [H|H] IN; [discriminate H|]. exfalso. specialize (PT _ H). cbn in PT. destruct PT as [X _]. exact (X IN).
           ++ intros k0 es0 [H|H] SS; [inversion H; subst; discriminate SS|]. rewrite (LO1 _ (NK k0 es0 H)).
              apply (FA k0 es0); [right; exact H|exact SS].
           ++ intros k0 es0 [H|H] SS; [inversion H; subst; exact KOPEN|]. exfalso. specialize (PT _ H). cbn in PT. congruence.
           ++ intros k0 es0 H.
              assert (H' : exists es1, In (KScen k0, IScen es1) ((KScen k, IScen es) :: t)).
              { destruct H as [H|H]; [inversion H; subst; exists es; left; reflexivity|exists es0; right; exact H]. }
              destruct H' as (es1 & H'). specialize (PV k0 es1 H'). unfold prev_ok in *.
              change (keys ((KScen k, IScen []) :: t)) with (keys ((KScen k, IScen es) :: t)).
              destruct (prev_key f None k0); [|exact I]. destruct PV as [X|X]; [left; exact (crun_closed_att _ _ _ _ _ R1 X)|right; exact X].
        -- split.
           ++ intros k' L. left. exists k, []. split; [left; reflexivity|]. split; [|reflexivity].
              destruct (atkey_dec k' (att_key f None k)) as [->|NE]; [reflexivity|]. rewrite (LO1 k' NE) in L.
              exact (proj1 (witA_head_scen f k es t k' PT (OA k' L))).
           ++ intros k' L. rewrite E1r in L. exfalso. exact (NOR k' L).
        -- intros k0 NE. rewrite E1r. reflexivity.
        -- intros k0 NE. apply LO1. intros ->. apply NE. reflexivity.
Qed.
