(* ReportersP7.v — the two report specifications of Model/ReportersSpec3.v (statement review M2 and H4 tail).
   A. the reporter's JUnit classification ("the last relevant event", Model/Reporters.v) equals the independent
      `attempt_class_spec` ("a Failed step or hook occurred / else a Skipped step occurred / else success") on the events
      of every canonical attempt; off the canonical shape it does not (witness).
   B. the Cucumber-JSON document of the model states exactly the FINER facts of the stream: exact status codes, passed
      hooks included.
   No axioms. *)
From CV Require Import Model.Base Model.Events Model.Contract Model.Stats Model.StatsSpec Model.Attempt Model.AttemptSpec
  Model.Reporters Model.ReportersSpec Model.ReportersSpec3 Proofs.BaseP.
From CV Require Proofs.AttemptP Proofs.Compose2 Proofs.ReportersP2 Proofs.ReportersP4 Proofs.ReportersP5.
From Coq Require Import Lia Permutation.

(* ================================================================================================ *)
(* A. JUnit classification                                                                           *)
(* ================================================================================================ *)

(* ---- A.1 the reporter's function, event by event ---- *)
Definition class1 (x : scev) : N :=
  match x with
  | ScBg _ StSkipped | ScStep _ StSkipped => 2
  | ScHook _ (HFailed _) | ScBg _ (StFailed _) | ScStep _ (StFailed _) => 1
  | _ => 0
  end.

Lemma junit_status_snoc l x :
  junit_status (l ++ [x]) = if junit_relevant x then class1 x else junit_status l.
Proof.
  unfold junit_status. rewrite rev_app_distr. cbn [rev app find].
  destruct (junit_relevant x) eqn:E; [|reflexivity].
  destruct x as [|b [| |p]|st [| | |k]|st [| | |k]|m|]; reflexivity.
Qed.

Lemma junit_status_nil : junit_status [] = 0.
Proof. reflexivity. Qed.

(* an event that is neither a failure nor a skip *)
Definition neutral (x : scev) : bool := negb (is_failed_step x || is_failed_hook x || is_skipped_step x).
Definition bad (x : scev) : bool := is_failed_step x || is_failed_hook x || is_skipped_step x.

Lemma neutral_class1 x : neutral x = true -> class1 x = 0.
Proof. destruct x as [|b [| |p]|st [| | |k]|st [| | |k]|m|]; cbn; intros H; try reflexivity; discriminate H. Qed.

Lemma neutral_status : forall l, forallb neutral l = true -> junit_status l = 0.
Proof.
  induction l as [|x l IH] using rev_ind; intros H; [reflexivity|].
  rewrite forallb_app in H. apply andb_true_iff in H as [H1 H2]. cbn [forallb] in H2. rewrite andb_true_r in H2.
  rewrite junit_status_snoc. destruct (junit_relevant x); [apply neutral_class1; exact H2|apply IH; exact H1].
Qed.

Lemma neutral_exists : forall l, forallb neutral l = true ->
  existsb is_failed_step l = false /\ existsb is_failed_hook l = false /\ existsb is_skipped_step l = false.
Proof.
  induction l as [|x l IH]; intros H; [repeat split|].
  cbn [forallb] in H. apply andb_true_iff in H as [H1 H2]. destruct (IH H2) as (A & B & C).
  cbn [existsb]. rewrite A, B, C. unfold neutral in H1. apply negb_true_iff in H1.
  apply orb_false_iff in H1 as [H1 H3]. apply orb_false_iff in H1 as [H1 H4]. rewrite H1, H3, H4. repeat split.
Qed.

Lemma bad_relevant x : bad x = true -> junit_relevant x = true.
Proof. destruct x as [|[] [| |p]|st [| | |k]|st [| | |k]|m|]; intros H; try reflexivity; cbv in H; discriminate H. Qed.

(* ---- A.2 the classification on the general form  neutral ++ (at most one bad event) ++ after-hook pair ---- *)
Definition after_tail (T : list scev) : Prop :=
  T = [] \/ T = [ScHook false HStarted; ScHook false HPassed] \/
  exists p, T = [ScHook false HStarted; ScHook false (HFailed p)].

Lemma class_general N0 X T :
  forallb neutral N0 = true -> (X = [] \/ exists x, X = [x] /\ bad x = true) -> after_tail T ->
  junit_status (N0 ++ X ++ T) = attempt_class_spec (N0 ++ X ++ T).
Proof.
  intros HN HX HT. pose proof (neutral_status _ HN) as S0. destruct (neutral_exists _ HN) as (F1 & F2 & F3).
  unfold attempt_class_spec. rewrite !existsb_app, F1, F2, F3.
  destruct HT as [->|[->|[p ->]]]; destruct HX as [->|(x & -> & B)].
  - cbn [app existsb orb]. rewrite app_nil_r. exact S0.
  - rewrite app_nil_r, junit_status_snoc, (bad_relevant x B).
    destruct x as [|b [| |p]|st [| | |k]|st [| | |k]|m|]; cbn in B; try discriminate B; reflexivity.
  - cbn [app]. change [ScHook false HStarted; ScHook false HPassed] with ([ScHook false HStarted] ++ [ScHook false HPassed]).
    rewrite !app_assoc, !junit_status_snoc. cbn. exact S0.
  - change ([x] ++ [ScHook false HStarted; ScHook false HPassed])
      with ([x] ++ [ScHook false HStarted] ++ [ScHook false HPassed]).
    rewrite !app_assoc, !junit_status_snoc, (bad_relevant x B). cbn [junit_relevant].
    destruct x as [|b [| |q]|st [| | |k]|st [| | |k]|m|]; cbn in B; try discriminate B; reflexivity.
  - cbn [app]. change [ScHook false HStarted; ScHook false (HFailed p)]
      with ([ScHook false HStarted] ++ [ScHook false (HFailed p)]).
    rewrite !app_assoc, !junit_status_snoc. cbn. rewrite ?orb_true_r. reflexivity.
  - change ([x] ++ [ScHook false HStarted; ScHook false (HFailed p)])
      with ([x] ++ [ScHook false HStarted] ++ [ScHook false (HFailed p)]).
    rewrite !app_assoc, !junit_status_snoc. cbn. rewrite ?orb_true_r. reflexivity.
Qed.

(* ---- A.3 the shape of the lists `wf_events` accepts ---- *)
Definition passed_evs (d : list (bool * N)) : list scev :=
  flat_map (fun p => [step_ev (fst p) (snd p) StStarted; step_ev (fst p) (snd p) StPassed]) d.
Definition stop_evs (o : option (bool * N * stepev)) : list scev :=
  match o with None => [] | Some (bg, st, y) => [step_ev bg st StStarted; step_ev bg st y] end.
Definition stop_decl (o : option (bool * N * stepev)) : list (bool * N) :=
  match o with None => [] | Some (bg, st, _) => [(bg, st)] end.
Definition stop_ok (o : option (bool * N * stepev)) : Prop :=
  match o with None => True | Some (_, _, y) => y = StSkipped \/ exists k, y = StFailed k end.

Lemma parse_steps_shape : forall decl l r2, parse_steps decl l = Some r2 ->
  exists d1 o, l = passed_evs d1 ++ stop_evs o ++ r2 /\ stop_ok o.
Proof.
  induction decl as [|[bg st] d IH]; intros l r2 H.
  - cbn [parse_steps] in H. inversion H; subst. exists [], None. split; [reflexivity|exact I].
  - cbn [parse_steps] in H. destruct l as [|e1 [|e2 rest]]; try discriminate H.
    destruct (scev_eqb e1 (step_ev bg st StStarted)) eqn:E1; [|discriminate H].
    apply Compose2.scev_eqb_true in E1. subst e1.
    destruct (scev_eqb e2 (step_ev bg st StPassed)) eqn:E2.
    + apply Compose2.scev_eqb_true in E2. subst e2. destruct (IH _ _ H) as (d1 & o & -> & OK).
      exists ((bg, st) :: d1), o. split; [reflexivity|exact OK].
    + destruct (scev_eqb e2 (step_ev bg st StSkipped)) eqn:E3.
      * apply Compose2.scev_eqb_true in E3. subst e2. inversion H; subst.
        exists [], (Some (bg, st, StSkipped)). split; [reflexivity|left; reflexivity].
      * destruct e2 as [|b h|st' [| | |k]|st' [| | |k]|m|]; try discriminate H.
        -- destruct bg; cbn [andb negb] in H; [|discriminate H].
           destruct (st' =? st) eqn:ES; [|discriminate H]. apply N.eqb_eq in ES. subst st'. inversion H; subst.
           exists [], (Some (true, st, StFailed k)). split; [reflexivity|right; exists k; reflexivity].
        -- destruct bg; cbn [andb negb] in H; [discriminate H|].
           destruct (st' =? st) eqn:ES; [|discriminate H]. apply N.eqb_eq in ES. subst st'. inversion H; subst.
           exists [], (Some (false, st, StFailed k)). split; [reflexivity|right; exists k; reflexivity].
Qed.

Definition after_tail_ha (ha : bool) (T : list scev) : Prop :=
  (ha = false /\ T = []) \/
  (ha = true /\ (T = [ScHook false HStarted; ScHook false HPassed] \/
                 exists p, T = [ScHook false HStarted; ScHook false (HFailed p)])).

Lemma parse_after_shape ha r2 : parse_after ha r2 = true -> exists T, r2 = T ++ [ScFinished] /\ after_tail_ha ha T.
Proof.
  unfold parse_after. destruct ha.
  - destruct r2 as [|[|[] [| |]| | | |] [|[|[] [| |p]| | | |] [|[| | | | |] [|e4 r]]]]; try discriminate; intros _.
    + exists [ScHook false HStarted; ScHook false HPassed]. split; [reflexivity|]. right. split; [reflexivity|left; reflexivity].
    + exists [ScHook false HStarted; ScHook false (HFailed p)]. split; [reflexivity|]. right. split; [reflexivity|right; exists p; reflexivity].
  - destruct r2 as [|[| | | | |] [|e2 r]]; try discriminate; intros _.
    exists []. split; [reflexivity|]. left. split; reflexivity.
Qed.

Definition before_ok (hb : bool) (B : list scev) (d1 : list (bool * N)) (o : option (bool * N * stepev)) : Prop :=
  (hb = false /\ B = []) \/
  (hb = true /\ B = [ScHook true HStarted; ScHook true HPassed]) \/
  (hb = true /\ d1 = [] /\ o = None /\ exists p, B = [ScHook true HStarted; ScHook true (HFailed p)]).

(* every list accepted by `wf_events` is: Started; before part; passed steps; at most one stopping step; after part;
   Finished *)
Theorem wf_events_shape hb ha decl l : wf_events hb ha decl l = true ->
  exists B d1 o T, l = ScStarted :: B ++ passed_evs d1 ++ stop_evs o ++ T ++ [ScFinished] /\
                   before_ok hb B d1 o /\ stop_ok o /\ after_tail_ha ha T.
Proof.
  unfold wf_events. destruct l as [|[| | | | |] rest]; try discriminate. destruct hb.
  - destruct rest as [|[|[] [| |]| | | |] [|[|[] [| |p]| | | |] r1]]; try discriminate.
    + destruct (parse_steps decl r1) as [r2|] eqn:PS; [|discriminate]. intros PA.
      destruct (parse_steps_shape _ _ _ PS) as (d1 & o & -> & OK).
      destruct (parse_after_shape _ _ PA) as (T & -> & HT).
      exists [ScHook true HStarted; ScHook true HPassed], d1, o, T. split; [reflexivity|].
      split; [right; left; split; reflexivity|]. split; assumption.
    + intros PA. destruct (parse_after_shape _ _ PA) as (T & -> & HT).
      exists [ScHook true HStarted; ScHook true (HFailed p)], [], None, T. split; [reflexivity|].
      split; [right; right; repeat split; exists p; reflexivity|]. split; [exact I|exact HT].
  - destruct (parse_steps decl rest) as [r2|] eqn:PS; [|discriminate]. intros PA.
    destruct (parse_steps_shape _ _ _ PS) as (d1 & o & -> & OK).
    destruct (parse_after_shape _ _ PA) as (T & -> & HT).
    exists [], d1, o, T. split; [reflexivity|]. split; [left; split; reflexivity|]. split; assumption.
Qed.

Lemma wf_events_ends hb ha decl l : wf_events hb ha decl l = true -> exists evs, l = evs ++ [ScFinished].
Proof.
  intros H. destruct (wf_events_shape _ _ _ _ H) as (B & d1 & o & T & -> & _).
  exists (ScStarted :: B ++ passed_evs d1 ++ stop_evs o ++ T). cbn [app]. rewrite <- !app_assoc. reflexivity.
Qed.

(* the pieces *)
Lemma step_ev_neutral bg st : neutral (step_ev bg st StStarted) = true /\ neutral (step_ev bg st StPassed) = true.
Proof. destruct bg; split; reflexivity. Qed.
Lemma passed_neutral d : forallb neutral (passed_evs d) = true.
Proof.
  induction d as [|[bg st] d IH]; [reflexivity|]. unfold passed_evs. cbn [flat_map fst snd app forallb].
  destruct (step_ev_neutral bg st) as [-> ->]. exact IH.
Qed.

(* ---- A.4 THE classification theorem: on the events of a canonical attempt (the list handed to the classification is
   the attempt's events BEFORE its Finished: that is what the writer collects, junit.rs `handle_scenario_event`) the
   reporter's "last relevant event" rule gives exactly the class the property describes ---- *)
Theorem junit_status_is_the_class hb ha decl evs :
  wf_events hb ha decl (evs ++ [ScFinished]) = true -> junit_status evs = attempt_class_spec evs.
Proof.
  intros H. destruct (wf_events_shape _ _ _ _ H) as (B & d1 & o & T & E & HB & HO & HT).
  assert (E' : evs = ScStarted :: B ++ passed_evs d1 ++ stop_evs o ++ T).
  { apply (app_inj_tail evs (ScStarted :: B ++ passed_evs d1 ++ stop_evs o ++ T) ScFinished ScFinished).
    rewrite E. cbn [app]. rewrite <- !app_assoc. reflexivity. }
  clear E H. subst evs.
  assert (AT : after_tail T).
  { destruct HT as [[_ ->]|[_ [->|[p ->]]]]; [left; reflexivity|right; left; reflexivity|right; right; exists p; reflexivity]. }
  destruct HB as [[_ ->]|[[_ ->]|(_ & -> & -> & p & ->)]].
  - (* no before hook *)
    destruct o as [[[bg st] y]|].
    + replace (ScStarted :: [] ++ passed_evs d1 ++ stop_evs (Some (bg, st, y)) ++ T)
        with (([ScStarted] ++ passed_evs d1 ++ [step_ev bg st StStarted]) ++ [step_ev bg st y] ++ T)
        by (cbn [app stop_evs]; rewrite <- !app_assoc; reflexivity).
      apply class_general; [| |exact AT].
      * rewrite !forallb_app, passed_neutral. cbn [forallb]. destruct (step_ev_neutral bg st) as [-> _]. reflexivity.
      * right. exists (step_ev bg st y). split; [reflexivity|].
        destruct HO as [->|[k ->]]; destruct bg; reflexivity.
    + replace (ScStarted :: [] ++ passed_evs d1 ++ stop_evs None ++ T)
        with (([ScStarted] ++ passed_evs d1) ++ [] ++ T) by (cbn [app stop_evs]; rewrite <- ?app_assoc; reflexivity).
      apply class_general; [|left; reflexivity|exact AT].
      rewrite !forallb_app, passed_neutral. reflexivity.
  - (* before hook passed *)
    destruct o as [[[bg st] y]|].
    + replace (ScStarted :: [ScHook true HStarted; ScHook true HPassed] ++ passed_evs d1 ++ stop_evs (Some (bg, st, y)) ++ T)
        with (([ScStarted; ScHook true HStarted; ScHook true HPassed] ++ passed_evs d1 ++ [step_ev bg st StStarted])
              ++ [step_ev bg st y] ++ T)
        by (cbn [app stop_evs]; rewrite <- !app_assoc; reflexivity).
      apply class_general; [| |exact AT].
      * rewrite !forallb_app, passed_neutral. cbn [forallb]. destruct (step_ev_neutral bg st) as [-> _]. reflexivity.
      * right. exists (step_ev bg st y). split; [reflexivity|].
        destruct HO as [->|[k ->]]; destruct bg; reflexivity.
    + replace (ScStarted :: [ScHook true HStarted; ScHook true HPassed] ++ passed_evs d1 ++ stop_evs None ++ T)
        with (([ScStarted; ScHook true HStarted; ScHook true HPassed] ++ passed_evs d1) ++ [] ++ T)
        by (cbn [app stop_evs]; rewrite <- ?app_assoc; reflexivity).
      apply class_general; [|left; reflexivity|exact AT].
      rewrite !forallb_app, passed_neutral. reflexivity.
  - (* before hook failed: no step runs *)
    change (ScStarted :: [ScHook true HStarted; ScHook true (HFailed p)] ++ passed_evs [] ++ stop_evs None ++ T)
      with ([ScStarted; ScHook true HStarted] ++ [ScHook true (HFailed p)] ++ T).
    apply class_general; [reflexivity| |exact AT].
    right. exists (ScHook true (HFailed p)). split; reflexivity.
Qed.

(* Finished itself is neither a failure nor a skip *)
Lemma class_spec_finished evs : attempt_class_spec (evs ++ [ScFinished]) = attempt_class_spec evs.
Proof. unfold attempt_class_spec. rewrite !existsb_app. cbn [existsb is_failed_step is_failed_hook is_skipped_step]. rewrite !orb_false_r. reflexivity. Qed.

Corollary junit_status_is_the_class_of_the_whole hb ha decl l :
  wf_events hb ha decl l = true -> junit_status (removelast l) = attempt_class_spec l.
Proof.
  intros H. destruct (wf_events_ends _ _ _ _ H) as (evs & ->). rewrite removelast_last, class_spec_finished.
  exact (junit_status_is_the_class hb ha decl evs H).
Qed.

(* the attempt model: no hypothesis *)
Theorem junit_status_of_run_attempt i :
  junit_status (removelast (ao_events (run_attempt i))) = attempt_class_spec (ao_events (run_attempt i)).
Proof. exact (junit_status_is_the_class_of_the_whole _ _ _ _ (AttemptP.attempt_wf i)). Qed.

Theorem junit_status_of_run_attempt' i :
  exists evs, ao_events (run_attempt i) = evs ++ [ScFinished] /\ junit_status evs = attempt_class_spec evs.
Proof.
  pose proof (AttemptP.attempt_wf i) as H. destruct (wf_events_ends _ _ _ _ H) as (evs & E). exists evs. split; [exact E|].
  rewrite E in H. exact (junit_status_is_the_class _ _ _ _ H).
Qed.

(* ---- A.5 what the statement must NOT say ---- *)
(* (a) `junit_status` applied to the list INCLUDING Finished is constantly 0 (Finished is a "relevant" event of the model's
   function, which the writer never hands to it): the equality on the whole canonical list is false *)
Example class_of_list_with_finished_is_not_the_status :
  let l := [ScStarted; ScStep 1 StStarted; ScStep 1 (StFailed (EPanic 1)); ScFinished] in
  wf_events false false [(false, 1)] l = true /\ junit_status l = 0 /\ attempt_class_spec l = 1 /\
  junit_status (removelast l) = 1.
Proof. vm_compute. repeat split; reflexivity. Qed.

(* (b) off the canonical shape the two differ: the reviewer's second list (a Failed step followed by a passed BEFORE hook)
   is classified `success` by the last-relevant-event rule; it is not canonical, with or without a closing Finished,
   whatever the hooks and the declared steps *)
Example reviewer_witness_2 :
  let l := [ScStarted; ScStep 1 (StFailed (EPanic 1)); ScHook true HPassed] in
  junit_status l = 0 /\ attempt_class_spec l = 1 /\
  canonical_attempt l = false /\ canonical_attempt (l ++ [ScFinished]) = false.
Proof. vm_compute. repeat split; reflexivity. Qed.

Lemma reviewer_witness_2_never_wf hb ha decl :
  wf_events hb ha decl [ScStarted; ScStep 1 (StFailed (EPanic 1)); ScHook true HPassed] = false /\
  wf_events hb ha decl [ScStarted; ScStep 1 (StFailed (EPanic 1)); ScHook true HPassed; ScFinished] = false.
Proof.
  destruct hb; [split; reflexivity|].
  destruct decl as [|[[] st] d]; destruct ha; split; cbn -[N.eqb]; rewrite ?andb_false_r; reflexivity.
Qed.

(* the reviewer's first list (a step Started and nothing else): both functions say `success`, and it is not canonical *)
Example reviewer_witness_1 :
  let l := [ScStarted; ScStep 1 StStarted] in
  junit_status l = 0 /\ attempt_class_spec l = 0 /\
  canonical_attempt l = false /\ canonical_attempt (l ++ [ScFinished]) = false.
Proof. vm_compute. repeat split; reflexivity. Qed.

Lemma reviewer_witness_1_never_wf hb ha decl :
  wf_events hb ha decl [ScStarted; ScStep 1 StStarted] = false /\
  wf_events hb ha decl [ScStarted; ScStep 1 StStarted; ScFinished] = false.
Proof.
  destruct hb; [split; reflexivity|].
  destruct decl as [|[[] st] d]; destruct ha; split; cbn -[N.eqb]; try reflexivity.
  all: destruct (1 =? st); cbn; reflexivity.
Qed.

(* ---- A.6 log lines may be interleaved anywhere: neither function looks at them ---- *)
Lemma junit_status_no_logs : forall l, junit_status (filter not_log l) = junit_status l.
Proof.
  induction l as [|x l IH] using rev_ind; [reflexivity|].
  rewrite filter_app. cbn [filter]. destruct (not_log x) eqn:E.
  - rewrite !junit_status_snoc, IH. reflexivity.
  - rewrite app_nil_r, junit_status_snoc. destruct x; try discriminate E. cbn [junit_relevant]. exact IH.
Qed.

Lemma existsb_filter_imp {A} (q p : A -> bool) l :
  (forall x, q x = true -> p x = true) -> existsb q (filter p l) = existsb q l.
Proof.
  intros H. induction l as [|x l IH]; [reflexivity|]. cbn [filter existsb].
  destruct (p x) eqn:P; cbn [existsb]; rewrite IH; [reflexivity|].
  destruct (q x) eqn:Q; [|reflexivity]. rewrite (H x Q) in P. discriminate P.
Qed.

Lemma class_spec_no_logs l : attempt_class_spec (filter not_log l) = attempt_class_spec l.
Proof.
  unfold attempt_class_spec. rewrite !existsb_filter_imp; [reflexivity| | |]; intros [] H; try reflexivity; discriminate H.
Qed.

(* THE classification theorem, log lines allowed: the hypothesis is the executable `canonical_attempt` *)
Theorem junit_status_is_the_class_canonical evs :
  canonical_attempt (evs ++ [ScFinished]) = true -> junit_status evs = attempt_class_spec evs.
Proof.
  unfold canonical_attempt. cbv zeta. rewrite filter_app. cbn [filter not_log]. intros H.
  apply junit_status_is_the_class in H. rewrite junit_status_no_logs, class_spec_no_logs in H. exact H.
Qed.

(* ---- A.7 `canonical_attempt` loses nothing: it accepts whatever `wf_events` accepts for ANY hooks and declared steps ---- *)
Lemma started_steps_app a b : started_steps (a ++ b) = started_steps a ++ started_steps b.
Proof. apply flat_map_app. Qed.
Lemma hook_started_app h a b : hook_started h (a ++ b) = hook_started h a || hook_started h b.
Proof. apply existsb_app. Qed.
Lemma passed_evs_cons bg st d :
  passed_evs ((bg, st) :: d) = step_ev bg st StStarted :: step_ev bg st StPassed :: passed_evs d.
Proof. reflexivity. Qed.

Lemma started_passed d : started_steps (passed_evs d) = d.
Proof.
  induction d as [|[bg st] d IH]; [reflexivity|]. rewrite passed_evs_cons.
  change (step_ev bg st StStarted :: step_ev bg st StPassed :: passed_evs d)
    with ([step_ev bg st StStarted; step_ev bg st StPassed] ++ passed_evs d).
  rewrite started_steps_app, IH. destruct bg; reflexivity.
Qed.
Lemma hook_passed h d : hook_started h (passed_evs d) = false.
Proof.
  induction d as [|[bg st] d IH]; [reflexivity|]. rewrite passed_evs_cons.
  change (step_ev bg st StStarted :: step_ev bg st StPassed :: passed_evs d)
    with ([step_ev bg st StStarted; step_ev bg st StPassed] ++ passed_evs d).
  rewrite hook_started_app, IH. destruct bg; reflexivity.
Qed.
Lemma nolog_passed d : forallb not_log (passed_evs d) = true.
Proof.
  induction d as [|[bg st] d IH]; [reflexivity|]. rewrite passed_evs_cons. cbn [forallb]. rewrite IH.
  destruct bg; reflexivity.
Qed.
Lemma started_stop o : stop_ok o -> started_steps (stop_evs o) = stop_decl o.
Proof. destruct o as [[[bg st] y]|]; [|reflexivity]. intros [->|[k ->]]; destruct bg; reflexivity. Qed.
Lemma hook_stop h o : hook_started h (stop_evs o) = false.
Proof. destruct o as [[[[] st] y]|]; reflexivity. Qed.
Lemma nolog_stop o : forallb not_log (stop_evs o) = true.
Proof. destruct o as [[[[] st] y]|]; reflexivity. Qed.

Lemma reparse d1 o rest : stop_ok o ->
  parse_steps (d1 ++ stop_decl o) (passed_evs d1 ++ stop_evs o ++ rest) = Some rest.
Proof.
  intros HO. induction d1 as [|[bg st] d IH].
  - cbn [app passed_evs flat_map]. destruct o as [[[bg st] y]|]; [|reflexivity]. cbn [stop_decl stop_evs app].
    destruct HO as [->|[k ->]]; [apply AttemptP.parse_skipped|apply AttemptP.parse_failed].
  - rewrite passed_evs_cons. cbn [app]. rewrite AttemptP.parse_passed. exact IH.
Qed.

Lemma shape_self_wf hb ha B d1 o T :
  before_ok hb B d1 o -> stop_ok o -> after_tail_ha ha T ->
  let l := ScStarted :: B ++ passed_evs d1 ++ stop_evs o ++ T ++ [ScFinished] in
  hook_started true l = hb /\ hook_started false l = ha /\ started_steps l = d1 ++ stop_decl o /\
  forallb not_log l = true /\ wf_events hb ha (d1 ++ stop_decl o) l = true.
Proof.
  intros HB HO HT l.
  assert (PA : parse_after ha (T ++ [ScFinished]) = true).
  { destruct HT as [[-> ->]|[-> [->|[p ->]]]]; reflexivity. }
  assert (TT : started_steps (T ++ [ScFinished]) = [] /\ hook_started true (T ++ [ScFinished]) = false /\
               hook_started false (T ++ [ScFinished]) = ha /\ forallb not_log (T ++ [ScFinished]) = true).
  { destruct HT as [[-> ->]|[-> [->|[p ->]]]]; repeat split; reflexivity. }
  destruct TT as (T1 & T2 & T3 & T4).
  assert (BB : started_steps B = [] /\ hook_started true B = hb /\ hook_started false B = false /\
               forallb not_log B = true).
  { destruct HB as [[-> ->]|[[-> ->]|(-> & _ & _ & p & ->)]]; repeat split; reflexivity. }
  destruct BB as (B1 & B2 & B3 & B4).
  subst l. remember (T ++ [ScFinished]) as TF eqn:ETF. clear ETF HT. change (ScStarted :: B ++ passed_evs d1 ++ stop_evs o ++ TF)
    with ([ScStarted] ++ B ++ passed_evs d1 ++ stop_evs o ++ TF).
  repeat split.
  - rewrite !hook_started_app, B2, T2, hook_passed, hook_stop. cbn. apply orb_false_r.
  - rewrite !hook_started_app, B3, T3, hook_passed, hook_stop. reflexivity.
  - rewrite !started_steps_app, B1, T1, started_passed, (started_stop o HO). cbn [started_steps flat_map app].
    rewrite app_nil_r. reflexivity.
  - rewrite !forallb_app, B4, T4, nolog_passed, nolog_stop. reflexivity.
  - cbn [app]. destruct HB as [[-> ->]|[[-> ->]|(-> & -> & -> & p & ->)]].
    + cbn [app wf_events]. rewrite (reparse d1 o _ HO). exact PA.
    + cbn [app wf_events]. rewrite (reparse d1 o _ HO). exact PA.
    + cbn [app wf_events passed_evs flat_map stop_evs]. exact PA.
Qed.

Lemma filter_id {A} (p : A -> bool) l : forallb p l = true -> filter p l = l.
Proof.
  induction l as [|x l IH]; [reflexivity|]. cbn [forallb filter]. intros H. apply andb_true_iff in H as [H1 H2].
  rewrite H1, (IH H2). reflexivity.
Qed.

Theorem canonical_attempt_complete_modulo_logs hb ha decl evs :
  wf_events hb ha decl (filter not_log evs) = true -> canonical_attempt evs = true.
Proof.
  intros H. unfold canonical_attempt. cbv zeta.
  destruct (wf_events_shape _ _ _ _ H) as (B & d1 & o & T & -> & HB & HO & HT).
  destruct (shape_self_wf hb ha B d1 o T HB HO HT) as (E1 & E2 & E3 & _ & W).
  rewrite E1, E2, E3. exact W.
Qed.

Theorem wf_events_no_logs hb ha decl evs : wf_events hb ha decl evs = true -> forallb not_log evs = true.
Proof.
  intros H. destruct (wf_events_shape _ _ _ _ H) as (B & d1 & o & T & -> & HB & HO & HT).
  apply (shape_self_wf hb ha B d1 o T HB HO HT).
Qed.

Theorem canonical_attempt_complete hb ha decl evs :
  wf_events hb ha decl evs = true -> canonical_attempt evs = true.
Proof.
  intros H. apply (canonical_attempt_complete_modulo_logs hb ha decl).
  rewrite (filter_id _ _ (wf_events_no_logs _ _ _ _ H)). exact H.
Qed.

(* and it accepts nothing else: by definition it IS `wf_events` for some hooks and declared steps *)
Theorem canonical_attempt_sound evs :
  canonical_attempt evs = true -> exists hb ha decl, wf_events hb ha decl (filter not_log evs) = true.
Proof. unfold canonical_attempt. cbv zeta. intros H. eexists _, _, _. exact H. Qed.

(* every execution of the attempt model is canonical *)
Theorem run_attempt_canonical i : canonical_attempt (ao_events (run_attempt i)) = true.
Proof. exact (canonical_attempt_complete _ _ _ _ (AttemptP.attempt_wf i)). Qed.

(* `wf_events` accepts NO log line; `canonical_attempt` does *)
Example logs_interleaved :
  let l := [ScStarted; ScLog 7; ScStep 1 StStarted; ScLog 8; ScStep 1 StSkipped; ScLog 9; ScFinished] in
  wf_events false false [(false, 1)] l = false /\ canonical_attempt l = true /\
  junit_status (removelast l) = 2 /\ attempt_class_spec l = 2.
Proof. vm_compute. repeat split; reflexivity. Qed.

(* ---- A.8 the stream: one testcase per finished attempt, classified by what happened in it ---- *)
Fixpoint ag_go (seen l : list ev) : list (option N * N * list scev) :=
  match l with
  | [] => []
  | EvScen f r s rt ScFinished :: t => (r, s, ReportersP4.mine_of f s rt seen) :: ag_go seen t
  | e :: t => ag_go (seen ++ [e]) t
  end.
Lemma attempt_groups_go es : attempt_groups es = ag_go [] (before_finished es).
Proof.
  unfold attempt_groups.
  match goal with |- ?g [] ?l = ag_go [] ?l => enough (G : forall l' seen, g seen l' = ag_go seen l') by apply G end.
  induction l' as [|e t IH]; intros seen; [reflexivity|].
  destruct e as [|fe re se ste er|id| |f|f|f r|f r|f r s rt x]; try destruct x; cbn [ag_go]; rewrite <- ?IH; reflexivity.
Qed.

Lemma ao_go_ag_go : forall l seen,
  ReportersP4.ao_go seen l = map (fun g => (fst (fst g), snd (fst g), junit_status (snd g))) (ag_go seen l).
Proof.
  induction l as [|e t IH]; intros seen; [reflexivity|].
  destruct e as [|fe re se ste er|id| |f|f|f r|f r|f r s rt x]; try destruct x;
    cbn [ReportersP4.ao_go ag_go map fst snd]; rewrite ?IH; reflexivity.
Qed.

(* the old specification (which calls the reporter's own `junit_status`) and the independent one agree on every stream
   whose finished attempts are canonical *)
Theorem attempt_outcomes_are_the_classes es :
  attempts_canonical es = true -> attempt_outcomes es = attempt_outcomes_spec es.
Proof.
  intros H. rewrite ReportersP4.attempt_outcomes_go, ao_go_ag_go. unfold attempt_outcomes_spec.
  unfold attempts_canonical in H. rewrite attempt_groups_go in *. rewrite forallb_forall in H.
  apply map_ext_in. intros g HI. rewrite (junit_status_is_the_class_canonical _ (H g HI)). reflexivity.
Qed.

(* C14_junit_cases_are_the_attempts, restated: the testcases of the document are the finished attempts of the stream, in
   order, each with the class `attempt_class_spec` of that attempt's events *)
Theorem C14_junit_cases_are_the_attempts_classified es :
  normalized es = true -> attempts_canonical es = true ->
  junit_cases (junit_doc es) false = attempt_outcomes_spec es /\
  map (fun c => snd (fst c)) (junit_cases (junit_doc es) true)
  = flat_map (fun e => match e with EvParseErr i => [i] | _ => [] end) (before_finished es).
Proof.
  intros HN HC. split.
  - rewrite <- (attempt_outcomes_are_the_classes es HC). exact (ReportersP4.C14_junit_cases es HN).
  - exact (ReportersP4.C14_junit_errors es HN).
Qed.

Lemma c14_junit_ok3_eq es rfs : attempts_canonical es = true -> c14_junit_ok3 es rfs = c14_junit_ok es rfs.
Proof. intros HC. unfold c14_junit_ok3, c14_junit_ok. rewrite (attempt_outcomes_are_the_classes es HC). reflexivity. Qed.

Theorem C14_junit_whole_document_classified es :
  normalized_prefix es = true -> attempts_canonical es = true ->
  forallb (fun o => negb (snd o =? 2)) (attempt_outcomes_spec es) = true ->
  c14_junit_ok3 es (junit_doc es) = true.
Proof.
  intros HN HC HS. rewrite (c14_junit_ok3_eq es _ HC). apply ReportersP4.C14_junit_ok; [exact HN|].
  rewrite (attempt_outcomes_are_the_classes es HC). exact HS.
Qed.

(* behind Normalize: the hypothesis is on the RAW (interleaved) stream — `attempt_groups` collects an attempt's events
   by feature, scenario and retries wherever they stand *)
Theorem C14_junit_end_to_end_classified (es : list mev) :
  contract (ReportersP5.raw_of es) = true ->
  ReportersP5.rule_of_scen_unique (ReportersP5.raw_of es) = true ->
  attempts_canonical (ReportersP5.raw_of es) = true ->
  forallb (fun o => negb (snd o =? 2)) (attempt_outcomes_spec (ReportersP5.raw_of es)) = true ->
  c14_junit_ok3 (ReportersP5.raw_of es) (junit_doc (ReportersP5.ns_of es)) = true.
Proof.
  intros HC HU HA HS. rewrite (c14_junit_ok3_eq _ _ HA). apply ReportersP5.C14_junit_end_to_end; [exact HC|exact HU|].
  rewrite (attempt_outcomes_are_the_classes _ HA). exact HS.
Qed.

(* non-vacuity: the JUnit example stream (two features, a rule, a retried scenario, a failed after hook, a log line) *)
Example ex_attempts_canonical :
  normalized ReportersP4.ex_stream = true /\ attempts_canonical ReportersP4.ex_stream = true /\
  attempt_outcomes_spec ReportersP4.ex_stream = [(Some 10, 100, 1); (Some 10, 100, 0); (None, 101, 1); (None, 200, 0)] /\
  junit_cases (junit_doc ReportersP4.ex_stream) false = attempt_outcomes_spec ReportersP4.ex_stream.
Proof. vm_compute. repeat split; reflexivity. Qed.
Example ex_skipped_canonical :
  attempts_canonical ReportersP4.ex_skipped = true /\ attempt_outcomes_spec ReportersP4.ex_skipped = [(None, 2, 2)].
Proof. vm_compute. split; reflexivity. Qed.
Example ex5_raw_canonical :
  contract (ReportersP5.raw_of ReportersP5.ex5) = true /\ normalized (ReportersP5.raw_of ReportersP5.ex5) = false /\
  attempts_canonical (ReportersP5.raw_of ReportersP5.ex5) = true.
Proof. vm_compute. repeat split; reflexivity. Qed.

(* the hypothesis is needed: a stream accepted by the sequential contract whose attempt is the reviewer's second list;
   the document says `success`, the property says `failure` *)
Definition ex_uncanonical : list ev :=
  [EvStarted; EvFeatS 1; EvScen 1 None 2 None ScStarted; EvScen 1 None 2 None (ScStep 1 (StFailed (EPanic 1)));
   EvScen 1 None 2 None (ScHook true HPassed); EvScen 1 None 2 None ScFinished; EvFeatF 1; EvFinished].
Example ex_uncanonical_differs :
  normalized ex_uncanonical = true /\ attempts_canonical ex_uncanonical = false /\
  junit_cases (junit_doc ex_uncanonical) false = [(None, 2, 0)] /\ attempt_outcomes_spec ex_uncanonical = [(None, 2, 1)].
Proof. vm_compute. repeat split; reflexivity. Qed.

(* ================================================================================================ *)
(* B. Cucumber JSON: exact status codes, passed hooks                                                *)
(* ================================================================================================ *)
Import ReportersP2.

(* ---- B.1 the finer facts of a STRUCTURED document ---- *)
Definition hook_fact2 (fid : N) (r : option N) (s : N) (b : bool) (st : N) : fact :=
  [(if st =? 0 then 4 else 2); fid] ++ ropt r ++ [s; 0; 0; (if b then 1 else 0); st].
Definition hook_facts2 (fid : N) (r : option N) (s : N) (b : bool) (l : list N) : list fact :=
  map (hook_fact2 fid r s b) l.
Definition step_fact2 (fid : N) (r : option N) (s ty : N) (ls : N * N) : fact :=
  if fid =? 0 then [3; 0; 0; 0; fst ls; 0; 0; 0; snd ls]
  else [1; fid] ++ ropt r ++ [s; 0; fst ls; ty; snd ls].
Definition el_facts2 (fid : N) (el : jel) : list fact :=
  hook_facts2 fid (je_rid el) (je_sid el) true (je_before el) ++
  map (step_fact2 fid (je_rid el) (je_sid el) (je_ty el)) (je_steps el) ++
  hook_facts2 fid (je_rid el) (je_sid el) false (je_after el).
Definition feat_facts2 (jf : jfeat) : list fact := flat_map (el_facts2 (jf_fid jf)) (jf_els jf).
Definition doc_facts2 (fs : list jfeat) : list fact := flat_map feat_facts2 fs.

Lemma json_facts2_hooks fid r s ty b l rest :
  json_facts2 fid (Some (r, s, ty)) (map (fun x => RJHook b x) l ++ rest) =
  hook_facts2 fid r s b l ++ json_facts2 fid (Some (r, s, ty)) rest.
Proof.
  induction l as [|x l IH]; [reflexivity|].
  cbn [map app json_facts2 hook_facts2]. fold (hook_facts2 fid r s b l). rewrite IH. reflexivity.
Qed.

Lemma json_facts2_steps fid r s ty l rest :
  json_facts2 fid (Some (r, s, ty)) (map (fun ls => RJStep (fst ls) (snd ls)) l ++ rest) =
  map (step_fact2 fid r s ty) l ++ json_facts2 fid (Some (r, s, ty)) rest.
Proof.
  induction l as [|x l IH]; [reflexivity|].
  cbn [map app json_facts2]. rewrite IH. reflexivity.
Qed.

Lemma json_facts2_els fid els rest R :
  (forall ce, json_facts2 fid ce rest = R) ->
  forall ce, json_facts2 fid ce (flat_map el_flat els ++ rest) = flat_map (el_facts2 fid) els ++ R.
Proof.
  intros HR. induction els as [|el t IH]; intros ce; [apply HR|].
  cbn [flat_map]. unfold el_flat at 1. cbn [app json_facts2].
  rewrite <- !app_assoc, json_facts2_hooks, json_facts2_steps, json_facts2_hooks, IH.
  unfold el_facts2. rewrite <- !app_assoc. reflexivity.
Qed.

Lemma json_facts2_flatten : forall fs cf ce, json_facts2 cf ce (flatten_json fs) = doc_facts2 fs.
Proof.
  induction fs as [|jf t IH]; intros cf ce; [reflexivity|].
  rewrite flatten_cons. cbn [app json_facts2].
  rewrite (json_facts2_els (jf_fid jf) (jf_els jf) (flatten_json t) (doc_facts2 t)); [reflexivity|].
  intros ce'. apply IH.
Qed.

Section J2.
  Variable has_path : N -> bool.

  Lemma upd_el_facts2 fid els r s ty g delta :
    (forall el, je_rid el = r -> je_sid el = s -> je_ty el = ty ->
                Permutation (el_facts2 fid (g el)) (el_facts2 fid el ++ delta)) ->
    Permutation (flat_map (el_facts2 fid) (upd_el els r s ty g)) (flat_map (el_facts2 fid) els ++ delta).
  Proof.
    intros H. induction els as [|el t IH].
    - cbn [upd_el flat_map]. rewrite app_nil_r. cbn [app].
      rewrite <- (app_nil_l delta) at 1. change (@nil fact) with (el_facts2 fid (mk_jel r s ty [] [] [])) at 1.
      apply H; reflexivity.
    - cbn [upd_el]. destruct (jel_matches el r s ty) eqn:M.
      + unfold jel_matches in M. apply andb_true_iff in M as [M M3]. apply andb_true_iff in M as [M1 M2].
        apply (option_eqb_spec N.eqb N.eqb_eq) in M1. apply N.eqb_eq in M2. apply N.eqb_eq in M3.
        cbn [flat_map].
        apply perm_trans with ((el_facts2 fid el ++ delta) ++ flat_map (el_facts2 fid) t).
        * apply Permutation_app_tail. apply H; assumption.
        * apply perm_mid.
      + cbn [flat_map]. rewrite <- app_assoc. apply Permutation_app_head. exact IH.
  Qed.

  Lemma upd_feat_facts2 fs f r s ty g delta :
    (forall el, je_rid el = r -> je_sid el = s -> je_ty el = ty ->
                Permutation (el_facts2 f (g el)) (el_facts2 f el ++ delta)) ->
    Permutation (doc_facts2 (upd_feat has_path fs f r s ty g)) (doc_facts2 fs ++ delta).
  Proof.
    intros H. induction fs as [|jf t IH].
    - cbn [upd_feat]. unfold doc_facts2. cbn [flat_map]. rewrite app_nil_r. unfold feat_facts2. cbn [jf_fid jf_els app].
      rewrite <- (app_nil_l delta). apply (upd_el_facts2 f [] r s ty g delta H).
    - cbn [upd_feat]. destruct (jfeat_matches has_path jf f) eqn:M.
      + unfold jfeat_matches in M. apply andb_true_iff in M as [_ M]. apply N.eqb_eq in M.
        unfold doc_facts2. cbn [flat_map]. unfold feat_facts2 at 1 3. cbn [jf_fid jf_els]. rewrite M.
        apply perm_trans with ((flat_map (el_facts2 f) (jf_els jf) ++ delta) ++ flat_map feat_facts2 t).
        * apply Permutation_app_tail. apply upd_el_facts2. exact H.
        * apply perm_mid.
      + unfold doc_facts2. cbn [flat_map]. rewrite <- app_assoc. apply Permutation_app_head. exact IH.
  Qed.

  Lemma hook_facts2_app fid r s b l1 l2 :
    hook_facts2 fid r s b (l1 ++ l2) = hook_facts2 fid r s b l1 ++ hook_facts2 fid r s b l2.
  Proof. unfold hook_facts2. apply map_app. Qed.

  Lemma el_before2 fid el x :
    Permutation (el_facts2 fid (mk_jel (je_rid el) (je_sid el) (je_ty el) (je_steps el) (je_before el ++ [x]) (je_after el)))
                (el_facts2 fid el ++ [hook_fact2 fid (je_rid el) (je_sid el) true x]).
  Proof.
    unfold el_facts2. cbn [je_rid je_sid je_ty je_steps je_before je_after]. rewrite hook_facts2_app.
    change (hook_facts2 fid (je_rid el) (je_sid el) true [x]) with [hook_fact2 fid (je_rid el) (je_sid el) true x].
    apply perm_mid.
  Qed.
  Lemma el_after2 fid el x :
    Permutation (el_facts2 fid (mk_jel (je_rid el) (je_sid el) (je_ty el) (je_steps el) (je_before el) (je_after el ++ [x])))
                (el_facts2 fid el ++ [hook_fact2 fid (je_rid el) (je_sid el) false x]).
  Proof.
    unfold el_facts2. cbn [je_rid je_sid je_ty je_steps je_before je_after]. rewrite hook_facts2_app, <- !app_assoc.
    apply Permutation_refl.
  Qed.
  Lemma el_step2 fid el x :
    Permutation (el_facts2 fid (mk_jel (je_rid el) (je_sid el) (je_ty el) (je_steps el ++ [x]) (je_before el) (je_after el)))
                (el_facts2 fid el ++ [step_fact2 fid (je_rid el) (je_sid el) (je_ty el) x]).
  Proof.
    unfold el_facts2. cbn [je_rid je_sid je_ty je_steps je_before je_after]. rewrite map_app. cbn [map].
    rewrite <- !app_assoc. apply Permutation_app_head. rewrite app_assoc. rewrite (app_assoc _ (hook_facts2 _ _ _ _ _) _).
    apply perm_mid.
  Qed.

  (* the status the MODEL writes for a step result is the code the property demands *)
  Lemma json_status_is_the_code x k : step_code x = Some k -> json_status x = k.
  Proof. destruct x as [| | |[| |p]]; cbn; intros H; inversion H; reflexivity. Qed.

  Lemma step_fact2_code f r s ty st x k : f <> 0 -> step_code x = Some k ->
    step_fact2 f r s ty (st, json_status x) = [1; f] ++ ropt r ++ [s; 0; st; ty; k].
  Proof.
    intros NZ K. unfold step_fact2. apply N.eqb_neq in NZ. rewrite NZ. cbn [fst snd].
    rewrite (json_status_is_the_code x k K). reflexivity.
  Qed.

  (* one event: the document gains exactly the finer facts of the event *)
  Lemma json_handle_facts2 fs e : ev_fid_nz e = true ->
    Permutation (doc_facts2 (json_handle has_path fs e)) (doc_facts2 fs ++ facts_of_event2 e).
  Proof.
    intros NZ.
    destruct e as [|fe re se ste er|id| |f|f|f r|f r|f r s rt x];
      try (cbn [json_handle facts_of_event2]; rewrite app_nil_r; apply Permutation_refl).
    - (* parser error: reported as a failed entry *)
      cbn [json_handle facts_of_event2]. unfold doc_facts2. rewrite flat_map_app. apply Permutation_refl.
    - cbn [ev_fid_nz] in NZ. apply negb_true_iff, N.eqb_neq in NZ.
      destruct x as [|b h|st y|st y|m|];
        try (cbn [json_handle facts_of_event2]; rewrite app_nil_r; apply Permutation_refl).
      + (* hooks *)
        destruct h as [| |p].
        * cbn [json_handle facts_of_event2]. rewrite app_nil_r. apply Permutation_refl.
        * cbn [json_handle facts_of_event2]. apply upd_feat_facts2. intros el E1 E2 _. rewrite <- E1, <- E2.
          destruct b; cbv beta iota; [exact (el_before2 f el 0)|exact (el_after2 f el 0)].
        * cbn [json_handle facts_of_event2]. apply upd_feat_facts2. intros el E1 E2 _. rewrite <- E1, <- E2.
          destruct b; cbv beta iota; [exact (el_before2 f el 1)|exact (el_after2 f el 1)].
      + (* background step *)
        cbn [json_handle facts_of_event2]. destruct (step_code y) as [k|] eqn:K.
        * apply upd_feat_facts2. intros el E1 E2 E3.
          rewrite <- (step_fact2_code f r s 1 st y k NZ K). rewrite <- E1, <- E2, <- E3.
          destruct y as [| | |kk]; [discriminate K| | |]; apply el_step2.
        * destruct y as [| | |[| |p]]; try discriminate K. apply upd_feat_facts2. intros el _ _ _. rewrite app_nil_r.
          apply Permutation_refl.
      + (* step *)
        cbn [json_handle facts_of_event2]. destruct (step_code y) as [k|] eqn:K.
        * apply upd_feat_facts2. intros el E1 E2 E3.
          rewrite <- (step_fact2_code f r s 0 st y k NZ K). rewrite <- E1, <- E2, <- E3.
          destruct y as [| | |kk]; [discriminate K| | |]; apply el_step2.
        * destruct y as [| | |[| |p]]; try discriminate K. apply upd_feat_facts2. intros el _ _ _. rewrite app_nil_r.
          apply Permutation_refl.
  Qed.

  Lemma fold_handle_facts2 : forall es fs, fids_nonzero es = true ->
    Permutation (doc_facts2 (fold_left (json_handle has_path) es fs)) (doc_facts2 fs ++ flat_map facts_of_event2 es).
  Proof.
    induction es as [|e t IH]; intros fs NZ.
    - cbn [fold_left flat_map]. rewrite app_nil_r. apply Permutation_refl.
    - unfold fids_nonzero in NZ. cbn [forallb] in NZ. apply andb_true_iff in NZ as [NZ1 NZ2].
      cbn [fold_left flat_map].
      apply perm_trans with (doc_facts2 (json_handle has_path fs e) ++ flat_map facts_of_event2 t).
      + apply IH. exact NZ2.
      + rewrite app_assoc. apply Permutation_app_tail. apply json_handle_facts2. exact NZ1.
  Qed.

  (* for EVERY event list with non-zero feature ids (contract-abiding or not, with or without paths) *)
  Theorem json_facts2_invariant handled : fids_nonzero handled = true ->
    Permutation (json_facts2 0 None (flatten_json (fold_left (json_handle has_path) handled [])))
                (flat_map facts_of_event2 handled).
  Proof. intros NZ. rewrite json_facts2_flatten. apply (fold_handle_facts2 handled [] NZ). Qed.

  Theorem json_doc_facts2 es' : no_finished es' = true -> fids_nonzero es' = true ->
    Permutation (json_facts2 0 None (json_doc has_path (es' ++ [EvFinished]))) (stream_facts2 (es' ++ [EvFinished])).
  Proof.
    intros NF NZ. unfold json_doc, stream_facts2. rewrite json_run_closed, before_finished_closed by exact NF.
    apply json_facts2_invariant. exact NZ.
  Qed.

  Corollary json_doc_facts2_ms es' : no_finished es' = true -> fids_nonzero es' = true ->
    same_multiset (stream_facts2 (es' ++ [EvFinished])) (json_facts2 0 None (json_doc has_path (es' ++ [EvFinished]))) = true.
  Proof. intros NF NZ. apply perm_same_multiset, Permutation_sym, json_doc_facts2; assumption. Qed.

  Theorem c14_json_closed2 es' :
    no_finished es' = true -> fids_nonzero es' = true -> fids_have_path has_path es' = true ->
    c14_json_ok2 (es' ++ [EvFinished]) (json_doc has_path (es' ++ [EvFinished])) = true.
  Proof.
    intros NF NZ HP. unfold c14_json_ok2. rewrite existsb_finished_closed.
    rewrite (json_doc_facts2_ms es' NF NZ), (json_doc_containers has_path es' NF HP). reflexivity.
  Qed.

  Theorem c14_json_unfinished2 es : no_finished es = true -> c14_json_ok2 es (json_doc has_path es) = true.
  Proof.
    intros NF. unfold c14_json_ok2. rewrite (json_doc_unfinished has_path es NF).
    unfold no_finished in NF. apply negb_true_iff in NF. unfold is_finished_ev in NF. rewrite NF. reflexivity.
  Qed.

  (* THE whole-document theorem for the finer specification, under the hypotheses of C14_json_whole_document *)
  Theorem c14_json_normalized2 es :
    normalized es = true -> fids_nonzero es = true -> fids_have_path has_path es = true ->
    c14_json_ok2 es (json_doc has_path es) = true.
  Proof.
    intros C NZ HP. destruct (normalized_shape es C) as (es' & -> & NF).
    apply c14_json_closed2; [exact NF|exact (forallb_app_l _ _ _ NZ)|exact (forallb_app_l _ _ _ HP)].
  Qed.

  Theorem c14_json_contract2 es :
    contract es = true -> fids_nonzero es = true -> fids_have_path has_path es = true ->
    c14_json_ok2 es (json_doc has_path es) = true.
  Proof.
    intros C NZ HP. destruct (contract_shape es C) as (es' & -> & NF).
    apply c14_json_closed2; [exact NF|exact (forallb_app_l _ _ _ NZ)|exact (forallb_app_l _ _ _ HP)].
  Qed.
End J2.

(* behind Normalize: the finer facts of the RAW stream *)
Theorem C14_json_end_to_end2 (es : list mev) has_path :
  contract (ReportersP5.raw_of es) = true ->
  fids_nonzero (ReportersP5.raw_of es) = true -> fids_have_path has_path (ReportersP5.raw_of es) = true ->
  c14_json_ok2 (ReportersP5.raw_of es) (json_doc has_path (ReportersP5.ns_of es)) = true.
Proof.
  intros C NZ HP. unfold fids_nonzero in NZ. unfold fids_have_path in HP.
  rewrite (ReportersP5.forallb_raw_ns es C) in NZ, HP.
  pose proof (c14_json_normalized2 has_path (ReportersP5.ns_of es) (ReportersP5.ns_normalized es C) NZ HP) as H.
  unfold c14_json_ok2 in *. rewrite (ReportersP5.existsb_raw_ns es C).
  destruct (existsb _ (ReportersP5.ns_of es)); [|exact H].
  assert (P : Permutation (stream_facts2 (ReportersP5.raw_of es)) (stream_facts2 (ReportersP5.ns_of es))).
  { unfold stream_facts2. apply Permutation_flat_map. exact (ReportersP5.before_finished_perm es C). }
  rewrite (ReportersP5.same_multiset_perm_l _ _ _ P). exact H.
Qed.

(* ---- B.2 examples ---- *)
(* a scenario with a passed before hook, a passed step, a panicking step *)
Definition ex7 : list ev :=
  let a := EvScen 1 None 2 None in
  [EvStarted; EvParsingFinished 1 0 1 2 0; EvFeatS 1;
   a ScStarted; a (ScHook true HStarted); a (ScHook true HPassed);
   a (ScStep 1 StStarted); a (ScStep 1 StPassed); a (ScStep 2 StStarted); a (ScStep 2 (StFailed (EPanic 3)));
   a ScFinished; EvFeatF 1; EvFinished].
Definition ex7_paths (f : N) : bool := true.

Example ex7_hypotheses :
  normalized ex7 = true /\ fids_nonzero ex7 = true /\ fids_have_path ex7_paths ex7 = true.
Proof. vm_compute. repeat split; reflexivity. Qed.

Example ex7_doc :
  json_doc ex7_paths ex7 = [RJFeature true 1; RJElement None 2 0; RJHook true 0; RJStep 1 0; RJStep 2 1].
Proof. vm_compute. reflexivity. Qed.

(* the model's own document is accepted: by the theorem, and by computation *)
Example ex7_ok2_by_theorem : c14_json_ok2 ex7 (json_doc ex7_paths ex7) = true.
Proof. apply c14_json_normalized2; apply ex7_hypotheses. Qed.
Example ex7_ok2_by_computation :
  c14_json_ok2 ex7 (json_doc ex7_paths ex7) = true /\ length (stream_facts2 ex7) = 3%nat.
Proof. vm_compute. split; reflexivity. Qed.

(* the reviewer's wrong document: the panicked step shown as `ambiguous`, and two passed hooks that never happened *)
Definition ex7_wrong : list rf :=
  map (fun x => match x with RJStep l 1 => RJStep l 4 | y => y end) (json_doc ex7_paths ex7)
  ++ [RJHook true 0; RJHook false 0].
Example ex7_wrong_is :
  ex7_wrong = [RJFeature true 1; RJElement None 2 0; RJHook true 0; RJStep 1 0; RJStep 2 4; RJHook true 0; RJHook false 0].
Proof. vm_compute. reflexivity. Qed.
Example ex7_wrong_accepted_by_the_coarse_spec : c14_json_ok ex7 ex7_wrong = true.
Proof. vm_compute. reflexivity. Qed.
Example ex7_wrong_rejected : c14_json_ok2 ex7 ex7_wrong = false.
Proof. vm_compute. reflexivity. Qed.
(* each defect alone is rejected, and so is a missing passed hook *)
Example ex7_wrong_status_rejected :
  c14_json_ok2 ex7 [RJFeature true 1; RJElement None 2 0; RJHook true 0; RJStep 1 0; RJStep 2 4] = false /\
  c14_json_ok ex7 [RJFeature true 1; RJElement None 2 0; RJHook true 0; RJStep 1 0; RJStep 2 4] = true.
Proof. vm_compute. split; reflexivity. Qed.
Example ex7_extra_hooks_rejected :
  c14_json_ok2 ex7 [RJFeature true 1; RJElement None 2 0; RJHook true 0; RJStep 1 0; RJStep 2 1; RJHook true 0; RJHook false 0] = false /\
  c14_json_ok ex7 [RJFeature true 1; RJElement None 2 0; RJHook true 0; RJStep 1 0; RJStep 2 1; RJHook true 0; RJHook false 0] = true.
Proof. vm_compute. split; reflexivity. Qed.
Example ex7_missing_hook_rejected :
  c14_json_ok2 ex7 [RJFeature true 1; RJElement None 2 0; RJStep 1 0; RJStep 2 1] = false /\
  c14_json_ok ex7 [RJFeature true 1; RJElement None 2 0; RJStep 1 0; RJStep 2 1] = true.
Proof. vm_compute. split; reflexivity. Qed.

(* the larger example of ReportersP2 (two features, a rule, a retried scenario, background, passed and failed hooks, an
   ambiguous step, a skipped step, a parser error, a log line) *)
Example ex_stream_ok2 :
  c14_json_ok2 ReportersP2.ex_stream (json_doc ex_has_path ReportersP2.ex_stream) = true /\
  length (stream_facts2 ReportersP2.ex_stream) = 10%nat.
Proof. split; [apply c14_json_normalized2; apply ex_stream_hypotheses|vm_compute; reflexivity]. Qed.

(* ================================================================================================ *)
Print Assumptions junit_status_is_the_class.
Print Assumptions junit_status_is_the_class_canonical.
Print Assumptions junit_status_of_run_attempt.
Print Assumptions canonical_attempt_complete.
Print Assumptions C14_junit_cases_are_the_attempts_classified.
Print Assumptions C14_junit_whole_document_classified.
Print Assumptions C14_junit_end_to_end_classified.
Print Assumptions json_facts2_invariant.
Print Assumptions c14_json_normalized2.
Print Assumptions C14_json_end_to_end2.
