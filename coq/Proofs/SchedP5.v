(* SchedP5.v — tools for the bracket accounting of the scheduler model: permutation facts about
   take_ready / get, association-list facts, and the "items" of a state (one per unfinished scenario of the
   input: queued, dispatched, running, or finished with its message not yet drained). *)
From CV Require Import Model.Base Model.Events Model.Contract Model.Sched
  Proofs.BaseP Proofs.SchedP Proofs.SchedP2 Proofs.SchedP3 Proofs.SchedP4.
From Coq Require Import Permutation Lia.

(* ---- counting ---- *)
Definition cntb {A} (P : A -> bool) (l : list A) : nat := length (filter P l).
Lemma cntb_nil {A} (P : A -> bool) : cntb P [] = 0%nat.
Proof. reflexivity. Qed.
Lemma cntb_cons {A} (P : A -> bool) x l : cntb P (x :: l) = ((if P x then 1 else 0) + cntb P l)%nat.
Proof. unfold cntb. cbn [filter]. destruct (P x); reflexivity. Qed.
Lemma cntb_app {A} (P : A -> bool) a b : cntb P (a ++ b) = (cntb P a + cntb P b)%nat.
Proof. unfold cntb. rewrite filter_app, app_length. reflexivity. Qed.
Lemma cntb_perm {A} (P : A -> bool) a b : Permutation a b -> cntb P a = cntb P b.
Proof.
  induction 1 as [|x a b H IH|x y a|a b c H1 IH1 H2 IH2]; rewrite ?cntb_cons; try lia; auto.
Qed.
Lemma cntb_pos {A} (P : A -> bool) l x : In x l -> P x = true -> (1 <= cntb P l)%nat.
Proof.
  induction l as [|y l IH]; intros H Hp; [destruct H|]. rewrite cntb_cons.
  destruct H as [->|H]; [rewrite Hp; lia|]. specialize (IH H Hp). lia.
Qed.
Lemma cntb_zero {A} (P : A -> bool) l : cntb P l = 0%nat -> forall x, In x l -> P x = false.
Proof.
  intros Z x Hx. destruct (P x) eqn:E; [|reflexivity]. pose proof (cntb_pos P l x Hx E). lia.
Qed.
Lemma cntb_le {A} (P Q : A -> bool) l : (forall x, P x = true -> Q x = true) -> (cntb P l <= cntb Q l)%nat.
Proof.
  intros H. induction l as [|x l IH]; [reflexivity|]. rewrite !cntb_cons.
  destruct (P x) eqn:E; [rewrite (H _ E); lia|]. destruct (Q x); lia.
Qed.
Lemma cntb_map {A B} (f : A -> B) (P : B -> bool) l : cntb P (map f l) = cntb (fun x => P (f x)) l.
Proof. induction l as [|x l IH]; [reflexivity|]. cbn [map]. rewrite !cntb_cons, IH. reflexivity. Qed.
Lemma cntb_ext {A} (P Q : A -> bool) l : (forall x, P x = Q x) -> cntb P l = cntb Q l.
Proof. intros H. induction l as [|x l IH]; [reflexivity|]. rewrite !cntb_cons, IH, H. reflexivity. Qed.

(* ---- take_ready / get permute the queues ---- *)
Lemma take_ready_perm n now l : forall md,
  let '(a, b, _) := take_ready n now md l in Permutation l (a ++ b).
Proof.
  revert n. induction l as [|e t IH]; intros n md; cbn [take_ready].
  - constructor.
  - destruct n as [[|k]|].
    + cbn. apply Permutation_refl.
    + destruct (left_until now e).
      * specialize (IH (Some (S k)) (min_opt md n)). destruct (take_ready _ now _ t) as [[a b] m].
        apply Permutation_cons_app. exact IH.
      * specialize (IH (option_map pred (Some (S k))) md). destruct (take_ready _ now _ t) as [[a b] m].
        cbn. constructor. exact IH.
    + destruct (left_until now e).
      * specialize (IH None (min_opt md n)). destruct (take_ready _ now _ t) as [[a b] m].
        apply Permutation_cons_app. exact IH.
      * specialize (IH (option_map pred None) md). destruct (take_ready _ now _ t) as [[a b] m].
        cbn. constructor. exact IH.
Qed.

Lemma get_unfold n s : n <> Some 0%nat ->
  get n s = if is_nil (running s) then
              let '(bs, rs, md) := take_ready (Some 1%nat) (now s) None (qS s) in
              match bs with
              | _ :: _ => (bs, rs, qC s, md)
              | [] => let '(bc, rc, md2) := take_ready n (now s) md (qC s) in (bc, qS s, rc, md2)
              end
            else let '(bc, rc, md2) := take_ready n (now s) None (qC s) in (bc, qS s, rc, md2).
Proof. intros NZ. unfold get. destruct n as [[|k]|]; auto. congruence. Qed.

Lemma get_perm n s :
  let '(batch, qs, qc, _) := get n s in Permutation (qS s ++ qC s) (batch ++ qs ++ qc).
Proof.
  assert (Z : n = Some 0%nat \/ n <> Some 0%nat) by (destruct n as [[|k]|]; auto; right; discriminate).
  destruct Z as [-> | NZ]; [cbn; apply Permutation_refl|].
  rewrite (get_unfold n s NZ).
  destruct (is_nil (running s)).
  - pose proof (take_ready_perm (Some 1%nat) (now s) (qS s) None) as M1.
    destruct (take_ready (Some 1%nat) (now s) None (qS s)) as [[bs rs] md]. destruct bs as [|b bs'].
    + pose proof (take_ready_perm n (now s) (qC s) md) as M2.
      destruct (take_ready n (now s) md (qC s)) as [[bc rc] md2].
      rewrite (Permutation_app_head (qS s) M2).
      rewrite !app_assoc. apply Permutation_app_tail. apply Permutation_app_comm.
    + rewrite app_assoc. apply Permutation_app_tail. exact M1.
  - pose proof (take_ready_perm n (now s) (qC s) None) as M2.
    destruct (take_ready n (now s) None (qC s)) as [[bc rc] md2].
    rewrite (Permutation_app_head (qS s) M2).
    rewrite !app_assoc. apply Permutation_app_tail. apply Permutation_app_comm.
Qed.

(* ---- association lists (Contract.lookup / setk and Sched.lookupN / setN / removeK) ---- *)
Section Assoc.
  Context {K : Type} (eqb : K -> K -> bool).
  Hypothesis eqb_spec : forall a b, eqb a b = true <-> a = b.

  Lemma eqb_refl' a : eqb a a = true.
  Proof. apply eqb_spec. reflexivity. Qed.
  Lemma eqb_neq a b : a <> b -> eqb a b = false.
  Proof. intros H. destruct (eqb a b) eqn:E; [apply eqb_spec in E; contradiction|reflexivity]. Qed.

  Lemma lookup_setk_same {V} k (v : V) l : lookup eqb k (setk eqb k v l) = Some v.
  Proof.
    induction l as [|[k' v'] t IH]; cbn [setk lookup].
    - rewrite eqb_refl'. reflexivity.
    - destruct (eqb k k') eqn:E; cbn [lookup]; rewrite E; [reflexivity|exact IH].
  Qed.
  Lemma lookup_setk_other {V} k k2 (v : V) l : k2 <> k -> lookup eqb k2 (setk eqb k v l) = lookup eqb k2 l.
  Proof.
    intros NE. induction l as [|[k' v'] t IH]; cbn [setk lookup].
    - rewrite (eqb_neq k2 k NE). reflexivity.
    - destruct (eqb k k') eqn:E; cbn [lookup].
      + apply eqb_spec in E. subst k'. rewrite (eqb_neq k2 k NE). reflexivity.
      + rewrite IH. reflexivity.
  Qed.
  Lemma lookup_in {V} k (v : V) l : lookup eqb k l = Some v -> In (k, v) l.
  Proof.
    induction l as [|[k' v'] t IH]; cbn [lookup]; [discriminate|].
    destruct (eqb k k') eqn:E; [apply eqb_spec in E; subst; intros X; inversion X; left; reflexivity|].
    intros X. right. exact (IH X).
  Qed.
  Lemma in_lookup {V} k (v : V) l : In (k, v) l -> lookup eqb k l <> None.
  Proof.
    induction l as [|[k' v'] t IH]; cbn [lookup]; [intros []|].
    intros [X|X].
    - inversion X; subst. rewrite eqb_refl'. discriminate.
    - destruct (eqb k k'); [discriminate|exact (IH X)].
  Qed.
  (* every binding of a list built by setk is the one lookup finds *)
  Definition nodupk {V} (l : list (K * V)) : Prop := NoDup (map fst l).
  Lemma nodupk_lookup {V} k (v : V) l : nodupk l -> In (k, v) l -> lookup eqb k l = Some v.
  Proof.
    unfold nodupk. induction l as [|[k' v'] t IH]; cbn [lookup map]; [intros _ []|].
    intros ND [X|X].
    - inversion X; subst. rewrite eqb_refl'. reflexivity.
    - inversion ND as [|? ? NI ND']; subst. destruct (eqb k k') eqn:E.
      + apply eqb_spec in E. subst k'. exfalso. apply NI. cbn. apply in_map_iff. exists (k, v). split; auto.
      + exact (IH ND' X).
  Qed.
  Lemma setk_keys {V} k (v : V) l x : In x (map fst (setk eqb k v l)) <-> x = k \/ In x (map fst l).
  Proof.
    induction l as [|[k' v'] t IH]; cbn [setk map In fst].
    - split; [intros [X|[]]; auto | intros [X|[]]; auto].
    - destruct (eqb k k') eqn:E; cbn [map In fst].
      + apply eqb_spec in E. subst k'. split; [tauto|]. intros [X|X]; [left; auto|exact X].
      + rewrite IH. tauto.
  Qed.
  Lemma nodupk_setk {V} k (v : V) l : nodupk l -> nodupk (setk eqb k v l).
  Proof.
    unfold nodupk. induction l as [|[k' v'] t IH]; cbn [setk map fst]; intros ND.
    - constructor; [intros []|constructor].
    - inversion ND as [|? ? NI ND']; subst. destruct (eqb k k') eqn:E; cbn [map fst].
      + constructor; assumption.
      + constructor; [|exact (IH ND')]. rewrite setk_keys. intros [X|X]; [|exact (NI X)].
        subst k'. rewrite eqb_refl' in E. discriminate.
  Qed.

  (* Sched's counters *)
  Lemma lookupN_setN_same k v l : lookupN eqb k (setN eqb k v l) = Some v.
  Proof.
    induction l as [|[k' v'] t IH]; cbn [setN lookupN].
    - rewrite eqb_refl'. reflexivity.
    - destruct (eqb k k') eqn:E; cbn [lookupN]; rewrite E; [reflexivity|exact IH].
  Qed.
  Lemma lookupN_setN_other k k2 v l : k2 <> k -> lookupN eqb k2 (setN eqb k v l) = lookupN eqb k2 l.
  Proof.
    intros NE. induction l as [|[k' v'] t IH]; cbn [setN lookupN].
    - rewrite (eqb_neq k2 k NE). reflexivity.
    - destruct (eqb k k') eqn:E; cbn [lookupN].
      + apply eqb_spec in E. subst k'. rewrite (eqb_neq k2 k NE). reflexivity.
      + rewrite IH. reflexivity.
  Qed.
  Lemma lookupN_removeK_same k l : lookupN eqb k (removeK eqb k l) = None.
  Proof.
    induction l as [|[k' v'] t IH]; cbn [removeK lookupN]; [reflexivity|].
    destruct (eqb k k') eqn:E; [exact IH|]. cbn [lookupN]. rewrite E. exact IH.
  Qed.
  Lemma lookupN_removeK_other k k2 l : k2 <> k -> lookupN eqb k2 (removeK eqb k l) = lookupN eqb k2 l.
  Proof.
    intros NE. induction l as [|[k' v'] t IH]; cbn [removeK lookupN]; [reflexivity|].
    destruct (eqb k k') eqn:E.
    - apply eqb_spec in E. subst k'. rewrite (eqb_neq k2 k NE). exact IH.
    - cbn [lookupN]. rewrite IH. reflexivity.
  Qed.
  Lemma setN_keys k v l x : In x (map fst (setN eqb k v l)) <-> x = k \/ In x (map fst l).
  Proof.
    induction l as [|[k' v'] t IH]; cbn [setN map In fst].
    - split; [intros [X|[]]; auto | intros [X|[]]; auto].
    - destruct (eqb k k') eqn:E; cbn [map In fst].
      + apply eqb_spec in E. subst k'. split; [tauto|]. intros [X|X]; [left; auto|exact X].
      + rewrite IH. tauto.
  Qed.
  Lemma nodupk_setN k v l : nodupk l -> nodupk (setN eqb k v l).
  Proof.
    unfold nodupk. induction l as [|[k' v'] t IH]; cbn [setN map fst]; intros ND.
    - constructor; [intros []|constructor].
    - inversion ND as [|? ? NI ND']; subst. destruct (eqb k k') eqn:E; cbn [map fst].
      + constructor; assumption.
      + constructor; [|exact (IH ND')]. rewrite setN_keys. intros [X|X]; [|exact (NI X)].
        subst k'. rewrite eqb_refl' in E. discriminate.
  Qed.
  Lemma removeK_keys k l x : In x (map fst (removeK eqb k l)) -> In x (map fst l).
  Proof.
    induction l as [|[k' v'] t IH]; cbn [removeK map In fst]; [tauto|].
    destruct (eqb k k'); cbn [map In fst]; tauto.
  Qed.
  Lemma nodupk_removeK k l : nodupk l -> nodupk (removeK eqb k l).
  Proof.
    unfold nodupk. induction l as [|[k' v'] t IH]; cbn [removeK map fst]; intros ND; [constructor|].
    inversion ND as [|? ? NI ND']; subst. destruct (eqb k k'); [exact (IH ND')|]. cbn [map fst].
    constructor; [|exact (IH ND')]. intros X. apply NI. exact (removeK_keys _ _ _ X).
  Qed.
  Lemma nodupk_lookupN k v l : nodupk l -> In (k, v) l -> lookupN eqb k l = Some v.
  Proof.
    unfold nodupk. induction l as [|[k' v'] t IH]; cbn [lookupN map]; [intros _ []|].
    intros ND [X|X].
    - inversion X; subst. rewrite eqb_refl'. reflexivity.
    - inversion ND as [|? ? NI ND']; subst. destruct (eqb k k') eqn:E.
      + apply eqb_spec in E. subst k'. exfalso. apply NI. cbn. apply in_map_iff. exists (k, v). split; auto.
      + exact (IH ND' X).
  Qed.
  Lemma lookupN_in k v l : lookupN eqb k l = Some v -> In (k, v) l.
  Proof.
    induction l as [|[k' v'] t IH]; cbn [lookupN]; [discriminate|].
    destruct (eqb k k') eqn:E; [apply eqb_spec in E; subst; intros X; inversion X; left; reflexivity|].
    intros X. right. exact (IH X).
  Qed.
  Lemma in_lookupN k v l : In (k, v) l -> lookupN eqb k l <> None.
  Proof.
    induction l as [|[k' v'] t IH]; cbn [lookupN]; [intros []|].
    intros [X|X].
    - inversion X; subst. rewrite eqb_refl'. discriminate.
    - destruct (eqb k k'); [discriminate|exact (IH X)].
  Qed.
End Assoc.

Lemma rk_eqb_spec a b : rk_eqb a b = true <-> a = b.
Proof.
  destruct a as [a1 a2], b as [b1 b2]. unfold rk_eqb. cbn [fst snd].
  rewrite andb_true_iff, !N.eqb_eq. split; [intros [-> ->]; reflexivity|intros X; inversion X; auto].
Qed.
Lemma rkey_eqb_spec a b : rkey_eqb a b = true <-> a = b.
Proof. exact (rk_eqb_spec a b). Qed.
Lemma retr_eqb_spec a b : retr_eqb a b = true <-> a = b.
Proof. unfold retr_eqb. apply option_eqb_spec. apply pair_eqb_spec; apply N.eqb_eq. Qed.
Lemma optN_eqb_spec (a b : option N) : option_eqb N.eqb a b = true <-> a = b.
Proof. apply option_eqb_spec. apply N.eqb_eq. Qed.
Lemma atkey_eqb_spec a b : atkey_eqb a b = true <-> a = b.
Proof.
  destruct a as [[[f r] s] rt], b as [[[f' r'] s'] rt']. unfold atkey_eqb.
  rewrite !andb_true_iff, !N.eqb_eq, optN_eqb_spec, retr_eqb_spec.
  split; [intros [[[-> ->] ->] ->]; reflexivity|intros X; inversion X; auto].
Qed.

(* ---- the items of a state ---- *)
Definition is_endedb (p : phase) : bool := match p with Ended => true | _ => false end.
Definition live_run (r : list (entry * phase)) : list entry :=
  map fst (filter (fun x => negb (is_endedb (snd x))) r).
Definition finals (ms : list msg) : list msg := filter (fun m => negb (m_retried m)) ms.

Definition item := (N * option N * N * N)%type.          (* feature, rule, scenarios of the feature, of the rule *)
Definition it_f (i : item) : N := match i with (f, _, _, _) => f end.
Definition it_r (i : item) : option N := match i with (_, r, _, _) => r end.
Definition it_nf (i : item) : N := match i with (_, _, nf, _) => nf end.
Definition it_nr (i : item) : N := match i with (_, _, _, nr) => nr end.
Definition item_of_entry (e : entry) : item := (e_f e, e_r e, e_nf e, e_nr e).
Definition item_of_msg (m : msg) : item := (m_f m, m_r m, m_nf m, m_nr m).
Definition items (q : list entry) (run : list (entry * phase)) (ms : list msg) : list item :=
  map item_of_entry (q ++ live_run run) ++ map item_of_msg (finals ms).

Lemma live_run_app a b : live_run (a ++ b) = live_run a ++ live_run b.
Proof. unfold live_run. rewrite filter_app, map_app. reflexivity. Qed.
Lemma live_run_dispatched b : live_run (map (fun e => (e, Dispatched)) b) = b.
Proof. induction b as [|e b IH]; [reflexivity|]. unfold live_run in *. cbn. rewrite IH. reflexivity. Qed.
Lemma finals_app a b : finals (a ++ b) = finals a ++ finals b.
Proof. unfold finals. apply filter_app. Qed.

Lemma remove_ended_live l r : remove_ended l = Some r -> live_run r = live_run l.
Proof.
  revert r. induction l as [|[e p] t IH]; intros r H; cbn [remove_ended] in H; [discriminate|].
  destruct p.
  - destruct (remove_ended t) as [t'|]; [|discriminate]. inversion H; subst. unfold live_run in *. cbn.
    rewrite (IH t' eq_refl). reflexivity.
  - destruct (remove_ended t) as [t'|]; [|discriminate]. inversion H; subst. unfold live_run in *. cbn.
    rewrite (IH t' eq_refl). reflexivity.
  - inversion H; subst. reflexivity.
Qed.

(* Dispatched -> Opened keeps the live entries; Opened -> Ended removes exactly that one *)
Lemma set_phase_open_live k l e r : set_phase k Dispatched Opened l = Some (e, r) -> live_run r = live_run l.
Proof.
  revert r. induction l as [|[e0 p] t IH]; intros r H; cbn [set_phase] in H; [discriminate|].
  destruct (akey_eqb (key_of e0) k).
  - destruct p; try discriminate. inversion H; subst. reflexivity.
  - destruct (set_phase k Dispatched Opened t) as [[e' t']|]; [|discriminate]. inversion H; subst.
    unfold live_run in *. cbn. destruct (negb (is_endedb p)); cbn; rewrite (IH t' eq_refl); reflexivity.
Qed.
Lemma set_phase_end_live k l e r : set_phase k Opened Ended l = Some (e, r) ->
  Permutation (live_run l) (e :: live_run r).
Proof.
  revert r. induction l as [|[e0 p] t IH]; intros r H; cbn [set_phase] in H; [discriminate|].
  destruct (akey_eqb (key_of e0) k).
  - destruct p; try discriminate. inversion H; subst. unfold live_run. cbn. apply Permutation_refl.
  - destruct (set_phase k Opened Ended t) as [[e' t']|]; [|discriminate]. inversion H; subst.
    specialize (IH t' eq_refl). unfold live_run in *. cbn. destruct (negb (is_endedb p)); cbn.
    + rewrite IH. apply perm_swap.
    + exact IH.
Qed.

Lemma dedup_in {A} (eqb : A -> A -> bool) (spec : forall a b, eqb a b = true <-> a = b) l x :
  In x (dedup eqb l) <-> In x l.
Proof.
  induction l as [|a t IH]; [tauto|]. cbn [dedup]. destruct t as [|b t'].
  - tauto.
  - destruct (eqb a b) eqn:E.
    + apply spec in E. subst b. rewrite IH. cbn [In]. tauto.
    + cbn [In]. rewrite IH. cbn [In]. tauto.
Qed.
