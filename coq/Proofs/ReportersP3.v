(* ReportersP3.v — C14, libtest: the report states exactly the facts of the stream (in order), every `started`
   line has exactly one result line, the suite totals agree with the entries, hence `c14_libtest_ok`.
   Everything is Qed-closed; no axioms. *)
From CV Require Import Model.Base Model.Events Model.Contract Model.Stats Model.StatsSpec Model.Reporters
  Model.ReportersSpec Proofs.BaseP Proofs.ReportersP.
From Coq Require Import Lia.

(* ================= the hypotheses, as executable predicates ================= *)
Definition is_pf (e : ev) : bool := match e with EvParsingFinished _ _ _ _ _ => true | _ => false end.
(* the stream contains ParsingFinished (until it arrives the writer only buffers) *)
Definition has_pf (es : list ev) : bool := existsb is_pf es.
(* run-Finished, if present, is the last event (guaranteed by the contract, see [contract_fin_only_last]) *)
Fixpoint fin_only_last (es : list ev) : bool :=
  match es with
  | [] => true
  | EvFinished :: t => match t with [] => true | _ => false end
  | _ :: t => fin_only_last t
  end.

(* the identity of a step inside the stream: feature, rule, scenario, retries, background?, step id *)
Definition skey := (N * option N * N * retr * bool * N)%type.
Definition skey_eqb (a b : skey) : bool :=
  match a, b with
  | (f, r, s, rt, bg, st), (f', r', s', rt', bg', st') =>
    (f =? f') && option_eqb N.eqb r r' && (s =? s') && retr_eqb rt rt' && Bool.eqb bg bg' && (st =? st')
  end.
Definition is_st_started (x : stepev) : bool := match x with StStarted => true | _ => false end.
(* key of a step event, and whether it is the Started event *)
Definition step_key (e : ev) : option (skey * bool) :=
  match e with
  | EvScen f r s rt (ScBg st x) => Some ((f, r, s, rt, true, st), is_st_started x)
  | EvScen f r s rt (ScStep st x) => Some ((f, r, s, rt, false, st), is_st_started x)
  | _ => None
  end.
(* every step Started is followed, before any other step event of ANY scenario, by exactly one result of the
   same key; every result is preceded by its Started; nothing is left open at the end *)
Fixpoint lt_wf (open : option skey) (es : list ev) : bool :=
  match es with
  | [] => match open with None => true | Some _ => false end
  | e :: t =>
    match step_key e with
    | None => lt_wf open t
    | Some (k, true) => match open with None => lt_wf (Some k) t | Some _ => false end
    | Some (k, false) => match open with Some k' => skey_eqb k' k && lt_wf None t | None => false end
    end
  end.
Definition steps_bracketed (es : list ev) : bool := lt_wf None es.

(* ================= small library ================= *)
Lemma leqb_refl (a : list N) : list_eqb N.eqb a a = true.
Proof. exact (str_eqb_refl a). Qed.

Lemma skey_eqb_eq a b : skey_eqb a b = true -> a = b.
Proof.
  destruct a as [[[[[f r] s] rt] bg] st], b as [[[[[f' r'] s'] rt'] bg'] st']. unfold skey_eqb.
  rewrite !andb_true_iff. intros [[[[[H1 H2] H3] H4] H5] H6].
  apply N.eqb_eq in H1, H3, H6. apply (option_eqb_spec N.eqb N.eqb_eq) in H2.
  apply (option_eqb_spec _ (pair_eqb_spec _ _ N.eqb_eq N.eqb_eq)) in H4. apply Bool.eqb_prop in H5.
  subst. reflexivity.
Qed.

Lemma same_multiset_refl l : same_multiset l l = true.
Proof.
  induction l as [|x t IH]; [reflexivity|]. cbn [same_multiset remove1]. unfold fact_eqb. rewrite leqb_refl. exact IH.
Qed.

Lemma count_cons p e t : count p (e :: t) = (if p e then 1 else 0) + count p t.
Proof. unfold count. cbn [filter]. destruct (p e); cbn [List.length]; lia. Qed.
Lemma count_app p a b : count p (a ++ b) = count p a + count p b.
Proof. unfold count. rewrite filter_app, app_length. lia. Qed.

Lemma split_first_pf es : has_pf es = true ->
  exists pre a b c d e post, es = pre ++ EvParsingFinished a b c d e :: post /\ has_pf pre = false.
Proof.
  unfold has_pf. induction es as [|x t IH]; [discriminate|]. cbn [existsb]. destruct (is_pf x) eqn:E.
  - intros _. destruct x; try discriminate E. exists []. do 5 eexists. exists t. split; reflexivity.
  - cbn [orb]. intros H. destruct (IH H) as (pre & a & b & c & d & e & post & -> & NP).
    exists (x :: pre), a, b, c, d, e, post. split; [reflexivity|]. cbn [existsb]. rewrite E, NP. reflexivity.
Qed.

Lemma split_fin es : fin_only_last es = true ->
  existsb is_finished_ev es = false \/
  exists es', es = es' ++ [EvFinished] /\ existsb is_finished_ev es' = false.
Proof.
  induction es as [|x t IH]; [left; reflexivity|]. intros H.
  destruct x; cbn [fin_only_last] in H;
    try (destruct (IH H) as [NF|(es' & -> & NF)];
         [left; cbn [existsb is_finished_ev orb]; exact NF
         |right; eexists (_ :: es'); split; [reflexivity|cbn [existsb is_finished_ev orb]; exact NF]]).
  destruct t; [|discriminate]. right. exists []. split; reflexivity.
Qed.

Lemma before_finished_nofin es : existsb is_finished_ev es = false -> before_finished es = es.
Proof.
  induction es as [|x t IH]; [reflexivity|]. cbn [existsb]. intros H. apply orb_false_iff in H as [H1 H2].
  destruct x; try discriminate H1; cbn [before_finished]; rewrite (IH H2); reflexivity.
Qed.
Lemma before_finished_snoc es : existsb is_finished_ev es = false -> before_finished (es ++ [EvFinished]) = es.
Proof.
  induction es as [|x t IH]; [reflexivity|]. cbn [existsb]. intros H. apply orb_false_iff in H as [H1 H2].
  destruct x; try discriminate H1; cbn [before_finished app]; rewrite (IH H2); reflexivity.
Qed.

(* the contract (even its non-sequential variant) guarantees [fin_only_last] *)
Lemma contract_fin_only_last seq : forall es c c', crun seq c es = Some c' -> c_finished c = false -> fin_only_last es = true.
Proof.
  induction es as [|x t IH]; [reflexivity|]. intros c c' R NF. cbn [crun] in R.
  destruct (cstep seq c x) as [c1|] eqn:S; [|discriminate].
  assert (KEEP : is_finished_ev x = false -> c_finished c1 = false).
  { intros NX. unfold cstep in S. rewrite NF in S.
    destruct x as [| | | |f|f|f r|f r|f r s rt y]; try discriminate NX;
      try (unfold guard in S; match type of S with (if ?b then _ else _) = _ => destruct b end; [|discriminate];
           inversion S; subst; exact NF);
      try (inversion S; subst; exact NF).
    destruct y; unfold guard in S; match type of S with (if ?b then _ else _) = _ => destruct b end; try discriminate;
      inversion S; subst; exact NF. }
  destruct x; cbn [fin_only_last]; try (apply (IH c1 c' R); apply KEEP; reflexivity).
  (* Finished: nothing is accepted afterwards *)
  destruct t as [|y t]; [reflexivity|]. exfalso.
  unfold cstep in S. rewrite NF in S. unfold guard in S.
  match type of S with (if ?b then _ else _) = _ => destruct b end; [|discriminate]. inversion S; subst.
  cbn [crun] in R. unfold cstep in R. cbn [set_finished c_finished] in R. discriminate R.
Qed.
Corollary normalized_prefix_fin_only_last es : normalized_prefix es = true -> fin_only_last es = true.
Proof.
  unfold normalized_prefix. destruct (crun true cinit es) as [c'|] eqn:R; [|discriminate]. intros _.
  exact (contract_fin_only_last true es cinit c' R eq_refl).
Qed.

(* ================= folds of a line-producing handler, as a structural recursion ================= *)
Section G.
  Variable h : ltw -> ev -> ltw * list rf.
  Fixpoint rung (w : ltw) (es : list ev) : ltw * list rf :=
    match es with
    | [] => (w, [])
    | e :: t => (fst (rung (fst (h w e)) t), snd (h w e) ++ snd (rung (fst (h w e)) t))
    end.
  Lemma foldg_rung : forall es w acc,
    fold_left (fun a e => let '(w', o) := h (fst a) e in (w', snd a ++ o)) es (w, acc)
    = (fst (rung w es), acc ++ snd (rung w es)).
  Proof.
    induction es as [|e t IH]; intros w acc; cbn [fold_left rung fst snd].
    - rewrite app_nil_r. reflexivity.
    - destruct (h w e) as [w' o]. cbn [fst snd]. rewrite IH, app_assoc. reflexivity.
  Qed.
  Lemma rung_app : forall a w b,
    rung w (a ++ b) = (fst (rung (fst (rung w a)) b), snd (rung w a) ++ snd (rung (fst (rung w a)) b)).
  Proof.
    induction a as [|e t IH]; intros w b; cbn [app rung fst snd].
    - destruct (rung w b); reflexivity.
    - rewrite IH. cbn [fst snd]. rewrite app_assoc. reflexivity.
  Qed.
End G.

Section P3.
  Variable has_path : N -> bool.
  Notation expand := (lt_expand has_path).
  Notation handle := (lt_handle_w has_path).

  Lemma lines_rung es : libtest_lines has_path es = snd (rung handle ltw_init es).
  Proof. unfold libtest_lines. rewrite foldg_rung. reflexivity. Qed.
  Lemma feed_rung w es : lt_feed has_path w es = rung expand w es.
  Proof. unfold lt_feed. rewrite foldg_rung. cbn [app]. destruct (rung expand w es); reflexivity. Qed.

  Lemma expand_parsed w e : lw_parsed (fst (expand w e)) = lw_parsed w.
  Proof.
    unfold lt_expand. destruct e as [| | | | | | | |f r s rt x]; try reflexivity.
    destruct x as [|b h|st y|st y|m|]; try reflexivity; [destruct h; try reflexivity| |];
      destruct (has_path f); reflexivity.
  Qed.
  Lemma rung_expand_parsed : forall l w, lw_parsed (fst (rung expand w l)) = lw_parsed w.
  Proof. induction l as [|e t IH]; intros w; cbn [rung fst]; [reflexivity|]. rewrite IH. apply expand_parsed. Qed.

  Lemma rung_parsed : forall l w, lw_parsed w = true -> rung handle w l = rung expand w l.
  Proof.
    induction l as [|e t IH]; intros w P; cbn [rung]; [reflexivity|].
    assert (E : handle w e = expand w e) by (unfold lt_handle_w; rewrite P; reflexivity).
    rewrite E. rewrite IH; [reflexivity|]. rewrite expand_parsed. exact P.
  Qed.

  Lemma rung_buffer : forall pre w, lw_parsed w = false -> has_pf pre = false ->
    rung handle w pre = (mk_ltw (lw_buf w ++ pre) false (lw_c w) (lw_fwp w), []).
  Proof.
    unfold has_pf. induction pre as [|e t IH]; intros w P NP; cbn [rung].
    - rewrite app_nil_r. destruct w as [b p c f]. cbn in P. subst p. reflexivity.
    - cbn [existsb] in NP. apply orb_false_iff in NP as [N1 N2].
      assert (E : handle w e = (mk_ltw (lw_buf w ++ [e]) false (lw_c w) (lw_fwp w), [])).
      { unfold lt_handle_w. rewrite P. destruct e; try reflexivity. discriminate N1. }
      rewrite E. cbn [fst snd]. rewrite (IH (mk_ltw (lw_buf w ++ [e]) false (lw_c w) (lw_fwp w)) eq_refl N2). cbn [fst snd lw_buf lw_c lw_fwp app].
      rewrite <- app_assoc. reflexivity.
  Qed.

  Definition w_parsed : ltw := mk_ltw [] true (mk_ltc 0 0 0 0 0 0) 0.

  (* the report = the expansion of ParsingFinished, then of the buffered events, then of the rest *)
  Lemma lines_split pre a b c d e post : has_pf pre = false ->
    libtest_lines has_path (pre ++ EvParsingFinished a b c d e :: post)
    = snd (rung expand w_parsed (EvParsingFinished a b c d e :: pre ++ post)).
  Proof.
    intros NP. rewrite lines_rung, rung_app, (rung_buffer pre ltw_init eq_refl NP). cbn [fst snd app].
    change (rung handle ?w (?x :: ?t)) with (fst (rung handle (fst (handle w x)) t), snd (handle w x) ++ snd (rung handle (fst (handle w x)) t)).
    cbn [fst snd].
    assert (E : handle (mk_ltw (lw_buf ltw_init ++ pre) false (lw_c ltw_init) (lw_fwp ltw_init)) (EvParsingFinished a b c d e)
                = rung expand w_parsed (EvParsingFinished a b c d e :: pre)).
    { unfold lt_handle_w. cbn [lw_parsed lw_buf lw_c lw_fwp ltw_init app]. rewrite feed_rung. reflexivity. }
    rewrite E. rewrite rung_parsed by (rewrite rung_expand_parsed; reflexivity).
    rewrite (app_comm_cons pre post), (rung_app expand (EvParsingFinished a b c d e :: pre)). reflexivity.
  Qed.

  (* ================= 1. facts ================= *)
  (* element 6 of a name IS the current attempt, for every `retr` (0 when there is none / when current = 0) *)
  Lemma lt_name_attempt f cnt r s rt what st : nth0 (lt_name f cnt r s rt what st) 6 = cur_of_retr rt.
  Proof. destruct rt as [[[|c] l]|]; reflexivity. Qed.

  Lemma libtest_facts_app a b : libtest_facts (a ++ b) = libtest_facts a ++ libtest_facts b.
  Proof. unfold libtest_facts. apply flat_map_app. Qed.

  (* per event, for EVERY writer state and EVERY has_path: lt_fact never looks at the path-less counter *)
  Lemma expand_facts w e : libtest_facts (snd (expand w e)) = map anon_parse (facts_of_event true e).
  Proof.
    unfold lt_expand.
    destruct e as [|fe re se ste er|id| |f|f|f r|f r|f r s rt x]; try reflexivity.
    destruct x as [|b h|st y|st y|m|]; try reflexivity.
    - destruct h as [| |p]; try reflexivity.
      destruct (has_path f), b, r as [r|], rt as [[[|c] l]|]; reflexivity.
    - destruct (has_path f), y as [| | |k], r as [r|], rt as [[[|c] l]|]; reflexivity.
    - destruct (has_path f), y as [| | |k], r as [r|], rt as [[[|c] l]|]; reflexivity.
  Qed.

  Lemma rung_facts : forall l w,
    libtest_facts (snd (rung expand w l)) = map anon_parse (flat_map (facts_of_event true) l).
  Proof.
    induction l as [|e t IH]; intros w; cbn [rung snd flat_map]; [reflexivity|].
    rewrite libtest_facts_app, expand_facts, IH, map_app. reflexivity.
  Qed.

  Lemma facts_fin_only_last es : fin_only_last es = true ->
    stream_facts true es = flat_map (facts_of_event true) es.
  Proof.
    unfold stream_facts. induction es as [|x t IH]; [reflexivity|]. intros H.
    destruct x; cbn [fin_only_last] in H; cbn [before_finished flat_map]; try (rewrite (IH H); reflexivity).
    destruct t; [reflexivity|discriminate].
  Qed.

  (* C14 libtest (facts): the facts stated by the result lines are exactly the facts of the stream, IN ORDER.
     No hypothesis on has_path and none on `retr` is needed. *)
  Theorem libtest_facts_exact es : has_pf es = true -> fin_only_last es = true ->
    libtest_facts (libtest_lines has_path es) = map anon_parse (stream_facts true es).
  Proof.
    intros PF FL. rewrite (facts_fin_only_last es FL).
    destruct (split_first_pf es PF) as (pre & a & b & c & d & e & post & -> & NP).
    rewrite (lines_split pre a b c d e post NP), rung_facts.
    cbn [flat_map facts_of_event app]. rewrite !flat_map_app. reflexivity.
  Qed.

  Corollary libtest_facts_multiset es : has_pf es = true -> fin_only_last es = true ->
    same_multiset (map anon_parse (stream_facts true es)) (libtest_facts (libtest_lines has_path es)) = true.
  Proof. intros PF FL. rewrite (libtest_facts_exact es PF FL). apply same_multiset_refl. Qed.

  (* ================= 3a. totals (no hypothesis on has_path either) ================= *)
  Definition is_sr (r : rf) : bool := match r with RSuiteResult _ _ _ _ => true | _ => false end.
  Definition nosr (rfs : list rf) : bool := forallb (fun r => negb (is_sr r)) rfs.

  Lemma expand_nosr w e : is_finished_ev e = false -> nosr (snd (expand w e)) = true.
  Proof.
    unfold lt_expand. destruct e as [| | | | | | | |f r s rt x]; try reflexivity; try discriminate. intros _.
    destruct x as [|b h|st y|st y|m|]; try reflexivity; [destruct h; try reflexivity| |];
      destruct (has_path f); reflexivity.
  Qed.
  Lemma rung_nosr : forall l w, existsb is_finished_ev l = false -> nosr (snd (rung expand w l)) = true.
  Proof.
    induction l as [|e t IH]; intros w NF; cbn [rung snd]; [reflexivity|].
    cbn [existsb] in NF. apply orb_false_iff in NF as [N1 N2].
    unfold nosr. rewrite forallb_app. apply andb_true_iff. split; [apply expand_nosr; exact N1|apply IH; exact N2].
  Qed.
  Lemma nosr_forallb (g : rf -> bool) l : (forall r, is_sr r = false -> g r = true) -> nosr l = true -> forallb g l = true.
  Proof.
    intros G. induction l as [|x t IH]; [reflexivity|]. unfold nosr. cbn [forallb]. intros H.
    apply andb_true_iff in H as [H1 H2]. rewrite (G x), (IH H2); [reflexivity|].
    destruct (is_sr x); [discriminate|reflexivity].
  Qed.
  Lemma nosr_filter l : nosr l = true -> filter is_sr l = [].
  Proof.
    induction l as [|x t IH]; [reflexivity|]. unfold nosr. cbn [forallb filter]. intros H.
    apply andb_true_iff in H as [H1 H2]. destruct (is_sr x); [discriminate|]. exact (IH H2).
  Qed.
  Lemma nosr_kcount_sr k ok p f i : kcount k [RSuiteResult ok p f i] = 0.
  Proof. reflexivity. Qed.

  Lemma expand_retried w e :
    lt_retried (lw_c (fst (expand w e))) = lt_retried (lw_c w) + (if is_step_failed_retried e then 1 else 0).
  Proof.
    unfold lt_expand, is_step_failed_retried.
    destruct e as [| | | | | | | |f r s rt x]; cbn [step_of fst lw_c lt_count lt_retried]; try lia.
    destruct x as [|b h|st y|st y|m|]; cbn [step_of fst lw_c]; try lia.
    - destruct h; cbn [fst lw_c]; try lia. destruct (has_path f); cbn [fst lw_c lt_count lt_retried]; lia.
    - destruct (has_path f); cbn [fst lw_c lt_count]; destruct y as [| | |k]; cbn [lt_retried]; try lia;
        destruct (is_retried_failure rt k); cbn [lt_retried]; lia.
    - destruct (has_path f); cbn [fst lw_c lt_count]; destruct y as [| | |k]; cbn [lt_retried]; try lia;
        destruct (is_retried_failure rt k); cbn [lt_retried]; lia.
  Qed.
  Lemma rung_retried : forall l w,
    lt_retried (lw_c (fst (rung expand w l))) = lt_retried (lw_c w) + count is_step_failed_retried l.
  Proof.
    induction l as [|e t IH]; intros w; cbn [rung fst].
    - unfold count. cbn. lia.
    - rewrite IH, expand_retried, count_cons. lia.
  Qed.

  Lemma rung_linv l : linv (fst (rung expand w_parsed l)) (snd (rung expand w_parsed l)).
  Proof.
    assert (I0 : linv w_parsed ([] ++ [])) by (unfold linv; cbn; auto).
    assert (G0 : good ([] ++ [])) by (intros pre ok p f i post E; destruct pre; discriminate E).
    destruct (feed_inv has_path l w_parsed [] [] I0 G0) as [I _]. rewrite foldg_rung in I. cbn [fst snd app] in I. exact I.
  Qed.

  (* C14 libtest (totals): the suite-result line (there is one iff the run finished) states totals that agree
     with the entries: passed = ok lines, ignored = ignored lines, failed + retried step failures = failed lines,
     verdict ok iff failed = 0 *)
  Theorem libtest_totals_ok es : has_pf es = true -> fin_only_last es = true ->
    lt_totals_ok es (libtest_lines has_path es) = true.
  Proof.
    intros PF FL. destruct (split_fin es FL) as [NF|(es' & -> & NF)].
    - (* the run did not finish: no suite-result line *)
      destruct (split_first_pf es PF) as (pre & a & b & c & d & e & post & -> & NP).
      rewrite (lines_split pre a b c d e post NP).
      set (L := EvParsingFinished a b c d e :: pre ++ post).
      assert (NS : nosr (snd (rung expand w_parsed L)) = true).
      { apply rung_nosr. subst L. rewrite existsb_app in NF. cbn [existsb is_finished_ev orb] in *.
        rewrite existsb_app. exact NF. }
      unfold lt_totals_ok. rewrite NF.
      change (fun r : rf => match r with RSuiteResult _ _ _ _ => true | _ => false end) with is_sr.
      rewrite (nosr_filter _ NS). rewrite andb_true_r.
      apply nosr_forallb; [|exact NS]. intros r; destruct r; try reflexivity; discriminate.
    - (* the run finished: exactly one suite-result line, the last one *)
      assert (PF' : has_pf es' = true).
      { unfold has_pf in *. rewrite existsb_app in PF. cbn in PF. rewrite !orb_false_r in PF. exact PF. }
      destruct (split_first_pf es' PF') as (pre & a & b & c & d & e & post & -> & NP).
      rewrite <- app_assoc. cbn [app]. rewrite (lines_split pre a b c d e (post ++ [EvFinished]) NP).
      set (L := EvParsingFinished a b c d e :: pre ++ post).
      replace (EvParsingFinished a b c d e :: pre ++ post ++ [EvFinished]) with (L ++ [EvFinished])
        by (subst L; cbn [app]; rewrite <- app_assoc; reflexivity).
      assert (NFL : existsb is_finished_ev L = false).
      { subst L. rewrite existsb_app in NF. cbn [existsb is_finished_ev orb] in *. rewrite existsb_app. exact NF. }
      rewrite rung_app. cbn [snd rung]. unfold lt_expand at 2. cbn [snd app].
      pose proof (rung_linv L) as (I1 & I2 & I3). pose proof (rung_retried L w_parsed) as RT.
      pose proof (rung_nosr L w_parsed NFL) as NS.
      set (wF := fst (rung expand w_parsed L)) in *. set (rfs := snd (rung expand w_parsed L)) in *.
      assert (CNT : count is_step_failed_retried (before_finished (pre ++ EvParsingFinished a b c d e :: post ++ [EvFinished]))
                    = count is_step_failed_retried L).
      { replace (pre ++ EvParsingFinished a b c d e :: post ++ [EvFinished])
          with ((pre ++ EvParsingFinished a b c d e :: post) ++ [EvFinished]) by (rewrite <- app_assoc; reflexivity).
        rewrite (before_finished_snoc _ NF). subst L. rewrite count_app, !count_cons, count_app.
        cbn [is_step_failed_retried step_of]. lia. }
      unfold lt_totals_ok. rewrite CNT.
      assert (FE : existsb is_finished_ev (pre ++ EvParsingFinished a b c d e :: post ++ [EvFinished]) = true).
      { rewrite existsb_app. cbn [existsb]. rewrite existsb_app. cbn. rewrite !orb_true_r. reflexivity. }
      rewrite FE.
      change (fun r : rf => match r with RSuiteResult _ _ _ _ => true | _ => false end) with is_sr.
      rewrite filter_app, (nosr_filter _ NS). cbn [filter is_sr app List.length N.of_nat].
      rewrite andb_true_r. rewrite forallb_app. apply andb_true_iff. split.
      + apply nosr_forallb; [|exact NS]. intros r; destruct r; try reflexivity; discriminate.
      + cbn [forallb]. rewrite andb_true_r.
        change lt_count_kind with kcount. rewrite !kcount_app, !nosr_kcount_sr.
        cbn [lw_c w_parsed lt_retried] in RT.
        rewrite Bool.eqb_reflx, andb_true_r. rewrite !andb_true_iff, !N.eqb_eq. repeat split; lia.
  Qed.

  (* ================= 2. pairing (needs: every feature has a path) ================= *)
  Hypothesis HP : forall f, has_path f = true.

  Definition st_kind (x : stepev) : N :=
    match x with StStarted => 0 | StPassed => 1 | StFailed _ => 2 | StSkipped => 3 end.
  (* the lines of one event when every feature has a path *)
  Definition ev_lines (c : ltc) (e : ev) : list rf :=
    match e with
    | EvParsingFinished _ _ _ st er => [RSuiteStarted (st + er)]
    | EvFinished =>
      let failed := lt_failed c + lt_parsing c + lt_hooks c in
      [RSuiteResult (failed =? 0) (lt_passed c) failed (lt_ignored c)]
    | EvParseErr _ => [RTest 0 (lt_parse_name (lt_parsing c + 1)); RTest 2 (lt_parse_name (lt_parsing c + 1))]
    | EvScen f r s rt (ScHook b (HFailed _)) =>
      [RTest 0 (lt_name f 0 r s rt (if b then 2 else 3) 0); RTest 2 (lt_name f 0 r s rt (if b then 2 else 3) 0)]
    | EvScen f r s rt (ScBg st x) => [RTest (st_kind x) (lt_name f 0 r s rt 1 st)]
    | EvScen f r s rt (ScStep st x) => [RTest (st_kind x) (lt_name f 0 r s rt 0 st)]
    | _ => []
    end.
  Lemma expand_lines w e : snd (expand w e) = ev_lines (lw_c w) e.
  Proof.
    unfold lt_expand. destruct e as [| | | | | | | |f r s rt x]; try reflexivity.
    destruct x as [|b h|st y|st y|m|]; try reflexivity; [destruct h; try reflexivity| |];
      rewrite (HP f); try reflexivity; destruct y; reflexivity.
  Qed.

  Definition key_name (k : skey) : list N :=
    match k with (f, r, s, rt, bg, st) => lt_name f 0 r s rt (if bg then 1 else 0) st end.
  Definition open_names (o : option skey) : list (list N) := match o with None => [] | Some k => [key_name k] end.

  (* a started line immediately followed by its failed line leaves the set of open names unchanged *)
  Lemma paired_self op nm rest : lt_paired_ms op (RTest 0 nm :: RTest 2 nm :: rest) = lt_paired_ms op rest.
  Proof. cbn [lt_paired_ms remove_name]. rewrite leqb_refl. reflexivity. Qed.

  Lemma rung_paired : forall l w o, lt_wf o l = true ->
    lt_paired_ms (open_names o) (snd (rung expand w l)) = true.
  Proof.
    induction l as [|e t IH]; intros w o WF.
    - destruct o; [discriminate WF|reflexivity].
    - cbn [rung snd]. rewrite expand_lines. generalize (fst (expand w e)) as w'. intros w'.
      generalize (lw_c w) as c. intros c.
      destruct e as [|fe re se ste er|id| |f|f|f r|f r|f r s rt x]; cbn [lt_wf step_key] in WF;
        try (cbn [ev_lines app lt_paired_ms]; exact (IH w' o WF)).
      + cbn [ev_lines app]. rewrite paired_self. exact (IH w' o WF).
      + destruct x as [|b h|st y|st y|m|]; cbn [lt_wf step_key] in WF;
          try (cbn [ev_lines app lt_paired_ms]; exact (IH w' o WF)).
        * destruct h as [| |p]; try (cbn [ev_lines app lt_paired_ms]; exact (IH w' o WF)).
          cbn [ev_lines app]. rewrite paired_self. exact (IH w' o WF).
        * destruct y as [| | |k]; cbn [is_st_started] in WF.
          -- destruct o; [discriminate WF|]. exact (IH w' (Some (f, r, s, rt, true, st)) WF).
          -- destruct o as [k'|]; [|discriminate WF]. apply andb_true_iff in WF as [E WF]. apply skey_eqb_eq in E. subst k'.
             cbn [ev_lines app st_kind open_names key_name lt_paired_ms remove_name]. rewrite leqb_refl. exact (IH w' None WF).
          -- destruct o as [k'|]; [|discriminate WF]. apply andb_true_iff in WF as [E WF]. apply skey_eqb_eq in E. subst k'.
             cbn [ev_lines app st_kind open_names key_name lt_paired_ms remove_name]. rewrite leqb_refl. exact (IH w' None WF).
          -- destruct o as [k'|]; [|discriminate WF]. apply andb_true_iff in WF as [E WF]. apply skey_eqb_eq in E. subst k'.
             cbn [ev_lines app st_kind open_names key_name lt_paired_ms remove_name]. rewrite leqb_refl. exact (IH w' None WF).
        * destruct y as [| | |k]; cbn [is_st_started] in WF.
          -- destruct o; [discriminate WF|]. exact (IH w' (Some (f, r, s, rt, false, st)) WF).
          -- destruct o as [k'|]; [|discriminate WF]. apply andb_true_iff in WF as [E WF]. apply skey_eqb_eq in E. subst k'.
             cbn [ev_lines app st_kind open_names key_name lt_paired_ms remove_name]. rewrite leqb_refl. exact (IH w' None WF).
          -- destruct o as [k'|]; [|discriminate WF]. apply andb_true_iff in WF as [E WF]. apply skey_eqb_eq in E. subst k'.
             cbn [ev_lines app st_kind open_names key_name lt_paired_ms remove_name]. rewrite leqb_refl. exact (IH w' None WF).
          -- destruct o as [k'|]; [|discriminate WF]. apply andb_true_iff in WF as [E WF]. apply skey_eqb_eq in E. subst k'.
             cbn [ev_lines app st_kind open_names key_name lt_paired_ms remove_name]. rewrite leqb_refl. exact (IH w' None WF).
  Qed.

  (* events that are not step events do not matter to the bracketing, wherever they stand *)
  Lemma lt_wf_skip e : step_key e = None -> forall a o b, lt_wf o (a ++ e :: b) = lt_wf o (a ++ b).
  Proof.
    intros NK. induction a as [|x t IH]; intros o b; cbn [app lt_wf].
    - rewrite NK. reflexivity.
    - destruct (step_key x) as [[k [|]]|]; destruct o; rewrite ?IH; reflexivity.
  Qed.

  (* C14 libtest (pairing): every started line has exactly one result line with the same name after it, and
     every result line has its started line *)
  Theorem libtest_paired es : has_pf es = true -> steps_bracketed es = true ->
    lt_paired None (libtest_lines has_path es) = true.
  Proof.
    intros PF WF. destruct (split_first_pf es PF) as (pre & a & b & c & d & e & post & -> & NP).
    rewrite (lines_split pre a b c d e post NP). unfold lt_paired.
    apply (rung_paired _ w_parsed None). unfold steps_bracketed in WF.
    rewrite (lt_wf_skip (EvParsingFinished a b c d e) eq_refl) in WF. exact WF.
  Qed.

  (* ================= 3b. the whole of C14 for libtest ================= *)
  Theorem libtest_c14 es :
    has_pf es = true -> fin_only_last es = true -> steps_bracketed es = true ->
    c14_libtest_ok es (libtest_lines has_path es) = true.
  Proof.
    intros PF FL WF. unfold c14_libtest_ok.
    rewrite (libtest_facts_multiset es PF FL), (libtest_paired es PF WF), (libtest_totals_ok es PF FL). reflexivity.
  Qed.
End P3.

(* in a normalized stream (prefix) Finished is last by the contract, so: *)
Corollary libtest_c14_normalized has_path es :
  (forall f, has_path f = true) -> normalized_prefix es = true -> has_pf es = true -> steps_bracketed es = true ->
  c14_libtest_ok es (libtest_lines has_path es) = true.
Proof.
  intros HP NM PF WF. exact (libtest_c14 has_path HP es PF (normalized_prefix_fin_only_last es NM) WF).
Qed.

(* ================= examples ================= *)
Definition all_paths : N -> bool := fun _ => true.

(* a feature with a rule; a parser error and a scenario event BEFORE ParsingFinished; a retried scenario whose
   first attempt fails in a step after a passed background step; the second attempt passes a step, skips one
   and fails in its after hook *)
Definition ex_stream : list ev :=
  [EvStarted; EvParseErr 7; EvFeatS 1; EvRuleS 1 2;
   EvScen 1 (Some 2) 3 (Some (0, 1)) ScStarted;
   EvParsingFinished 1 1 1 3 1;
   EvScen 1 (Some 2) 3 (Some (0, 1)) (ScHook true HStarted);
   EvScen 1 (Some 2) 3 (Some (0, 1)) (ScHook true HPassed);
   EvScen 1 (Some 2) 3 (Some (0, 1)) (ScBg 10 StStarted);
   EvScen 1 (Some 2) 3 (Some (0, 1)) (ScLog 99);
   EvScen 1 (Some 2) 3 (Some (0, 1)) (ScBg 10 StPassed);
   EvScen 1 (Some 2) 3 (Some (0, 1)) (ScStep 11 StStarted);
   EvScen 1 (Some 2) 3 (Some (0, 1)) (ScStep 11 (StFailed (EPanic 5)));
   EvScen 1 (Some 2) 3 (Some (0, 1)) ScFinished;
   EvScen 1 (Some 2) 3 (Some (1, 0)) ScStarted;
   EvScen 1 (Some 2) 3 (Some (1, 0)) (ScBg 10 StStarted);
   EvScen 1 (Some 2) 3 (Some (1, 0)) (ScBg 10 StPassed);
   EvScen 1 (Some 2) 3 (Some (1, 0)) (ScStep 11 StStarted);
   EvScen 1 (Some 2) 3 (Some (1, 0)) (ScStep 11 StPassed);
   EvScen 1 (Some 2) 3 (Some (1, 0)) (ScStep 12 StStarted);
   EvScen 1 (Some 2) 3 (Some (1, 0)) (ScStep 12 StSkipped);
   EvScen 1 (Some 2) 3 (Some (1, 0)) (ScHook false HStarted);
   EvScen 1 (Some 2) 3 (Some (1, 0)) (ScHook false (HFailed 9));
   EvScen 1 (Some 2) 3 (Some (1, 0)) ScFinished;
   EvRuleF 1 2; EvFeatF 1; EvFinished].

Example ex_hyps :
  normalized ex_stream = true /\ has_pf ex_stream = true /\ fin_only_last ex_stream = true
  /\ steps_bracketed ex_stream = true.
Proof. vm_compute. repeat split. Qed.
Example ex_c14 : c14_libtest_ok ex_stream (libtest_lines all_paths ex_stream) = true.
Proof. vm_compute. reflexivity. Qed.
(* the same through the theorem *)
Example ex_c14_thm : c14_libtest_ok ex_stream (libtest_lines all_paths ex_stream) = true.
Proof. apply libtest_c14; [reflexivity|vm_compute; reflexivity..]. Qed.
(* the facts, in order: parser error, bg passed, step failed (attempt 0), bg passed, step passed, step skipped,
   after hook failed (attempt 1) *)
Example ex_facts : libtest_facts (libtest_lines all_paths ex_stream) =
  [[3;0;0;0;0;0;0;0;2]; [1;1;1;2;3;0;10;1;1]; [1;1;1;2;3;0;11;0;2];
   [1;1;1;2;3;1;10;1;1]; [1;1;1;2;3;1;11;0;1]; [1;1;1;2;3;1;12;0;3]; [2;1;1;2;3;1;0;0;2]].
Proof. vm_compute. reflexivity. Qed.

(* ---- none of the hypotheses can be dropped ---- *)
(* without ParsingFinished nothing is ever written *)
Example need_pf : let es := [EvStarted; EvParseErr 1; EvFinished] in
  has_pf es = false /\ fin_only_last es = true /\ steps_bracketed es = true
  /\ c14_libtest_ok es (libtest_lines all_paths es) = false.
Proof. vm_compute. repeat split. Qed.
(* events after run-Finished are still expanded by the writer, but are not facts of the stream *)
Example need_fin_last : let es := [EvParsingFinished 0 0 0 0 1; EvFinished; EvParseErr 1] in
  has_pf es = true /\ fin_only_last es = false /\ steps_bracketed es = true
  /\ same_multiset (map anon_parse (stream_facts true es)) (libtest_facts (libtest_lines all_paths es)) = false.
Proof. vm_compute. repeat split. Qed.
(* a Started without result stays open *)
Example need_bracketed : let es := [EvParsingFinished 1 0 1 1 0; EvScen 1 None 1 None (ScStep 1 StStarted)] in
  has_pf es = true /\ fin_only_last es = true /\ steps_bracketed es = false
  /\ lt_paired None (libtest_lines all_paths es) = false.
Proof. vm_compute. repeat split. Qed.
(* K14a: for a path-less feature the started line and the result line carry different names *)
Example need_paths : let es := [EvParsingFinished 1 0 1 1 0; EvScen 1 None 1 None (ScStep 1 StStarted);
                               EvScen 1 None 1 None (ScStep 1 StPassed)] in
  has_pf es = true /\ fin_only_last es = true /\ steps_bracketed es = true
  /\ lt_paired None (libtest_lines (fun _ => false) es) = false
  /\ libtest_facts (libtest_lines (fun _ => false) es) = map anon_parse (stream_facts true es).
Proof. vm_compute. repeat split. Qed.
(* no side condition on `retr` is needed: element 6 of the name is the current attempt whatever the retries are
   (Lemma lt_name_attempt); e.g. current = 0 with retries left *)
Example retr_zero : let es := [EvParsingFinished 1 0 1 1 0; EvScen 1 None 1 (Some (0, 2)) (ScStep 1 StStarted);
                               EvScen 1 None 1 (Some (0, 2)) (ScStep 1 (StFailed (EPanic 0)))] in
  c14_libtest_ok es (libtest_lines all_paths es) = true.
Proof. vm_compute. reflexivity. Qed.
