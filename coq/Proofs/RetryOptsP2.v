(* RetryOptsP2.v — the known-finding class K18a narrowed to the tag the code
   actually consults (Model/RetryOptsSpec2.v): outside the NARROW class the
   transcription equals the specification; the narrow class implies the old one;
   inside the narrow class the two MAY differ (examples both ways, and the exact
   criterion). *)
From CV Require Import Model.Base Model.TagExpr Model.RetryOpts Model.RetryOptsSpec
  Model.RetryOptsSpec2 Proofs.BaseP Proofs.RetryOptsP.

Section P2.
  Variable parse_dur : str -> option N.
  Notation parse_tag := (parse_tag parse_dur).
  Notation parse_tags := (parse_tags parse_dur).
  Notation retry_form := (retry_form parse_dur).
  Notation malformed := (malformed_retry_tag parse_dur).

  (* ---- one level ---- *)
  Lemma first_retry_none tags :
    first_retry tags = None ->
    parse_tags tags = None /\ find_map retry_form tags = None.
  Proof.
    unfold first_retry. intros Hnone.
    assert (forall x, In x tags -> strip_prefix s_retry x = None) as Hall.
    { intros x Hx. pose proof (find_none _ _ Hnone x Hx) as Hp.
      unfold has_retry_prefix in Hp. destruct (strip_prefix s_retry x); [discriminate|reflexivity]. }
    split; apply find_map_none; intros x Hx; apply (not_retry_prefix parse_dur x); auto.
  Qed.

  Lemma first_retry_in tags t :
    first_retry tags = Some t -> In t tags /\ has_retry_prefix t = true.
  Proof. unfold first_retry. apply find_some. Qed.

  Lemma first_retry_some tags t :
    first_retry tags = Some t ->
    exists on od,
      parse_tag t = Some (on, od) /\
      parse_tags tags = Some (on, od) /\
      (malformed t = false -> find_map retry_form tags = Some (on, od)).
  Proof.
    unfold first_retry. induction tags as [|a tags IH]; cbn [find]; intros Hfind; [discriminate|].
    unfold has_retry_prefix at 1 in Hfind.
    destruct (strip_prefix s_retry a) as [rest|] eqn:Hp; cbn [is_some] in Hfind.
    - inversion Hfind; subst a.
      destruct (retry_prefix_always_some parse_dur t rest Hp) as (on & od & Hpt).
      exists on, od. split; [exact Hpt|]. split.
      + unfold RetryOpts.parse_tags. cbn [find_map]. rewrite Hpt. reflexivity.
      + intros Hwf. cbn [find_map].
        rewrite <- (well_formed_agree parse_dur t Hwf), Hpt. reflexivity.
    - destruct (IH Hfind) as (on & od & Hpt & Hps & Hwf).
      destruct (not_retry_prefix parse_dur a Hp) as [Ha1 Ha2].
      exists on, od. split; [exact Hpt|]. split.
      + unfold RetryOpts.parse_tags in *. cbn [find_map]. rewrite Ha1. exact Hps.
      + intros Hm. cbn [find_map]. rewrite Ha2. auto.
  Qed.

  (* ---- the three levels ---- *)
  (* what `parse_from_tags` hands to `apply_cli` *)
  Definition model_opts (ftags : list str) (rtags : option (list str)) (stags : list str) :=
    or_else (parse_tags stags)
      (or_else (match rtags with Some r => parse_tags r | None => None end)
               (parse_tags ftags)).

  Lemma rule_level_opt_tags rtags :
    match rtags with Some r => parse_tags r | None => None end = parse_tags (opt_tags rtags).
  Proof. destruct rtags; reflexivity. Qed.

  Lemma consulted_none ftags rtags stags :
    consulted ftags rtags stags = None ->
    model_opts ftags rtags stags = None /\ nearest parse_dur ftags rtags stags = None.
  Proof.
    unfold consulted, model_opts, nearest. rewrite rule_level_opt_tags. intros Hc.
    destruct (first_retry stags) as [t|] eqn:Hs; [discriminate|].
    destruct (first_retry (opt_tags rtags)) as [t|] eqn:Hr; [discriminate|].
    cbn [or_else] in Hc.
    destruct (first_retry_none _ Hs) as [-> ->].
    destruct (first_retry_none _ Hr) as [-> ->].
    destruct (first_retry_none _ Hc) as [-> ->].
    auto.
  Qed.

  Lemma consulted_some ftags rtags stags t :
    consulted ftags rtags stags = Some t ->
    exists on od,
      parse_tag t = Some (on, od) /\
      model_opts ftags rtags stags = Some (on, od) /\
      (malformed t = false -> nearest parse_dur ftags rtags stags = Some (on, od)).
  Proof.
    unfold consulted, model_opts, nearest. rewrite rule_level_opt_tags. intros Hc.
    destruct (first_retry stags) as [ts|] eqn:Hs.
    - cbn [or_else] in Hc. inversion Hc; subst ts.
      destruct (first_retry_some _ _ Hs) as (on & od & Hpt & Hps & Hwf).
      exists on, od. split; [exact Hpt|]. split.
      + rewrite Hps. reflexivity.
      + intros Hm. rewrite (Hwf Hm). reflexivity.
    - destruct (first_retry_none _ Hs) as [-> ->]. cbn [or_else] in Hc |- *.
      destruct (first_retry (opt_tags rtags)) as [tr|] eqn:Hr.
      + cbn [or_else] in Hc. inversion Hc; subst tr.
        destruct (first_retry_some _ _ Hr) as (on & od & Hpt & Hps & Hwf).
        exists on, od. split; [exact Hpt|]. split.
        * rewrite Hps. reflexivity.
        * intros Hm. rewrite (Hwf Hm). reflexivity.
      + destruct (first_retry_none _ Hr) as [-> ->]. cbn [or_else] in Hc |- *.
        destruct (first_retry_some _ _ Hc) as (on & od & Hpt & Hps & Hwf).
        exists on, od. auto.
  Qed.

  (* the part of `resolve_correct` that does not depend on the class:
     equal tag-derived options give equal results *)
  Lemma resolve_of_opts ftags rtags stags c :
    model_opts ftags rtags stags = nearest parse_dur ftags rtags stags ->
    parse_from_tags parse_dur ftags rtags stags c = spec_resolve parse_dur ftags rtags stags c.
  Proof.
    unfold model_opts. intros Heq.
    unfold parse_from_tags, spec_resolve. rewrite Heq.
    unfold apply_cli.
    destruct (nearest parse_dur ftags rtags stags) as [[on od]|]; cbn [is_some orb].
    - reflexivity.
    - destruct (c_filter c) as [op|].
      + change (match rtags with Some r => r | None => [] end) with (opt_tags rtags).
        rewrite tag_eval_perm3.
        destruct (tag_eval op _); reflexivity.
      + destruct (is_some (c_retry c) || is_some (c_retry_after c)); reflexivity.
  Qed.

  Lemma narrow_opts_agree ftags rtags stags :
    k18a_narrow parse_dur ftags rtags stags = false ->
    model_opts ftags rtags stags = nearest parse_dur ftags rtags stags.
  Proof.
    unfold k18a_narrow. intros Hn.
    destruct (consulted ftags rtags stags) as [t|] eqn:Hc.
    - destruct (consulted_some _ _ _ _ Hc) as (on & od & _ & Hm & Hwf).
      rewrite Hm, (Hwf Hn). reflexivity.
    - destruct (consulted_none _ _ _ Hc) as [-> ->]. reflexivity.
  Qed.

  (* ---- main theorem: outside the NARROW class the code equals the spec ---- *)
  Theorem resolve_correct_narrow ftags rtags stags c :
    k18a_narrow parse_dur ftags rtags stags = false ->
    parse_from_tags parse_dur ftags rtags stags c = spec_resolve parse_dur ftags rtags stags c.
  Proof.
    intros Hn. apply resolve_of_opts, narrow_opts_agree, Hn.
  Qed.

  (* restated for the monitor *)
  Theorem model_satisfies_monitor_narrow ftags rtags stags c :
    k18a_narrow parse_dur ftags rtags stags = false ->
    c18_ok parse_dur ftags rtags stags c (parse_from_tags parse_dur ftags rtags stags c) = true.
  Proof.
    intros Hn. unfold c18_ok. rewrite resolve_correct_narrow by exact Hn.
    unfold retry_opts_eqb. apply option_eqb_spec; auto.
    apply pair_eqb_spec. apply N.eqb_eq. apply option_eqb_spec, N.eqb_eq.
  Qed.

  (* ---- the narrow class IS narrower ---- *)
  Lemma consulted_in ftags rtags stags t :
    consulted ftags rtags stags = Some t ->
    In t (stags ++ opt_tags rtags ++ ftags) /\ has_retry_prefix t = true.
  Proof.
    unfold consulted. intros Hc. rewrite !in_app_iff.
    destruct (first_retry stags) as [ts|] eqn:Hs.
    - cbn in Hc. inversion Hc; subst ts. destruct (first_retry_in _ _ Hs); auto.
    - cbn [or_else] in Hc. destruct (first_retry (opt_tags rtags)) as [tr|] eqn:Hr.
      + cbn in Hc. inversion Hc; subst tr. destruct (first_retry_in _ _ Hr); auto.
      + cbn [or_else] in Hc. destruct (first_retry_in _ _ Hc); auto.
  Qed.

  Theorem k18a_narrow_implies_k18a ftags rtags stags :
    k18a_narrow parse_dur ftags rtags stags = true -> k18a parse_dur ftags rtags stags = true.
  Proof.
    unfold k18a_narrow, k18a. intros Hn.
    destruct (consulted ftags rtags stags) as [t|] eqn:Hc; [|discriminate].
    apply existsb_exists. exists t. split; [|exact Hn].
    apply (consulted_in _ _ _ _ Hc).
  Qed.

  (* contrapositive: the old theorem's hypothesis implies the new one's, so
     `resolve_correct_narrow` subsumes `resolve_correct` *)
  Corollary k18a_false_implies_narrow_false ftags rtags stags :
    k18a parse_dur ftags rtags stags = false -> k18a_narrow parse_dur ftags rtags stags = false.
  Proof.
    intros Hk. destruct (k18a_narrow parse_dur ftags rtags stags) eqn:Hn; [|reflexivity].
    rewrite (k18a_narrow_implies_k18a _ _ _ Hn) in Hk. discriminate.
  Qed.

  (* ---- inside the narrow class: what the code does, and when it still agrees ---- *)
  (* whenever some tag is consulted (well-formed or not), the code resolves with
     whatever the lenient parser extracted from THAT tag *)
  Theorem model_uses_consulted ftags rtags stags c t :
    consulted ftags rtags stags = Some t ->
    exists on od,
      parse_tag t = Some (on, od) /\
      parse_from_tags parse_dur ftags rtags stags c = resolved c on od.
  Proof.
    intros Hc. destruct (consulted_some _ _ _ _ Hc) as (on & od & Hpt & Hm & _).
    exists on, od. split; [exact Hpt|].
    unfold parse_from_tags. unfold model_opts in Hm. rewrite Hm. reflexivity.
  Qed.

  (* exact criterion: on an input with consulted tag t (in particular on every
     input of the narrow class) code and spec agree iff the spec resolves to the
     values leniently extracted from t *)
  Theorem agree_iff_spec_resolves_consulted ftags rtags stags c t on od :
    consulted ftags rtags stags = Some t ->
    parse_tag t = Some (on, od) ->
    (parse_from_tags parse_dur ftags rtags stags c = spec_resolve parse_dur ftags rtags stags c
     <-> spec_resolve parse_dur ftags rtags stags c = resolved c on od).
  Proof.
    intros Hc Hpt. destruct (model_uses_consulted _ _ _ c _ Hc) as (on' & od' & Hpt' & Hres).
    rewrite Hpt in Hpt'. inversion Hpt'; subst on' od'. rewrite Hres.
    split; intros H; symmetry; exact H.
  Qed.

  (* sufficient condition, independent of the CLI: the nearest WELL-FORMED tag
     (the one the spec uses) carries the same values as the lenient parse of the
     consulted (possibly malformed) tag *)
  Theorem narrow_agree_when_same_values ftags rtags stags c t :
    consulted ftags rtags stags = Some t ->
    nearest parse_dur ftags rtags stags = parse_tag t ->
    parse_from_tags parse_dur ftags rtags stags c = spec_resolve parse_dur ftags rtags stags c.
  Proof.
    intros Hc Hnear. apply resolve_of_opts.
    destruct (consulted_some _ _ _ _ Hc) as (on & od & Hpt & Hm & _).
    rewrite Hm, Hnear, Hpt. reflexivity.
  Qed.
End P2.

(* ---- examples ---- *)
Definition cli0 : cli :=
  {| c_retry := None; c_retry_after := None; c_filter := None;
     c_concurrency := None; c_fail_fast := false |}.
Definition cli_retry3 : cli :=
  {| c_retry := Some 3; c_retry_after := None; c_filter := None;
     c_concurrency := None; c_fail_fast := false |}.

(* the reviewer's witness: in the old class, not in the narrow one; code = spec.
   The code never looks at `retry(x)` or `retrying`: it consults `retry(2)`. *)
Example review_witness :
  consulted [lit "retrying"] None [lit "retry(2)"; lit "retry(x)"] = Some (lit "retry(2)") /\
  k18a no_dur [lit "retrying"] None [lit "retry(2)"; lit "retry(x)"] = true /\
  k18a_narrow no_dur [lit "retrying"] None [lit "retry(2)"; lit "retry(x)"] = false /\
  parse_from_tags no_dur [lit "retrying"] None [lit "retry(2)"; lit "retry(x)"] cli0 = Some (2, None) /\
  spec_resolve no_dur [lit "retrying"] None [lit "retry(2)"; lit "retry(x)"] cli0 = Some (2, None).
Proof. vm_compute. repeat split. Qed.

(* ... and for every CLI, by the theorem rather than by computation *)
Example review_witness_all_cli c :
  parse_from_tags no_dur [lit "retrying"] None [lit "retry(2)"; lit "retry(x)"] c =
  spec_resolve no_dur [lit "retrying"] None [lit "retry(2)"; lit "retry(x)"] c.
Proof. apply resolve_correct_narrow. vm_compute. reflexivity. Qed.

(* strictly narrower *)
Theorem k18a_narrow_strictly_narrower :
  exists parse_dur ftags rtags stags,
    k18a parse_dur ftags rtags stags = true /\ k18a_narrow parse_dur ftags rtags stags = false.
Proof.
  exists no_dur, [lit "retrying"], None, [lit "retry(2)"; lit "retry(x)"].
  vm_compute. split; reflexivity.
Qed.

(* the narrow class is still needed: inputs in it on which code and spec DIFFER *)
Example narrow_differs_1 :
  k18a_narrow no_dur [] None [lit "retrying"] = true /\
  parse_from_tags no_dur [] None [lit "retrying"] cli0 = Some (1, None) /\
  spec_resolve no_dur [] None [lit "retrying"] cli0 = None.
Proof. vm_compute. repeat split. Qed.

(* a malformed scenario tag shadows a well-formed feature tag *)
Example narrow_differs_2 :
  k18a_narrow no_dur [lit "retry(5)"] None [lit "retry(x)"] = true /\
  parse_from_tags no_dur [lit "retry(5)"] None [lit "retry(x)"] cli0 = Some (1, None) /\
  spec_resolve no_dur [lit "retry(5)"] None [lit "retry(x)"] cli0 = Some (5, None).
Proof. vm_compute. repeat split. Qed.

(* trailing junk after a valid count: the count is kept by the code, the tag is skipped by the spec *)
Example narrow_differs_3 :
  k18a_narrow no_dur [] None [lit "retry(2)junk"] = true /\
  parse_from_tags no_dur [] None [lit "retry(2)junk"] cli_retry3 = Some (2, None) /\
  spec_resolve no_dur [] None [lit "retry(2)junk"] cli_retry3 = Some (3, None).
Proof. vm_compute. repeat split. Qed.

Theorem narrow_class_refuted :
  exists parse_dur ftags rtags stags c,
    k18a_narrow parse_dur ftags rtags stags = true /\
    parse_from_tags parse_dur ftags rtags stags c <> spec_resolve parse_dur ftags rtags stags c.
Proof.
  exists no_dur, [], None, [lit "retrying"], cli0.
  destruct narrow_differs_1 as (Hn & -> & ->). split; [exact Hn|discriminate].
Qed.

(* ... but membership only means "may differ": inputs in the narrow class on which
   code and spec AGREE.
   (a) `retry()` parses leniently to (None, None), i.e. "retry with the fall-backs";
       with `--retry 3` on the CLI the spec's no-tag fall-back gives the same answer;
       with an empty CLI it does not. *)
Example narrow_agrees_cli_dependent :
  k18a_narrow no_dur [] None [lit "retry()"] = true /\
  parse_tag no_dur (lit "retry()") = Some (None, None) /\
  parse_from_tags no_dur [] None [lit "retry()"] cli_retry3 = Some (3, None) /\
  spec_resolve no_dur [] None [lit "retry()"] cli_retry3 = Some (3, None) /\
  parse_from_tags no_dur [] None [lit "retry()"] cli0 = Some (1, None) /\
  spec_resolve no_dur [] None [lit "retry()"] cli0 = None.
Proof. vm_compute. repeat split. Qed.

(* (b) the consulted malformed tag happens to carry the same values as the nearest
       well-formed tag: agreement for EVERY CLI *)
Example narrow_agrees_all_cli_1 c :
  k18a_narrow no_dur [] None [lit "retrying"; lit "retry"] = true /\
  parse_from_tags no_dur [] None [lit "retrying"; lit "retry"] c =
  spec_resolve no_dur [] None [lit "retrying"; lit "retry"] c.
Proof.
  split; [vm_compute; reflexivity|].
  apply (narrow_agree_when_same_values no_dur _ _ _ c (lit "retrying")); vm_compute; reflexivity.
Qed.

Example narrow_agrees_all_cli_2 c :
  k18a_narrow no_dur [lit "retry(2)"] None [lit "retry(2)junk"] = true /\
  parse_from_tags no_dur [lit "retry(2)"] None [lit "retry(2)junk"] c =
  spec_resolve no_dur [lit "retry(2)"] None [lit "retry(2)junk"] c.
Proof.
  split; [vm_compute; reflexivity|].
  apply (narrow_agree_when_same_values no_dur _ _ _ c (lit "retry(2)junk")); vm_compute; reflexivity.
Qed.

Theorem narrow_class_may_agree :
  exists parse_dur ftags rtags stags,
    k18a_narrow parse_dur ftags rtags stags = true /\
    forall c, parse_from_tags parse_dur ftags rtags stags c = spec_resolve parse_dur ftags rtags stags c.
Proof.
  exists no_dur, [], None, [lit "retrying"; lit "retry"].
  split; [vm_compute; reflexivity|]. intros c. apply (narrow_agrees_all_cli_1 c).
Qed.

Check resolve_correct_narrow :
  forall (parse_dur : str -> option N) ftags rtags stags c,
    k18a_narrow parse_dur ftags rtags stags = false ->
    parse_from_tags parse_dur ftags rtags stags c = spec_resolve parse_dur ftags rtags stags c.
Check model_satisfies_monitor_narrow :
  forall (parse_dur : str -> option N) ftags rtags stags c,
    k18a_narrow parse_dur ftags rtags stags = false ->
    c18_ok parse_dur ftags rtags stags c (parse_from_tags parse_dur ftags rtags stags c) = true.
Check k18a_narrow_implies_k18a :
  forall (parse_dur : str -> option N) ftags rtags stags,
    k18a_narrow parse_dur ftags rtags stags = true -> k18a parse_dur ftags rtags stags = true.

Print Assumptions resolve_correct_narrow.
Print Assumptions model_satisfies_monitor_narrow.
Print Assumptions k18a_narrow_implies_k18a.
Print Assumptions k18a_false_implies_narrow_false.
Print Assumptions model_uses_consulted.
Print Assumptions agree_iff_spec_resolves_consulted.
Print Assumptions narrow_agree_when_same_values.
Print Assumptions review_witness.
Print Assumptions review_witness_all_cli.
Print Assumptions k18a_narrow_strictly_narrower.
Print Assumptions narrow_class_refuted.
Print Assumptions narrow_agrees_cli_dependent.
Print Assumptions narrow_class_may_agree.
