(* ExitP.v — facts about Model/Exit.v (run_and_exit). *)
From CV Require Import Model.Base Model.Events Model.Stats Model.Exit.
From Coq Require Import Lia.

Theorem run_and_exit_panics_iff_failed :
  forall g, (run_and_exit g = None <-> g_has_failed g = false) /\
            (forall parts, run_and_exit g = Some parts ->
               g_has_failed g = true /\ parts <> [] /\
               forall k n, In (k, n) parts <-> (0 < n /\ In (k, n) [(0, g_failed g); (1, g_parsing g); (2, g_hooks g)])).
Proof.
  intros g. unfold run_and_exit. split.
  - destruct (g_has_failed g); split; intros H; try discriminate; reflexivity.
  - intros parts H. destruct (g_has_failed g) eqn:F; [|discriminate]. inversion H; subst. clear H.
    split; [reflexivity|]. split.
    + unfold exit_parts. unfold g_has_failed in F. cbn [filter snd].
      destruct (0 <? g_failed g); [discriminate|]. destruct (0 <? g_parsing g); [discriminate|].
      destruct (0 <? g_hooks g); [discriminate|]. discriminate F.
    + intros k n. unfold exit_parts. rewrite filter_In. cbn [snd]. rewrite N.ltb_lt. tauto.
Qed.
