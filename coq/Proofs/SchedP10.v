(* SchedP10.v — progress of the scheduler model (Model/Sched.v):
   (1) no deadlock: in every reachable state that is not Done a label of the runner itself (a loop turn, the
       start or the end of a dispatched attempt) is enabled — the environment is never needed to go on;
   (2) once the parser has ended and the concurrency limit is not 0, the number of loop turns that any
       continuation can take is bounded by an explicit function of the state (retry potential + attempts in
       flight): the loop cannot spin. *)
From CV Require Import Model.Base Model.Events Model.Sched
  Proofs.BaseP Proofs.SchedP Proofs.SchedP2 Proofs.SchedP3 Proofs.SchedP4 Proofs.SchedP5 Proofs.SchedP7 Proofs.SchedP8.
From Coq Require Import Permutation Lia.

(* ------------------------------------------------------------------------------------------------ *)
(* shared: what one loop turn does, by cases                                                          *)
(* ------------------------------------------------------------------------------------------------ *)
Definition slots_of (s : st) : option nat := match flow s with Break => Some 0%nat | Cont k => k end.
Definition fin_cond (s : st) : bool := pdone s && (is_break (flow s) || (is_nil (qS s) && is_nil (qC s))).

Lemma loop_top_cases s s' o : loop_top s = (s', o) ->
  exists batch qs qc md, get (slots_of s) s = (batch, qs, qc, md) /\
    qS s' = qs /\ qC s' = qc /\ pdone s' = pdone s /\ perrs s' = perrs s /\
    ( (running s = [] /\ batch = [] /\ fin_cond s = true /\
       pc s' = Done /\ running s' = [] /\ now s' = now s)
    \/ (running s = [] /\ batch = [] /\ fin_cond s = false /\
       pc s' = Yielded /\ running s' = [] /\ flow s' = flow s /\
       now s' = match md with Some d => now s + d + 1 | None => now s end)
    \/ ((running s <> [] \/ batch <> []) /\ pc s' = Awaiting /\
       running s' = running s ++ map (fun e => (e, Dispatched)) batch /\ now s' = now s) ).
Proof.
  unfold loop_top, slots_of, fin_cond. intros H.
  destruct (get _ s) as [[[batch qs] qc] md]. exists batch, qs, qc, md. split; [reflexivity|].
  destruct (is_nil (running s) && is_nil batch) eqn:IDLE.
  - apply andb_prop in IDLE as [R B]. apply SchedP7.is_nil_true in R. apply SchedP7.is_nil_true in B.
    destruct (pdone s && (is_break (flow s) || is_nil (qS s) && is_nil (qC s))) eqn:C; inversion H; subst;
      unfold upd; cbn [qS qC pdone perrs pc running now flow].
    + repeat (split; [reflexivity|]). left. repeat split; auto.
    + repeat (split; [reflexivity|]). right; left. repeat split; auto.
  - destruct (start_scenarios batch (fcount s) (rcount s)) as [[o' fc] rc]. inversion H; subst.
    unfold upd; cbn [qS qC pdone perrs pc running now flow].
    repeat (split; [reflexivity|]). right; right. split; [|auto].
    destruct (running s); [|left; discriminate]. destruct batch; [discriminate IDLE|right; discriminate].
Qed.

(* the state a loop turn is applied to *)
Definition nb_st (s : st) : st :=
  mk_st (qS s) (qC s) (pdone s) (perrs s) (flow s) (running s) (msgs s) (fcount s) (rcount s) (pf s) (now s) (pc s) true.

Lemma step_top_cases c s s' o : step c s LTop = Some (s', o) ->
  exists s1 o2, loop_top s1 = (s', o2) /\
   ( (pc s = NotBegun /\ s1 = nb_st s) \/ (pc s = Yielded /\ s1 = s) \/
     (pc s = Awaiting /\ exists r o1 fl fc rc, remove_ended (running s) = Some r /\
        drain (cf_fail_fast c) (msgs s) (add_slot (flow s)) (fcount s) (rcount s) = (o1, fl, fc, rc) /\
        s1 = upd s (qS s) (qC s) fl r [] fc rc (now s) Awaiting) ).
Proof.
  cbn [step]. intros H. destruct (pc s) eqn:P.
  - destruct (loop_top _) as [s1 o1] eqn:LT. inversion H; subst.
    exists (nb_st s), o1. split; [unfold nb_st; rewrite P; exact LT|]. left. auto.
  - destruct (remove_ended (running s)) as [r|] eqn:RE; [|discriminate].
    destruct (drain (cf_fail_fast c) (msgs s) (add_slot (flow s)) (fcount s) (rcount s)) as [[[o1 fl] fc] rc] eqn:DR.
    destruct (loop_top _) as [s1 o2] eqn:LT. inversion H; subst.
    eexists _, o2. split; [exact LT|]. right; right. split; [reflexivity|]. exists r, o1, fl, fc, rc. auto.
  - assert (LT : loop_top s = (s', o)) by congruence.
    exists s, o. split; [exact LT|]. right; left. auto.
  - discriminate.
Qed.

(* ------------------------------------------------------------------------------------------------ *)
(* 1. no deadlock                                                                                     *)
(* ------------------------------------------------------------------------------------------------ *)
(* the labels of the runner and of the user code it drives; LFeature / LParseErr / LParserEnd / LTick are
   the environment's (the parser, the clock), and LAttEv is optional progress inside an attempt *)
Definition runner_label (l : label) : bool :=
  match l with LTop | LAttStart _ | LAttEnd _ _ => true | _ => false end.

(* while the loop awaits, something has been dispatched and not consumed *)
Definition aw_ok (s : st) : Prop := pc s = Awaiting -> running s <> [].

Lemma step_aw c s l s' o : aw_ok s -> step c s l = Some (s', o) -> aw_ok s'.
Proof.
  intros A H. destruct l as [F|id| | |k|k x|k failed|d].
  - cbn [step] in H. destruct (perrs s); [discriminate|]. inversion H; subst.
    destruct (insert_feature_frame F s) as (E1 & _ & _ & _ & E5 & _). unfold aw_ok. rewrite E1, E5. exact A.
  - cbn [step] in H. destruct (perrs s); [discriminate|]. destruct (pf s) as [[[[a b] c0] d] e]. inversion H; subst. exact A.
  - cbn [step] in H. destruct (pdone s); [discriminate|]. destruct (pf s) as [[[[a b] c0] d] e]. inversion H; subst. exact A.
  - destruct (step_top_cases _ _ _ _ H) as (s1 & o2 & LT & _).
    destruct (loop_top_cases _ _ _ LT) as (batch & qs & qc & md & _ & _ & _ & _ & _ & CS).
    intros PA. destruct CS as [(_ & _ & _ & PD & _)|[(_ & _ & _ & PY & _)|(NE & _ & RUN & _)]]; try congruence.
    rewrite RUN. destruct NE as [NE|NE].
    + destruct (running s1); [congruence|discriminate].
    + destruct batch; [congruence|]. destruct (running s1); discriminate.
  - cbn [step] in H. destruct (set_phase k Dispatched Opened (running s)) as [[e r]|] eqn:SP; [|discriminate].
    inversion H; subst. destruct (SchedP7.set_phase_shape _ _ _ _ _ _ SP) as (l1 & l2 & _ & -> & _ & _).
    intros _. cbn [upd running]. destruct l1; discriminate.
  - cbn [step] in H. destruct (is_middle x); [|discriminate]. destruct (find_open k (running s)); [|discriminate].
    inversion H; subst. exact A.
  - cbn [step] in H. destruct (set_phase k Opened Ended (running s)) as [[e r]|] eqn:SP; [|discriminate].
    destruct (SchedP7.set_phase_shape _ _ _ _ _ _ SP) as (l1 & l2 & _ & -> & _ & _).
    destruct (match next_try e failed (now s) with
              | Some e' => if e_serial e' then (e' :: qS s, qC s) else (qS s, e' :: qC s)
              | None => (qS s, qC s) end) as [qs qc].
    inversion H; subst. intros _. cbn [upd running]. destruct l1; discriminate.
  - cbn [step] in H. inversion H; subst. exact A.
Qed.

Lemma exec_from_aw c : forall ls s s' o, aw_ok s -> exec_from c s ls = Some (s', o) -> aw_ok s'.
Proof.
  induction ls as [|l t IH]; intros s s' o A H; cbn [exec_from] in H; [inversion H; subst; exact A|].
  destruct (step c s l) as [[s1 o1]|] eqn:S1; [|discriminate].
  destruct (exec_from c s1 t) as [[s2 o2]|] eqn:S2; [|discriminate]. inversion H; subst.
  eapply IH; [eapply step_aw; eauto|exact S2].
Qed.

Lemma akey_eqb_refl k : akey_eqb k k = true.
Proof. unfold akey_eqb. rewrite !N.eqb_refl. reflexivity. Qed.

(* state-level form: needs only pc_ok-free facts — `aw_ok` *)
Lemma enabled_runner_label c s : aw_ok s -> pc s <> Done ->
  exists l, runner_label l = true /\ step c s l <> None.
Proof.
  intros A ND. destruct (pc s) eqn:P.
  - exists LTop. split; [reflexivity|]. cbn [step]. rewrite P. destruct (loop_top _). discriminate.
  - destruct (remove_ended (running s)) as [r|] eqn:RE.
    + exists LTop. split; [reflexivity|]. cbn [step]. rewrite P, RE.
      destruct (drain _ _ _ _ _) as [[[o1 fl] fc] rc]. destruct (loop_top _). discriminate.
    + specialize (A P). destruct (running s) as [|[e p] t] eqn:RUN; [congruence|].
      destruct p.
      * exists (LAttStart (key_of e)). split; [reflexivity|]. cbn [step]. rewrite RUN. cbn [set_phase].
        rewrite akey_eqb_refl. discriminate.
      * exists (LAttEnd (key_of e) false). split; [reflexivity|]. cbn [step]. rewrite RUN. cbn [set_phase].
        rewrite akey_eqb_refl.
        destruct (match next_try e false (now s) with
                  | Some e' => if e_serial e' then (e' :: qS s, qC s) else (qS s, e' :: qC s)
                  | None => (qS s, qC s) end). discriminate.
      * cbn [remove_ended] in RE. discriminate.
  - exists LTop. split; [reflexivity|]. cbn [step]. rewrite P. discriminate.
  - congruence.
Qed.

Lemma init_aw c : aw_ok (init_st c).
Proof. unfold aw_ok, init_st. cbn. discriminate. Qed.

(* NO hypothesis on the label list is needed: the attempt picked is the FIRST entry of `running`, which is
   trivially the first one with its key, so key uniqueness (NoDup of the ids) is not required *)
Theorem no_deadlock c ls s tr :
  exec c ls = Some (s, tr) -> pc s <> Done ->
  exists l, runner_label l = true /\ step c s l <> None.
Proof.
  intros H ND. apply enabled_runner_label; [|exact ND].
  exact (exec_from_aw c ls _ _ _ (init_aw c) H).
Qed.

(* ------------------------------------------------------------------------------------------------ *)
(* 2. bounded number of loop turns once the parser has ended                                          *)
(* ------------------------------------------------------------------------------------------------ *)
Definition is_top (l : label) : bool := match l with LTop => true | _ => false end.
Definition tops (ls : list label) : nat := length (filter is_top ls).

(* ---- take_ready / get when nothing is taken: everything waits, and the minimum is attained ---- *)
Lemma take_ready_cons_nz n now md e t : n <> Some 0%nat ->
  take_ready n now md (e :: t) =
  match left_until now e with
  | None => let '(a, b, m) := take_ready (option_map pred n) now md t in (e :: a, b, m)
  | Some lft => let '(a, b, m) := take_ready n now (min_opt md lft) t in (a, e :: b, m)
  end.
Proof. intros NZ. cbn [take_ready]. destruct n as [[|k]|]; [congruence|reflexivity|reflexivity]. Qed.

Lemma take_ready_idle now : forall l n md b m,
  n <> Some 0%nat -> take_ready n now md l = ([], b, m) ->
  b = l /\ Forall (fun e => left_until now e <> None) l /\
  (m = md \/ exists e d, In e l /\ left_until now e = Some d /\ m = Some d).
Proof.
  induction l as [|e t IH]; intros n md b m NZ H.
  - cbn [take_ready] in H. inversion H; subst. auto.
  - rewrite (take_ready_cons_nz _ _ _ _ _ NZ) in H. destruct (left_until now e) as [lft|] eqn:LU.
    + destruct (take_ready n now (min_opt md lft) t) as [[a b'] m'] eqn:TR. inversion H; subst.
      destruct (IH _ _ _ _ NZ TR) as (EB & FW & MM). subst b'. split; [reflexivity|]. split.
      * constructor; [congruence|exact FW].
      * destruct MM as [->|(e' & d & I & L & ->)].
        -- destruct md as [x|]; cbn [min_opt].
           ++ destruct (N.min_dec x lft) as [E|E]; rewrite E; [left; reflexivity|].
              right. exists e, lft. split; [left; reflexivity|split; [exact LU|reflexivity]].
           ++ right. exists e, lft. split; [left; reflexivity|split; [exact LU|reflexivity]].
        -- right. exists e', d. split; [right; exact I|split; [exact L|reflexivity]].
    + destruct (take_ready (option_map pred n) now md t) as [[a b'] m']. inversion H.
Qed.

Lemma take_ready_idle_min now l n b m :
  n <> Some 0%nat -> take_ready n now None l = ([], b, m) -> l <> [] ->
  exists e d, In e l /\ left_until now e = Some d /\ m = Some d.
Proof.
  intros NZ H NE. destruct l as [|e t]; [congruence|].
  rewrite (take_ready_cons_nz _ _ _ _ _ NZ) in H. destruct (left_until now e) as [lft|] eqn:LU.
  - cbn [min_opt] in H. destruct (take_ready n now (Some lft) t) as [[a b'] m'] eqn:TR. inversion H; subst.
    destruct (take_ready_idle now _ _ _ _ _ NZ TR) as (_ & _ & [->|(e' & d & I & L & ->)]).
    + exists e, lft. split; [left; reflexivity|split; [exact LU|reflexivity]].
    + exists e', d. split; [right; exact I|split; [exact L|reflexivity]].
  - destruct (take_ready (option_map pred n) now None t) as [[a b'] m']. inversion H.
Qed.

Lemma get_idle n s qs qc md : n <> Some 0%nat -> running s = [] -> get n s = ([], qs, qc, md) ->
  qs = qS s /\ qc = qC s /\ Forall (fun e => left_until (now s) e <> None) (qS s ++ qC s) /\
  (qS s ++ qC s <> [] -> exists e d, In e (qS s ++ qC s) /\ left_until (now s) e = Some d /\ md = Some d).
Proof.
  intros NZ R H. rewrite (get_unfold n s NZ), R in H. cbn [is_nil] in H.
  destruct (take_ready (Some 1%nat) (now s) None (qS s)) as [[bs rs] md1] eqn:T1.
  destruct bs as [|x bs']; [|inversion H].
  destruct (take_ready n (now s) md1 (qC s)) as [[bc rc] md2] eqn:T2. inversion H; subst.
  assert (N1 : Some 1%nat <> Some 0%nat) by discriminate.
  destruct (take_ready_idle _ _ _ _ _ _ N1 T1) as (E1 & F1 & M1).
  destruct (take_ready_idle _ _ _ _ _ _ NZ T2) as (E2 & F2 & M2).
  split; [reflexivity|]. split; [exact E2|]. split; [apply Forall_app; auto|].
  intros NE. destruct (qS s) as [|x t] eqn:QS.
  - cbn [app] in *. cbn [take_ready] in T1. inversion T1; subst.
    destruct (take_ready_idle_min _ _ _ _ _ NZ T2 NE) as (e & d & I & L & ->). exists e, d. auto.
  - assert (NE1 : x :: t <> []) by discriminate.
    destruct (take_ready_idle_min _ _ _ _ _ N1 T1 NE1) as (e & d & I & L & ->).
    destruct M2 as [->|(e' & d' & I' & L' & ->)].
    + exists e, d. split; [apply in_or_app; left; exact I|auto].
    + exists e', d'. split; [apply in_or_app; right; exact I'|auto].
Qed.

(* ---- readiness: kept by the clock, reached by the idle sleep ---- *)
Lemma ready_mono now now' e : left_until now e = None -> now <= now' -> left_until now' e = None.
Proof.
  unfold left_until. destruct (e_delay e) as [d|]; [|reflexivity]. destruct (e_base e) as [b|]; [|reflexivity].
  cbv zeta. destruct (N.leb_spec (now - b) d); [discriminate|]. intros _ LE.
  destruct (N.leb_spec (now' - b) d); [lia|reflexivity].
Qed.

Lemma ready_after_sleep now e d : left_until now e = Some d ->
  (forall b, e_base e = Some b -> b <= now) -> left_until (now + d + 1) e = None.
Proof.
  unfold left_until. destruct (e_delay e) as [dl|]; [|discriminate]. destruct (e_base e) as [b|]; [|discriminate].
  cbv zeta. intros H B. specialize (B b eq_refl). destruct (N.leb_spec (now - b) dl); [|discriminate].
  inversion H; subst. destruct (N.leb_spec (now + (dl - (now - b)) + 1 - b) dl); [lia|reflexivity].
Qed.

(* ---- the measure ---- *)
Definition allsel : N -> bool := fun _ => true.
Definition wq3 (e : entry) : N := 3 * (1 + left_of e).
Definition wr3 (ep : entry * phase) : N := match snd ep with Ended => 1 | _ => 3 * left_of (fst ep) + 1 end.
Definition base3 (s : st) : N := sumN wq3 (qS s ++ qC s) + sumN wr3 (running s).

Definition readyb (now : N) (e : entry) : bool := match left_until now e with None => true | Some _ => false end.
Definition rdy (s : st) : bool := existsb (readyb (now s)) (qS s ++ qC s).
(* "primed": the loop has just idled and some queued entry is ready — the next turn dispatches *)
Definition primedb (s : st) : bool := match pc s with Yielded => rdy s | _ => false end.
Definition cflag (s : st) : N := if primedb s then 0 else 1.
Definition dflag (s : st) : N := match pc s with Done => 0 | _ => 2 end.
Definition Phi (s : st) : N := base3 s + cflag s + dflag s.

Lemma cflag_le s : cflag s <= 1.
Proof. unfold cflag. destruct (primedb s); lia. Qed.
Lemma dflag_le s : dflag s <= 2.
Proof. unfold dflag. destruct (pc s); lia. Qed.
Lemma primedb_yielded s : pc s = Yielded -> primedb s = rdy s.
Proof. unfold primedb. intros ->. reflexivity. Qed.
Lemma cflag_notY s : pc s <> Yielded -> cflag s = 1.
Proof. unfold cflag, primedb. destruct (pc s); try reflexivity. congruence. Qed.
Lemma dflag_done s : pc s = Done -> dflag s = 0.
Proof. unfold dflag. intros ->. reflexivity. Qed.
Lemma dflag_nd s : pc s <> Done -> dflag s = 2.
Proof. unfold dflag. destruct (pc s); try reflexivity. congruence. Qed.

Lemma wr3_new b : sumN wr3 (map (fun e => (e, Dispatched)) b) + 2 * N.of_nat (length b) = sumN wq3 b.
Proof.
  induction b as [|e b IH]; [reflexivity|]. cbn [map length]. rewrite !sumN_cons, Nat2N.inj_succ.
  assert (A1 : wq3 e = 3 * left_of e + 3) by (unfold wq3; lia).
  assert (A2 : wr3 (e, Dispatched) = 3 * left_of e + 1) by reflexivity. lia.
Qed.

Lemma wq3_pot l : sumN wq3 l = 3 * sumN (wq allsel) l.
Proof.
  induction l as [|e l IH]; [reflexivity|]. rewrite !sumN_cons, IH.
  assert (A : wq3 e = 3 * wq allsel e) by reflexivity. lia.
Qed.
Lemma wr3_pot l : sumN wr3 l <= 3 * sumN (wr allsel) l + N.of_nat (length l).
Proof.
  induction l as [|[e p] l IH]; [unfold sumN; cbn [fold_right length]; lia|].
  cbn [length]. rewrite !sumN_cons, Nat2N.inj_succ.
  assert (A : wr3 (e, p) <= 3 * wr allsel (e, p) + 1) by (unfold wr3, wr, allsel; cbn [fst snd]; destruct p; lia).
  lia.
Qed.
Lemma base3_pot s : base3 s <= 3 * pot allsel s + N.of_nat (length (running s)).
Proof. unfold base3, pot. rewrite wq3_pot. pose proof (wr3_pot (running s)). lia. Qed.

(* deadline bases lie in the past *)
Definition base_ok (s : st) : Prop := forall e b, In e (qS s ++ qC s) -> e_base e = Some b -> b <= now s.

Lemma loop_top_base s s' o batch qs qc md : loop_top s = (s', o) -> get (slots_of s) s = (batch, qs, qc, md) ->
  base3 s' + 2 * N.of_nat (length batch) = base3 s.
Proof.
  intros LT G. pose proof (get_perm (slots_of s) s) as GP. rewrite G in GP.
  destruct (loop_top_cases _ _ _ LT) as (batch' & qs' & qc' & md' & G' & Q1 & Q2 & _ & _ & CS).
  rewrite G in G'. symmetry in G'. injection G' as -> -> -> ->.
  unfold base3. rewrite Q1, Q2, (sumN_perm wq3 _ _ GP), (sumN_app wq3 batch (qs ++ qc)).
  pose proof (wr3_new batch) as WN.
  destruct CS as [(R & B & _ & _ & R' & _)|[(R & B & _ & _ & R' & _)|(_ & _ & R' & _)]].
  - rewrite R', R. subst batch. unfold sumN in *. cbn [fold_right length map] in *. lia.
  - rewrite R', R. subst batch. unfold sumN in *. cbn [fold_right length map] in *. lia.
  - rewrite R', (sumN_app wr3). lia.
Qed.

Lemma loop_top_phi_B s s' o : loop_top s = (s', o) -> Phi s' <= base3 s + 3.
Proof.
  intros LT. destruct (get (slots_of s) s) as [[[batch qs] qc] md] eqn:G.
  pose proof (loop_top_base _ _ _ _ _ _ _ LT G). pose proof (cflag_le s'). pose proof (dflag_le s'). unfold Phi. lia.
Qed.

Lemma loop_top_phi_A s s' o : loop_top s = (s', o) ->
  running s = [] -> pdone s = true -> base_ok s -> flow s <> Cont (Some 0%nat) ->
  Phi s' + 1 <= base3 s + 2 + (if rdy s then 0 else 1).
Proof.
  intros LT R PD BO NZ.
  destruct (loop_top_cases _ _ _ LT) as (batch & qs & qc & md & G & Q1 & Q2 & _ & _ & CS).
  pose proof (loop_top_base _ _ _ _ _ _ _ LT G) as BA.
  destruct CS as [(_ & B & _ & PC' & _)|[(_ & B & FC & PC' & R' & FL' & NOW')|(NE & PC' & R' & _)]].
  - (* the run ends *)
    subst batch. cbn [length] in BA. unfold Phi. rewrite (dflag_done _ PC'), (cflag_notY s') by congruence.
    destruct (rdy s); lia.
  - (* idle: the clock jumps past the smallest remaining delay *)
    subst batch. cbn [length] in BA. unfold fin_cond in FC. rewrite PD in FC. cbn [andb] in FC.
    apply orb_false_elim in FC as [NB NQ].
    assert (NZ' : slots_of s <> Some 0%nat).
    { unfold slots_of. destruct (flow s) as [|k]; [discriminate NB|]. intros X. apply NZ. rewrite X. reflexivity. }
    destruct (get_idle _ _ _ _ _ NZ' R G) as (E1 & E2 & FW & WIT).
    assert (QNE : qS s ++ qC s <> []).
    { intros X. apply app_eq_nil in X as [X1 X2]. rewrite X1, X2 in NQ. discriminate NQ. }
    destruct (WIT QNE) as (e & d & I & L & ->).
    assert (RS : rdy s = false).
    { unfold rdy. destruct (existsb _ _) eqn:EX; [|reflexivity]. apply existsb_exists in EX as (x & Ix & Rx).
      rewrite Forall_forall in FW. specialize (FW x Ix). unfold readyb in Rx.
      destruct (left_until (now s) x); [discriminate|congruence]. }
    assert (PR : primedb s' = true).
    { rewrite (primedb_yielded _ PC'). unfold rdy. rewrite Q1, Q2, E1, E2, NOW'. apply existsb_exists.
      exists e. split; [exact I|]. unfold readyb.
      rewrite (ready_after_sleep _ _ _ L (fun b => BO e b I)). reflexivity. }
    unfold Phi, cflag. rewrite PR, RS, (dflag_nd s') by congruence. lia.
  - (* dispatch *)
    destruct NE as [NE|NE]; [congruence|].
    assert (1 <= N.of_nat (length batch)) by (destruct batch; [congruence|cbn [length]; lia]).
    pose proof (cflag_le s'). pose proof (dflag_le s'). unfold Phi. destruct (rdy s); lia.
Qed.

(* ---- states after the parser's end ---- *)
Definition Good (c : cfg) (s : st) : Prop :=
  Inv (cf_concurrency c) s /\ pdone s = true /\ perrs s = true /\ base_ok s.

Lemma flow_nz K s : K <> Some 0%nat -> slots_ok K s -> running s = [] -> flow s <> Cont (Some 0%nat).
Proof.
  intros NZ SL R F. unfold slots_ok in SL. rewrite F, R in SL. destruct K as [k|]; [|exact SL].
  cbn [length] in SL. apply NZ. f_equal. lia.
Qed.

Lemma remove_ended_base l r : remove_ended l = Some r -> sumN wr3 l = sumN wr3 r + 1.
Proof.
  intros H. destruct (SchedP7.remove_ended_shape _ _ H) as (e & l1 & l2 & -> & ->).
  rewrite !sumN_app, sumN_cons. change (wr3 (e, Ended)) with 1. lia.
Qed.

Lemma rdy_mono now now' l : existsb (readyb now) l = true -> now <= now' -> existsb (readyb now') l = true.
Proof.
  intros H LE. apply existsb_exists in H as (x & I & R). apply existsb_exists. exists x. split; [exact I|].
  unfold readyb in *. destruct (left_until now x) eqn:L; [discriminate|]. rewrite (ready_mono _ _ _ L LE). reflexivity.
Qed.

Lemma phi_frame s s' : pc s' = pc s -> pc s <> Yielded -> base3 s' <= base3 s -> Phi s' + 0 <= Phi s.
Proof.
  intros P NY B. unfold Phi. rewrite (cflag_notY s NY). pose proof (cflag_le s').
  assert (ED : dflag s' = dflag s) by (unfold dflag; rewrite P; reflexivity). lia.
Qed.

(* every step is non-increasing on Phi, and a loop turn strictly decreases it *)
Lemma step_phi c s l s' o : cf_concurrency c <> Some 0%nat -> Good c s -> step c s l = Some (s', o) ->
  Phi s' + (if is_top l then 1 else 0) <= Phi s.
Proof.
  intros NZ ((SL & ISO & TY & PCO) & PD & PE & BO) H. destruct l as [F|id| | |k|k x|k failed|d]; cbn [is_top].
  - cbn [step] in H. rewrite PE in H. discriminate.
  - cbn [step] in H. rewrite PE in H. discriminate.
  - cbn [step] in H. rewrite PD in H. discriminate.
  - destruct (step_top_cases _ _ _ _ H) as (s1 & o2 & LT & [(P & ->)|[(P & ->)|(P & r & o1 & fl & fc & rc & RE & DR & ->)]]).
    + (* NotBegun *)
      unfold pc_ok in PCO. rewrite P in PCO.
      pose proof (loop_top_phi_A _ _ _ LT PCO PD BO (flow_nz _ _ NZ SL PCO)) as A.
      change (base3 (nb_st s)) with (base3 s) in A. change (rdy (nb_st s)) with (rdy s) in A.
      unfold Phi at 2. rewrite (cflag_notY s), (dflag_nd s) by congruence. destruct (rdy s); lia.
    + (* Yielded *)
      unfold pc_ok in PCO. rewrite P in PCO.
      pose proof (loop_top_phi_A _ _ _ LT PCO PD BO (flow_nz _ _ NZ SL PCO)) as A.
      unfold Phi at 2. unfold cflag. rewrite (primedb_yielded _ P), (dflag_nd s) by congruence. destruct (rdy s); lia.
    + (* Awaiting: one ended attempt is consumed *)
      pose proof (loop_top_phi_B _ _ _ LT) as B.
      assert (E : base3 (upd s (qS s) (qC s) fl r [] fc rc (now s) Awaiting) + 1 = base3 s).
      { unfold base3, upd. cbn [qS qC running]. rewrite (remove_ended_base _ _ RE). lia. }
      unfold Phi at 2. rewrite (cflag_notY s), (dflag_nd s) by congruence. lia.
  - (* LAttStart *)
    cbn [step] in H. destruct (set_phase k Dispatched Opened (running s)) as [[e r]|] eqn:SP; [|discriminate].
    inversion H; subst. destruct (SchedP7.set_phase_shape _ _ _ _ _ _ SP) as (l1 & l2 & RUN & -> & _ & _).
    assert (NY : pc s <> Yielded).
    { intros P. unfold pc_ok in PCO. rewrite P in PCO. rewrite PCO in RUN. destruct l1; discriminate. }
    apply phi_frame; [reflexivity|exact NY|].
    unfold base3, upd. cbn [qS qC running]. rewrite RUN, !sumN_app, !sumN_cons.
    assert (WO : wr3 (e, Opened) = wr3 (e, Dispatched)) by reflexivity. lia.
  - (* LAttEv *)
    cbn [step] in H. destruct (is_middle x); [|discriminate]. destruct (find_open k (running s)); [|discriminate].
    inversion H; subst. lia.
  - (* LAttEnd *)
    cbn [step] in H. destruct (set_phase k Opened Ended (running s)) as [[e r]|] eqn:SP; [|discriminate].
    destruct (SchedP7.set_phase_shape _ _ _ _ _ _ SP) as (l1 & l2 & RUN & -> & _ & _).
    assert (NY : pc s <> Yielded).
    { intros P. unfold pc_ok in PCO. rewrite P in PCO. rewrite PCO in RUN. destruct l1; discriminate. }
    assert (WO : wr3 (e, Opened) = 3 * left_of e + 1) by reflexivity.
    assert (WE : wr3 (e, Ended) = 1) by reflexivity.
    destruct (next_try e failed (now s)) as [e'|] eqn:NT.
    + destruct (next_try_some _ _ _ _ NT) as (c0 & l0 & RE & LP & RE' & _).
      assert (WQ : wq3 e' + 1 = wr3 (e, Opened)).
      { rewrite WO. unfold wq3, left_of. rewrite RE, RE'. lia. }
      destruct (e_serial e'); inversion H; subst; (apply phi_frame; [reflexivity|exact NY|]);
        unfold base3, upd; cbn [qS qC running app]; rewrite RUN, !sumN_app, !sumN_cons, ?sumN_app; lia.
    + inversion H; subst. apply phi_frame; [reflexivity|exact NY|].
      unfold base3, upd. cbn [qS qC running app]. rewrite RUN, !sumN_app, !sumN_cons, ?sumN_app. lia.
  - (* LTick *)
    cbn [step] in H. inversion H; subst.
    match goal with |- Phi ?t + 0 <= _ => set (s' := t) end.
    assert (EB : base3 s' = base3 s) by reflexivity.
    assert (ED : dflag s' = dflag s) by reflexivity.
    assert (EC : cflag s' <= cflag s).
    { unfold cflag. destruct (primedb s) eqn:PR; [|destruct (primedb s'); lia].
      assert (PR' : primedb s' = true).
      { unfold primedb in *. change (pc s') with (pc s). destruct (pc s); try discriminate PR.
        unfold rdy in *. change (qS s' ++ qC s') with (qS s ++ qC s). change (now s') with (now s + d).
        apply (rdy_mono (now s)); [exact PR|lia]. }
      rewrite PR'. lia. }
    unfold Phi. lia.
Qed.

(* ---- the facts about reachable states that `Good` needs ---- *)
Lemma insert_feature_now F s : now (insert_feature F s) = now s /\ perrs (insert_feature F s) = perrs s.
Proof. unfold insert_feature. destruct (pf s) as [[[[a b] c0] d] e]. destruct (is_nil _); cbn; auto. Qed.

Lemma next_try_base e failed now e' : next_try e failed now = Some e' -> e_base e' = Some now.
Proof.
  unfold next_try. destruct (e_retr e) as [[c0 l0]|]; [|discriminate].
  destruct (failed && (0 <? l0)); [|discriminate]. intros X. inversion X; subst. reflexivity.
Qed.

Lemma loop_top_base_ok s s' o : base_ok s -> loop_top s = (s', o) -> base_ok s'.
Proof.
  intros BO LT. pose proof (get_perm (slots_of s) s) as GP.
  destruct (loop_top_cases _ _ _ LT) as (batch & qs & qc & md & G & Q1 & Q2 & _ & _ & CS). rewrite G in GP.
  assert (NW : now s <= now s').
  { destruct CS as [(_ & _ & _ & _ & _ & ->)|[(_ & _ & _ & _ & _ & _ & ->)|(_ & _ & _ & ->)]]; try lia.
    destruct md; lia. }
  intros e b I EB. rewrite Q1, Q2 in I.
  assert (I' : In e (qS s ++ qC s)).
  { apply (Permutation_in _ (Permutation_sym GP)). apply in_or_app. right. exact I. }
  specialize (BO e b I' EB). lia.
Qed.

Lemma step_base_ok c s l s' o : base_ok s -> step c s l = Some (s', o) -> base_ok s'.
Proof.
  intros BO H. destruct l as [F|id| | |k|k x|k failed|d].
  - cbn [step] in H. destruct (perrs s); [discriminate|]. inversion H; subst.
    intros e b I EB. destruct (insert_feature_now F s) as [NW _]. rewrite NW.
    apply (Permutation_in _ (Permutation_sym (insert_feature_queue F s))) in I. unfold queue in I.
    apply in_app_or in I as [I|I].
    + apply in_map_iff in I as (sc & <- & _). cbn [entry_of e_base] in EB. discriminate.
    + exact (BO e b I EB).
  - cbn [step] in H. destruct (perrs s); [discriminate|]. destruct (pf s) as [[[[a b] c0] d] e]. inversion H; subst. exact BO.
  - cbn [step] in H. destruct (pdone s); [discriminate|]. destruct (pf s) as [[[[a b] c0] d] e]. inversion H; subst. exact BO.
  - destruct (step_top_cases _ _ _ _ H) as (s1 & o2 & LT & [(P & ->)|[(P & ->)|(P & r & o1 & fl & fc & rc & RE & DR & ->)]]);
      refine (loop_top_base_ok _ _ _ _ LT); exact BO.
  - cbn [step] in H. destruct (set_phase k Dispatched Opened (running s)) as [[e r]|]; [|discriminate].
    inversion H; subst. exact BO.
  - cbn [step] in H. destruct (is_middle x); [|discriminate]. destruct (find_open k (running s)); [|discriminate].
    inversion H; subst. exact BO.
  - cbn [step] in H. destruct (set_phase k Opened Ended (running s)) as [[e r]|]; [|discriminate].
    destruct (next_try e failed (now s)) as [e'|] eqn:NT.
    + pose proof (next_try_base _ _ _ _ NT) as NB.
      destruct (e_serial e'); inversion H; subst; intros x b I EB; cbn [upd qS qC now app] in *.
      * destruct I as [<-|I]; [rewrite NB in EB; inversion EB; lia|exact (BO x b I EB)].
      * apply in_app_or in I as [I|[<-|I]].
        -- apply (BO x b); [apply in_or_app; left; exact I|exact EB].
        -- rewrite NB in EB. inversion EB. lia.
        -- apply (BO x b); [apply in_or_app; right; exact I|exact EB].
    + inversion H; subst. exact BO.
  - cbn [step] in H. inversion H; subst. intros e b I EB. specialize (BO e b I EB). cbn [upd now]. lia.
Qed.

Lemma step_flags c s l s' o : step c s l = Some (s', o) ->
  (pdone s' = pdone s /\ perrs s' = perrs s) \/ (pdone s' = true /\ perrs s' = true) \/
  (perrs s = false /\ pdone s' = pdone s).
Proof.
  intros H. destruct l as [F|id| | |k|k x|k failed|d].
  - cbn [step] in H. destruct (perrs s) eqn:PE; [discriminate|]. inversion H; subst. left.
    destruct (insert_feature_frame F s) as (_ & _ & _ & _ & _ & E6). destruct (insert_feature_now F s) as [_ E7].
    split; congruence.
  - cbn [step] in H. destruct (perrs s) eqn:PE; [discriminate|]. destruct (pf s) as [[[[a b] c0] d] e].
    inversion H; subst. right; right. auto.
  - cbn [step] in H. destruct (pdone s); [discriminate|]. destruct (pf s) as [[[[a b] c0] d] e].
    inversion H; subst. right; left. auto.
  - destruct (step_top_cases _ _ _ _ H) as (s1 & o2 & LT & CS).
    destruct (loop_top_cases _ _ _ LT) as (batch & qs & qc & md & _ & _ & _ & E1 & E2 & _). left.
    destruct CS as [(P & ->)|[(P & ->)|(P & r & o1 & fl & fc & rc & RE & DR & ->)]]; auto.
  - cbn [step] in H. destruct (set_phase k Dispatched Opened (running s)) as [[e r]|]; [|discriminate].
    inversion H; subst. left. auto.
  - cbn [step] in H. destruct (is_middle x); [|discriminate]. destruct (find_open k (running s)); [|discriminate].
    inversion H; subst. left. auto.
  - cbn [step] in H. destruct (set_phase k Opened Ended (running s)) as [[e r]|]; [|discriminate].
    destruct (match next_try e failed (now s) with
              | Some e' => if e_serial e' then (e' :: qS s, qC s) else (qS s, e' :: qC s)
              | None => (qS s, qC s) end) as [qs qc].
    inversion H; subst. left. auto.
  - cbn [step] in H. inversion H; subst. left. auto.
Qed.

Definition pe_ok (s : st) : Prop := pdone s = true -> perrs s = true.

Lemma step_pe c s l s' o : pe_ok s -> step c s l = Some (s', o) -> pe_ok s'.
Proof.
  intros PE H. unfold pe_ok in *. destruct (step_flags _ _ _ _ _ H) as [(A & B)|[(A & B)|(A & B)]].
  - rewrite A, B. exact PE.
  - intros _. exact B.
  - rewrite B. intros X. specialize (PE X). congruence.
Qed.

Lemma exec_from_aux c : forall ls s s' o, pe_ok s /\ base_ok s -> exec_from c s ls = Some (s', o) -> pe_ok s' /\ base_ok s'.
Proof.
  induction ls as [|l t IH]; intros s s' o A H; cbn [exec_from] in H; [inversion H; subst; exact A|].
  destruct (step c s l) as [[s1 o1]|] eqn:S1; [|discriminate].
  destruct (exec_from c s1 t) as [[s2 o2]|] eqn:S2; [|discriminate]. inversion H; subst.
  destruct A as [A1 A2]. eapply IH; [split; [eapply step_pe; eauto|eapply step_base_ok; eauto]|exact S2].
Qed.

Lemma init_aux c : pe_ok (init_st c) /\ base_ok (init_st c).
Proof. split; [intros X; discriminate X|intros e b []]. Qed.

Lemma step_good c s l s' o : Good c s -> step c s l = Some (s', o) -> Good c s'.
Proof.
  intros (HI & PD & PE & BO) H. split; [exact (step_inv _ _ _ _ _ _ HI H)|].
  split; [|split; [|exact (step_base_ok _ _ _ _ _ BO H)]];
    destruct (step_flags _ _ _ _ _ H) as [(A & B)|[(A & B)|(A & B)]]; congruence.
Qed.

Lemma exec_good c ls s tr : exec c ls = Some (s, tr) -> pdone s = true -> Good c s.
Proof.
  intros H PD. destruct (exec_from_aux c ls _ _ _ (init_aux c) H) as [PE BO].
  split; [exact (exec_from_inv _ c ls _ _ _ (init_inv c) H)|]. split; [exact PD|]. split; [exact (PE PD)|exact BO].
Qed.

(* ---- the bound ---- *)
Lemma tops_cons l t : tops (l :: t) = ((if is_top l then 1 else 0) + tops t)%nat.
Proof. unfold tops. cbn [filter]. destruct (is_top l); reflexivity. Qed.

Lemma exec_from_phi c : cf_concurrency c <> Some 0%nat -> forall ls s s' o,
  Good c s -> exec_from c s ls = Some (s', o) -> N.of_nat (tops ls) + Phi s' <= Phi s.
Proof.
  intros NZ. induction ls as [|l t IH]; intros s s' o G H; cbn [exec_from] in H.
  - inversion H; subst. unfold tops. cbn [filter length]. lia.
  - destruct (step c s l) as [[s1 o1]|] eqn:S1; [|discriminate].
    destruct (exec_from c s1 t) as [[s2 o2]|] eqn:S2; [|discriminate]. inversion H; subst.
    pose proof (step_phi _ _ _ _ _ NZ G S1) as P1.
    pose proof (IH _ _ _ (step_good _ _ _ _ _ G S1) S2) as P2.
    rewrite tops_cons. destruct (is_top l); lia.
Qed.

Lemma Phi_bound s : Phi s <= 3 * pot (fun _ => true) s + N.of_nat (length (running s)) + 3.
Proof.
  pose proof (base3_pot s) as B. unfold allsel in B. pose proof (cflag_le s). pose proof (dflag_le s). unfold Phi. lia.
Qed.

(* Once the parser has ended (pdone), with a concurrency limit other than 0, whatever the continuation — any
   interleaving of clock ticks, attempt progress and loop turns, of any length — the loop takes at most
   3 * (retry potential of the state) + (attempts in flight) + 3 turns. *)
Theorem turns_bounded c ls0 s0 tr0 ls s tr :
  exec c ls0 = Some (s0, tr0) -> pdone s0 = true -> cf_concurrency c <> Some 0%nat ->
  exec_from c s0 ls = Some (s, tr) ->
  N.of_nat (tops ls) <= 3 * pot (fun _ => true) s0 + N.of_nat (length (running s0)) + 3.
Proof.
  intros H0 PD NZ H.
  pose proof (exec_from_phi c NZ ls _ _ _ (exec_good _ _ _ _ H0 PD) H) as P. pose proof (Phi_bound s0). lia.
Qed.

(* in terms of the input alone: 3 * (one attempt plus the retries of every supplied scenario) + limit + 3 *)
Corollary turns_bounded_input c k ls0 s0 tr0 ls s tr :
  cf_concurrency c = Some (S k) -> exec c ls0 = Some (s0, tr0) -> pdone s0 = true ->
  exec_from c s0 ls = Some (s, tr) ->
  N.of_nat (tops ls) <= 3 * budget (fun _ => true) ls0 + N.of_nat (S k) + 3.
Proof.
  intros HK H0 PD H.
  assert (NZ : cf_concurrency c <> Some 0%nat) by (rewrite HK; discriminate).
  pose proof (turns_bounded _ _ _ _ _ _ _ H0 PD NZ H) as T.
  pose proof (running_bounded _ _ _ _ _ HK H0) as RB.
  pose proof (exec_from_budget (fun _ => true) c ls0 _ _ _ H0) as BU.
  assert (P0 : pot (fun _ => true) (init_st c) = 0) by reflexivity. lia.
Qed.

(* the two ingredients, stated on their own *)
(* (a) an idle turn (parser ended, limit not 0) leaves a state in which a queued entry is ready ... *)
Lemma idle_turn_primes s s' o : loop_top s = (s', o) ->
  running s = [] -> pdone s = true -> base_ok s -> flow s <> Cont (Some 0%nat) ->
  pc s' = Yielded -> primedb s' = true.
Proof.
  intros LT R PD BO NZ PY. pose proof (loop_top_phi_A _ _ _ LT R PD BO NZ) as A.
  destruct (loop_top_cases _ _ _ LT) as (batch & qs & qc & md & G & _ & _ & _ & _ & CS).
  pose proof (loop_top_base _ _ _ _ _ _ _ LT G) as BA.
  destruct CS as [(_ & _ & _ & PD' & _)|[(_ & B & _)|(_ & PA & _)]]; try congruence.
  subst batch. cbn [length] in BA.
  unfold Phi, cflag in A. rewrite (dflag_nd s') in A by congruence.
  destruct (primedb s'); [reflexivity|]. destruct (rdy s); lia.
Qed.

(* ... and (b) a turn taken from a primed state dispatches *)
Lemma primed_turn_dispatches s s' o : loop_top s = (s', o) ->
  running s = [] -> flow s <> Cont (Some 0%nat) -> flow s <> Break ->
  primedb s = true -> pc s' = Awaiting.
Proof.
  intros LT R NZ NB PR.
  assert (PY : pc s = Yielded) by (unfold primedb in PR; destruct (pc s); try discriminate PR; reflexivity).
  rewrite (primedb_yielded _ PY) in PR.
  destruct (loop_top_cases _ _ _ LT) as (batch & qs & qc & md & G & _ & _ & _ & _ & CS).
  assert (NZ' : slots_of s <> Some 0%nat).
  { unfold slots_of. destruct (flow s) as [|k]; [congruence|]. intros X. apply NZ. rewrite X. reflexivity. }
  destruct CS as [(_ & B & _)|[(_ & B & _)|(_ & PA & _)]]; [| |exact PA]; exfalso; subst batch;
    destruct (get_idle _ _ _ _ _ NZ' R G) as (_ & _ & FW & _);
    unfold rdy in PR; apply existsb_exists in PR as (x & Ix & Rx);
    rewrite Forall_forall in FW; specialize (FW x Ix); unfold readyb in Rx;
    (destruct (left_until (now s) x); [discriminate|congruence]).
Qed.

(* ---- a concrete run: one feature, two scenarios (the first with one retry after 5ns), limit 1 ---- *)
Definition ex_c : cfg := mk_cfg (Some 1%nat) false.
Definition ex_F : sfeature :=
  mk_sfeature 1 [mk_sscen 10 None false (Some (1, Some 5)); mk_sscen 11 None false None] 0 2.
Definition ex_ls0 : list label := [LFeature ex_F; LParserEnd].
Definition ex_ls : list label :=
  [LTop;                                              (* run-Started; dispatches 10 *)
   LAttStart (10, 0); LAttEnd (10, 0) true;           (* fails: the retry (10,1) is queued, due in 5ns *)
   LTop;                                              (* consumes it; the retry waits, 11 is dispatched *)
   LAttStart (11, 0); LAttEnd (11, 0) false;
   LTop;                                              (* consumes it; only the waiting retry: idle, clock jumps *)
   LTop;                                              (* the retry is ready: dispatched *)
   LAttStart (10, 1); LAttEnd (10, 1) false;
   LTop].                                             (* consumes it; nothing left: Done *)

Example ex_turns :
  cf_concurrency ex_c <> Some 0%nat /\
  match exec ex_c ex_ls0 with
  | Some (s0, _) =>
    pdone s0 = true /\
    match exec_from ex_c s0 ex_ls with
    | Some (s, _) =>
      pc s = Done /\ tops ex_ls = 5%nat /\
      3 * pot (fun _ => true) s0 + N.of_nat (length (running s0)) + 3 = 12
    | None => False
    end
  | None => False
  end.
Proof. split; [discriminate|]. vm_compute. repeat split. Qed.
