(* GlueP.v — what the generated argument-extraction code guarantees (C19). *)
From CV Require Import Model.Base Model.Glue Proofs.BaseP.
From Coq Require Import Lia.

Definition plain (c : cap) : Prop := family_prefix (fst c) = None.

Lemma first_nonempty_single s : first_nonempty [s] = s.
Proof. destruct s; reflexivity. Qed.

Lemma take_arg_plain c rest : plain c -> take_arg (c :: rest) = Some (snd c, rest).
Proof.
  intros H. unfold take_arg. unfold plain in H. rewrite H.
  assert (E : take_while (in_family None) rest = []) by (destruct rest as [|x t]; reflexivity).
  rewrite E. cbn [map length skipn]. rewrite first_nonempty_single. reflexivity.
Qed.

Section P.
  Variable parse : N -> str -> option str.

  (* typed arguments receive the capture groups in declaration order, one group each, parsed with FromStr *)
  Theorem args_in_order : forall tys it i,
    Forall plain it -> (length tys <= length it)%nat ->
    (forall ty c, In ty tys -> In c it -> parse ty (snd c) <> None) ->
    exists ds, extract_args parse i (map ATyped tys) it = ORan ds /\
               length ds = length tys /\
               forall k ty c, nth_error tys k = Some ty -> nth_error it k = Some c ->
                              nth_error ds k = parse ty (snd c).
  Proof.
    induction tys as [|ty tys IH]; intros it i FP LEN OK; cbn [map extract_args].
    - exists []. split; [reflexivity|split; [reflexivity|]]. intros k ty c H. destruct k; discriminate.
    - destruct it as [|c rest]; [cbn in LEN; lia|]. inversion FP; subst.
      rewrite (take_arg_plain c rest H1).
      destruct (parse ty (snd c)) as [d|] eqn:PD; [|exfalso; eapply OK; [left; reflexivity|left; reflexivity|exact PD]].
      destruct (IH rest (S i) H2) as (ds & E & L & NTH).
      + cbn in LEN. lia.
      + intros ty' c' Hty Hc. apply OK; right; assumption.
      + rewrite E. exists (d :: ds). split; [reflexivity|split; [cbn; lia|]].
        intros k ty' c' Hk Hc. destruct k; cbn in *.
        * inversion Hk; inversion Hc; subst. symmetry. exact PD.
        * eapply NTH; eauto.
  Qed.

  (* a parse failure is never ignored: the step panics *)
  Theorem parse_failure_panics : forall tys1 ty tys2 it1 c it2 i,
    Forall plain (it1 ++ c :: it2) -> length it1 = length tys1 ->
    (forall k t x, nth_error tys1 k = Some t -> nth_error it1 k = Some x -> parse t (snd x) <> None) ->
    parse ty (snd c) = None ->
    extract_args parse i (map ATyped (tys1 ++ ty :: tys2)) (it1 ++ c :: it2) = OParseFailed (i + length tys1).
  Proof.
    induction tys1 as [|t tys1 IH]; intros ty tys2 it1 c it2 i FP LEN OK PF.
    - destruct it1; [|discriminate]. cbn [app map extract_args]. inversion FP; subst.
      rewrite (take_arg_plain c it2 H1), PF. f_equal. cbn. lia.
    - destruct it1 as [|x it1]; [discriminate|]. cbn [app map extract_args]. inversion FP; subst.
      rewrite (take_arg_plain x (it1 ++ c :: it2) H1).
      destruct (parse t (snd x)) as [d|] eqn:PD; [|exfalso; eapply (OK 0%nat); [reflexivity|reflexivity|exact PD]].
      rewrite (IH ty tys2 it1 c it2 (S i) H2).
      + f_equal. cbn. lia.
      + cbn in LEN. lia.
      + intros k t' x' Hk Hx. apply (OK (S k)); assumption.
      + exact PF.
  Qed.

  (* fewer groups than arguments: "<ident> not found", the step panics *)
  Theorem too_few_groups_panics : forall tys ty it i,
    Forall plain it -> length it = length tys ->
    (forall k t x, nth_error tys k = Some t -> nth_error it k = Some x -> parse t (snd x) <> None) ->
    extract_args parse i (map ATyped (tys ++ [ty])) it = ONotFound (i + length tys).
  Proof.
    induction tys as [|t tys IH]; intros ty it i FP LEN OK.
    - destruct it; [|discriminate]. cbn. f_equal. lia.
    - destruct it as [|x it]; [discriminate|]. cbn [app map extract_args]. inversion FP; subst.
      rewrite (take_arg_plain x it H1).
      destruct (parse t (snd x)) as [d|] eqn:PD; [|exfalso; eapply (OK 0%nat); [reflexivity|reflexivity|exact PD]].
      rewrite (IH ty it (S i) H2); [f_equal; cbn; lia | cbn in LEN; lia |].
      intros k t' x' Hk Hx. apply (OK (S k)); assumption.
  Qed.

  (* the slice variant receives ALL capture groups, in order *)
  Theorem slice_gets_all : forall it fuel ty i,
    Forall plain it -> (length it <= fuel)%nat ->
    (forall c, In c it -> parse ty (snd c) <> None) ->
    exists ds, extract_slice parse fuel i ty it = ORan ds /\ length ds = length it /\
               forall k c, nth_error it k = Some c -> nth_error ds k = parse ty (snd c).
  Proof.
    induction it as [|c rest IH]; intros fuel ty i FP LEN OK.
    - exists []. destruct fuel; (split; [reflexivity|split; [reflexivity|]]); intros k c H; destruct k; discriminate.
    - destruct fuel as [|fuel]; [cbn in LEN; lia|]. cbn [extract_slice]. inversion FP; subst.
      rewrite (take_arg_plain c rest H1).
      destruct (parse ty (snd c)) as [d|] eqn:PD; [|exfalso; eapply OK; [left; reflexivity|exact PD]].
      destruct (IH fuel ty (S i) H2) as (ds & E & L & NTH); [cbn in LEN; lia | intros c' Hc; apply OK; right; exact Hc |].
      rewrite E. exists (d :: ds). split; [reflexivity|split; [cbn; lia|]].
      intros k c' Hc. destruct k; cbn in *; [inversion Hc; subst; symmetry; exact PD | apply NTH; exact Hc].
  Qed.
End P.

(* a multi-group Cucumber-Expression parameter: the whole `__N_` family is ONE argument, its first
   non-empty group *)
Example family_is_one_argument :
  take_arg [(Some (lit "__0_0"), []); (Some (lit "__0_1"), lit "dog"); (None, lit "3")] = Some (lit "dog", [(None, lit "3")]).
Proof. vm_compute. reflexivity. Qed.
