(* NormalizeP4.v — C11 "sequential": what Normalize hands to the inner writer is accepted by the SEQUENTIAL
   contract automaton (one feature, one rule, one attempt open at a time). Bottom-up over the four nested
   emission loops; the automaton state after the output so far is a VIEW of (input automaton state, buffer). *)
From CV Require Import Proofs.SchedP5.
From CV Require Import Model.Base Model.Events Model.Contract Model.Normalize
  Proofs.BaseP Proofs.NormalizeP Proofs.NormalizeP2 Proofs.NormalizeP3.
From Coq Require Import Lia Permutation.

Definition is_started (x : scev) : bool := match x with ScStarted => true | _ => false end.
Definition starts_started (es : list aev) : bool := match es with e :: _ => is_started (snd e) | [] => false end.
(* an attempt's buffered events: Started can only be the first, Finished only the last *)
Definition att_shape (es : list aev) : bool :=
  forallb (fun e => negb (is_started (snd e))) (tl es) && fin_last es.

Definition parents_seq (c : cstate) (f : N) (ro : option N) : Prop :=
  lookup N.eqb f (c_feats c) = Some Open /\
  match ro with
  | Some r => lookup rkey_eqb (f, r) (c_rules c) = Some Open
  | None => open_rules_of f c = false
  end.

Definition same_but_atts (c c' : cstate) : Prop :=
  c_feats c' = c_feats c /\ c_rules c' = c_rules c /\ c_finished c' = c_finished c /\ c_started c' = c_started c /\ c_pf c' = c_pf c.
Lemma same_but_atts_refl c : same_but_atts c c.
Proof. repeat split. Qed.
Lemma same_but_atts_trans a b c : same_but_atts a b -> same_but_atts b c -> same_but_atts a c.
Proof. intros (A1 & A2 & A3 & A4 & A5) (B1 & B2 & B3 & B4 & B5). repeat split; congruence. Qed.

Lemma parents_seq_ext c c' f ro : same_but_atts c c' -> parents_seq c f ro -> parents_seq c' f ro.
Proof.
  intros (E1 & E2 & _) [P1 P2]. split; [rewrite E1; exact P1|]. destruct ro as [r|]; [rewrite E2; exact P2|].
  unfold open_rules_of in *. rewrite E2. exact P2.
Qed.

Lemma cstep_seq_parents c f ro :
  parents_seq c f ro ->
  (is_open (lookup N.eqb f (c_feats c)) &&
   match ro with Some r' => is_open (lookup rkey_eqb (f, r') (c_rules c)) | None => negb true || negb (open_rules_of f c) end) = true.
Proof.
  intros [P1 P2]. rewrite P1. cbn [is_open andb]. destruct ro as [r|]; [rewrite P2; reflexivity|rewrite P2; reflexivity].
Qed.

(* the events of an attempt after its Started *)
Lemma seq_att_tail f ro sc rt : forall (es : list aev) c,
  c_finished c = false -> parents_seq c f ro ->
  lookup atkey_eqb (f, ro, sc, rt) (c_atts c) = Some Open ->
  forallb (fun e => negb (is_started (snd e))) es = true -> fin_last es = true ->
  exists c', crun true c (map snd (att_evs f ro ((sc, rt), es))) = Some c' /\ same_but_atts c c' /\
    (forall k, k <> (f, ro, sc, rt) -> lookup atkey_eqb k (c_atts c') = lookup atkey_eqb k (c_atts c)) /\
    lookup atkey_eqb (f, ro, sc, rt) (c_atts c') = Some (if has_fin es then Closed else Open).
Proof.
  induction es as [|[m x] t IH]; intros c CF PS OP NS FL.
  - exists c. cbn. split; [reflexivity|]. split; [apply same_but_atts_refl|]. split; [reflexivity|exact OP].
  - cbn [forallb snd] in NS. apply andb_prop in NS as [N1 N2]. apply negb_true_iff in N1.
    unfold att_evs. cbn [fst snd map mk_scen crun].
    pose proof (cstep_seq_parents c f ro PS) as PG.
    destruct (is_sc_finished x) eqn:XF.
    + (* Finished: the last event *)
      destruct x; try discriminate XF. destruct t as [|y t']; [|cbn [fin_last snd is_sc_finished negb andb] in FL; discriminate FL].
      set (c1 := set_catts c (setk atkey_eqb (f, ro, sc, rt) Closed (c_atts c))).
      exists c1. cbn [map crun]. unfold cstep. rewrite CF, PG, OP. cbn [is_open andb guard].
      split; [reflexivity|]. split; [repeat split|]. split.
      * intros k NE. cbn [c1 set_catts c_atts]. apply (lookup_setk_other atkey_eqb atkey_eqb_spec). exact NE.
      * cbn [c1 set_catts c_atts has_fin existsb snd is_sc_finished orb]. apply (lookup_setk_same atkey_eqb atkey_eqb_spec).
    + (* a middle event: the automaton state does not change *)
      assert (ST : cstep true c (EvScen f ro sc rt x) = Some c).
      { unfold cstep. rewrite CF. destruct x; try discriminate N1; try discriminate XF; rewrite PG, OP; reflexivity. }
      rewrite ST. destruct (IH c CF PS OP N2 (fin_last_cons _ _ FL)) as (c' & R & SB & LO & LK).
      exists c'. split; [exact R|]. split; [exact SB|]. split; [exact LO|].
      unfold has_fin in *. cbn [existsb snd]. rewrite XF. cbn [orb]. exact LK.
Qed.

Lemma open_atts_none_any c p : open_atts_where (fun _ => true) c = false -> open_atts_where p c = false.
Proof.
  unfold open_atts_where. intros H.
  destruct (existsb (fun ka => p (fst ka) && status_eqb (snd ka) Open) (c_atts c)) eqn:E; [|reflexivity]. exfalso.
  apply existsb_exists in E as (ka & Hin & Hp). apply andb_prop in Hp as [_ Hs].
  assert (X : existsb (fun ka0 => true && status_eqb (snd ka0) Open) (c_atts c) = true).
  { apply existsb_exists. exists ka. split; [exact Hin|exact Hs]. }
  congruence.
Qed.

Definition att_key (f : N) (ro : option N) (k : akey) : atkey := (f, ro, fst k, snd k).

(* all buffered events of one attempt *)
Lemma seq_att f ro (k : akey) (es : list aev) c :
  c_finished c = false -> parents_seq c f ro -> att_shape es = true ->
  (starts_started es = true ->
     lookup atkey_eqb (att_key f ro k) (c_atts c) = None /\ open_atts_where (fun _ => true) c = false /\
     prev_attempt_closed c f ro (fst k) (snd k) = true) ->
  (starts_started es = false -> es = [] \/ lookup atkey_eqb (att_key f ro k) (c_atts c) = Some Open) ->
  exists c', crun true c (map snd (att_evs f ro (k, es))) = Some c' /\ same_but_atts c c' /\
    (forall k', k' <> att_key f ro k -> lookup atkey_eqb k' (c_atts c') = lookup atkey_eqb k' (c_atts c)) /\
    (es <> [] -> lookup atkey_eqb (att_key f ro k) (c_atts c') = Some (if has_fin es then Closed else Open)) /\
    (es = [] -> c' = c).
Proof.
  intros CF PS SH HS HN. destruct k as [sc rt]. unfold att_key in *. cbn [fst snd] in *.
  unfold att_shape in SH. apply andb_prop in SH as [NS FL].
  destruct es as [|[m x] t].
  - exists c. cbn. split; [reflexivity|]. split; [apply same_but_atts_refl|]. split; [reflexivity|]. split; [intros X; contradiction|reflexivity].
  - cbn [tl] in NS. destruct (is_started x) eqn:XS.
    + destruct x; try discriminate XS. destruct (HS eq_refl) as (AB & NO & PV).
      set (c1 := set_catts c (setk atkey_eqb (f, ro, sc, rt) Open (c_atts c))).
      assert (ST : cstep true c (EvScen f ro sc rt ScStarted) = Some c1).
      { unfold cstep. rewrite CF, (cstep_seq_parents c f ro PS), AB, (open_atts_none_any c _ NO), PV, NO. reflexivity. }
      assert (PS1 : parents_seq c1 f ro) by (apply (parents_seq_ext c c1); [repeat split|exact PS]).
      assert (OP1 : lookup atkey_eqb (f, ro, sc, rt) (c_atts c1) = Some Open).
      { cbn [c1 set_catts c_atts]. apply (lookup_setk_same atkey_eqb atkey_eqb_spec). }
      assert (FLt : fin_last t = true).
      { destruct t as [|y t']; [reflexivity|]. exact (fin_last_cons _ _ FL). }
      destruct (seq_att_tail f ro sc rt t c1 CF PS1 OP1 NS FLt) as (c' & R & SB & LO & LK).
      exists c'. split.
      { unfold att_evs in *. cbn [fst snd map mk_scen crun] in *. rewrite ST. exact R. }
      split; [exact (same_but_atts_trans c c1 c' (conj eq_refl (conj eq_refl (conj eq_refl (conj eq_refl eq_refl)))) SB)|].
      split.
      { intros k' NE. rewrite (LO k' NE). cbn [c1 set_catts c_atts]. apply (lookup_setk_other atkey_eqb atkey_eqb_spec). exact NE. }
      split; [|intros X; discriminate X]. intros _. rewrite LK. unfold has_fin. cbn [existsb snd is_sc_finished orb]. reflexivity.
    + destruct (HN XS) as [X|OP]; [discriminate X|].
      assert (NS' : forallb (fun e => negb (is_started (snd e))) ((m, x) :: t) = true).
      { cbn [forallb snd]. rewrite XS. exact NS. }
      destruct (seq_att_tail f ro sc rt ((m, x) :: t) c CF PS OP NS' FL) as (c' & R & SB & LO & LK).
      exists c'. split; [exact R|]. split; [exact SB|]. split; [exact LO|]. split; [intros _; exact LK|intros X; discriminate X].
Qed.

(* ---- level B: the attempts of one rule (or, with ro = None, a run of top-level attempts) ---- *)
Definition prev_key (f : N) (ro : option N) (k : akey) : option atkey :=
  match snd k with
  | Some (cur, lft) => if cur =? 0 then None else Some (f, ro, fst k, Some (cur - 1, lft + 1))
  | None => None
  end.

Lemma prev_closed_of_key c f ro k :
  match prev_key f ro k with Some pk => lookup atkey_eqb pk (c_atts c) = Some Closed | None => True end ->
  prev_attempt_closed c f ro (fst k) (snd k) = true.
Proof.
  unfold prev_key, prev_attempt_closed. destruct (snd k) as [[cur lft]|]; [|reflexivity].
  destruct (cur =? 0); [reflexivity|]. intros ->. reflexivity.
Qed.

(* a precedes b in the key list *)
Definition kbefore {K} (ks : list K) (a b : K) : Prop := exists p q, ks = p ++ a :: q /\ In b q.
Lemma kbefore_cons_inv {K} (h : K) ks a b : kbefore (h :: ks) a b -> (a = h /\ In b ks) \/ kbefore ks a b.
Proof.
  intros (p & q & E & Hb). destruct p as [|x p]; cbn [app] in E; inversion E; subst.
  - left. auto.
  - right. exists p, q. auto.
Qed.
Lemma kbefore_cons {K} (h : K) ks a b : kbefore ks a b -> kbefore (h :: ks) a b.
Proof. intros (p & q & E & Hb). exists (h :: p), q. subst. auto. Qed.
Lemma kbefore_head {K} (h : K) ks b : In b ks -> kbefore (h :: ks) h b.
Proof. intros H. exists [], ks. auto. Qed.
Lemma kbefore_app {K} (ks m : list K) a b : kbefore ks a b -> kbefore (ks ++ m) a b.
Proof. intros (p & q & E & Hb). exists p, (q ++ m). subst. rewrite <- app_assoc. split; [reflexivity|apply in_or_app; auto]. Qed.
Lemma kbefore_snoc {K} (ks : list K) a b : In a ks -> kbefore (ks ++ [b]) a b.
Proof.
  intros H. apply in_split in H as (p & q & ->). exists p, (q ++ [b]). rewrite <- app_assoc. split; [reflexivity|].
  apply in_or_app. right. left. reflexivity.
Qed.
Lemma kbefore_in_r {K} (ks : list K) a b : kbefore ks a b -> In b ks.
Proof. intros (p & q & -> & Hb). apply in_or_app. right. right. exact Hb. Qed.
Lemma kbefore_in_l {K} (ks : list K) a b : kbefore ks a b -> In a ks.
Proof. intros (p & q & -> & Hb). apply in_or_app. right. left. reflexivity. Qed.
Lemma kbefore_nodup_head {K} (h : K) ks a : NoDup (h :: ks) -> ~ kbefore (h :: ks) a h.
Proof.
  intros ND KB. inversion ND as [|? ? NI _]; subst. apply kbefore_cons_inv in KB as [[_ X]|X]; [exact (NI X)|].
  exact (NI (kbefore_in_r _ _ _ X)).
Qed.

(* the state of the automaton is compatible with emitting the list l of attempts from its head *)
Record atts_inv (c : cstate) (f : N) (ro : option N) (l : list (akey * list aev)) : Prop := mk_atts_inv {
  ai_nodup : NoDup (keys l);
  ai_shape : forall k es, In (k, es) l -> att_shape es = true;
  ai_tail : forall k es, In (k, es) (tl l) -> starts_started es = true;
  ai_fresh : forall k es, In (k, es) l -> starts_started es = true -> lookup atkey_eqb (att_key f ro k) (c_atts c) = None;
  ai_head : match l with
            | (k, es) :: _ => starts_started es = false -> lookup atkey_eqb (att_key f ro k) (c_atts c) = Some Open
            | [] => True end;
  ai_open : forall k', lookup atkey_eqb k' (c_atts c) = Some Open ->
            match l with (k, es) :: _ => k' = att_key f ro k /\ starts_started es = false | [] => False end;
  ai_prev : forall k es, In (k, es) l ->
            match prev_key f ro k with
            | Some pk => lookup atkey_eqb pk (c_atts c) = Some Closed \/
                         (exists k0, att_key f ro k0 = pk /\ kbefore (keys l) k0 k)
            | None => True end }.

Lemma att_key_inj f ro k1 k2 : att_key f ro k1 = att_key f ro k2 -> k1 = k2.
Proof. destruct k1, k2. unfold att_key. cbn. intros E. inversion E. reflexivity. Qed.

Lemma open_atts_all_false c : nodupk (c_atts c) ->
  (forall k, lookup atkey_eqb k (c_atts c) <> Some Open) -> open_atts_where (fun _ => true) c = false.
Proof.
  intros ND H. unfold open_atts_where. destruct (existsb _ _) eqn:E; [|reflexivity]. exfalso.
  apply existsb_exists in E as ([k st] & Hin & Hp). cbn [fst snd andb] in Hp. destruct st; [|discriminate].
  apply (H k). apply (nodupk_lookup atkey_eqb atkey_eqb_spec); assumption.
Qed.

Lemma nodupk_setk_atts c k v : nodupk (c_atts c) -> nodupk (c_atts (set_catts c (setk atkey_eqb k v (c_atts c)))).
Proof. intros H. cbn [set_catts c_atts]. apply (nodupk_setk atkey_eqb atkey_eqb_spec). exact H. Qed.

Lemma crun_app seq c a b : crun seq c (a ++ b) = match crun seq c a with Some c' => crun seq c' b | None => None end.
Proof.
  revert c. induction a as [|e a IH]; intros c; [reflexivity|]. cbn [app crun].
  destruct (cstep seq c e); [apply IH|reflexivity].
Qed.

Lemma crun_app_intro seq c a b c1 c2 : crun seq c a = Some c1 -> crun seq c1 b = Some c2 -> crun seq c (a ++ b) = Some c2.
Proof. intros A B. rewrite crun_app, A. exact B. Qed.

Definition WFc (c : cstate) : Prop := nodupk (c_feats c) /\ nodupk (c_rules c) /\ nodupk (c_atts c).

Lemma cstep_WFc seq c e c' : cstep seq c e = Some c' -> WFc c -> WFc c'.
Proof.
  unfold cstep. destruct (c_finished c); [discriminate|]. intros H (W1 & W2 & W3).
  assert (K : WFc c) by (repeat split; assumption).
  destruct e as [| | | |f|f|f r|f r|f ro sc rt x].
  - apply guard_some in H as [_ <-]. exact K.
  - apply guard_some in H as [_ <-]. exact K.
  - inversion H; subst. exact K.
  - apply guard_some in H as [_ <-]. exact K.
  - apply guard_some in H as [_ <-]. split; [|split]; cbn [set_cfeats c_feats c_rules c_atts]; auto. apply (nodupk_setk N.eqb N.eqb_eq). exact W1.
  - apply guard_some in H as [_ <-]. split; [|split]; cbn [set_cfeats c_feats c_rules c_atts]; auto. apply (nodupk_setk N.eqb N.eqb_eq). exact W1.
  - apply guard_some in H as [_ <-]. split; [|split]; cbn [set_crules c_feats c_rules c_atts]; auto. apply (nodupk_setk rkey_eqb rkey_eqb_spec). exact W2.
  - apply guard_some in H as [_ <-]. split; [|split]; cbn [set_crules c_feats c_rules c_atts]; auto. apply (nodupk_setk rkey_eqb rkey_eqb_spec). exact W2.
  - destruct x; apply guard_some in H as [_ <-]; try exact K; (split; [|split]); cbn [set_catts c_feats c_rules c_atts]; auto;
      apply (nodupk_setk atkey_eqb atkey_eqb_spec); exact W3.
Qed.
Lemma crun_WFc seq : forall o c c', crun seq c o = Some c' -> WFc c -> WFc c'.
Proof.
  induction o as [|e o IH]; intros c c' H W; cbn [crun] in H; [inversion H; subst; exact W|].
  destruct (cstep seq c e) as [c1|] eqn:S; [|discriminate]. exact (IH _ _ H (cstep_WFc _ _ _ _ S W)).
Qed.

Lemma att_shape_fin_last es : att_shape es = true -> fin_last es = true.
Proof. unfold att_shape. intros H. apply andb_prop in H as [_ H]. exact H. Qed.

Lemma has_fin_nonempty es : has_fin es = true -> es <> [].
Proof. intros H ->. discriminate H. Qed.

Lemma atts_inv_head_pre c f ro k es t :
  atts_inv c f ro ((k, es) :: t) -> WFc c ->
  (starts_started es = true ->
     lookup atkey_eqb (att_key f ro k) (c_atts c) = None /\ open_atts_where (fun _ => true) c = false /\
     prev_attempt_closed c f ro (fst k) (snd k) = true) /\
  (starts_started es = false -> es = [] \/ lookup atkey_eqb (att_key f ro k) (c_atts c) = Some Open).
Proof.
  intros [ND SH TL FR HD OP PV] (_ & _ & W3). split.
  - intros SS. split; [exact (FR k es (or_introl eq_refl) SS)|]. split.
    + apply open_atts_all_false; [exact W3|]. intros k' L. destruct (OP k' L) as [_ X]. congruence.
    + apply prev_closed_of_key. specialize (PV k es (or_introl eq_refl)). destruct (prev_key f ro k); [|exact I].
      destruct PV as [X|(k0 & _ & KB)]; [exact X|]. exfalso. exact (kbefore_nodup_head k (keys t) k0 ND KB).
  - intros SS. right. exact (HD SS).
Qed.

Lemma prev_key_neq f ro k : match prev_key f ro k with Some pk => pk <> att_key f ro k | None => True end.
Proof.
  unfold prev_key, att_key. destruct k as [sc [[cur lft]|]]; cbn [fst snd]; [|exact I].
  destruct (cur =? 0) eqn:E; [exact I|]. intros X. inversion X. apply N.eqb_neq in E. lia.
Qed.

(* level B: the emission loop over the attempts of a rule *)
Lemma seq_atts f r : forall l c,
  atts_inv c f (Some r) l -> WFc c -> c_finished c = false -> parents_seq c f (Some r) ->
  exists c', crun true c (map snd (fst (emit_atts f r l))) = Some c' /\ same_but_atts c c' /\
    atts_inv c' f (Some r) (snd (emit_atts f r l)) /\
    (forall k', (forall k, In k (keys l) -> k' <> att_key f (Some r) k) ->
                lookup atkey_eqb k' (c_atts c') = lookup atkey_eqb k' (c_atts c)) /\
    (forall k es, In (k, es) l -> ~ In k (keys (snd (emit_atts f r l))) ->
                  lookup atkey_eqb (att_key f (Some r) k) (c_atts c') = Some Closed).
Proof.
  induction l as [|[k es] t IH]; intros c INV W CF PS.
  - exists c. cbn [emit_atts fst snd map crun]. split; [reflexivity|]. split; [apply same_but_atts_refl|].
    split; [exact INV|]. split; [reflexivity|intros k es []].
  - pose proof INV as [ND SH TL FR HD OP PV].
    pose proof (SH k es (or_introl eq_refl)) as SHk.
    destruct (atts_inv_head_pre c f (Some r) k es t INV W) as [PRE1 PRE2].
    destruct (seq_att f (Some r) k es c CF PS SHk PRE1 PRE2) as (c1 & R1 & SB1 & LO1 & LK1 & LE1).
    cbn [emit_atts]. rewrite (emit_att_wf f (Some r) k es (att_shape_fin_last _ SHk)).
    assert (W1 : WFc c1) by exact (crun_WFc _ _ _ _ R1 W).
    assert (CF1 : c_finished c1 = false) by (destruct SB1 as (_ & _ & X & _); congruence).
    assert (PS1 : parents_seq c1 f (Some r)) by exact (parents_seq_ext c c1 f (Some r) SB1 PS).
    inversion ND as [|? ? NI ND']; subst.
    assert (NEQ : forall k2 es2, In (k2, es2) t -> att_key f (Some r) k2 <> att_key f (Some r) k).
    { intros k2 es2 H2 X. apply att_key_inj in X. subst k2. apply NI. exact (in_keys _ _ _ H2). }
    destruct (has_fin es) eqn:HF.
    + (* finished: emitted completely and dropped; go on with the rest *)
      pose proof (LK1 (has_fin_nonempty _ HF)) as CL.
      assert (INV1 : atts_inv c1 f (Some r) t).
      { constructor.
        - exact ND'.
        - intros k2 es2 H2. apply (SH k2 es2). right. exact H2.
        - intros k2 es2 H2. apply (TL k2 es2). cbn [tl]. destruct t as [|x t']; [destruct H2|]. right. exact H2.
        - intros k2 es2 H2 SS. rewrite (LO1 _ (NEQ k2 es2 H2)). apply (FR k2 es2); [right; exact H2|exact SS].
        - destruct t as [|[k2 es2] t']; [exact I|]. intros SS.
          rewrite (TL k2 es2 (or_introl eq_refl)) in SS. discriminate SS.
        - intros k' L. exfalso. destruct (atkey_eqb k' (att_key f (Some r) k)) eqn:E.
          + apply atkey_eqb_spec in E. subst k'. congruence.
          + assert (NE : k' <> att_key f (Some r) k) by (intros ->; rewrite (proj2 (atkey_eqb_spec _ _) eq_refl) in E; discriminate).
            rewrite (LO1 _ NE) in L. destruct (OP k' L) as [X _]. contradiction.
        - intros k2 es2 H2. pose proof (PV k2 es2 (or_intror H2)) as PV2.
          destruct (prev_key f (Some r) k2) as [pk|] eqn:PK; [|exact I].
          destruct PV2 as [X|(k0 & KE & KB)].
          + left. destruct (atkey_eqb pk (att_key f (Some r) k)) eqn:E2.
            * apply atkey_eqb_spec in E2. subst pk. exact CL.
            * rewrite LO1; [exact X|]. intros ->. rewrite (proj2 (atkey_eqb_spec _ _) eq_refl) in E2. discriminate.
          + change (keys ((k, es) :: t)) with (k :: keys t) in KB. apply kbefore_cons_inv in KB as [[-> _]|KB].
            * left. rewrite <- KE. exact CL.
            * right. exists k0. split; [exact KE|exact KB]. }
      destruct (IH c1 INV1 W1 CF1 PS1) as (c' & R & SB & INV' & LO & LC).
      destruct (emit_atts f r t) as [o2 l2]. cbn [fst snd] in *.
      exists c'. split; [rewrite map_app, crun_app; match goal with |- match ?X with _ => _ end = _ => replace X with (Some c1) by (symmetry; exact R1) end; exact R|]. split; [exact (same_but_atts_trans _ _ _ SB1 SB)|].
      split; [exact INV'|]. split.
      * intros k' H. rewrite LO by (intros k2 Hk2; apply H; right; exact Hk2). apply LO1. apply H. left. reflexivity.
      * intros k2 es2 [H2|H2] NI2.
        -- inversion H2; subst. rewrite LO; [exact CL|]. intros k3 Hk3 X. apply att_key_inj in X. subst k3. exact (NI Hk3).
        -- exact (LC k2 es2 H2 NI2).
    + (* not finished: everything buffered is emitted, the attempt stays at the head *)
      cbn [fst snd]. exists c1. split; [exact R1|]. split; [exact SB1|]. split; [|split].
      * assert (KOPEN : lookup atkey_eqb (att_key f (Some r) k) (c_atts c1) = Some Open).
        { destruct es as [|e0 es0].
          - rewrite (LE1 eq_refl). apply HD. reflexivity.
          - rewrite (LK1 ltac:(discriminate)). reflexivity. }
        constructor.
        -- exact ND.
        -- intros k2 es2 [H2|H2]; [inversion H2; subst; reflexivity|apply (SH k2 es2); right; exact H2].
        -- exact TL.
        -- intros k2 es2 [H2|H2] SS; [inversion H2; subst; discriminate SS|].
           rewrite (LO1 _ (NEQ k2 es2 H2)). apply (FR k2 es2); [right; exact H2|exact SS].
        -- intros _. exact KOPEN.
        -- intros k' L. split; [|reflexivity]. destruct (atkey_eqb k' (att_key f (Some r) k)) eqn:E.
           ++ apply atkey_eqb_spec in E. exact E.
           ++ assert (NE : k' <> att_key f (Some r) k) by (intros ->; rewrite (proj2 (atkey_eqb_spec _ _) eq_refl) in E; discriminate).
              rewrite (LO1 _ NE) in L. destruct (OP k' L) as [X _]. contradiction.
        -- intros k2 es2 H2.
           assert (H2' : exists es2', In (k2, es2') ((k, es) :: t)).
           { destruct H2 as [H2|H2]; [inversion H2; subst; exists es; left; reflexivity|exists es2; right; exact H2]. }
           destruct H2' as (es2' & H2').
           pose proof (PV k2 es2' H2') as PVc. change (keys ((k, []) :: t)) with (keys ((k, es) :: t)).
           destruct (prev_key f (Some r) k2) as [pk|] eqn:PK; [|exact I]. destruct PVc as [X|X]; [|right; exact X].
           left. destruct (atkey_eqb pk (att_key f (Some r) k)) eqn:E2.
           ++ apply atkey_eqb_spec in E2. subst pk. exfalso. destruct (starts_started es) eqn:SS.
              ** destruct (PRE1 eq_refl) as (AB & _). congruence.
              ** pose proof (HD eq_refl) as OPN. congruence.
           ++ rewrite LO1; [exact X|]. intros ->. rewrite (proj2 (atkey_eqb_spec _ _) eq_refl) in E2. discriminate.
      * intros k' H. apply LO1. apply H. left. reflexivity.
      * intros k2 es2 H2 NI2. exfalso. apply NI2. cbn [keys map fst]. destruct H2 as [H2|H2]; [inversion H2; left; reflexivity|].
        right. exact (in_keys _ _ _ H2).
Qed.

(* ---- level C: one rule ---- *)
Lemma atts_inv_ext c c' f ro l : c_atts c' = c_atts c -> atts_inv c f ro l -> atts_inv c' f ro l.
Proof.
  intros E [ND SH TL FR HD OP PV]. constructor; auto.
  - intros k es H SS. rewrite E. exact (FR k es H SS).
  - destruct l as [|[k es] t]; [exact I|]. intros SS. rewrite E. exact (HD SS).
  - intros k'. rewrite E. exact (OP k').
  - intros k es H. specialize (PV k es H). destruct (prev_key f ro k); [|exact I]. rewrite E. exact PV.
Qed.

Definition same_but_atts_rules (c c' : cstate) : Prop :=
  c_feats c' = c_feats c /\ c_finished c' = c_finished c /\ c_started c' = c_started c /\ c_pf c' = c_pf c.

Lemma cstep_ruleS_seq c f r : c_finished c = false -> lookup N.eqb f (c_feats c) = Some Open ->
  lookup rkey_eqb (f, r) (c_rules c) = None -> open_rules_of f c = false ->
  open_atts_where (fun k => att_feat k =? f) c = false ->
  cstep true c (EvRuleS f r) = Some (set_crules c (setk rkey_eqb (f, r) Open (c_rules c))).
Proof. intros F S L O1 O2. unfold cstep. rewrite F, S, L, O1, O2. reflexivity. Qed.
Lemma cstep_ruleF_seq c f r : c_finished c = false -> lookup rkey_eqb (f, r) (c_rules c) = Some Open ->
  open_atts_where (fun k => (att_feat k =? f) && option_eqb N.eqb (att_rule k) (Some r)) c = false ->
  cstep true c (EvRuleF f r) = Some (set_crules c (setk rkey_eqb (f, r) Closed (c_rules c))).
Proof. intros F S L. unfold cstep. rewrite F, S, L. reflexivity. Qed.

Lemma seq_rule f r rq c :
  c_finished c = false -> WFc c -> lookup N.eqb f (c_feats c) = Some Open ->
  rule_wf rq = true -> atts_inv c f (Some r) (rq_atts rq) ->
  match rq_init rq with
  | Some _ => lookup rkey_eqb (f, r) (c_rules c) = None /\ open_rules_of f c = false /\
              (forall k', lookup atkey_eqb k' (c_atts c) <> Some Open)
  | None => lookup rkey_eqb (f, r) (c_rules c) = Some Open
  end ->
  exists c', crun true c (map snd (fst (fst (emit_rule f r rq)))) = Some c' /\ same_but_atts_rules c c' /\ WFc c' /\
    (forall k, k <> (f, r) -> lookup rkey_eqb k (c_rules c') = lookup rkey_eqb k (c_rules c)) /\
    (forall k', (forall k, In k (keys (rq_atts rq)) -> k' <> att_key f (Some r) k) ->
                lookup atkey_eqb k' (c_atts c') = lookup atkey_eqb k' (c_atts c)) /\
    (if snd (emit_rule f r rq)
     then lookup rkey_eqb (f, r) (c_rules c') = Some Closed /\ (forall k', lookup atkey_eqb k' (c_atts c') <> Some Open) /\
          (forall k es, In (k, es) (rq_atts rq) -> lookup atkey_eqb (att_key f (Some r) k) (c_atts c') = Some Closed)
     else lookup rkey_eqb (f, r) (c_rules c') = Some Open /\
          atts_inv c' f (Some r) (rq_atts (snd (fst (emit_rule f r rq)))) /\ rq_init (snd (fst (emit_rule f r rq))) = None /\
          rq_state (snd (fst (emit_rule f r rq))) = rq_state rq).
Proof.
  intros CF W FO RW INV ST. unfold emit_rule.
  (* Rule::Started, if not yet emitted *)
  assert (S1 : exists c1, crun true c (map snd (init_evs (rq_init rq) (EvRuleS f r))) = Some c1 /\
                c_feats c1 = c_feats c /\ c_atts c1 = c_atts c /\ c_finished c1 = false /\ c_started c1 = c_started c /\ c_pf c1 = c_pf c /\
                WFc c1 /\ lookup rkey_eqb (f, r) (c_rules c1) = Some Open /\
                (forall k, k <> (f, r) -> lookup rkey_eqb k (c_rules c1) = lookup rkey_eqb k (c_rules c))).
  { destruct (rq_init rq) as [m0|].
    - destruct ST as (AB & NR & NOA). cbn [init_evs map snd crun].
      assert (NA : open_atts_where (fun k => att_feat k =? f) c = false).
      { destruct W as (_ & _ & W3). apply open_atts_none_any. apply open_atts_all_false; assumption. }
      rewrite (cstep_ruleS_seq c f r CF FO AB NR NA). eexists. split; [reflexivity|].
      cbn [set_crules c_feats c_rules c_atts c_finished c_started c_pf].
      split; [reflexivity|]. split; [reflexivity|]. split; [exact CF|]. split; [reflexivity|]. split; [reflexivity|].
      split.
      { destruct W as (W1 & W2 & W3). split; [exact W1|]. split; [|exact W3]. cbn [set_crules c_rules].
        apply (nodupk_setk rkey_eqb rkey_eqb_spec). exact W2. }
      split; [apply (lookup_setk_same rkey_eqb rkey_eqb_spec)|].
      intros k NE. apply (lookup_setk_other rkey_eqb rkey_eqb_spec). exact NE.
    - exists c. cbn [init_evs map crun]. split; [reflexivity|]. split; [reflexivity|]. split; [reflexivity|]. split; [exact CF|].
      split; [reflexivity|]. split; [reflexivity|]. split; [exact W|]. split; [exact ST|]. intros k _. reflexivity. }
  destruct S1 as (c1 & R0 & E1f & E1a & CF1 & E1s & E1p & W1 & RO1 & LR1).
  assert (INV1 : atts_inv c1 f (Some r) (rq_atts rq)) by exact (atts_inv_ext c c1 f (Some r) _ E1a INV).
  assert (PS1 : parents_seq c1 f (Some r)) by (split; [rewrite E1f; exact FO|exact RO1]).
  destruct (seq_atts f r (rq_atts rq) c1 INV1 W1 CF1 PS1) as (c2 & R2 & SB2 & INV2 & LO2 & LC2).
  pose proof (crun_WFc _ _ _ _ R2 W1) as W2.
  destruct SB2 as (E2f & E2r & E2fin & E2s & E2p).
  unfold rule_wf in RW. apply andb_prop in RW as [AW DONE].
  pose proof (emit_atts_wf f r (rq_atts rq) AW) as EW.
  destruct (emit_atts f r (rq_atts rq)) as [o2 atts'] eqn:EA. cbn [fst snd] in *. destruct EW as (_ & _ & ALLDONE).
  destruct (rq_state rq) as [|m|] eqn:RS; cbn [take_fin fst snd].
  - (* not finished: the rule stays *)
    exists c2. split; [rewrite map_app; eapply crun_app_intro; [exact R0|exact R2]|]. split; [repeat split; congruence|]. split; [exact W2|].
    split; [intros k NE; rewrite E2r; exact (LR1 k NE)|]. split; [intros k' H; rewrite (LO2 k' H), E1a; reflexivity|].
    split; [rewrite E2r; exact RO1|]. cbn [rq_atts rq_init rq_state]. auto.
  - (* finished: every attempt has been emitted, Rule::Finished follows *)
    cbn [fin_pending negb orb] in DONE. rewrite (ALLDONE DONE) in *.
    assert (NOA : forall k', lookup atkey_eqb k' (c_atts c2) <> Some Open).
    { intros k' L. exact (ai_open c2 f (Some r) [] INV2 k' L). }
    set (c3 := set_crules c2 (setk rkey_eqb (f, r) Closed (c_rules c2))).
    exists c3. split.
    { rewrite !map_app. eapply crun_app_intro; [exact R0|]. eapply crun_app_intro; [exact R2|].
      cbn [map snd crun]. rewrite (cstep_ruleF_seq c2 f r); [reflexivity|congruence|rewrite E2r; exact RO1|].
      destruct W2 as (_ & _ & W23). apply open_atts_none_any. apply open_atts_all_false; assumption. }
    split; [repeat split; cbn [c3 set_crules c_feats c_finished c_started c_pf]; congruence|]. split.
    { destruct W2 as (A & B & C). split; [exact A|]. split; [|exact C]. cbn [c3 set_crules c_rules].
      apply (nodupk_setk rkey_eqb rkey_eqb_spec). exact B. }
    split.
    { intros k NE. cbn [c3 set_crules c_rules]. rewrite (lookup_setk_other rkey_eqb rkey_eqb_spec) by exact NE.
      rewrite E2r. exact (LR1 k NE). }
    split; [intros k' H; cbn [c3 set_crules c_atts]; rewrite (LO2 k' H), E1a; reflexivity|].
    split; [cbn [c3 set_crules c_rules]; apply (lookup_setk_same rkey_eqb rkey_eqb_spec)|].
    split; [exact NOA|]. intros k es H. cbn [c3 set_crules c_atts]. apply (LC2 k es H). intros [].
  - exists c2. split; [rewrite map_app; eapply crun_app_intro; [exact R0|exact R2]|]. split; [repeat split; congruence|]. split; [exact W2|].
    split; [intros k NE; rewrite E2r; exact (LR1 k NE)|]. split; [intros k' H; rewrite (LO2 k' H), E1a; reflexivity|].
    split; [rewrite E2r; exact RO1|]. cbn [rq_atts rq_init rq_state]. auto.
Qed.
