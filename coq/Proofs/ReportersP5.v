(* ReportersP5.v — C14 END TO END: the built-in reporters sit BEHIND Normalize, the checker reads the facts from the RAW
   stream.  With  raw := map snd es  and  ns := map snd (concat (nrun es))  (what the inner writer receives), for every
   `es` with `contract raw = true` the report computed from `ns` states exactly the facts of `raw`:
     c14_json_ok raw (json_doc has_path ns), c14_basic_ok raw (basic_lines ns),
     c14_junit_ok raw (junit_doc ns), c14_libtest_ok raw (libtest_lines has_path ns).
   Everything is Qed-closed; no axioms. *)
From CV Require Import Proofs.SchedP5.
From CV Require Import Model.Base Model.Events Model.Contract Model.Normalize Model.Stats Model.StatsSpec
  Model.Reporters Model.ReportersSpec Proofs.BaseP.
From CV Require Proofs.ReportersP2 Proofs.ReportersP3 Proofs.ReportersP4.
From CV Require Proofs.NormalizeP3 Proofs.NormalizeP4b Proofs.NormalizeP4h Proofs.NormalizeP7.
From Coq Require Import Lia Permutation.

(* ================================================================================================ *)
(* 0. list facts: permutation-invariance of the executable predicates of the specification          *)
(* ================================================================================================ *)
Lemma perm_forallb {A} (p : A -> bool) l l' : Permutation l l' -> forallb p l = forallb p l'.
Proof.
  induction 1 as [|x l l' P IH|x y l|l l' l'' P1 IH1 P2 IH2]; cbn [forallb].
  - reflexivity.
  - rewrite IH. reflexivity.
  - destruct (p x), (p y); reflexivity.
  - congruence.
Qed.
Lemma perm_existsb {A} (p : A -> bool) l l' : Permutation l l' -> existsb p l = existsb p l'.
Proof.
  induction 1 as [|x l l' P IH|x y l|l l' l'' P1 IH1 P2 IH2]; cbn [existsb].
  - reflexivity.
  - rewrite IH. reflexivity.
  - destruct (p x), (p y); reflexivity.
  - congruence.
Qed.
Lemma perm_filter {A} (p : A -> bool) l l' : Permutation l l' -> Permutation (filter p l) (filter p l').
Proof.
  induction 1 as [|x l l' P IH|x y l|l l' l'' P1 IH1 P2 IH2]; cbn [filter].
  - constructor.
  - destruct (p x); [constructor|]; exact IH.
  - destruct (p x), (p y); try reflexivity. apply perm_swap.
  - etransitivity; eassumption.
Qed.
Lemma perm_count p l l' : Permutation l l' -> count p l = count p l'.
Proof. intros P. unfold count. rewrite (Permutation_length (perm_filter p l l' P)). reflexivity. Qed.

(* same_multiset IS multiset equality *)
Lemma remove1_some x : forall l l', remove1 x l = Some l' -> Permutation l (x :: l').
Proof.
  induction l as [|y t IH]; intros l' H; cbn [remove1] in H; [discriminate|].
  destruct (fact_eqb x y) eqn:E.
  - apply ReportersP2.fact_eqb_eq in E. subst y. inversion H; subst. reflexivity.
  - destruct (remove1 x t) as [t'|]; [|discriminate]. inversion H; subst.
    rewrite (IH t' eq_refl). apply perm_swap.
Qed.
Lemma same_multiset_perm : forall a b, same_multiset a b = true -> Permutation a b.
Proof.
  induction a as [|x t IH]; intros b H; cbn [same_multiset] in H.
  - destruct b; [constructor|discriminate].
  - destruct (remove1 x b) as [b'|] eqn:R; [|discriminate]. apply remove1_some in R. rewrite R. constructor. exact (IH _ H).
Qed.
Theorem same_multiset_iff a b : same_multiset a b = true <-> Permutation a b.
Proof. split; [apply same_multiset_perm|apply ReportersP2.perm_same_multiset]. Qed.
(* ... hence it respects permutations on either side *)
Theorem same_multiset_perm_l a a' b : Permutation a a' -> same_multiset a b = same_multiset a' b.
Proof.
  intros P. destruct (same_multiset a b) eqn:E1, (same_multiset a' b) eqn:E2; try reflexivity.
  - apply same_multiset_perm in E1. rewrite <- E2. symmetry. apply ReportersP2.perm_same_multiset. rewrite <- P. exact E1.
  - apply same_multiset_perm in E2. rewrite <- E1. apply ReportersP2.perm_same_multiset. rewrite P. exact E2.
Qed.
Theorem same_multiset_perm_r a b b' : Permutation b b' -> same_multiset a b = same_multiset a b'.
Proof.
  intros P. destruct (same_multiset a b) eqn:E1, (same_multiset a b') eqn:E2; try reflexivity.
  - apply same_multiset_perm in E1. rewrite <- E2. symmetry. apply ReportersP2.perm_same_multiset. rewrite <- P. exact E1.
  - apply same_multiset_perm in E2. rewrite <- E1. apply ReportersP2.perm_same_multiset. rewrite P. exact E2.
Qed.

(* ================================================================================================ *)
(* 1. transfer between the raw stream and what the writer receives                                  *)
(* ================================================================================================ *)
Definition raw_of (es : list mev) : list ev := map snd es.
Definition ns_of (es : list mev) : list ev := map snd (concat (nrun es)).

Section Transfer.
  Variable es : list mev.
  Hypothesis C : contract (raw_of es) = true.

  Lemma perm_raw_ns : Permutation (raw_of es) (ns_of es).
  Proof. unfold raw_of, ns_of. apply Permutation_map. symmetry. exact (NormalizeP3.contract_lossless es C). Qed.

  Lemma ns_normalized : normalized (ns_of es) = true.
  Proof. exact (NormalizeP4h.normalize_output_is_sequential es C). Qed.
  Lemma ns_normalized_prefix : normalized_prefix (ns_of es) = true.
  Proof.
    pose proof ns_normalized as H. unfold normalized in H. unfold normalized_prefix.
    destruct (crun true cinit (ns_of es)); [reflexivity|discriminate].
  Qed.

  (* run-Finished is the last event of both streams and occurs once in each *)
  Lemma raw_ns_closed : exists r' n',
    raw_of es = r' ++ [EvFinished] /\ ns_of es = n' ++ [EvFinished] /\
    ReportersP2.no_finished r' = true /\ ReportersP2.no_finished n' = true /\ Permutation r' n'.
  Proof.
    destruct (ReportersP2.contract_shape _ C) as (r' & ER & NR).
    destruct (ReportersP2.normalized_shape _ ns_normalized) as (n' & EN & NN).
    exists r', n'. repeat split; try assumption.
    pose proof perm_raw_ns as P. rewrite ER, EN in P. exact (Permutation_app_inv_r _ _ _ P).
  Qed.

  Theorem before_finished_perm : Permutation (before_finished (raw_of es)) (before_finished (ns_of es)).
  Proof.
    destruct raw_ns_closed as (r' & n' & -> & -> & NR & NN & P).
    rewrite !ReportersP2.before_finished_closed by assumption. exact P.
  Qed.

  Theorem stream_facts_perm b : Permutation (stream_facts b (raw_of es)) (stream_facts b (ns_of es)).
  Proof. unfold stream_facts. apply Permutation_flat_map. exact before_finished_perm. Qed.
  Theorem stream_line_facts_perm : Permutation (stream_line_facts (raw_of es)) (stream_line_facts (ns_of es)).
  Proof. unfold stream_line_facts. apply Permutation_flat_map. exact before_finished_perm. Qed.
  Theorem count_before_finished p : count p (before_finished (raw_of es)) = count p (before_finished (ns_of es)).
  Proof. apply perm_count. exact before_finished_perm. Qed.
  Theorem existsb_raw_ns (p : ev -> bool) : existsb p (raw_of es) = existsb p (ns_of es).
  Proof. apply perm_existsb. exact perm_raw_ns. Qed.
  Theorem forallb_raw_ns (p : ev -> bool) : forallb p (raw_of es) = forallb p (ns_of es).
  Proof. apply perm_forallb. exact perm_raw_ns. Qed.

  (* ============================================================================================== *)
  (* 2. Cucumber JSON                                                                                *)
  (* ============================================================================================== *)
  Theorem C14_json_end_to_end has_path :
    ReportersP2.fids_nonzero (raw_of es) = true -> ReportersP2.fids_have_path has_path (raw_of es) = true ->
    c14_json_ok (raw_of es) (json_doc has_path (ns_of es)) = true.
  Proof.
    intros NZ HP. unfold ReportersP2.fids_nonzero in NZ. unfold ReportersP2.fids_have_path in HP.
    rewrite forallb_raw_ns in NZ, HP.
    pose proof (ReportersP2.c14_json_normalized has_path (ns_of es) ns_normalized NZ HP) as H.
    unfold c14_json_ok in *. rewrite existsb_raw_ns.
    destruct (existsb _ (ns_of es)); [|exact H].
    rewrite (same_multiset_perm_l _ _ _ (stream_facts_perm false)). exact H.
  Qed.

  (* ============================================================================================== *)
  (* 3. terminal lines                                                                               *)
  (* ============================================================================================== *)
  Theorem C14_basic_end_to_end : c14_basic_ok (raw_of es) (basic_lines (ns_of es)) = true.
  Proof.
    pose proof (ReportersP4.C14_basic_ok (ns_of es) ns_normalized_prefix) as H.
    unfold c14_basic_ok in *. rewrite (same_multiset_perm_l _ _ _ stream_line_facts_perm). exact H.
  Qed.
End Transfer.

(* ================================================================================================ *)
(* 4. Normalize forwards the pass-through events (Started, ParsingFinished, parser errors) at once:   *)
(*    their relative order is preserved (no contract needed)                                         *)
(* ================================================================================================ *)
Definition pass_m (e : mev) : bool := is_pass (snd e).

Lemma emit_att_nopass f r k : forall l, filter pass_m (fst (fst (emit_att f r k l))) = [].
Proof.
  induction l as [|e t IH]; cbn [emit_att]; [reflexivity|].
  destruct (is_sc_finished (snd e)); [reflexivity|].
  destruct (emit_att f r k t) as [[o rest] b]. cbn [fst] in *. cbn [filter]. unfold pass_m at 1.
  cbn [mk_scen snd is_pass]. exact IH.
Qed.
Lemma emit_atts_nopass f r : forall l, filter pass_m (fst (emit_atts f r l)) = [].
Proof.
  induction l as [|[k l0] t IH]; cbn [emit_atts]; [reflexivity|].
  pose proof (emit_att_nopass f (Some r) k l0) as H.
  destruct (emit_att f (Some r) k l0) as [[o rest] b]. cbn [fst] in H.
  destruct b; [|exact H]. destruct (emit_atts f r t) as [o2 l2]. cbn [fst] in *.
  rewrite filter_app, H, IH. reflexivity.
Qed.
Lemma init_evs_nopass i e : is_pass e = false -> filter pass_m (init_evs i e) = [].
Proof. intros E. destruct i as [m|]; [|reflexivity]. cbn [init_evs filter]. unfold pass_m. cbn [snd]. rewrite E. reflexivity. Qed.
Lemma emit_rule_nopass f r rq : filter pass_m (fst (fst (emit_rule f r rq))) = [].
Proof.
  unfold emit_rule. pose proof (emit_atts_nopass f r (rq_atts rq)) as H.
  destruct (emit_atts f r (rq_atts rq)) as [o2 atts]. cbn [fst] in H.
  destruct (take_fin (rq_state rq)) as [[m|] st]; cbn [fst]; rewrite !filter_app, H, (init_evs_nopass (rq_init rq) (EvRuleS f r) eq_refl); reflexivity.
Qed.
Lemma emit_items_nopass f : forall l, filter pass_m (fst (emit_items f l)) = [].
Proof.
  induction l as [|[k it] t IH]; cbn [emit_items]; [reflexivity|].
  destruct k as [r|k]; destruct it as [rq|l0]; try reflexivity.
  - pose proof (emit_rule_nopass f r rq) as H. destruct (emit_rule f r rq) as [[o rq'] b]. cbn [fst] in H.
    destruct b; [|exact H]. destruct (emit_items f t) as [o2 l2]. cbn [fst] in *. rewrite filter_app, H, IH. reflexivity.
  - pose proof (emit_att_nopass f None k l0) as H. destruct (emit_att f None k l0) as [[o rest] b]. cbn [fst] in H.
    destruct b; [|exact H]. destruct (emit_items f t) as [o2 l2]. cbn [fst] in *. rewrite filter_app, H, IH. reflexivity.
Qed.
Lemma emit_feat_nopass f q : filter pass_m (fst (fst (emit_feat f q))) = [].
Proof.
  unfold emit_feat. pose proof (emit_items_nopass f (fq_items q)) as H.
  destruct (emit_items f (fq_items q)) as [o2 items]. cbn [fst] in H.
  destruct (take_fin (fq_state q)) as [[m|] st]; cbn [fst]; rewrite !filter_app, H, (init_evs_nopass (fq_init q) (EvFeatS f) eq_refl); reflexivity.
Qed.
Lemma emit_feats_nopass : forall l, filter pass_m (fst (emit_feats l)) = [].
Proof.
  induction l as [|[f q] t IH]; cbn [emit_feats]; [reflexivity|].
  pose proof (emit_feat_nopass f q) as H. destruct (emit_feat f q) as [[o q'] b]. cbn [fst] in H.
  destruct b; [|exact H]. destruct (emit_feats t) as [o2 l2]. cbn [fst] in *. rewrite filter_app, H, IH. reflexivity.
Qed.
Lemma nhandle_pass s e : filter pass_m (snd (nhandle s e)) = filter pass_m [e].
Proof.
  unfold nhandle. destruct (is_emitted (ns_state s)); [reflexivity|].
  pose proof (emit_feats_nopass (ns_feats (enqueue s e))) as H.
  destruct (emit_feats (ns_feats (enqueue s e))) as [o1 fs]. cbn [fst] in H.
  destruct (take_fin (ns_state (enqueue s e))) as [[m|] st]; cbn [snd]; rewrite !filter_app, H;
    cbn [filter app]; unfold pass_m; destruct (is_pass (snd e)) eqn:E; cbn [filter snd is_pass app]; rewrite ?E; reflexivity.
Qed.
Lemma nrun_from_pass : forall l s, filter pass_m (concat (nrun_from s l)) = filter pass_m l.
Proof.
  induction l as [|e t IH]; intros s; cbn [nrun_from]; [reflexivity|].
  pose proof (nhandle_pass s e) as H. destruct (nhandle s e) as [s' o]. cbn [snd] in H.
  cbn [concat]. rewrite filter_app, H, IH. cbn [filter]. destruct (pass_m e); reflexivity.
Qed.
(* the pass-through events reach the inner writer in their original order, with their metadata *)
Theorem passthrough_order_preserved es : filter pass_m (concat (nrun es)) = filter pass_m es.
Proof. exact (nrun_from_pass es ninit). Qed.

Lemma perrs_pass : forall l : list mev, ReportersP4.perrs (map snd l) = ReportersP4.perrs (map snd (filter pass_m l)).
Proof.
  induction l as [|[m e] t IH]; [reflexivity|]. cbn [map filter]. unfold pass_m at 1. cbn [snd].
  unfold ReportersP4.perrs in *. destruct e; cbn [is_pass map snd flat_map app]; rewrite IH; reflexivity.
Qed.
Theorem parse_errors_order_preserved es : ReportersP4.perrs (ns_of es) = ReportersP4.perrs (raw_of es).
Proof. unfold ns_of, raw_of. rewrite perrs_pass, passthrough_order_preserved, <- perrs_pass. reflexivity. Qed.

(* ================================================================================================ *)
(* 5. attempts: nothing of an attempt follows its ScFinished (both contract automata)                *)
(* ================================================================================================ *)
Import NormalizeP7.   (* same_att *)

Lemma same_att_true f r s rt f' r' s' rt' x :
  same_att f r s rt (EvScen f' r' s' rt' x) = true <-> f' = f /\ r' = r /\ s' = s /\ rt' = rt.
Proof.
  cbn [same_att]. rewrite !andb_true_iff, !N.eqb_eq, ReportersP4.optN_eqb_spec4, ReportersP4.retr_eqb_spec4. tauto.
Qed.
Lemma same_att_refl f r s rt x : same_att f r s rt (EvScen f r s rt x) = true.
Proof. apply same_att_true. auto. Qed.

Ltac split_andb :=
  repeat match goal with H : (_ && _)%bool = true |- _ => apply andb_prop in H as [? ?] end.

Lemma cstep_closed_no_event seq c e c1 f r s rt :
  cstep seq c e = Some c1 -> lookup atkey_eqb (f, r, s, rt) (c_atts c) = Some Closed -> same_att f r s rt e = false.
Proof.
  intros S L. destruct e as [|fe re se ste er|id| |f'|f'|f' r'|f' r'|f' r' s' rt' x]; try reflexivity.
  destruct (same_att f r s rt (EvScen f' r' s' rt' x)) eqn:SA; [|reflexivity]. exfalso.
  apply same_att_true in SA as (-> & -> & -> & ->).
  unfold cstep in S. destruct (c_finished c); [discriminate|].
  destruct x; apply ReportersP4.guard_inv in S as [G _]; rewrite L in G; cbn [is_open is_absent] in G;
    rewrite ?andb_false_r in G; cbn [andb] in G; discriminate G.
Qed.
Lemma crun_closed_no_events seq f r s rt : forall l c c',
  crun seq c l = Some c' -> lookup atkey_eqb (f, r, s, rt) (c_atts c) = Some Closed -> filter (same_att f r s rt) l = [].
Proof.
  induction l as [|e t IH]; intros c c' R L; [reflexivity|]. cbn [crun] in R.
  destruct (cstep seq c e) as [c1|] eqn:S; [|discriminate]. cbn [filter].
  rewrite (cstep_closed_no_event seq c e c1 f r s rt S L).
  exact (IH c1 c' R (NormalizeP4b.cstep_closed_att seq c e c1 _ S L)).
Qed.

Definition key_closed (e : ev) (t : list ev) : Prop :=
  match e with EvScen f r s rt ScFinished => filter (same_att f r s rt) t = [] | _ => True end.
Fixpoint fin_closes (l : list ev) : Prop :=
  match l with [] => True | e :: t => key_closed e t /\ fin_closes t end.

Lemma crun_fin_closes seq : forall l c c', crun seq c l = Some c' -> fin_closes l.
Proof.
  induction l as [|e t IH]; intros c c' R; [exact I|]. cbn [crun] in R.
  destruct (cstep seq c e) as [c1|] eqn:S; [|discriminate]. split; [|exact (IH c1 c' R)].
  destruct e as [|fe re se ste er|id| |f'|f'|f' r'|f' r'|f r s rt x]; try exact I. destruct x; try exact I.
  cbn [key_closed]. apply (crun_closed_no_events seq f r s rt t c1 c' R).
  unfold cstep in S. destruct (c_finished c); [discriminate|]. apply ReportersP4.guard_inv in S as [_ ->].
  cbn [set_catts c_atts]. apply (ReportersP4.lookup_setk_same4 atkey_eqb ReportersP4.atkey_eqb_spec4).
Qed.
Lemma fin_closes_app_l : forall a b, fin_closes (a ++ b) -> fin_closes a.
Proof.
  induction a as [|e t IH]; intros b H; [exact I|]. cbn [app fin_closes] in *. destruct H as [K H].
  split; [|exact (IH b H)].
  destruct e as [|fe re se ste er|id| |f'|f'|f' r'|f' r'|f r s rt x]; try exact I. destruct x; try exact I.
  cbn [key_closed] in *. rewrite filter_app in K. apply app_eq_nil in K as [K _]. exact K.
Qed.

(* ================================================================================================ *)
(* 6. `attempt_outcomes` in terms of the per-attempt projections                                      *)
(* ================================================================================================ *)
Definition scev_body (e : ev) : list scev :=
  match e with EvScen _ _ _ _ x => if is_sc_finished x then [] else [x] | _ => [] end.
(* the events of an attempt other than its ScFinished, in stream order *)
Definition body (f : N) (r : option N) (s : N) (rt : retr) (l : list ev) : list scev :=
  flat_map scev_body (filter (same_att f r s rt) l).
Definition fin_keys (l : list ev) : list atkey :=
  flat_map (fun e => match e with EvScen f r s rt ScFinished => [(f, r, s, rt)] | _ => [] end) l.
Definition outcome (l : list ev) (k : atkey) : option N * N * N :=
  match k with (f, r, s, rt) => (r, s, junit_status (body f r s rt l)) end.

Lemma body_app f r s rt a b : body f r s rt (a ++ b) = body f r s rt a ++ body f r s rt b.
Proof. unfold body. rewrite filter_app, flat_map_app. reflexivity. Qed.

Lemma body_none f r s rt l : filter (same_att f r s rt) l = [] -> body f r s rt l = [].
Proof. intros H. unfold body. rewrite H. reflexivity. Qed.
Lemma body_own_fin f r s rt : body f r s rt [EvScen f r s rt ScFinished] = [].
Proof. unfold body. cbn [filter]. rewrite same_att_refl. reflexivity. Qed.

(* a scenario id occurs under one rule only within a feature (executable) *)
Definition rule_of_scen_unique (es : list ev) : bool :=
  forallb (fun e => forallb (fun e' =>
    match e, e' with
    | EvScen f r s _ _, EvScen f' r' s' _ _ => negb ((f =? f') && (s =? s')) || option_eqb N.eqb r r'
    | _, _ => true
    end) es) es.
Definition RU (l : list ev) : Prop :=
  forall f s r rt x r' rt' x', In (EvScen f r s rt x) l -> In (EvScen f r' s rt' x') l -> r = r'.
Lemma rule_of_scen_unique_RU l : rule_of_scen_unique l = true -> RU l.
Proof.
  intros H f s r rt x r' rt' x' I1 I2. unfold rule_of_scen_unique in H.
  rewrite forallb_forall in H. specialize (H _ I1). rewrite forallb_forall in H. specialize (H _ I2).
  cbn beta iota in H. rewrite !N.eqb_refl in H. cbn [andb negb orb] in H. apply ReportersP4.optN_eqb_spec4. exact H.
Qed.
Lemma RU_incl l l' : (forall e, In e l' -> In e l) -> RU l -> RU l'.
Proof. intros IN H f s r rt x r' rt' x' I1 I2. exact (H f s r rt x r' rt' x' (IN _ I1) (IN _ I2)). Qed.

Definition nonfin (e : ev) : bool := negb (is_sc_fin e).

Lemma mine_cond s rt f s' rt' f' :
  ((s' =? s) && retr_eqb rt rt' && (f' =? f))%bool = true <-> s' = s /\ rt = rt' /\ f' = f.
Proof. rewrite !andb_true_iff, !N.eqb_eq, ReportersP4.retr_eqb_spec4. tauto. Qed.

Lemma mine_body f r s rt : forall pre,
  (forall r' rt' x, In (EvScen f r' s rt' x) pre -> r' = r) ->
  ReportersP4.mine_of f s rt (filter nonfin pre) = body f r s rt pre.
Proof.
  induction pre as [|e t IH]; intros H; [reflexivity|].
  assert (IHt : ReportersP4.mine_of f s rt (filter nonfin t) = body f r s rt t).
  { apply IH. intros r' rt' x IN. exact (H r' rt' x (or_intror IN)). }
  change (e :: t) with ([e] ++ t) at 2. rewrite body_app, <- IHt. clear IH IHt.
  destruct e as [|fe re se ste er|id| |f'|f'|f' r'|f' r'|f' r' s' rt' x]; try reflexivity.
  unfold body. cbn [filter app].
  destruct x; cbn [nonfin is_sc_fin negb];
    try (destruct (same_att f r s rt (EvScen f' r' s' rt' ScFinished)); reflexivity);
    (cbn [ReportersP4.mine_of flat_map];
     match goal with |- context [EvScen _ _ _ _ ?X] => set (x0 := X) end;
     fold (ReportersP4.mine_of f s rt (filter nonfin t));
     destruct ((s' =? s) && retr_eqb rt rt' && (f' =? f))%bool eqn:B1;
     destruct (same_att f r s rt (EvScen f' r' s' rt' x0)) eqn:B2; try reflexivity; exfalso;
     [ apply mine_cond in B1 as (-> & -> & ->);
       assert (r' = r) by (exact (H r' rt' x0 (or_introl eq_refl))); subst r';
       rewrite same_att_refl in B2; discriminate B2
     | apply same_att_true in B2 as (-> & -> & -> & ->);
       assert (X : ((s =? s) && retr_eqb rt rt && (f =? f))%bool = true) by (apply mine_cond; auto);
       rewrite X in B1; discriminate B1 ]).
Qed.

Lemma ao_go_spec : forall l pre, RU (pre ++ l) -> fin_closes l ->
  ReportersP4.ao_go (filter nonfin pre) l = map (outcome (pre ++ l)) (fin_keys l).
Proof.
  induction l as [|e t IH]; intros pre U FC; [reflexivity|].
  destruct FC as [KC FC].
  assert (E : pre ++ e :: t = (pre ++ [e]) ++ t) by (rewrite <- app_assoc; reflexivity).
  assert (STEP : nonfin e = true -> ReportersP4.ao_go (filter nonfin pre ++ [e]) t = map (outcome (pre ++ e :: t)) (fin_keys t)).
  { intros NF. rewrite E. rewrite <- (IH (pre ++ [e])); [|rewrite <- E; exact U|exact FC].
    rewrite filter_app. cbn [filter]. rewrite NF. reflexivity. }
  destruct e as [|fe re se ste er|id| |f'|f'|f' r'|f' r'|f r s rt x];
    try (cbn [ReportersP4.ao_go fin_keys flat_map app]; fold (fin_keys t); exact (STEP eq_refl)).
  destruct x; try (cbn [ReportersP4.ao_go fin_keys flat_map app]; fold (fin_keys t); exact (STEP eq_refl)).
  clear STEP. cbn [ReportersP4.ao_go fin_keys flat_map app map]. fold (fin_keys t). f_equal.
  - cbn [outcome]. f_equal. rewrite (mine_body f r s rt pre).
    + rewrite body_app. change (EvScen f r s rt ScFinished :: t) with ([EvScen f r s rt ScFinished] ++ t).
      rewrite body_app, (body_own_fin f r s rt), (body_none f r s rt t KC). rewrite !app_nil_r. reflexivity.
    + intros r' rt' x IN. symmetry.
      apply (U f s r rt ScFinished r' rt' x); apply in_or_app; [right; left; reflexivity|left; exact IN].
  - rewrite E. rewrite <- (IH (pre ++ [EvScen f r s rt ScFinished])); [|rewrite <- E; exact U|exact FC].
    rewrite filter_app. cbn [filter nonfin is_sc_fin negb]. rewrite app_nil_r. reflexivity.
Qed.

Theorem attempt_outcomes_by_projection es : RU es -> fin_closes es -> ReportersP2.no_finished es = true ->
  attempt_outcomes (es ++ [EvFinished]) = map (outcome es) (fin_keys es).
Proof.
  intros U FC NF. rewrite ReportersP4.attempt_outcomes_go, ReportersP2.before_finished_closed by exact NF.
  exact (ao_go_spec es [] U FC).
Qed.

(* ================================================================================================ *)
(* 7. JUnit, end to end                                                                              *)
(* ================================================================================================ *)
Lemma filter_map_snd (p : ev -> bool) : forall l : list mev, filter p (map snd l) = map snd (filter (fun e => p (snd e)) l).
Proof.
  induction l as [|[m e] t IH]; [reflexivity|]. cbn [map filter snd]. destruct (p e); cbn [map snd]; rewrite IH; reflexivity.
Qed.

Section EndToEnd.
  Variable es : list mev.
  Hypothesis C : contract (raw_of es) = true.

  (* NormalizeP7 on the untagged streams: every attempt has the same event sequence in raw and in ns *)
  Theorem attempt_projection_raw_ns f r s rt :
    filter (same_att f r s rt) (ns_of es) = filter (same_att f r s rt) (raw_of es).
  Proof. unfold ns_of, raw_of. rewrite !filter_map_snd. f_equal. exact (attempt_order_preserved es f r s rt C). Qed.

  Lemma raw_crun : exists c, crun false cinit (raw_of es) = Some c.
  Proof. unfold contract in C. destruct (crun false cinit (raw_of es)) as [c|]; [exists c; reflexivity|discriminate]. Qed.
  Lemma ns_crun : exists c, crun true cinit (ns_of es) = Some c.
  Proof.
    pose proof (ns_normalized es C) as H. unfold normalized in H.
    destruct (crun true cinit (ns_of es)) as [c|]; [exists c; reflexivity|discriminate].
  Qed.

  Theorem attempt_outcomes_perm : rule_of_scen_unique (raw_of es) = true ->
    Permutation (attempt_outcomes (raw_of es)) (attempt_outcomes (ns_of es)).
  Proof.
    intros RUb. pose proof (rule_of_scen_unique_RU _ RUb) as U.
    destruct (raw_ns_closed es C) as (r' & n' & ER & EN & NR & NN & P).
    assert (FR : fin_closes r').
    { destruct raw_crun as [c R]. rewrite ER in R. exact (fin_closes_app_l _ _ (crun_fin_closes _ _ _ _ R)). }
    assert (FN : fin_closes n').
    { destruct ns_crun as [c R]. rewrite EN in R. exact (fin_closes_app_l _ _ (crun_fin_closes _ _ _ _ R)). }
    assert (UR : RU r').
    { apply (RU_incl (raw_of es)); [|exact U]. intros e IN. rewrite ER. apply in_or_app. left. exact IN. }
    assert (UN : RU n').
    { apply (RU_incl (raw_of es)); [|exact U]. intros e IN.
      apply (Permutation_in e (Permutation_sym (perm_raw_ns es C))). rewrite EN. apply in_or_app. left. exact IN. }
    assert (PR : forall f r s rt, filter (same_att f r s rt) n' = filter (same_att f r s rt) r').
    { intros f r s rt. pose proof (attempt_projection_raw_ns f r s rt) as H. rewrite ER, EN, !filter_app in H.
      cbn [filter same_att] in H. rewrite !app_nil_r in H. exact H. }
    rewrite ER, EN. rewrite !attempt_outcomes_by_projection by assumption.
    transitivity (map (outcome n') (fin_keys r')).
    - replace (map (outcome r') (fin_keys r')) with (map (outcome n') (fin_keys r')); [reflexivity|].
      apply map_ext. intros [[[f r] s] rt]. cbn [outcome]. unfold body. rewrite PR. reflexivity.
    - apply Permutation_map. unfold fin_keys. apply Permutation_flat_map. exact P.
  Qed.

  Lemma perrs_before_finished_raw_ns :
    ReportersP4.perrs (before_finished (ns_of es)) = ReportersP4.perrs (before_finished (raw_of es)).
  Proof.
    pose proof (parse_errors_order_preserved es) as H.
    destruct (raw_ns_closed es C) as (r' & n' & ER & EN & NR & NN & P). rewrite ER, EN in *.
    rewrite !ReportersP2.before_finished_closed by assumption.
    unfold ReportersP4.perrs in *. rewrite !flat_map_app in H. cbn [flat_map] in H. rewrite !app_nil_r in H. exact H.
  Qed.

  Theorem C14_junit_end_to_end :
    rule_of_scen_unique (raw_of es) = true ->
    forallb (fun o => negb (snd o =? 2)) (attempt_outcomes (raw_of es)) = true ->
    c14_junit_ok (raw_of es) (junit_doc (ns_of es)) = true.
  Proof.
    intros RUb NS. pose proof (ns_normalized es C) as NM.
    pose proof (attempt_outcomes_perm RUb) as PA.
    assert (NS' : forallb (fun o => negb (snd o =? 2)) (attempt_outcomes (ns_of es)) = true)
      by (rewrite <- (perm_forallb _ _ _ PA); exact NS).
    unfold c14_junit_ok. rewrite (existsb_raw_ns es C).
    change (existsb (fun e : ev => match e with EvFinished => true | _ => false end) (ns_of es))
      with (existsb is_finished (ns_of es)).
    rewrite (ReportersP4.normalized_has_finished _ NM).
    rewrite (ReportersP4.C14_junit_cases _ NM), (ReportersP4.C14_junit_errors _ NM), (ReportersP4.C14_junit_listings _ NM NS').
    rewrite (ReportersP2.perm_same_multiset _ _ (Permutation_map case_fact (Permutation_sym PA))).
    change (flat_map (fun e : ev => match e with EvParseErr i => [i] | _ => [] end) (before_finished (ns_of es)))
      with (ReportersP4.perrs (before_finished (ns_of es))).
    change (flat_map (fun e : ev => match e with EvParseErr i => [i] | _ => [] end) (before_finished (raw_of es)))
      with (ReportersP4.perrs (before_finished (raw_of es))).
    rewrite perrs_before_finished_raw_ns, ReportersP4.listN_eqb_refl.
    rewrite (ReportersP2.perm_same_multiset _ _ (perm_filter _ _ _ (stream_line_facts_perm es C))). reflexivity.
  Qed.
End EndToEnd.

(* ================================================================================================ *)
(* 8. libtest: the global step bracketing of ns from the bracketing of every attempt of raw           *)
(* ================================================================================================ *)
Lemma same_att_other f r s rt f0 r0 s0 rt0 x :
  (f0, r0, s0, rt0) <> (f, r, s, rt) -> same_att f r s rt (EvScen f0 r0 s0 rt0 x) = false.
Proof.
  intros NE. destruct (same_att f r s rt (EvScen f0 r0 s0 rt0 x)) eqn:SA; [|reflexivity].
  apply same_att_true in SA as (-> & -> & -> & ->). exfalso. apply NE. reflexivity.
Qed.

(* the open attempt's remaining events are bracketed from the current bracket state; every other attempt's
   remaining events are bracketed from the closed state *)
Definition Inv1 (o : option atkey) (op : option ReportersP3.skey) (l : list ev) : Prop :=
  forall f r s rt, o = Some (f, r, s, rt) -> ReportersP3.lt_wf op (filter (same_att f r s rt) l) = true.
Definition Inv2 (o : option atkey) (l : list ev) : Prop :=
  forall f r s rt, o <> Some (f, r, s, rt) -> ReportersP3.lt_wf None (filter (same_att f r s rt) l) = true.

Lemma Inv2_mid f0 r0 s0 rt0 x t :
  Inv2 (Some (f0, r0, s0, rt0)) (EvScen f0 r0 s0 rt0 x :: t) -> Inv2 (Some (f0, r0, s0, rt0)) t.
Proof.
  intros H f r s rt NE. specialize (H f r s rt NE). cbn [filter] in H.
  rewrite same_att_other in H; [exact H|]. intros E. apply NE. rewrite E. reflexivity.
Qed.
Lemma Inv1_own f0 r0 s0 rt0 x op t :
  Inv1 (Some (f0, r0, s0, rt0)) op (EvScen f0 r0 s0 rt0 x :: t) ->
  ReportersP3.lt_wf op (EvScen f0 r0 s0 rt0 x :: filter (same_att f0 r0 s0 rt0) t) = true.
Proof. intros H. specialize (H _ _ _ _ eq_refl). cbn [filter] in H. rewrite same_att_refl in H. exact H. Qed.
Lemma Inv1_intro f0 r0 s0 rt0 op t :
  ReportersP3.lt_wf op (filter (same_att f0 r0 s0 rt0) t) = true -> Inv1 (Some (f0, r0, s0, rt0)) op t.
Proof. intros H f r s rt E. inversion E; subst. exact H. Qed.

Lemma bracketing_glue : forall l q o op,
  ReportersP4.shape q o l = true -> fin_closes l -> (o = None -> op = None) -> Inv1 o op l -> Inv2 o l ->
  ReportersP3.lt_wf op l = true.
Proof.
  induction l as [|e t IH]; intros q o op SH FC ON I1 I2.
  - destruct o as [[[[f r] s] rt]|].
    + exact (I1 f r s rt eq_refl).
    + rewrite (ON eq_refl). reflexivity.
  - destruct FC as [KC FC].
    destruct e as [|fe re se ste er|id| |f'|f'|f' r'|f' r'|f0 r0 s0 rt0 x]; cbn [ReportersP4.shape] in SH.
    + cbn [ReportersP3.lt_wf ReportersP3.step_key]. exact (IH q o op SH FC ON I1 I2).
    + cbn [ReportersP3.lt_wf ReportersP3.step_key]. exact (IH q o op SH FC ON I1 I2).
    + cbn [ReportersP3.lt_wf ReportersP3.step_key]. exact (IH q o op SH FC ON I1 I2).
    + apply andb_prop in SH as [SH S3]. apply andb_prop in SH as [S1 S2]. apply ReportersP4.is_none_true in S2.
      destruct t; [|discriminate S3]. rewrite (ON S2). reflexivity.
    + apply andb_prop in SH as [SH S3]. cbn [ReportersP3.lt_wf ReportersP3.step_key]. exact (IH _ o op S3 FC ON I1 I2).
    + apply andb_prop in SH as [SH S3]. cbn [ReportersP3.lt_wf ReportersP3.step_key]. exact (IH _ o op S3 FC ON I1 I2).
    + cbn [ReportersP3.lt_wf ReportersP3.step_key]. exact (IH q o op SH FC ON I1 I2).
    + cbn [ReportersP3.lt_wf ReportersP3.step_key]. exact (IH q o op SH FC ON I1 I2).
    + destruct x as [|b h|st y|st y|m|]; cbn [ReportersP4.shape] in SH;
        apply andb_prop in SH as [SH S3]; apply andb_prop in SH as [S1 S2].
      * (* ScStarted *)
        apply ReportersP4.is_none_true in S2. subst o. pose proof (ON eq_refl) as X. subst op.
        cbn [ReportersP3.lt_wf ReportersP3.step_key].
        apply (IH q (Some (f0, r0, s0, rt0)) None S3 FC); [discriminate| |].
        -- apply Inv1_intro. assert (NE : None <> Some (f0, r0, s0, rt0)) by discriminate.
           specialize (I2 f0 r0 s0 rt0 NE). cbn [filter] in I2. rewrite same_att_refl in I2. exact I2.
        -- intros f r s rt NE. assert (NE0 : None <> Some (f, r, s, rt)) by discriminate.
           specialize (I2 f r s rt NE0). cbn [filter] in I2.
           rewrite same_att_other in I2; [exact I2|]. intros E. apply NE. rewrite E. reflexivity.
      * (* hook *)
        apply ReportersP4.okey_is_true in S2. subst o. pose proof (Inv1_own _ _ _ _ _ _ _ I1) as H1.
        cbn [ReportersP3.lt_wf ReportersP3.step_key] in *.
        exact (IH q _ op S3 FC ON (Inv1_intro _ _ _ _ _ _ H1) (Inv2_mid _ _ _ _ _ _ I2)).
      * (* background step *)
        apply ReportersP4.okey_is_true in S2. subst o. pose proof (Inv1_own _ _ _ _ _ _ _ I1) as H1.
        cbn [ReportersP3.lt_wf ReportersP3.step_key] in *. destruct (ReportersP3.is_st_started y).
        -- destruct op as [k'|]; [discriminate H1|].
           apply (IH q _ _ S3 FC); [discriminate|exact (Inv1_intro _ _ _ _ _ _ H1)|exact (Inv2_mid _ _ _ _ _ _ I2)].
        -- destruct op as [k'|]; [|discriminate H1]. apply andb_prop in H1 as [K H1]. rewrite K. cbn [andb].
           apply (IH q _ _ S3 FC); [discriminate|exact (Inv1_intro _ _ _ _ _ _ H1)|exact (Inv2_mid _ _ _ _ _ _ I2)].
      * (* step *)
        apply ReportersP4.okey_is_true in S2. subst o. pose proof (Inv1_own _ _ _ _ _ _ _ I1) as H1.
        cbn [ReportersP3.lt_wf ReportersP3.step_key] in *. destruct (ReportersP3.is_st_started y).
        -- destruct op as [k'|]; [discriminate H1|].
           apply (IH q _ _ S3 FC); [discriminate|exact (Inv1_intro _ _ _ _ _ _ H1)|exact (Inv2_mid _ _ _ _ _ _ I2)].
        -- destruct op as [k'|]; [|discriminate H1]. apply andb_prop in H1 as [K H1]. rewrite K. cbn [andb].
           apply (IH q _ _ S3 FC); [discriminate|exact (Inv1_intro _ _ _ _ _ _ H1)|exact (Inv2_mid _ _ _ _ _ _ I2)].
      * (* log *)
        apply ReportersP4.okey_is_true in S2. subst o. pose proof (Inv1_own _ _ _ _ _ _ _ I1) as H1.
        cbn [ReportersP3.lt_wf ReportersP3.step_key] in *.
        exact (IH q _ op S3 FC ON (Inv1_intro _ _ _ _ _ _ H1) (Inv2_mid _ _ _ _ _ _ I2)).
      * (* ScFinished: nothing of the attempt follows, so the bracket is closed here *)
        apply ReportersP4.okey_is_true in S2. subst o. pose proof (Inv1_own _ _ _ _ _ _ _ I1) as H1.
        cbn [key_closed] in KC. rewrite KC in H1. cbn [ReportersP3.lt_wf ReportersP3.step_key] in *.
        destruct op as [k'|]; [discriminate H1|].
        apply (IH q None None S3 FC); [reflexivity|intros f r s rt E; discriminate E|].
        intros f r s rt _. destruct (same_att f r s rt (EvScen f0 r0 s0 rt0 ScFinished)) eqn:SA.
        -- apply same_att_true in SA as (-> & -> & -> & ->). rewrite KC. reflexivity.
        -- assert (NE : Some (f0, r0, s0, rt0) <> Some (f, r, s, rt)).
           { intros E. inversion E; subst. rewrite same_att_refl in SA. discriminate SA. }
           specialize (I2 f r s rt NE). cbn [filter] in I2. rewrite SA in I2. exact I2.
Qed.

(* every attempt's own events are step-bracketed (executable, on the raw stream) *)
Definition attempts_bracketed (raw : list ev) : bool :=
  forallb (fun e => match e with
                    | EvScen f r s rt _ => ReportersP3.steps_bracketed (filter (same_att f r s rt) raw)
                    | _ => true end) raw.
Lemma attempts_bracketed_all raw : attempts_bracketed raw = true ->
  forall f r s rt, ReportersP3.steps_bracketed (filter (same_att f r s rt) raw) = true.
Proof.
  intros H f r s rt. destruct (filter (same_att f r s rt) raw) as [|e0 t0] eqn:F; [reflexivity|]. rewrite <- F.
  assert (IN : In e0 (filter (same_att f r s rt) raw)) by (rewrite F; left; reflexivity).
  apply filter_In in IN as [IN SA]. unfold attempts_bracketed in H. rewrite forallb_forall in H. specialize (H _ IN).
  destruct e0 as [|fe re se ste er|id| |f'|f'|f' r'|f' r'|f0 r0 s0 rt0 x]; try discriminate SA.
  apply same_att_true in SA as (-> & -> & -> & ->). exact H.
Qed.

Section Libtest.
  Variable es : list mev.
  Hypothesis C : contract (raw_of es) = true.

  Theorem steps_bracketed_ns :
    (forall f r s rt, ReportersP3.steps_bracketed (filter (same_att f r s rt) (raw_of es)) = true) ->
    ReportersP3.steps_bracketed (ns_of es) = true.
  Proof.
    intros H. unfold ReportersP3.steps_bracketed.
    apply (bracketing_glue (ns_of es) None None None).
    - exact (ReportersP4.normalized_shape _ (ns_normalized es C)).
    - destruct (ns_crun es C) as [c R]. exact (crun_fin_closes _ _ _ _ R).
    - reflexivity.
    - intros f r s rt E. discriminate E.
    - intros f r s rt _. rewrite (attempt_projection_raw_ns es C). exact (H f r s rt).
  Qed.

  Theorem C14_libtest_end_to_end has_path :
    (forall f, has_path f = true) -> ReportersP3.has_pf (raw_of es) = true -> attempts_bracketed (raw_of es) = true ->
    c14_libtest_ok (raw_of es) (libtest_lines has_path (ns_of es)) = true.
  Proof.
    intros HP PF AB.
    assert (PF' : ReportersP3.has_pf (ns_of es) = true).
    { unfold ReportersP3.has_pf in *. rewrite <- (existsb_raw_ns es C). exact PF. }
    pose proof (steps_bracketed_ns (attempts_bracketed_all _ AB)) as SB.
    pose proof (ReportersP3.libtest_c14_normalized has_path (ns_of es) HP (ns_normalized_prefix es C) PF' SB) as H.
    unfold c14_libtest_ok in *. apply andb_prop in H as [H H3]. apply andb_prop in H as [H1 H2].
    rewrite (same_multiset_perm_l _ _ _ (Permutation_map anon_parse (stream_facts_perm es C true))), H1, H2. cbn [andb].
    unfold lt_totals_ok in *. rewrite (count_before_finished es C), (existsb_raw_ns es C). exact H3.
  Qed.
End Libtest.

(* ================================================================================================ *)
(* 9. a genuinely interleaved raw stream                                                             *)
(* ================================================================================================ *)
(* two features whose events interleave: feature 1 has a retried scenario 10 (attempts (0,1) and (1,0), the first
   fails in a step after a passed before-hook) and a scenario 11 running concurrently; feature 2 (rule 5, scenario 20
   with a background step and a failed after-hook) runs concurrently and is held back by Normalize behind feature 1;
   two parser errors, one of them before ParsingFinished *)
Definition ex5 : list mev :=
  [ (0, EvStarted);
    (1, EvParseErr 7);
    (2, EvFeatS 1);
    (3, EvFeatS 2);
    (4, EvParsingFinished 2 1 3 5 2);
    (5, EvRuleS 2 5);
    (6, EvScen 2 (Some 5) 20 None ScStarted);
    (7, EvScen 1 None 10 (Some (0, 1)) ScStarted);
    (8, EvScen 1 None 11 None ScStarted);
    (9, EvScen 1 None 10 (Some (0, 1)) (ScHook true HStarted));
    (10, EvScen 1 None 10 (Some (0, 1)) (ScHook true HPassed));
    (11, EvScen 1 None 10 (Some (0, 1)) (ScStep 0 StStarted));
    (12, EvScen 2 (Some 5) 20 None (ScBg 3 StStarted));
    (13, EvScen 1 None 11 None (ScStep 0 StStarted));
    (14, EvScen 1 None 10 (Some (0, 1)) (ScStep 0 (StFailed (EPanic 1))));
    (15, EvParseErr 8);
    (16, EvScen 1 None 11 None (ScStep 0 StPassed));
    (17, EvScen 1 None 10 (Some (0, 1)) ScFinished);
    (18, EvScen 1 None 10 (Some (1, 0)) ScStarted);
    (19, EvScen 2 (Some 5) 20 None (ScBg 3 StPassed));
    (20, EvScen 1 None 10 (Some (1, 0)) (ScStep 0 StStarted));
    (21, EvScen 2 (Some 5) 20 None (ScStep 0 StStarted));
    (22, EvScen 2 (Some 5) 20 None (ScStep 0 StPassed));
    (23, EvScen 2 (Some 5) 20 None (ScHook false HStarted));
    (24, EvScen 2 (Some 5) 20 None (ScHook false (HFailed 9)));
    (25, EvScen 2 (Some 5) 20 None ScFinished);
    (26, EvScen 1 None 11 None (ScStep 1 StStarted));
    (27, EvRuleF 2 5);
    (28, EvScen 1 None 10 (Some (1, 0)) (ScStep 0 StPassed));
    (29, EvFeatF 2);
    (30, EvScen 1 None 11 None (ScStep 1 StPassed));
    (31, EvScen 1 None 10 (Some (1, 0)) ScFinished);
    (32, EvScen 1 None 11 None ScFinished);
    (33, EvFeatF 1);
    (34, EvFinished) ].
Definition ex5_paths : N -> bool := fun _ => true.

Example ex5_hypotheses :
  contract (raw_of ex5) = true /\
  ReportersP2.fids_nonzero (raw_of ex5) = true /\
  ReportersP2.fids_have_path ex5_paths (raw_of ex5) = true /\
  ReportersP3.has_pf (raw_of ex5) = true /\
  attempts_bracketed (raw_of ex5) = true /\
  rule_of_scen_unique (raw_of ex5) = true /\
  forallb (fun o => negb (snd o =? 2)) (attempt_outcomes (raw_of ex5)) = true.
Proof. vm_compute. repeat split; reflexivity. Qed.

(* the raw stream is NOT sequential and NOT globally step-bracketed; the writer receives a different stream;
   the order of the JUnit cases differs between raw and ns *)
Example ex5_really_interleaved :
  normalized_prefix (raw_of ex5) = false /\
  ReportersP3.steps_bracketed (raw_of ex5) = false /\
  list_eqb ev_eqb (raw_of ex5) (ns_of ex5) = false /\
  length (raw_of ex5) = length (ns_of ex5) /\
  list_eqb fact_eqb (map case_fact (attempt_outcomes (raw_of ex5))) (map case_fact (attempt_outcomes (ns_of ex5))) = false.
Proof. vm_compute. repeat split; reflexivity. Qed.
Example ex5_raw_differs_from_ns : raw_of ex5 <> ns_of ex5.
Proof.
  intros H. assert (X : list_eqb ev_eqb (raw_of ex5) (ns_of ex5) = false) by (vm_compute; reflexivity).
  rewrite H in X. vm_compute in X. discriminate X.
Qed.

(* by the theorems (no computation of the reports) *)
Example ex5_json_by_theorem : c14_json_ok (raw_of ex5) (json_doc ex5_paths (ns_of ex5)) = true.
Proof. apply C14_json_end_to_end; vm_compute; reflexivity. Qed.
Example ex5_basic_by_theorem : c14_basic_ok (raw_of ex5) (basic_lines (ns_of ex5)) = true.
Proof. apply C14_basic_end_to_end; vm_compute; reflexivity. Qed.
Example ex5_junit_by_theorem : c14_junit_ok (raw_of ex5) (junit_doc (ns_of ex5)) = true.
Proof. apply C14_junit_end_to_end; vm_compute; reflexivity. Qed.
Example ex5_libtest_by_theorem : c14_libtest_ok (raw_of ex5) (libtest_lines ex5_paths (ns_of ex5)) = true.
Proof. apply C14_libtest_end_to_end; [vm_compute; reflexivity|intros f; reflexivity|vm_compute; reflexivity|vm_compute; reflexivity]. Qed.

(* and by computation *)
Example ex5_all_by_computation :
  c14_json_ok (raw_of ex5) (json_doc ex5_paths (ns_of ex5)) = true /\
  c14_basic_ok (raw_of ex5) (basic_lines (ns_of ex5)) = true /\
  c14_junit_ok (raw_of ex5) (junit_doc (ns_of ex5)) = true /\
  c14_libtest_ok (raw_of ex5) (libtest_lines ex5_paths (ns_of ex5)) = true.
Proof. vm_compute. repeat split; reflexivity. Qed.

(* the rule hypothesis of the JUnit theorem is needed: the same scenario id (and retries) under two rules of one
   feature, running concurrently — `attempt_outcomes` (which does not look at the rule) mixes their events on the raw
   stream, so the raw classification differs from what the (sequential) report states *)
Definition ex5_two_rules : list mev :=
  [ (0, EvStarted); (1, EvFeatS 1); (2, EvRuleS 1 1); (3, EvRuleS 1 2);
    (4, EvScen 1 (Some 1) 7 None ScStarted);
    (5, EvScen 1 (Some 2) 7 None ScStarted);
    (6, EvScen 1 (Some 1) 7 None (ScStep 0 StStarted));
    (7, EvScen 1 (Some 1) 7 None (ScStep 0 (StFailed ENotFound)));
    (8, EvScen 1 (Some 2) 7 None (ScStep 0 StStarted));
    (9, EvScen 1 (Some 2) 7 None (ScStep 0 StPassed));
    (10, EvScen 1 (Some 1) 7 None ScFinished);
    (11, EvScen 1 (Some 2) 7 None ScFinished);
    (12, EvRuleF 1 1); (13, EvRuleF 1 2); (14, EvFeatF 1); (15, EvFinished) ].
Example ex5_two_rules_needs_hypothesis :
  contract (raw_of ex5_two_rules) = true /\
  rule_of_scen_unique (raw_of ex5_two_rules) = false /\
  forallb (fun o => negb (snd o =? 2)) (attempt_outcomes (raw_of ex5_two_rules)) = true /\
  c14_junit_ok (raw_of ex5_two_rules) (junit_doc (ns_of ex5_two_rules)) = false.
Proof. vm_compute. repeat split; reflexivity. Qed.

Print Assumptions C14_json_end_to_end.
Print Assumptions C14_basic_end_to_end.
Print Assumptions C14_junit_end_to_end.
Print Assumptions C14_libtest_end_to_end.
Print Assumptions passthrough_order_preserved.
Print Assumptions steps_bracketed_ns.
