(* RetryOptsP.v — proofs relating the transcription (RetryOpts.v) to the
   specification (RetryOptsSpec.v). *)
From CV Require Import Model.Base Model.TagExpr Model.RetryOpts Model.RetryOptsSpec Proofs.BaseP.
From Coq Require Import Lia.

Section P.
  Variable parse_dur : str -> option N.
  Notation parse_after := (parse_after parse_dur).
  Notation parse_tag := (parse_tag parse_dur).
  Notation parse_tags := (parse_tags parse_dur).
  Notation form_after := (form_after parse_dur).
  Notation retry_form := (retry_form parse_dur).

  Lemma form_after_sound r od : form_after r = Some od -> parse_after r = od.
  Proof.
    unfold form_after, RetryOptsSpec.form_after, RetryOpts.parse_after, eat_group.
    destruct r as [|c r].
    - intros H; inversion H; reflexivity.
    - destruct (strip_prefix s_after (c :: r)) as [a|]; try discriminate.
      destruct (strip_prefix [c_lpar] a) as [a'|]; try discriminate.
      destruct (split_once c_rpar a') as [[ds tl]|]; try discriminate.
      destruct tl; try discriminate.
      destruct (parse_dur ds); try discriminate. intros H; inversion H; reflexivity.
  Qed.

  Lemma retry_form_sound tag x : retry_form tag = Some x -> parse_tag tag = Some x.
  Proof.
    unfold RetryOptsSpec.retry_form, RetryOpts.parse_tag, parse_num, eat_group.
    destruct (strip_prefix s_retry tag) as [rest|]; try discriminate.
    destruct rest as [|c rest].
    - cbn. auto.
    - destruct (N.eqb_spec c c_lpar) as [->|Hne].
      + destruct (strip_prefix [c_lpar] (c_lpar :: rest)) as [s|]; try discriminate.
        destruct (split_once c_rpar s) as [[ns r1]|]; try discriminate.
        destruct (parse_usize ns) as [n|]; try discriminate.
        destruct (form_after r1) as [od|] eqn:Hf; try discriminate.
        intros H; inversion H; subst. cbn [unwrap_or].
        rewrite (form_after_sound _ _ Hf). reflexivity.
      + assert (strip_prefix [c_lpar] (c :: rest) = None) as ->.
        { change (strip_prefix [c_lpar] (c :: rest))
            with (if N.eqb c_lpar c then Some rest else None).
          destruct (N.eqb_spec c_lpar c); [subst; congruence | reflexivity]. }
        cbn [unwrap_or].
        destruct (form_after (c :: rest)) as [od|] eqn:Hf; try discriminate.
        intros H; inversion H; subst.
        rewrite (form_after_sound _ _ Hf). reflexivity.
  Qed.

  Lemma not_retry_prefix tag :
    strip_prefix s_retry tag = None -> parse_tag tag = None /\ retry_form tag = None.
  Proof.
    unfold RetryOpts.parse_tag, RetryOptsSpec.retry_form. intros ->. auto.
  Qed.

  (* every tag with the prefix is treated as a retry tag by the code *)
  Lemma retry_prefix_always_some tag rest :
    strip_prefix s_retry tag = Some rest -> exists on od, parse_tag tag = Some (on, od).
  Proof.
    unfold RetryOpts.parse_tag. intros ->. destruct (parse_num rest) as [num r]. eauto.
  Qed.

  Lemma well_formed_agree tag :
    malformed_retry_tag parse_dur tag = false -> parse_tag tag = retry_form tag.
  Proof.
    unfold malformed_retry_tag. intros H.
    destruct (strip_prefix s_retry tag) as [rest|] eqn:Hp.
    - cbn in H. destruct (retry_form tag) as [x|] eqn:Hf; try discriminate.
      apply retry_form_sound; auto.
    - destruct (not_retry_prefix tag Hp) as [-> ->]. reflexivity.
  Qed.

  Lemma parse_tags_agree tags :
    existsb (malformed_retry_tag parse_dur) tags = false ->
    parse_tags tags = find_map retry_form tags.
  Proof.
    intros H. apply find_map_ext_in. intros x Hx.
    apply well_formed_agree. eapply existsb_false_forall; eauto.
  Qed.

  Lemma tag_eval_ext op l1 l2 :
    (forall t, existsb (fun tag => str_eqb tag t) l1 = existsb (fun tag => str_eqb tag t) l2) ->
    tag_eval op l1 = tag_eval op l2.
  Proof.
    intros H. induction op as [l IHl r IHr|l IHl r IHr|t IHt|t]; cbn; try congruence. apply H.
  Qed.

  Lemma tag_eval_perm3 op a b c :
    tag_eval op (c ++ b ++ a) = tag_eval op (a ++ b ++ c).
  Proof.
    apply tag_eval_ext. intros t. rewrite !existsb_app.
    destruct (existsb _ a), (existsb _ b), (existsb _ c); reflexivity.
  Qed.

  Theorem resolve_correct ftags rtags stags c :
    k18a parse_dur ftags rtags stags = false ->
    parse_from_tags parse_dur ftags rtags stags c = spec_resolve parse_dur ftags rtags stags c.
  Proof.
    unfold k18a. rewrite !existsb_app. intros H.
    apply orb_false_iff in H as [Hs H]. apply orb_false_iff in H as [Hr Hf].
    unfold parse_from_tags, spec_resolve, nearest.
    rewrite (parse_tags_agree _ Hs), (parse_tags_agree _ Hf).
    assert (match rtags with Some r => parse_tags r | None => None end
            = find_map retry_form (opt_tags rtags)) as ->.
    { destruct rtags as [r|]; cbn in *; auto. apply parse_tags_agree; auto. }
    set (o := or_else _ _).
    unfold apply_cli.
    destruct o as [[on od]|]; cbn [is_some orb].
    - reflexivity.
    - destruct (c_filter c) as [op|].
      + change (match rtags with Some r => r | None => [] end) with (opt_tags rtags).
        rewrite tag_eval_perm3.
        destruct (tag_eval op _); reflexivity.
      + destruct (is_some (c_retry c) || is_some (c_retry_after c)); reflexivity.
  Qed.

  (* the monitor accepts the model's own output outside the known class *)
  Theorem model_satisfies_monitor ftags rtags stags c :
    k18a parse_dur ftags rtags stags = false ->
    c18_ok parse_dur ftags rtags stags c (parse_from_tags parse_dur ftags rtags stags c) = true.
  Proof.
    intros H. unfold c18_ok. rewrite resolve_correct by auto.
    unfold retry_opts_eqb. apply option_eqb_spec; auto.
    apply pair_eqb_spec. apply N.eqb_eq. apply option_eqb_spec, N.eqb_eq.
  Qed.

  (* ---- readable characterisation of the recogniser ---- *)
  Inductive RetryForm : str -> option N -> option N -> Prop :=
  | RF_plain : RetryForm s_retry None None
  | RF_n ns n : ~ In c_rpar ns -> parse_usize ns = Some n ->
      RetryForm (s_retry ++ [c_lpar] ++ ns ++ [c_rpar]) (Some n) None
  | RF_d ds d : ~ In c_rpar ds -> parse_dur ds = Some d ->
      RetryForm (s_retry ++ s_after ++ [c_lpar] ++ ds ++ [c_rpar]) None (Some d)
  | RF_nd ns n ds d : ~ In c_rpar ns -> parse_usize ns = Some n ->
      ~ In c_rpar ds -> parse_dur ds = Some d ->
      RetryForm (s_retry ++ [c_lpar] ++ ns ++ [c_rpar] ++ s_after ++ [c_lpar] ++ ds ++ [c_rpar])
                (Some n) (Some d).

  Lemma form_after_after ds d :
    ~ In c_rpar ds -> parse_dur ds = Some d ->
    form_after (s_after ++ [c_lpar] ++ ds ++ [c_rpar]) = Some (Some d).
  Proof.
    intros Hn Hd. unfold RetryOptsSpec.form_after, eat_group.
    change (s_after ++ [c_lpar] ++ ds ++ [c_rpar]) with (s_after ++ ([c_lpar] ++ ds ++ [c_rpar])).
    rewrite strip_prefix_app. rewrite strip_prefix_app.
    rewrite split_once_app by auto. rewrite Hd.
    reflexivity.
  Qed.

  Lemma retry_form_complete tag on od : RetryForm tag on od -> retry_form tag = Some (on, od).
  Proof.
    intros H; destruct H as [|ns n Hn Hp|ds d Hn Hp|ns n ds d Hn Hp Hn' Hp'];
      unfold RetryOptsSpec.retry_form, eat_group.
    - replace s_retry with (s_retry ++ []) at 2 by apply app_nil_r.
      rewrite strip_prefix_app. reflexivity.
    - rewrite strip_prefix_app. cbn [app]. rewrite N.eqb_refl.
      change (c_lpar :: ns ++ [c_rpar]) with ([c_lpar] ++ (ns ++ c_rpar :: [])).
      rewrite strip_prefix_app, split_once_app by auto. rewrite Hp. reflexivity.
    - rewrite strip_prefix_app.
      rewrite (form_after_after _ _ Hn Hp). reflexivity.
    - rewrite strip_prefix_app. cbn [app]. rewrite N.eqb_refl.
      change (c_lpar :: ns ++ c_rpar :: s_after ++ c_lpar :: ds ++ [c_rpar])
        with ([c_lpar] ++ (ns ++ c_rpar :: (s_after ++ [c_lpar] ++ ds ++ [c_rpar]))).
      rewrite strip_prefix_app, split_once_app by auto. rewrite Hp.
      rewrite (form_after_after _ _ Hn' Hp'). reflexivity.
  Qed.

  Lemma form_after_inv r od :
    form_after r = Some od ->
    (r = [] /\ od = None) \/
    (exists ds d, r = s_after ++ [c_lpar] ++ ds ++ [c_rpar] /\ ~ In c_rpar ds /\
                  parse_dur ds = Some d /\ od = Some d).
  Proof.
    unfold RetryOptsSpec.form_after, eat_group. destruct r as [|c r].
    - intros H; inversion H; auto.
    - destruct (strip_prefix s_after (c :: r)) as [a|] eqn:E1; try discriminate.
      destruct (strip_prefix [c_lpar] a) as [a'|] eqn:E2; try discriminate.
      destruct (split_once c_rpar a') as [[ds tl]|] eqn:E3; try discriminate.
      destruct tl; try discriminate.
      destruct (parse_dur ds) as [d|] eqn:E4; try discriminate.
      intros H; inversion H; subst. right. exists ds, d.
      apply strip_prefix_some in E1, E2. apply split_once_some in E3 as [E3 Hn].
      subst. rewrite E1. auto.
  Qed.

  Lemma retry_form_inv tag on od : retry_form tag = Some (on, od) -> RetryForm tag on od.
  Proof.
    unfold RetryOptsSpec.retry_form, eat_group.
    destruct (strip_prefix s_retry tag) as [rest|] eqn:E0; try discriminate.
    apply strip_prefix_some in E0. subst tag.
    destruct rest as [|c rest].
    - intros H; inversion H; subst. rewrite app_nil_r. constructor.
    - destruct (N.eqb_spec c c_lpar) as [->|Hne].
      + destruct (strip_prefix [c_lpar] (c_lpar :: rest)) as [s|] eqn:E1; try discriminate.
        destruct (split_once c_rpar s) as [[ns r1]|] eqn:E2; try discriminate.
        destruct (parse_usize ns) as [n|] eqn:E3; try discriminate.
        destruct (form_after r1) as [od'|] eqn:E4; try discriminate.
        intros H; inversion H; subst.
        apply strip_prefix_some in E1. apply split_once_some in E2 as [E2 Hn]. subst s.
        rewrite E1.
        destruct (form_after_inv _ _ E4) as [[-> ->]|(ds & d & -> & Hn' & Hd & ->)].
        * apply (RF_n ns n); auto.
        * apply (RF_nd ns n ds d); auto.
      + destruct (form_after (c :: rest)) as [od'|] eqn:E4; try discriminate.
        intros H; inversion H; subst.
        destruct (form_after_inv _ _ E4) as [[E _]|(ds & d & -> & Hn' & Hd & ->)];
          [discriminate|].
        apply (RF_d ds d); auto.
  Qed.

  Theorem retry_form_iff tag on od : retry_form tag = Some (on, od) <-> RetryForm tag on od.
  Proof. split; [apply retry_form_inv | apply retry_form_complete]. Qed.

  (* ---- nearest-level resolution, declaratively ---- *)
  Definition no_retry_tag (tags : list str) : Prop :=
    forall t, In t tags -> strip_prefix s_retry t = None.

  Lemma no_retry_tag_find tags : no_retry_tag tags -> find_map retry_form tags = None.
  Proof.
    intros H. apply find_map_none. intros x Hx. apply (not_retry_prefix x); auto.
  Qed.

  Definition resolved (c : cli) (on od : option N) : option retry_opts :=
    Some (unwrap_or (or_else on (c_retry c)) 1, or_else od (c_retry_after c)).

  Lemma spec_scenario_level ftags rtags l1 t l2 c on od :
    no_retry_tag l1 -> RetryForm t on od ->
    spec_resolve parse_dur ftags rtags (l1 ++ t :: l2) c = resolved c on od.
  Proof.
    intros H1 Ht. unfold spec_resolve, nearest.
    rewrite (find_map_first retry_form l1 t l2 (on, od));
      [reflexivity| |apply retry_form_complete; auto].
    intros z Hz. apply (not_retry_prefix z); auto.
  Qed.

  Lemma spec_rule_level ftags l1 t l2 stags c on od :
    no_retry_tag stags -> no_retry_tag l1 -> RetryForm t on od ->
    spec_resolve parse_dur ftags (Some (l1 ++ t :: l2)) stags c = resolved c on od.
  Proof.
    intros Hs H1 Ht. unfold spec_resolve, nearest. rewrite (no_retry_tag_find _ Hs).
    cbn [or_else opt_tags].
    rewrite (find_map_first retry_form l1 t l2 (on, od));
      [reflexivity| |apply retry_form_complete; auto].
    intros z Hz. apply (not_retry_prefix z); auto.
  Qed.

  Lemma spec_feature_level l1 t l2 rtags stags c on od :
    no_retry_tag stags -> no_retry_tag (opt_tags rtags) -> no_retry_tag l1 -> RetryForm t on od ->
    spec_resolve parse_dur (l1 ++ t :: l2) rtags stags c = resolved c on od.
  Proof.
    intros Hs Hr H1 Ht. unfold spec_resolve, nearest.
    rewrite (no_retry_tag_find _ Hs), (no_retry_tag_find _ Hr).
    cbn [or_else].
    rewrite (find_map_first retry_form l1 t l2 (on, od));
      [reflexivity| |apply retry_form_complete; auto].
    intros z Hz. apply (not_retry_prefix z); auto.
  Qed.

  Lemma spec_no_tag ftags rtags stags c :
    no_retry_tag stags -> no_retry_tag (opt_tags rtags) -> no_retry_tag ftags ->
    spec_resolve parse_dur ftags rtags stags c =
      if match c_filter c with
         | Some op => tag_eval op (ftags ++ opt_tags rtags ++ stags)
         | None => is_some (c_retry c) || is_some (c_retry_after c)
         end
      then Some (unwrap_or (c_retry c) 1, c_retry_after c) else None.
  Proof.
    intros Hs Hr Hf. unfold spec_resolve, nearest.
    rewrite (no_retry_tag_find _ Hs), (no_retry_tag_find _ Hr), (no_retry_tag_find _ Hf).
    reflexivity.
  Qed.
End P.

(* Boolean semantics of tag expressions (shared with C15) *)
Fixpoint tag_interp (op : tagop) (has : str -> Prop) : Prop :=
  match op with
  | TAnd l r => tag_interp l has /\ tag_interp r has
  | TOr l r => tag_interp l has \/ tag_interp r has
  | TNot t => ~ tag_interp t has
  | TTag t => has t
  end.

Lemma tag_eval_bool op tags :
  tag_eval op tags = true <-> tag_interp op (fun t => In t tags).
Proof.
  induction op as [l IHl r IHr|l IHl r IHr|t IHt|t]; cbn.
  - rewrite andb_true_iff, IHl, IHr. tauto.
  - rewrite orb_true_iff, IHl, IHr. tauto.
  - rewrite negb_true_iff. rewrite <- IHt. destruct (tag_eval t tags); split; congruence.
  - rewrite existsb_exists. split.
    + intros (x & Hx & E). apply str_eqb_eq in E. subst; auto.
    + intros H. exists t. split; auto. apply str_eqb_refl.
Qed.

(* K18a witness: `@retrying` is none of the four forms, yet the code treats it as `@retry`. *)
Definition no_dur : str -> option N := fun _ => None.
Lemma k18a_witness :
  retry_form no_dur (lit "retrying") = None /\
  parse_from_tags no_dur [] None [lit "retrying"]
    {| c_retry := None; c_retry_after := None; c_filter := None;
       c_concurrency := None; c_fail_fast := false |} = Some (1, None) /\
  spec_resolve no_dur [] None [lit "retrying"]
    {| c_retry := None; c_retry_after := None; c_filter := None;
       c_concurrency := None; c_fail_fast := false |} = None.
Proof. vm_compute. auto. Qed.
