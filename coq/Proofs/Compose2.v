(* Compose2.v — composing the SCHEDULER model (Model/Sched.v) with the ATTEMPT model (Model/Attempt.v).

   In Sched.v the progress of an attempt is given by FREE labels: `LAttEv k x` (any middle event) and `LAttEnd k failed`
   (a free boolean on which the retry decision and fail-fast depend).  SchedP13 therefore proves "retried iff the LABEL
   said failed".  Here the labels of an attempt are required to be an execution of `Attempt.run_attempt`
   (`faithful inp ls`), and the theorems are restated with the flag replaced by what the attempt's EVENTS IN THE EMITTED
   STREAM show (`failed_evs (out_evs k tr)`).

   Part A: inside the attempt model — anatomy of the event list; `ao_failed = failed_evs ao_events` (the bridge).
   Part B: `faithful`, an executable checker for it, and what it forces on the labels.
   Part C: whole runs — (a) flags, (b) "retried exactly when it failed (as the stream shows) and retries are left",
           (c) canonical events, (d) the C01 verdict and the flags the scheduler acts on.
   Part D: non-vacuity, and the reviewer's counter-examples are not faithful for ANY assignment of attempt inputs. *)
From CV Require Import Model.Base Model.Events Model.Attempt Model.AttemptSpec Model.Sched
  Proofs.BaseP Proofs.AttemptP Proofs.SchedP Proofs.SchedP2 Proofs.SchedP3 Proofs.SchedP4 Proofs.SchedP9 Proofs.SchedP13.
From CV Require Model.Stats Model.StatsSpec Proofs.SchedP7.
From Coq Require Import Lia.

(* ===================================================================================================================
   Part A — the attempt model
   =================================================================================================================== *)

(* "some step or background step ended Failed, or some hook Failed": an executable recogniser on the events alone *)
Definition ev_fail (e : scev) : bool :=
  match e with
  | ScBg _ (StFailed _) | ScStep _ (StFailed _) | ScHook _ (HFailed _) => true
  | _ => false
  end.
Definition failed_evs (evs : list scev) : bool := existsb ev_fail evs.

(* it is the recogniser the C05 chain check of AttemptSpec already uses *)
Lemma failed_evs_is_attempt_failed : failed_evs = attempt_failed.
Proof. reflexivity. Qed.

(* the events the three step phases and a passing before hook emit (everything before the deferred Failed event) *)
Definition plain_mid (e : scev) : bool :=
  match e with
  | ScHook true HStarted | ScHook true HPassed => true
  | ScBg _ StStarted | ScBg _ StPassed | ScBg _ StSkipped => true
  | ScStep _ StStarted | ScStep _ StPassed | ScStep _ StSkipped => true
  | _ => false
  end.
Definition PM (a : acc) : Prop := exists m, a_evs a = ScStarted :: m /\ forallb plain_mid m = true.

Lemma PM_app a a' d : PM a -> a_evs a' = a_evs a ++ d -> forallb plain_mid d = true -> PM a'.
Proof.
  intros (m & E & F) E' D. exists (m ++ d). rewrite E', E. split; [reflexivity|].
  rewrite forallb_app, F, D. reflexivity.
Qed.

Lemma run_step_PM i bg a wo s : PM a -> PM (fst (run_step i bg a wo s)).
Proof.
  intros H. pose proof (run_step_spec i bg a wo s) as S.
  destruct (run_step i bg a wo s) as [a' [w|f]]; cbn [fst].
  - eapply PM_app; [exact H|exact S|]. destruct bg; reflexivity.
  - destruct S as [_ S]. destruct f as [w p|w|w bg' st k]; [contradiction| |].
    + eapply PM_app; [exact H|exact S|]. destruct bg; reflexivity.
    + destruct S as (_ & _ & S). eapply PM_app; [exact H|exact S|]. destruct bg; reflexivity.
Qed.

Lemma run_steps_PM i bg l : forall a wo, PM a -> PM (fst (run_steps i bg a wo l)).
Proof.
  induction l as [|s t IH]; intros a wo H; cbn [run_steps]; [exact H|].
  pose proof (run_step_PM i bg a wo s H) as S. destruct (run_step i bg a wo s) as [a' [w|f]]; cbn [fst] in *.
  - apply IH. exact S.
  - exact S.
Qed.

Lemma bind_steps_PM i bg l r : PM (fst r) -> PM (fst (bind_steps i bg l r)).
Proof. destruct r as [a [wo|f]]; cbn [bind_steps fst]; intros H; [apply run_steps_PM; exact H|exact H]. Qed.

Lemma run_before_PM i : PM (fst (run_before i (mk_acc [ScStarted] []))).
Proof.
  unfold run_before. destruct (ai_before i) as [hook|].
  - destruct (ai_world i); [destruct hook as [p|]| |]; cbn; eexists; split; reflexivity.
  - exists []. split; reflexivity.
Qed.

Lemma phases_PM i : PM (fst (phases i)).
Proof. unfold phases. repeat apply bind_steps_PM. apply run_before_PM. Qed.

(* ANATOMY of the events of one attempt: Started; plain events (hook/step Started, Passed, Skipped); the deferred
   Failed event of the failure, if any; the after-hook pair, if an after hook is set; Finished *)
Lemma events_anatomy i :
  exists m, forallb plain_mid m = true /\
    ao_events (run_attempt i) =
    ScStarted :: m ++ deferred_of (snd (phases i)) ++ after_evs (ai_after i) ++ [ScFinished].
Proof. destruct (phases_PM i) as (m & E & F). exists m. split; [exact F|]. rewrite events_shape, E. reflexivity. Qed.

Lemma plain_excludes (P : scev -> bool) m :
  (forall e, plain_mid e = true -> P e = false) -> forallb plain_mid m = true -> existsb P m = false.
Proof.
  intros HP. induction m as [|e m IH]; [reflexivity|]. cbn [forallb existsb]. intros H.
  apply andb_prop in H as [H1 H2]. rewrite (HP e H1), (IH H2). reflexivity.
Qed.
Lemma plain_includes (P : scev -> bool) m :
  (forall e, plain_mid e = true -> P e = true) -> forallb plain_mid m = true -> forallb P m = true.
Proof.
  intros HP. induction m as [|e m IH]; [reflexivity|]. cbn [forallb]. intros H.
  apply andb_prop in H as [H1 H2]. rewrite (HP e H1), (IH H2). reflexivity.
Qed.

Lemma plain_not_fail e : plain_mid e = true -> ev_fail e = false.
Proof. destruct e as [|b h|st x|st x|m|]; try discriminate; [destruct b, h|destruct x|destruct x]; try discriminate; reflexivity. Qed.
Lemma plain_is_middle e : plain_mid e = true -> is_middle e = true.
Proof. destruct e; try discriminate; reflexivity. Qed.

(* THE BRIDGE: the flag of an attempt is what its events show.  A skipped step does not fail the attempt and emits no
   Failed event; a failing `World::new()` fails it THROUGH a Failed event (of the before hook, or of the first matched
   step, with the payload of the World failure); ambiguity is a Failed step event: nothing but the events is needed *)
Theorem failed_flag_is_failed_evs i : ao_failed (run_attempt i) = failed_evs (ao_events (run_attempt i)).
Proof.
  rewrite is_failed_spec. destruct (events_anatomy i) as (m & F & ->). unfold failed_evs.
  cbn [existsb ev_fail orb]. rewrite !existsb_app, (plain_excludes ev_fail m plain_not_fail F). cbn [orb].
  destruct (snd (phases i)) as [wo|[w p|w|w bg st k]]; destruct (ai_after i) as [[q|]|]; try destruct bg; reflexivity.
Qed.

(* Started is the first event and occurs nowhere else; Finished is the last and occurs nowhere else *)
Lemma events_sandwich i :
  exists m, ao_events (run_attempt i) = ScStarted :: m ++ [ScFinished] /\ forallb is_middle m = true.
Proof.
  destruct (events_anatomy i) as (m & F & E).
  exists (m ++ deferred_of (snd (phases i)) ++ after_evs (ai_after i)). split.
  - rewrite E, <- !app_assoc. reflexivity.
  - rewrite !forallb_app, (plain_includes is_middle m plain_is_middle F). cbn [andb].
    destruct (snd (phases i)) as [wo|[w p|w|w bg st k]]; destruct (ai_after i) as [[q|]|]; try destruct bg; reflexivity.
Qed.

Lemma middle_not_edge m x : forallb is_middle m = true -> In x m -> x <> ScStarted /\ x <> ScFinished.
Proof.
  intros F I. apply (proj1 (forallb_forall _ _) F) in I. split; intros ->; discriminate I.
Qed.

Lemma events_finished_last i : exists X, ao_events (run_attempt i) = X ++ [ScFinished] /\ ~ In ScFinished X.
Proof.
  destruct (events_sandwich i) as (m & E & F). exists (ScStarted :: m). split; [exact E|].
  intros [Y|Y]; [discriminate Y|]. destruct (middle_not_edge m _ F Y) as [_ N]. apply N. reflexivity.
Qed.

(* the attempt model never reports a step as failed with `NotFound` (an unmatched step is Skipped) *)
Definition ev_notfound (e : scev) : bool :=
  match e with ScBg _ (StFailed ENotFound) | ScStep _ (StFailed ENotFound) => true | _ => false end.
Definition fail_ok (f : failure) : Prop := match f with FStep _ _ _ ENotFound => False | _ => True end.

Lemma run_step_fail_ok i bg a wo s f : snd (run_step i bg a wo s) = inr f -> fail_ok f.
Proof.
  unfold run_step. destruct s as [st o]; cbn [fst snd]. destruct o as [| |pan].
  - cbn. intros E. inversion E. exact I.
  - cbn. intros E. inversion E. exact I.
  - destruct wo as [w|]; [|destruct (ai_world i)]; destruct pan as [pp|]; cbn; intros E; inversion E; exact I.
Qed.
Lemma run_steps_fail_ok i bg l : forall a wo f, snd (run_steps i bg a wo l) = inr f -> fail_ok f.
Proof.
  induction l as [|s t IH]; intros a wo f; cbn [run_steps]; [discriminate|].
  destruct (run_step i bg a wo s) as [a' [w|f']] eqn:RS.
  - apply IH.
  - cbn [snd]. intros E. inversion E; subst. apply (run_step_fail_ok i bg a wo s). rewrite RS. reflexivity.
Qed.
Lemma bind_steps_fail_ok i bg l r :
  (forall f, snd r = inr f -> fail_ok f) -> forall f, snd (bind_steps i bg l r) = inr f -> fail_ok f.
Proof. destruct r as [a [wo|f0]]; cbn [bind_steps snd]; intros H; [apply run_steps_fail_ok|exact H]. Qed.
Lemma phases_fail_ok i f : snd (phases i) = inr f -> fail_ok f.
Proof.
  revert f. unfold phases. repeat apply bind_steps_fail_ok.
  unfold run_before. destruct (ai_before i) as [hook|]; [|discriminate].
  destruct (ai_world i); [destruct hook as [p|]| |]; cbn; intros f E; inversion E; exact I.
Qed.

Lemma plain_not_notfound e : plain_mid e = true -> ev_notfound e = false.
Proof. destruct e as [|b h|st x|st x|m|]; try discriminate; try reflexivity; destruct x; try discriminate; reflexivity. Qed.

Theorem attempt_never_reports_notfound i : existsb ev_notfound (ao_events (run_attempt i)) = false.
Proof.
  destruct (events_anatomy i) as (m & F & ->). cbn [existsb ev_notfound orb].
  rewrite !existsb_app, (plain_excludes ev_notfound m plain_not_notfound F). cbn [orb].
  pose proof (phases_fail_ok i) as FO.
  destruct (snd (phases i)) as [wo|[w p|w|w bg st k]]; destruct (ai_after i) as [[q|]|]; try reflexivity;
    (specialize (FO _ eq_refl); destruct k; [destruct FO|..]; destruct bg; reflexivity).
Qed.

(* the retry decision of the two models is the same function of (retries, failed): when the scheduler is told the
   attempt model's flag, the entry it re-queues carries exactly the retries the attempt model asks for *)
Theorem next_try_is_ao_retry e i now :
  ai_retr i = e_retr e ->
  match next_try e (ao_failed (run_attempt i)) now with Some e' => e_retr e' | None => None end
  = ao_retry (run_attempt i).
Proof.
  intros R. rewrite retry_spec, R. unfold next_try. destruct (e_retr e) as [[c l]|]; [|reflexivity].
  destruct (ao_failed (run_attempt i) && (0 <? l)); reflexivity.
Qed.

(* ===================================================================================================================
   Part B — faithfulness of a label list to the attempt model
   =================================================================================================================== *)
Definition is_prefix {A} (p l : list A) : Prop := exists q, l = p ++ q.

(* `inp k` is the input of attempt k (its hooks, World outcome, steps and their outcomes).
   - Every attempt, ended or not: the events its labels say SO FAR are a prefix of the events of `run_attempt (inp k)`.
   - An attempt that has ended (`LAttEnd k b` in ls): its labels say ALL the events of `run_attempt (inp k)`, in order,
     and the flag b handed to the scheduler is `ao_failed` of that execution.
   A key stands for one attempt: a label list in which two attempts share a key (duplicate scenario ids) is not
   faithful (`faithful_one_start`), and `run_attempt` emits no `ScLog`, so a faithful list has no log events. *)
Definition faithful (inp : akey -> attempt_in) (ls : list label) : Prop :=
  forall k,
    is_prefix (lab_evs k ls) (ao_events (run_attempt (inp k))) /\
    (forall b, In (LAttEnd k b) ls ->
       lab_evs k ls = ao_events (run_attempt (inp k)) /\ b = ao_failed (run_attempt (inp k))).

Lemma akey_eqb_rf k : akey_eqb k k = true.
Proof. unfold akey_eqb. rewrite !N.eqb_refl. reflexivity. Qed.

Lemma lab_evs_app k a b : lab_evs k (a ++ b) = lab_evs k a ++ lab_evs k b.
Proof. apply flat_map_app. Qed.

Lemma lab_evs_in_ev k x ls : In (LAttEv k x) ls -> In x (lab_evs k ls).
Proof.
  intros H. apply in_split in H as (a & b & ->). rewrite lab_evs_app, lab_evs_cons. unfold lab_evs at 2.
  cbn [flat_map]. rewrite akey_eqb_rf. apply in_or_app. right. left. reflexivity.
Qed.

(* what faithfulness forces: the flag of an ended attempt is determined by the attempt's OWN labels *)
Theorem faithful_flag inp ls k b :
  faithful inp ls -> In (LAttEnd k b) ls -> b = failed_evs (lab_evs k ls).
Proof.
  intros F H. destruct (F k) as [_ E]. destruct (E b H) as [E1 E2]. rewrite E1, E2. apply failed_flag_is_failed_evs.
Qed.

(* ... so a label list whose flag contradicts its own events is faithful for NO assignment of attempt inputs *)
Corollary contradicting_flag_is_unfaithful ls k b :
  In (LAttEnd k b) ls -> b <> failed_evs (lab_evs k ls) -> forall inp, ~ faithful inp ls.
Proof. intros H N inp F. apply N. exact (faithful_flag inp ls k b F H). Qed.

(* faithfulness is inherited by every prefix of the label list (the run can be cut anywhere) *)
Lemma sandwich_cut {A} (F : A) : forall a X R, ~ In F X -> a ++ F :: R = X ++ [F] -> a = X /\ R = [].
Proof.
  induction a as [|y a IH]; intros X R NI E.
  - destruct X as [|x X]; cbn [app] in E.
    + inversion E. auto.
    + inversion E; subst. exfalso. apply NI. left. reflexivity.
  - destruct X as [|x X]; cbn [app] in E.
    + inversion E as [[E1 E2]]. destruct a; discriminate E2.
    + inversion E as [[E1 E2]]. subst y. destruct (IH X R) as [-> ->]; [intros Y; apply NI; right; exact Y|exact E2|]. auto.
Qed.

Lemma lab_evs_end_split k b l1 l2 :
  lab_evs k (l1 ++ LAttEnd k b :: l2) = lab_evs k l1 ++ ScFinished :: lab_evs k l2.
Proof.
  rewrite lab_evs_app, lab_evs_cons. unfold lab_evs at 2. cbn [flat_map]. rewrite akey_eqb_rf. reflexivity.
Qed.

Theorem faithful_prefix inp l1 l2 : faithful inp (l1 ++ l2) -> faithful inp l1.
Proof.
  intros F k. destruct (F k) as [[q P] E]. rewrite lab_evs_app in P. split.
  - exists (lab_evs k l2 ++ q). rewrite P, app_assoc. reflexivity.
  - intros b H. destruct (E b) as [E1 E2]; [apply in_or_app; left; exact H|]. split; [|exact E2].
    rewrite <- E1, lab_evs_app. apply in_split in H as (a & c & ->).
    destruct (events_finished_last (inp k)) as (X & EX & NI). rewrite <- E1 in EX.
    rewrite lab_evs_app, lab_evs_end_split, <- !app_assoc in EX. cbn [app] in EX.
    destruct (sandwich_cut ScFinished _ X _ NI EX) as [_ Z]. apply app_eq_nil in Z as [_ Z]. rewrite Z, app_nil_r. reflexivity.
Qed.

(* a faithful list has at most one `LAttStart` per ended key *)
Definition n_starts (k : akey) (ls : list label) : nat :=
  length (filter (fun l => match l with LAttStart k' => akey_eqb k k' | _ => false end) ls).
Definition n_scstarted (l : list scev) : nat :=
  length (filter (fun e => match e with ScStarted => true | _ => false end) l).

Lemma n_scstarted_app a b : n_scstarted (a ++ b) = (n_scstarted a + n_scstarted b)%nat.
Proof. unfold n_scstarted. rewrite filter_app, app_length. reflexivity. Qed.

Lemma n_starts_le k ls : (n_starts k ls <= n_scstarted (lab_evs k ls))%nat.
Proof.
  induction ls as [|l t IH]; [apply le_n|]. rewrite lab_evs_cons, n_scstarted_app.
  unfold n_starts in *. cbn [filter]. destruct l as [F|id| | |k'|k' x|k' fl|d]; cbn [length]; try lia.
  unfold lab_evs at 1. cbn [flat_map]. destruct (akey_eqb k k'); cbn; lia.
Qed.

Lemma n_scstarted_middle m : forallb is_middle m = true -> n_scstarted m = 0%nat.
Proof.
  induction m as [|e m IH]; [reflexivity|]. cbn [forallb]. intros H. apply andb_prop in H as [H1 H2].
  unfold n_scstarted in *. cbn [filter]. destruct e; try discriminate H1; exact (IH H2).
Qed.

Lemma faithful_one_start inp ls k b : faithful inp ls -> In (LAttEnd k b) ls -> (n_starts k ls <= 1)%nat.
Proof.
  intros F H. destruct (F k) as [_ E]. destruct (E b H) as [E1 _].
  pose proof (n_starts_le k ls) as L. rewrite E1 in L.
  destruct (events_sandwich (inp k)) as (m & EM & M). rewrite EM in L.
  change (ScStarted :: m ++ [ScFinished]) with ([ScStarted] ++ m ++ [ScFinished]) in L.
  rewrite !n_scstarted_app, (n_scstarted_middle m M) in L. cbn in L. exact L.
Qed.

(* ---------- an executable checker for `faithful` ---------- *)
Lemma errk_eqb_true a b : errk_eqb a b = true -> a = b.
Proof. destruct a, b; cbn; try discriminate; auto. intros H. apply N.eqb_eq in H. subst. reflexivity. Qed.
Lemma stepev_eqb_true a b : stepev_eqb a b = true -> a = b.
Proof. destruct a, b; cbn; try discriminate; auto. intros H. apply errk_eqb_true in H. subst. reflexivity. Qed.
Lemma hookev_eqb_true a b : hookev_eqb a b = true -> a = b.
Proof. destruct a, b; cbn; try discriminate; auto. intros H. apply N.eqb_eq in H. subst. reflexivity. Qed.
Lemma scev_eqb_true a b : scev_eqb a b = true -> a = b.
Proof.
  destruct a, b; cbn; try discriminate; auto; intros H.
  - apply andb_prop in H as [H1 H2]. apply Bool.eqb_prop in H1. apply hookev_eqb_true in H2. subst. reflexivity.
  - apply andb_prop in H as [H1 H2]. apply N.eqb_eq in H1. apply stepev_eqb_true in H2. subst. reflexivity.
  - apply andb_prop in H as [H1 H2]. apply N.eqb_eq in H1. apply stepev_eqb_true in H2. subst. reflexivity.
  - apply N.eqb_eq in H. subst. reflexivity.
Qed.

Lemma scev_eqb_iff a b : scev_eqb a b = true <-> a = b.
Proof. split; [apply scev_eqb_true|intros ->; apply scev_eqb_refl]. Qed.

Fixpoint prefixb (p l : list scev) : bool :=
  match p, l with
  | [], _ => true
  | x :: p', y :: l' => scev_eqb x y && prefixb p' l'
  | _ :: _, [] => false
  end.
Lemma prefixb_true p : forall l, prefixb p l = true -> is_prefix p l.
Proof.
  induction p as [|x p IH]; intros l H; [exists l; reflexivity|].
  destruct l as [|y l]; [discriminate|]. cbn [prefixb] in H. apply andb_prop in H as [H1 H2].
  apply scev_eqb_true in H1. subst y. destruct (IH l H2) as [q ->]. exists q. reflexivity.
Qed.

Definition keys_of (ls : list label) : list akey :=
  flat_map (fun l => match l with LAttStart k | LAttEv k _ | LAttEnd k _ => [k] | _ => [] end) ls.
Definition end_flags (k : akey) (ls : list label) : list bool :=
  flat_map (fun l => match l with LAttEnd k' b => if akey_eqb k k' then [b] else [] | _ => [] end) ls.
Definition faithful_at (inp : akey -> attempt_in) (ls : list label) (k : akey) : bool :=
  let out := run_attempt (inp k) in
  prefixb (lab_evs k ls) (ao_events out) &&
  match end_flags k ls with
  | [] => true
  | bs => list_eqb scev_eqb (lab_evs k ls) (ao_events out) && forallb (Bool.eqb (ao_failed out)) bs
  end.
Definition faithfulb (inp : akey -> attempt_in) (ls : list label) : bool := forallb (faithful_at inp ls) (keys_of ls).

Lemma end_flags_in k b ls : In (LAttEnd k b) ls -> In b (end_flags k ls).
Proof.
  intros H. unfold end_flags. apply in_flat_map. exists (LAttEnd k b). split; [exact H|]. rewrite akey_eqb_rf. left. reflexivity.
Qed.
Lemma keys_of_end k b ls : In (LAttEnd k b) ls -> In k (keys_of ls).
Proof. intros H. unfold keys_of. apply in_flat_map. exists (LAttEnd k b). split; [exact H|left; reflexivity]. Qed.
Lemma lab_evs_nokey k ls : ~ In k (keys_of ls) -> lab_evs k ls = [].
Proof.
  induction ls as [|l t IH]; intros N; [reflexivity|]. rewrite lab_evs_cons, IH.
  - rewrite app_nil_r. unfold lab_evs. cbn [flat_map]. rewrite app_nil_r.
    assert (X : forall k', akey_eqb k k' = true -> In k' (keys_of (l :: t)) -> False).
    { intros k' E I. apply akey_eqb_true in E. subst k'. exact (N I). }
    destruct l as [F|id| | |k'|k' x|k' fl|d]; try reflexivity;
      (destruct (akey_eqb k k') eqn:E; [exfalso; apply (X k' E); left; reflexivity|reflexivity]).
  - intros I. apply N. unfold keys_of in *. cbn [flat_map]. apply in_or_app. right. exact I.
Qed.

Theorem faithfulb_sound inp ls : faithfulb inp ls = true -> faithful inp ls.
Proof.
  intros H k. unfold faithfulb in H. rewrite forallb_forall in H.
  assert (D : In k (keys_of ls) \/ ~ In k (keys_of ls)).
  { destruct (existsb (akey_eqb k) (keys_of ls)) eqn:E.
    - left. apply existsb_exists in E as (k' & I & E). apply akey_eqb_true in E. subst. exact I.
    - right. intros I. assert (existsb (akey_eqb k) (keys_of ls) = true); [|congruence].
      apply existsb_exists. exists k. split; [exact I|apply akey_eqb_rf]. }
  destruct D as [I|N].
  - specialize (H k I). unfold faithful_at in H. apply andb_prop in H as [H1 H2]. split; [apply prefixb_true; exact H1|].
    intros b Hb. pose proof (end_flags_in k b ls Hb) as Ib.
    destruct (end_flags k ls) as [|b0 bs] eqn:EF; [destruct Ib|]. apply andb_prop in H2 as [H2 H3]. split.
    + apply (proj1 (list_eqb_spec scev_eqb scev_eqb_iff _ _)). exact H2.
    + rewrite forallb_forall in H3. specialize (H3 b Ib). apply Bool.eqb_prop in H3. symmetry. exact H3.
  - rewrite (lab_evs_nokey k ls N). split; [eexists; reflexivity|].
    intros b Hb. exfalso. exact (N (keys_of_end k b ls Hb)).
Qed.

(* ===================================================================================================================
   Part C — whole runs of the scheduler model whose attempts are executions of the attempt model
   =================================================================================================================== *)

(* ---------- (a) the flag of every finished attempt is what its events IN THE STREAM show ---------- *)
Theorem flag_is_what_the_stream_shows c ls s tr inp k b :
  exec c ls = Some (s, tr) -> faithful inp ls -> In (LAttEnd k b) ls -> b = failed_evs (out_evs k tr).
Proof.
  intros H F I. rewrite (attempt_projection c ls s tr k H). exact (faithful_flag inp ls k b F I).
Qed.

(* ... and these events are, in order, all the events of the execution of the attempt model *)
Theorem stream_carries_the_attempt c ls s tr inp k b :
  exec c ls = Some (s, tr) -> faithful inp ls -> In (LAttEnd k b) ls ->
  out_evs k tr = ao_events (run_attempt (inp k)) /\ b = ao_failed (run_attempt (inp k)).
Proof.
  intros H F I. rewrite (attempt_projection c ls s tr k H). destruct (F k) as [_ E]. exact (E b I).
Qed.

(* an attempt that has not ended yet: its events in the stream are a prefix of the execution *)
Theorem stream_carries_a_prefix c ls s tr inp k :
  exec c ls = Some (s, tr) -> faithful inp ls -> is_prefix (out_evs k tr) (ao_events (run_attempt (inp k))).
Proof. intros H F. rewrite (attempt_projection c ls s tr k H). exact (proj1 (F k)). Qed.

(* ---------- (c) canonical events of every attempt, in every interleaving ---------- *)
Theorem canonical_in_every_interleaving_faithful c ls s tr inp k b :
  exec c ls = Some (s, tr) -> faithful inp ls -> In (LAttEnd k b) ls ->
  wf_events (is_some (ai_before (inp k))) (is_some (ai_after (inp k))) (all_decl (inp k)) (out_evs k tr) = true.
Proof.
  intros H F I. destruct (stream_carries_the_attempt c ls s tr inp k b H F I) as [-> _]. apply attempt_wf.
Qed.
(* ... and the events so far of an attempt still in flight are a prefix of a canonical sequence *)
Theorem canonical_prefix_in_every_interleaving_faithful c ls s tr inp k :
  exec c ls = Some (s, tr) -> faithful inp ls ->
  exists full, is_prefix (out_evs k tr) full /\
    wf_events (is_some (ai_before (inp k))) (is_some (ai_after (inp k))) (all_decl (inp k)) full = true.
Proof.
  intros H F. exists (ao_events (run_attempt (inp k))).
  split; [exact (stream_carries_a_prefix c ls s tr inp k H F)|apply attempt_wf].
Qed.

(* ---------- (b) "attempted again EXACTLY WHEN it failed (as its events show) and retries are left" ---------- *)
Lemma out_evs_cons_scen k f r sc rt x t :
  out_evs k (EvScen f r sc rt x :: t) = (if akey_eqb k (sc, cur_of rt) then [x] else []) ++ out_evs k t.
Proof. reflexivity. Qed.

(* ONLY WHEN.  A Started event of attempt cu+1 (retries (cu+1, l)) anywhere in the stream of a faithful run is preceded
   by the Finished event of attempt cu of the same scenario, and the events of attempt cu that the stream carries BEFORE
   that Started event are a complete execution of the attempt model which FAILED: a Failed step / hook event is among
   them.  (The scheduler-side facts of SchedP13.retry_only_after_failure are kept.) *)
Theorem retry_only_after_visible_failure c ls s tr inp :
  exec c ls = Some (s, tr) -> faithful inp ls ->
  forall pre post f r sc cu l,
    tr = pre ++ EvScen f r sc (Some (cu + 1, l)) ScStarted :: post ->
    exists ls1 ls2 s1 tr1 s2 mid,
      ls = ls1 ++ LAttEnd (sc, cu) true :: ls2 /\
      exec c ls1 = Some (s1, tr1) /\
      step c s1 (LAttEnd (sc, cu) true) = Some (s2, [EvScen f r sc (Some (cu, l + 1)) ScFinished]) /\
      pre = tr1 ++ EvScen f r sc (Some (cu, l + 1)) ScFinished :: mid /\
      out_evs (sc, cu) pre = ao_events (run_attempt (inp (sc, cu))) /\
      out_evs (sc, cu) tr = out_evs (sc, cu) pre /\
      failed_evs (out_evs (sc, cu) pre) = true.
Proof.
  intros H F pre post f r sc cu l E.
  destruct (retry_only_after_failure c ls s tr H pre post f r sc cu l E)
    as (ls1 & ls2 & s1 & tr1 & s2 & mid & EL & X1 & ST & EP).
  exists ls1, ls2, s1, tr1, s2, mid. repeat (split; [assumption|]).
  assert (I : In (LAttEnd (sc, cu) true) ls) by (rewrite EL; apply in_or_app; right; left; reflexivity).
  destruct (stream_carries_the_attempt c ls s tr inp (sc, cu) true H F I) as [EV FL].
  destruct (events_finished_last (inp (sc, cu))) as (X & EX & NI).
  assert (PRE : out_evs (sc, cu) pre = out_evs (sc, cu) tr1 ++ ScFinished :: out_evs (sc, cu) mid).
  { rewrite EP, out_evs_app, out_evs_cons_scen. cbn [cur_of]. rewrite akey_eqb_rf. reflexivity. }
  assert (TR : out_evs (sc, cu) tr =
               out_evs (sc, cu) tr1 ++ ScFinished :: (out_evs (sc, cu) mid ++ out_evs (sc, cu) (EvScen f r sc (Some (cu + 1, l)) ScStarted :: post))).
  { rewrite E, out_evs_app, PRE, <- app_assoc. reflexivity. }
  rewrite EV, EX in TR. symmetry in TR.
  destruct (sandwich_cut ScFinished _ X _ NI TR) as [A Z]. apply app_eq_nil in Z as [Z1 Z2].
  assert (P2 : out_evs (sc, cu) pre = ao_events (run_attempt (inp (sc, cu)))).
  { rewrite PRE, Z1, A, EX. reflexivity. }
  split; [exact P2|]. split; [rewrite P2; exact EV|].
  rewrite P2, <- failed_flag_is_failed_evs. symmetry. exact FL.
Qed.

(* ... on the stream alone *)
Corollary retried_attempt_had_visibly_failed c ls s tr inp :
  exec c ls = Some (s, tr) -> faithful inp ls ->
  forall pre post f r sc cu l,
    tr = pre ++ EvScen f r sc (Some (cu + 1, l)) ScStarted :: post ->
    In (EvScen f r sc (Some (cu, l + 1)) ScFinished) pre /\ failed_evs (out_evs (sc, cu) pre) = true.
Proof.
  intros H F pre post f r sc cu l E.
  destruct (retry_only_after_visible_failure c ls s tr inp H F pre post f r sc cu l E)
    as (ls1 & ls2 & s1 & tr1 & s2 & mid & _ & _ & _ & EP & _ & _ & FE).
  split; [|exact FE]. rewrite EP. apply in_or_app. right. left. reflexivity.
Qed.

(* ... contrapositive: an attempt whose events in the stream show no failure is never followed by another attempt
   of the same scenario (the reviewer's "a passed attempt that is retried" is excluded) *)
Corollary passed_attempt_is_never_retried c ls s tr inp sc cu :
  exec c ls = Some (s, tr) -> faithful inp ls -> failed_evs (out_evs (sc, cu) tr) = false ->
  forall f r l, ~ In (EvScen f r sc (Some (cu + 1, l)) ScStarted) tr.
Proof.
  intros H F NF f r l I. apply in_split in I as (pre & post & E).
  destruct (retry_only_after_visible_failure c ls s tr inp H F pre post f r sc cu l E)
    as (ls1 & ls2 & s1 & tr1 & s2 & mid & _ & _ & _ & _ & _ & EQ & FE).
  rewrite EQ, FE in NF. discriminate NF.
Qed.

(* which label emitted a scenario event, and from which entry of `running` *)
Lemma step_scen c s l s' o f r sc rt x : step c s l = Some (s', o) -> In (EvScen f r sc rt x) o ->
  exists e, o = [scen_ev e x] /\ scen_ev e x = EvScen f r sc rt x /\
    ((l = LAttStart (key_of e) /\ x = ScStarted /\ In (e, Dispatched) (running s) /\ In (e, Opened) (running s')) \/
     (l = LAttEv (key_of e) x /\ is_middle x = true /\ In (e, Opened) (running s) /\ s' = s) \/
     (exists b, l = LAttEnd (key_of e) b /\ x = ScFinished /\ In (e, Opened) (running s))).
Proof.
  intros H HI.
  assert (NB : forall o', all_brk o' -> ~ In (EvScen f r sc rt x) o').
  { intros o' A Y. apply (proj1 (Forall_forall _ _) A) in Y. discriminate. }
  destruct l as [F|id| | |k|k y|k failed|d]; cbn [step] in H.
  - destruct (perrs s); [discriminate|]. inversion H; subst. destruct HI.
  - destruct (perrs s); [discriminate|]. destruct (pf s) as [[[[a b] c0] d0] e1]. inversion H; subst.
    destruct HI as [Y|[]]. discriminate.
  - destruct (pdone s); [discriminate|]. destruct (pf s) as [[[[a b] c0] d0] e1]. inversion H; subst.
    destruct HI as [Y|[]]. discriminate.
  - exfalso. destruct (pc s).
    + set (s0 := mk_st _ _ _ _ _ _ _ _ _ _ _ _ true) in H. pose proof (loop_top_brk s0) as LB.
      destruct (loop_top s0) as [s1 o1]. inversion H; subst. destruct HI as [Y|Y]; [discriminate|]. exact (NB _ LB Y).
    + destruct (remove_ended (running s)) as [r0|]; [|discriminate].
      pose proof (drain_brk (cf_fail_fast c) (msgs s) (add_slot (flow s)) (fcount s) (rcount s)) as DB.
      destruct (drain _ _ _ _ _) as [[[o1 fl] fc] rc].
      set (s1 := upd s (qS s) (qC s) fl r0 [] fc rc (now s) Awaiting) in H.
      pose proof (loop_top_brk s1) as LB. destruct (loop_top s1) as [s2 o2]. inversion H; subst.
      apply in_app_or in HI as [Y|Y]; [exact (NB _ DB Y)|exact (NB _ LB Y)].
    + pose proof (loop_top_brk s) as LB. destruct (loop_top s) as [s2 o2]. inversion H; subst. exact (NB _ LB HI).
    + discriminate.
  - destruct (set_phase k Dispatched Opened (running s)) as [[e0 r0]|] eqn:SP; [|discriminate]. inversion H; subst.
    destruct (set_phase_full _ _ _ _ _ _ SP) as (K & I1 & I2 & _). exists e0. rewrite K.
    destruct HI as [Y|[]]. assert (X : ScStarted = x) by (unfold scen_ev in Y; congruence). subst x.
    split; [reflexivity|split; [exact Y|left]]. split; [reflexivity|]. split; [reflexivity|]. split; [exact I1|exact I2].
  - destruct (is_middle y) eqn:MI; [|discriminate]. destruct (find_open k (running s)) as [e0|] eqn:FO; [|discriminate].
    inversion H; subst. destruct (SchedP7.find_open_in _ _ _ FO) as [I1 K]. exists e0. rewrite K.
    destruct HI as [Y|[]]. assert (X : y = x) by (unfold scen_ev in Y; congruence). subst x.
    split; [reflexivity|split; [exact Y|right; left; auto]].
  - destruct (set_phase k Opened Ended (running s)) as [[e0 r0]|] eqn:SP; [|discriminate].
    destruct (set_phase_full _ _ _ _ _ _ SP) as (K & I1 & _). exists e0. rewrite K.
    assert (O : o = [scen_ev e0 ScFinished]).
    { destruct (next_try e0 failed (now s)) as [e'|]; [destruct (e_serial e')|]; inversion H; reflexivity. }
    subst o. destruct HI as [Y|[]]. assert (X : ScFinished = x) by (unfold scen_ev in Y; congruence). subst x.
    split; [reflexivity|split; [exact Y|right; right; exists failed; auto]].
  - inversion H; subst. destruct HI.
Qed.

Lemma singleton_split {A} (y x : A) o1 o2 : [y] = o1 ++ x :: o2 -> o1 = [] /\ o2 = [] /\ y = x.
Proof.
  destruct o1 as [|a o1]; cbn [app]; intros E; inversion E; subst; auto. destruct o1; discriminate.
Qed.

(* the annotated run (SchedP13.run) around a scenario-Finished event of the stream: it is the whole output of an
   `LAttEnd (sc, current) b` step *)
Lemma finished_event_item c ls s h pre post f r sc rt :
  run c ls = Some (s, h) -> out_of h = pre ++ EvScen f r sc rt ScFinished :: post ->
  exists h1 h2 b,
    h = h1 ++ (LAttEnd (sc, cur_of rt) b, [EvScen f r sc rt ScFinished]) :: h2 /\
    pre = out_of h1 /\ post = out_of h2 /\ In (LAttEnd (sc, cur_of rt) b) ls.
Proof.
  intros R E.
  destruct (out_of_split _ _ _ _ E) as (h1 & lab & o & h2 & o1 & o2 & Eh & Eo & Epre & Epost).
  unfold run in R. rewrite Eh in R. destruct (run_from_cut _ _ _ _ _ _ _ _ R) as (sa & sb & _ & ST & EL).
  assert (HI : In (EvScen f r sc rt ScFinished) o) by (rewrite Eo; apply in_or_app; right; left; reflexivity).
  destruct (step_scen _ _ _ _ _ _ _ _ _ _ ST HI) as (e & Oe & SE & [(_ & X & _)|[(_ & X & _)|(b & LB & _ & _)]]);
    [discriminate X|discriminate X|].
  rewrite Oe in Eo. destruct (singleton_split _ _ _ _ Eo) as (-> & -> & _).
  assert (K : key_of e = (sc, cur_of rt)).
  { unfold scen_ev in SE. inversion SE. unfold key_of. reflexivity. }
  rewrite K in LB. subst lab. exists h1, h2, b. rewrite Oe, SE in Eh.
  split; [exact Eh|]. split; [rewrite Epre; apply app_nil_r|]. split; [exact Epost|].
  rewrite EL. apply in_or_app. right. left. reflexivity.
Qed.

(* WHENEVER, on the stream alone.  The run has ended (`pc = Done`) and fail-fast did not trip.  Then every Finished event
   carrying retries (cu, l) with a retry left (0 < l), of an attempt whose events in the stream SHOW a failure, is
   followed by the Started event of the next attempt of the same scenario, carrying (cu+1, l-1).
   (The reviewer's "a step fails with a retry left and nothing is retried" is excluded.) *)
Theorem visible_failure_with_retries_left_is_retried c ls s tr inp :
  exec c ls = Some (s, tr) -> faithful inp ls -> pc s = Done -> flow s <> Break ->
  forall pre post f r sc cu l,
    tr = pre ++ EvScen f r sc (Some (cu, l)) ScFinished :: post -> 0 < l ->
    failed_evs (out_evs (sc, cu) tr) = true ->
    exists mid post', post = mid ++ EvScen f r sc (Some (cu + 1, l - 1)) ScStarted :: post'.
Proof.
  intros H F D NB pre post f r sc cu l E L FE.
  destruct (proj1 (run_exec _ _ _ _) H) as (h & R & O). rewrite <- O in E.
  destruct (finished_event_item c ls s h pre post f r sc _ R E) as (h1 & h2 & b & Eh & _ & Epost & I).
  cbn [cur_of] in Eh, I.
  pose proof (flag_is_what_the_stream_shows c ls s tr inp (sc, cu) b H F I) as B. rewrite FE in B. subst b.
  pose proof (failure_with_retries_left_is_retried_run c ls s h R D NB _ _ _ _ _ _ _ _ Eh L) as Y.
  apply in_split in Y as (hb1 & hb2 & ->). unfold att_start in Epost.
  exists (out_of hb1), (out_of hb2). rewrite Epost, out_of_app. reflexivity.
Qed.

(* the same with the label list cut at the end of the attempt, as SchedP13.failure_with_retries_left_is_retried states
   it — but the flag b of the label is NOT assumed: it is forced by the events of the attempt in the stream *)
Theorem failure_with_retries_left_is_retried_faithful c ls1 k b ls2 s tr s1 tr1 s2 f r sc cu l inp :
  exec c (ls1 ++ LAttEnd k b :: ls2) = Some (s, tr) -> faithful inp (ls1 ++ LAttEnd k b :: ls2) ->
  pc s = Done -> flow s <> Break ->
  exec c ls1 = Some (s1, tr1) ->
  step c s1 (LAttEnd k b) = Some (s2, [EvScen f r sc (Some (cu, l)) ScFinished]) -> 0 < l ->
  failed_evs (out_evs k tr) = true ->
  b = true /\
  exists mid post,
    tr = tr1 ++ EvScen f r sc (Some (cu, l)) ScFinished :: mid ++ EvScen f r sc (Some (cu + 1, l - 1)) ScStarted :: post.
Proof.
  intros H F D NB H1 ST L FE.
  assert (I : In (LAttEnd k b) (ls1 ++ LAttEnd k b :: ls2)) by (apply in_or_app; right; left; reflexivity).
  pose proof (flag_is_what_the_stream_shows c _ s tr inp k b H F I) as B. rewrite FE in B. subst b.
  split; [reflexivity|].
  exact (failure_with_retries_left_is_retried c ls1 k ls2 s tr s1 tr1 s2 f r sc cu l H D NB H1 ST L).
Qed.

(* ... and when the events show NO failure the flag is false and nothing is re-queued by this step *)
Theorem no_visible_failure_is_not_requeued c ls1 k b ls2 s tr s1 tr1 s2 o inp :
  exec c (ls1 ++ LAttEnd k b :: ls2) = Some (s, tr) -> faithful inp (ls1 ++ LAttEnd k b :: ls2) ->
  exec c ls1 = Some (s1, tr1) -> step c s1 (LAttEnd k b) = Some (s2, o) ->
  failed_evs (out_evs k tr) = false ->
  b = false /\ qS s2 = qS s1 /\ qC s2 = qC s1 /\
  exists m, msgs s2 = msgs s1 ++ [m] /\ m_failed m = false /\ m_retried m = false.
Proof.
  intros H F H1 ST FE.
  assert (I : In (LAttEnd k b) (ls1 ++ LAttEnd k b :: ls2)) by (apply in_or_app; right; left; reflexivity).
  pose proof (flag_is_what_the_stream_shows c _ s tr inp k b H F I) as B. rewrite FE in B. subst b.
  split; [reflexivity|]. cbn [step] in ST.
  destruct (set_phase k Opened Ended (running s1)) as [[e0 r0]|]; [|discriminate].
  assert (NT : next_try e0 false (now s1) = None) by (unfold next_try; destruct (e_retr e0) as [[c0 l0]|]; reflexivity).
  rewrite NT in ST. inversion ST; subst. cbn [qS qC msgs upd]. repeat split; try reflexivity.
  eexists. split; [reflexivity|]. split; reflexivity.
Qed.

(* ---------- (d) the C01 verdict and the flags the scheduler acts on ---------- *)
Lemma scen_ev_fields e x f r sc rt x' : scen_ev e x = EvScen f r sc rt x' ->
  e_f e = f /\ e_r e = r /\ e_s e = sc /\ e_retr e = rt /\ x = x'.
Proof. unfold scen_ev. intros H. inversion H. auto. Qed.

Lemma out_of_snoc h l o : out_of (h ++ [(l, o)]) = out_of h ++ o.
Proof. rewrite out_of_app. unfold out_of at 2. cbn [flat_map snd]. rewrite app_nil_r. reflexivity. Qed.

Lemma loop_top_running_new s e p :
  In (e, p) (running (fst (loop_top s))) -> In (e, p) (running s) \/ p = Dispatched.
Proof.
  unfold loop_top. destruct (get _ s) as [[[batch qs] qc] md].
  destruct (is_nil (running s) && is_nil batch).
  - destruct (pdone s && _); cbn [fst running upd]; auto.
  - destruct (start_scenarios _ _ _) as [[o fc] rc]. cbn [fst running upd]. intros H.
    apply in_app_or in H as [H|H]; [left; exact H|right]. apply in_map_iff in H as (e' & E & _). inversion E; reflexivity.
Qed.

(* where a started (Opened / Ended) entry of the new state comes from *)
Lemma step_running c s l s' o e p : step c s l = Some (s', o) -> In (e, p) (running s') -> p <> Dispatched ->
  In (e, p) (running s) \/ (l = LAttStart (key_of e) /\ o = [scen_ev e ScStarted]) \/ In (e, Opened) (running s).
Proof.
  intros H I NP. destruct l as [F|id| | |k|k x|k failed|d]; cbn [step] in H.
  - destruct (perrs s); [discriminate|]. inversion H; subst. destruct (insert_feature_mem F s) as [_ R].
    rewrite R in I. left. exact I.
  - destruct (perrs s); [discriminate|]. destruct (pf s) as [[[[a b] c0] d0] e1]. inversion H; subst. left. exact I.
  - destruct (pdone s); [discriminate|]. destruct (pf s) as [[[[a b] c0] d0] e1]. inversion H; subst. left. exact I.
  - left. destruct (pc s).
    + set (s0 := mk_st _ _ _ _ _ _ _ _ _ _ _ _ true) in H. pose proof (loop_top_running_new s0 e p) as LP.
      destruct (loop_top s0) as [s1 o1]. inversion H; subst. destruct (LP I) as [Y|Y]; [exact Y|contradiction].
    + destruct (remove_ended (running s)) as [r|] eqn:RE; [|discriminate].
      destruct (drain _ _ _ _ _) as [[[o1 fl] fc] rc].
      set (s1 := upd s (qS s) (qC s) fl r [] fc rc (now s) Awaiting) in H.
      pose proof (loop_top_running_new s1 e p) as LP. destruct (loop_top s1) as [s2 o2]. inversion H; subst.
      destruct (LP I) as [Y|Y]; [|contradiction]. cbn [running upd s1] in Y.
      destruct (remove_ended_split _ _ RE) as (e0 & M). apply M. right. exact Y.
    + pose proof (loop_top_running_new s e p) as LP. destruct (loop_top s) as [s2 o2]. inversion H; subst.
      destruct (LP I) as [Y|Y]; [exact Y|contradiction].
    + discriminate.
  - destruct (set_phase k Dispatched Opened (running s)) as [[e0 r]|] eqn:SP; [|discriminate]. inversion H; subst.
    destruct (set_phase_full _ _ _ _ _ _ SP) as (K & _ & _ & _ & B). cbn [running upd] in I.
    destruct (B _ I) as [Y|Y]; [|left; exact Y]. inversion Y; subst. right. left. auto.
  - destruct (is_middle x); [|discriminate]. destruct (find_open k (running s)); [|discriminate].
    inversion H; subst. left. exact I.
  - destruct (set_phase k Opened Ended (running s)) as [[e0 r]|] eqn:SP; [|discriminate].
    destruct (set_phase_full _ _ _ _ _ _ SP) as (K & I1 & _ & _ & B).
    assert (R : running s' = r).
    { destruct (next_try e0 failed (now s)) as [e'|]; [destruct (e_serial e')|]; inversion H; reflexivity. }
    rewrite R in I. destruct (B _ I) as [Y|Y]; [|left; exact Y]. inversion Y; subst. right. right. exact I1.
  - inversion H; subst. left. exact I.
Qed.

(* an Opened entry stays Opened until the step that ends it *)
Lemma step_keeps_opened c s l s' o e : step c s l = Some (s', o) -> In (e, Opened) (running s) ->
  In (e, Opened) (running s') \/ (exists b, l = LAttEnd (key_of e) b /\ o = [scen_ev e ScFinished]).
Proof.
  intros H I. destruct l as [F|id| | |k|k x|k failed|d]; cbn [step] in H.
  - destruct (perrs s); [discriminate|]. inversion H; subst. destruct (insert_feature_mem F s) as [_ R].
    rewrite R. left. exact I.
  - destruct (perrs s); [discriminate|]. destruct (pf s) as [[[[a b] c0] d0] e1]. inversion H; subst. left. exact I.
  - destruct (pdone s); [discriminate|]. destruct (pf s) as [[[[a b] c0] d0] e1]. inversion H; subst. left. exact I.
  - left. destruct (pc s).
    + set (s0 := mk_st _ _ _ _ _ _ _ _ _ _ _ _ true) in H. destruct (loop_top_mem s0) as (_ & _ & _ & LP).
      destruct (loop_top s0) as [s1 o1]. inversion H; subst. apply LP. exact I.
    + destruct (remove_ended (running s)) as [r|] eqn:RE; [|discriminate].
      destruct (drain _ _ _ _ _) as [[[o1 fl] fc] rc].
      set (s1 := upd s (qS s) (qC s) fl r [] fc rc (now s) Awaiting) in H.
      destruct (loop_top_mem s1) as (_ & _ & _ & LP). destruct (loop_top s1) as [s2 o2]. inversion H; subst.
      apply LP. cbn [running upd s1]. destruct (remove_ended_split _ _ RE) as (e0 & M).
      apply M in I as [Y|Y]; [discriminate Y|exact Y].
    + destruct (loop_top_mem s) as (_ & _ & _ & LP). destruct (loop_top s) as [s2 o2]. inversion H; subst.
      apply LP. exact I.
    + discriminate.
  - destruct (set_phase k Dispatched Opened (running s)) as [[e0 r]|] eqn:SP; [|discriminate]. inversion H; subst.
    destruct (set_phase_full _ _ _ _ _ _ SP) as (_ & _ & _ & FW & _). left. cbn [running upd].
    destruct (FW _ I) as [Y|Y]; [discriminate Y|exact Y].
  - destruct (is_middle x); [|discriminate]. destruct (find_open k (running s)); [|discriminate].
    inversion H; subst. left. exact I.
  - destruct (set_phase k Opened Ended (running s)) as [[e0 r]|] eqn:SP; [|discriminate].
    destruct (set_phase_full _ _ _ _ _ _ SP) as (K & _ & _ & FW & _).
    assert (R : running s' = r /\ o = [scen_ev e0 ScFinished]).
    { destruct (next_try e0 failed (now s)) as [e'|]; [destruct (e_serial e')|]; inversion H; auto. }
    destruct R as [R ->]. rewrite R. destruct (FW _ I) as [Y|Y]; [|left; exact Y].
    inversion Y; subst. right. exists failed. auto.
  - inversion H; subst. left. exact I.
Qed.

(* the bookkeeping invariant of the annotated run:
   (1) every started entry of `running` has its `LAttStart` item in the history;
   (2) every scenario event of the stream has the `LAttStart` item of its own (feature, rule, scenario, retries);
   (3) ... and its attempt has ended — the `LAttEnd` item with the same (feature, rule, scenario, retries) is in the
       history — or its entry is still Opened in `running` *)
Definition U (h : hist) (s : st) : Prop :=
  (forall e p, In (e, p) (running s) -> p <> Dispatched -> In (LAttStart (key_of e), [scen_ev e ScStarted]) h) /\
  (forall f r sc rt x, In (EvScen f r sc rt x) (out_of h) ->
     In (LAttStart (sc, cur_of rt), [EvScen f r sc rt ScStarted]) h) /\
  (forall f r sc rt x, In (EvScen f r sc rt x) (out_of h) ->
     (exists b, In (LAttEnd (sc, cur_of rt) b, [EvScen f r sc rt ScFinished]) h) \/
     (exists e, In (e, Opened) (running s) /\ e_f e = f /\ e_r e = r /\ e_s e = sc /\ e_retr e = rt)).

Lemma U_step c h s l s' o : U h s -> step c s l = Some (s', o) -> U (h ++ [(l, o)]) s'.
Proof.
  intros (A & B & C) ST. split; [|split].
  - intros e p I NP. apply in_or_app. destruct (step_running _ _ _ _ _ _ _ ST I NP) as [Y|[(-> & ->)|Y]].
    + left. exact (A e p Y NP).
    + right. left. reflexivity.
    + left. apply (A e Opened Y). discriminate.
  - intros f r sc rt x I. rewrite out_of_snoc in I. apply in_or_app. apply in_app_or in I as [I|I].
    + left. exact (B _ _ _ _ _ I).
    + destruct (step_scen _ _ _ _ _ _ _ _ _ _ ST I) as (e & Oe & SE & CASES).
      destruct (scen_ev_fields _ _ _ _ _ _ _ SE) as (<- & <- & <- & <- & _).
      destruct CASES as [(-> & -> & _)|[(_ & _ & IO & _)|(b & _ & _ & IO)]].
      * right. left. rewrite Oe. reflexivity.
      * left. apply (A e Opened IO). discriminate.
      * left. apply (A e Opened IO). discriminate.
  - intros f r sc rt x I. rewrite out_of_snoc in I. apply in_app_or in I as [I|I].
    + destruct (C _ _ _ _ _ I) as [(b & Y)|(e & IO & EF & ER & ES & ERT)].
      * left. exists b. apply in_or_app. left. exact Y.
      * destruct (step_keeps_opened _ _ _ _ _ _ ST IO) as [Y|(b & -> & ->)].
        -- right. exists e. auto.
        -- left. exists b. apply in_or_app. right. left. subst. reflexivity.
    + destruct (step_scen _ _ _ _ _ _ _ _ _ _ ST I) as (e & Oe & SE & CASES).
      destruct (scen_ev_fields _ _ _ _ _ _ _ SE) as (EF & ER & ES & ERT & _).
      destruct CASES as [(_ & _ & _ & IO)|[(_ & _ & IO & ->)|(b & -> & -> & _)]].
      * right. exists e. auto.
      * right. exists e. auto.
      * left. exists b. apply in_or_app. right. left. rewrite Oe. subst. reflexivity.
Qed.

Lemma U_init c : U [] (init_st c).
Proof. split; [|split]; cbn; intros; contradiction. Qed.

Lemma hist_start_unique k o1 o2 : forall h : hist,
  (n_starts k (map fst h) <= 1)%nat -> In (LAttStart k, o1) h -> In (LAttStart k, o2) h -> o1 = o2.
Proof.
  assert (Z : forall (h : hist) o, In (LAttStart k, o) h -> (1 <= n_starts k (map fst h))%nat).
  { induction h as [|[l o'] t IH]; intros o I; [destruct I|]. unfold n_starts in *. cbn [map fst filter].
    destruct I as [E|I].
    - inversion E; subst. rewrite akey_eqb_rf. cbn [length]. lia.
    - specialize (IH o I). destruct l; try exact IH. destruct (akey_eqb k k0); cbn [length]; lia. }
  induction h as [|[l o'] t IH]; intros N I1 I2; [destruct I1|].
  assert (NT : n_starts k (map fst ((l, o') :: t)) =
               ((match l with LAttStart k' => if akey_eqb k k' then 1 else 0 | _ => 0 end) + n_starts k (map fst t))%nat).
  { unfold n_starts. cbn [map fst filter]. destruct l; try reflexivity. destruct (akey_eqb k k0); reflexivity. }
  rewrite NT in N. destruct I1 as [E1|I1], I2 as [E2|I2].
  - congruence.
  - inversion E1; subst. rewrite akey_eqb_rf in N. pose proof (Z t o2 I2). lia.
  - inversion E2; subst. rewrite akey_eqb_rf in N. pose proof (Z t o1 I1). lia.
  - apply IH; [lia|exact I1|exact I2].
Qed.

(* ---- where run-Finished and the parser errors are in the stream ---- *)
Definition brkt (e : ev) : bool :=
  match e with EvFeatS _ | EvFeatF _ | EvRuleS _ _ | EvRuleF _ _ => true | _ => false end.
Definition all_brkt (o : list ev) : Prop := Forall (fun e => brkt e = true) o.

Lemma all_brkt_app a b : all_brkt a -> all_brkt b -> all_brkt (a ++ b).
Proof. intros A B. apply Forall_app. split; assumption. Qed.
Lemma start_feats_brkt fs : forall fc, all_brkt (fst (start_feats fs fc)).
Proof.
  induction fs as [|f t IH]; intros fc; cbn [start_feats]; [constructor|].
  destruct (lookupN N.eqb f fc); [apply IH|].
  specialize (IH (setN N.eqb f 0 fc)). destruct (start_feats t _) as [o fc']. cbn in *. constructor; auto.
Qed.
Lemma start_rules_brkt rs : forall rc, all_brkt (fst (start_rules rs rc)).
Proof.
  induction rs as [|k t IH]; intros rc; cbn [start_rules]; [constructor|].
  destruct (lookupN rk_eqb k rc); [apply IH|].
  specialize (IH (setN rk_eqb k 0 rc)). destruct (start_rules t _) as [o rc']. cbn in *. constructor; auto.
Qed.
Lemma start_scenarios_brkt batch fc rc : all_brkt (fst (fst (start_scenarios batch fc rc))).
Proof.
  unfold start_scenarios.
  pose proof (start_feats_brkt (dedup N.eqb (map e_f batch)) fc) as A.
  destruct (start_feats _ fc) as [o1 fc'].
  set (rks := flat_map _ batch).
  pose proof (start_rules_brkt (dedup rk_eqb rks) rc) as B.
  destruct (start_rules _ rc) as [o2 rc']. cbn in *. apply all_brkt_app; assumption.
Qed.
Lemma finish_all_brkt fc rc : all_brkt (finish_all fc rc).
Proof.
  unfold finish_all. apply all_brkt_app.
  - induction rc as [|x t IH]; [constructor|]. cbn. constructor; auto.
  - induction fc as [|x t IH]; [constructor|]. cbn. constructor; auto.
Qed.
Lemma finish_msg_brkt m fc rc : all_brkt (fst (fst (finish_msg m fc rc))).
Proof.
  unfold finish_msg. destruct (m_retried m); [constructor|].
  destruct (m_r m) as [r|].
  - destruct (lookupN rk_eqb (m_f m, r) rc) as [n|].
    + destruct (n + 1 =? m_nr m); destruct (lookupN N.eqb (m_f m) fc) as [n2|];
        try destruct (n2 + 1 =? m_nf m); cbn; repeat constructor.
    + destruct (lookupN N.eqb (m_f m) fc) as [n2|]; try destruct (n2 + 1 =? m_nf m); cbn; repeat constructor.
  - destruct (lookupN N.eqb (m_f m) fc) as [n2|]; try destruct (n2 + 1 =? m_nf m); cbn; repeat constructor.
Qed.
Lemma drain_brkt ff ms : forall fl fc rc, all_brkt (fst (fst (fst (drain ff ms fl fc rc)))).
Proof.
  induction ms as [|m t IH]; intros fl fc rc; cbn [drain]; [constructor|].
  pose proof (finish_msg_brkt m fc rc) as A. destruct (finish_msg m fc rc) as [[o fc1] rc1].
  specialize (IH (if ff && m_failed m && negb (m_retried m) then Break else fl) fc1 rc1).
  destruct (drain ff t _ fc1 rc1) as [[[o2 fl2] fc2] rc2]. cbn in *. apply all_brkt_app; assumption.
Qed.

(* a loop turn emits brackets, closed by run-Finished exactly when it ends the loop *)
Lemma loop_top_out s :
  (pc (fst (loop_top s)) = Done /\ exists a, snd (loop_top s) = a ++ [EvFinished] /\ all_brkt a) \/
  (pc (fst (loop_top s)) <> Done /\ all_brkt (snd (loop_top s))).
Proof.
  unfold loop_top. destruct (get _ s) as [[[batch qs] qc] md].
  destruct (is_nil (running s) && is_nil batch).
  - destruct (pdone s && _); cbn [fst snd pc upd].
    + left. split; [reflexivity|]. eexists. split; [reflexivity|apply finish_all_brkt].
    + right. split; [discriminate|constructor].
  - pose proof (start_scenarios_brkt batch (fcount s) (rcount s)) as A.
    destruct (start_scenarios batch (fcount s) (rcount s)) as [[o fc] rc]. cbn [fst snd pc upd] in *.
    right. split; [discriminate|exact A].
Qed.

Definition calm (a : list ev) : Prop := forall e, In e a -> e <> EvFinished /\ forall id, e <> EvParseErr id.
Lemma brkt_calm a : all_brkt a -> calm a.
Proof. intros A e I. apply (proj1 (Forall_forall _ _) A) in I. split; [|intros id]; intros ->; discriminate I. Qed.
Lemma calm_app a b : calm a -> calm b -> calm (a ++ b).
Proof. intros A B e I. apply in_app_or in I as [I|I]; auto. Qed.
Lemma calm_one e : e <> EvFinished -> (forall id, e <> EvParseErr id) -> calm [e].
Proof. intros A B x [<-|[]]. auto. Qed.

(* the output of one step (before the loop has ended): a parser error for `LParseErr`, otherwise neither a parser error
   nor run-Finished — except that run-Finished closes the output of the step that ends the loop *)
Lemma step_shape c s l s' o : step c s l = Some (s', o) -> pc s <> Done ->
  (exists id, l = LParseErr id /\ o = [EvParseErr id] /\ pc s' <> Done) \/
  ((forall id, l <> LParseErr id) /\
   exists a, calm a /\ ((pc s' = Done /\ o = a ++ [EvFinished]) \/ (pc s' <> Done /\ o = a))).
Proof.
  intros H ND. destruct l as [F|id| | |k|k x|k failed|d]; cbn [step] in H.
  - destruct (perrs s); [discriminate|]. inversion H; subst. right. split; [intros id X; discriminate X|].
    exists []. split; [intros e []|]. right. split; [|reflexivity].
    unfold insert_feature. destruct (pf s) as [[[[a0 b0] c0] d0] e0]. destruct (is_nil _); cbn [pc]; exact ND.
  - destruct (perrs s); [discriminate|]. destruct (pf s) as [[[[a b] c0] d0] e1]. inversion H; subst.
    left. exists id. auto.
  - destruct (pdone s); [discriminate|]. destruct (pf s) as [[[[a b] c0] d0] e1]. inversion H; subst.
    right. split; [intros id X; discriminate X|]. eexists. split; [|right; split; [exact ND|reflexivity]].
    apply calm_one; [discriminate|intros id; discriminate].
  - right. split; [intros id X; discriminate X|]. destruct (pc s) eqn:P.
    + set (s0 := mk_st _ _ _ _ _ _ _ _ _ _ _ _ true) in H. pose proof (loop_top_out s0) as LO.
      destruct (loop_top s0) as [s1 o1]. inversion H; subst. cbn [fst snd] in LO.
      assert (CS : calm [EvStarted]) by (apply calm_one; [discriminate|intros id; discriminate]).
      destruct LO as [(D & a & -> & A)|(D & A)].
      * exists (EvStarted :: a). split; [apply (calm_app [EvStarted] a CS (brkt_calm a A))|]. left. auto.
      * eexists. split; [|right; split; [exact D|reflexivity]]. apply (calm_app [EvStarted] _ CS (brkt_calm _ A)).
    + destruct (remove_ended (running s)) as [r0|]; [|discriminate].
      pose proof (drain_brkt (cf_fail_fast c) (msgs s) (add_slot (flow s)) (fcount s) (rcount s)) as DB.
      destruct (drain _ _ _ _ _) as [[[o1 fl] fc] rc]. cbn [fst] in DB.
      set (s1 := upd s (qS s) (qC s) fl r0 [] fc rc (now s) Awaiting) in H.
      pose proof (loop_top_out s1) as LO. destruct (loop_top s1) as [s2 o2]. inversion H; subst. cbn [fst snd] in LO.
      destruct LO as [(D & a & -> & A)|(D & A)].
      * exists (o1 ++ a). split; [apply calm_app; apply brkt_calm; assumption|]. left. rewrite app_assoc. auto.
      * eexists. split; [|right; split; [exact D|reflexivity]]. apply calm_app; apply brkt_calm; assumption.
    + pose proof (loop_top_out s) as LO. destruct (loop_top s) as [s2 o2]. inversion H; subst. cbn [fst snd] in LO.
      destruct LO as [(D & a & -> & A)|(D & A)].
      * exists a. split; [apply brkt_calm; exact A|]. left. auto.
      * eexists. split; [|right; split; [exact D|reflexivity]]. apply brkt_calm; exact A.
    + discriminate.
  - destruct (set_phase k Dispatched Opened (running s)) as [[e0 r0]|]; [|discriminate]. inversion H; subst.
    right. split; [intros id X; discriminate X|]. eexists. split; [|right; split; [exact ND|reflexivity]].
    apply calm_one; [discriminate|intros id; discriminate].
  - destruct (is_middle x); [|discriminate]. destruct (find_open k (running s)) as [e0|]; [|discriminate].
    inversion H; subst. right. split; [intros id X; discriminate X|]. eexists. split; [|right; split; [exact ND|reflexivity]].
    apply calm_one; [discriminate|intros id; discriminate].
  - destruct (set_phase k Opened Ended (running s)) as [[e0 r0]|]; [|discriminate].
    assert (R : pc s' = pc s /\ o = [scen_ev e0 ScFinished]).
    { destruct (next_try e0 failed (now s)) as [e'|]; [destruct (e_serial e')|]; inversion H; auto. }
    destruct R as [R ->]. right. split; [intros id X; discriminate X|].
    eexists. split; [|right; split; [rewrite R; exact ND|reflexivity]].
    apply calm_one; [discriminate|intros id; discriminate].
  - inversion H; subst. right. split; [intros id X; discriminate X|]. exists []. split; [intros e []|].
    right. split; [exact ND|reflexivity].
Qed.

Definition W (K : option nat) (h : hist) (s : st) : Prop :=
  Inv K s /\ frame_ok s /\
  (forall id, In (EvParseErr id) (out_of h) <-> In (LParseErr id) (map fst h)) /\
  (pc s <> Done -> ~ In EvFinished (out_of h)) /\
  (pc s = Done -> exists a, out_of h = a ++ [EvFinished] /\ ~ In EvFinished a).

Lemma W_step c h s l s' o : W (cf_concurrency c) h s -> step c s l = Some (s', o) -> W (cf_concurrency c) (h ++ [(l, o)]) s'.
Proof.
  intros (I & FR & PE & NF & DF) ST.
  split; [exact (step_inv _ _ _ _ _ _ I ST)|]. split; [exact (step_frame _ _ _ _ _ FR ST)|].
  rewrite out_of_snoc, map_app. cbn [map fst].
  assert (D : pc s = Done \/ pc s <> Done) by (destruct (pc s); auto; right; discriminate).
  destruct D as [D|ND].
  - destruct (done_is_silent _ c s l s' o I FR D ST) as [-> D'].
    assert (NL : forall id, l <> LParseErr id).
    { intros id ->. cbn [step] in ST. destruct (perrs s); [discriminate|].
      destruct (pf s) as [[[[a b] c0] d0] e1]. inversion ST. }
    rewrite app_nil_r. split; [|split].
    + intros id. rewrite in_app_iff, PE. split; [auto|]. intros [Y|[Y|[]]]; [exact Y|]. exfalso. exact (NL id Y).
    + intros X. contradiction.
    + intros _. exact (DF D).
  - specialize (NF ND).
    destruct (step_shape c s l s' o ST ND) as [(id & -> & -> & ND')|(NL & a & CA & [(D' & ->)|(ND' & ->)])].
    + split; [|split].
      * intros id'. rewrite !in_app_iff, PE. cbn [In]. split.
        -- intros [Y|[Y|[]]]; [left; exact Y|]. inversion Y; subst. right. left. reflexivity.
        -- intros [Y|[Y|[]]]; [left; exact Y|]. inversion Y; subst. right. left. reflexivity.
      * intros _ X. apply in_app_or in X as [X|[X|[]]]; [exact (NF X)|discriminate X].
      * intros X. contradiction.
    + split; [|split].
      * intros id. rewrite !in_app_iff, PE. cbn [In]. split.
        -- intros [Y|[Y|[Y|[]]]]; [left; exact Y| |discriminate Y]. exfalso. exact (proj2 (CA _ Y) id eq_refl).
        -- intros [Y|[Y|[]]]; [left; exact Y|]. exfalso. exact (NL id Y).
      * intros X. contradiction.
      * intros _. exists (out_of h ++ a). split; [apply app_assoc|].
        intros X. apply in_app_or in X as [X|X]; [exact (NF X)|]. exact (proj1 (CA _ X) eq_refl).
    + split; [|split].
      * intros id. rewrite !in_app_iff, PE. cbn [In]. split.
        -- intros [Y|Y]; [left; exact Y|]. exfalso. exact (proj2 (CA _ Y) id eq_refl).
        -- intros [Y|[Y|[]]]; [left; exact Y|]. exfalso. exact (NL id Y).
      * intros _ X. apply in_app_or in X as [X|X]; [exact (NF X)|]. exact (proj1 (CA _ X) eq_refl).
      * intros X. contradiction.
Qed.

Lemma W_init c : W (cf_concurrency c) [] (init_st c).
Proof.
  split; [apply init_inv|]. split; [apply init_frame|]. cbn. split; [|split].
  - intros id. tauto.
  - intros _ [].
  - discriminate.
Qed.

Lemma before_finished_sub es e : In e (StatsSpec.before_finished es) -> In e es.
Proof.
  induction es as [|x t IH]; [intros []|]. cbn [StatsSpec.before_finished].
  destruct x; try (intros [Y|Y]; [left; exact Y|right; exact (IH Y)]). intros [].
Qed.
Lemma before_finished_keeps a : forall b e, ~ In EvFinished a -> In e a -> In e (StatsSpec.before_finished (a ++ b)).
Proof.
  induction a as [|x t IH]; intros b e N I; [destruct I|]. cbn [app StatsSpec.before_finished].
  assert (NX : x <> EvFinished) by (intros ->; apply N; left; reflexivity).
  assert (NT : ~ In EvFinished t) by (intros Y; apply N; right; exact Y).
  destruct x; try (destruct I as [<-|I]; [left; reflexivity|right; exact (IH b e NT I)]). contradiction.
Qed.

(* in every run, an event of the stream other than run-Finished lies in the part the statistics are about *)
Lemma in_before_finished c ls s h e :
  run c ls = Some (s, h) -> In e (out_of h) -> e <> EvFinished -> In e (StatsSpec.before_finished (out_of h)).
Proof.
  intros R I NE.
  pose proof (run_from_acc c (W (cf_concurrency c)) (W_step c) ls [] _ _ _ (W_init c) R) as (_ & _ & _ & NF & DF).
  cbn [app] in NF, DF.
  assert (D : pc s = Done \/ pc s <> Done) by (destruct (pc s); auto; right; discriminate).
  destruct D as [D|ND].
  - destruct (DF D) as (a & E & N). rewrite E in *. apply before_finished_keeps; [exact N|].
    apply in_app_or in I as [I|[I|[]]]; [exact I|]. exfalso. exact (NE (eq_sym I)).
  - specialize (NF ND). rewrite <- (app_nil_r (out_of h)). apply before_finished_keeps; assumption.
Qed.

Lemma parse_errors_of_the_run c ls s h id :
  run c ls = Some (s, h) -> (In (EvParseErr id) (out_of h) <-> In (LParseErr id) ls).
Proof.
  intros R.
  pose proof (run_from_acc c (W (cf_concurrency c)) (W_step c) ls [] _ _ _ (W_init c) R) as (_ & _ & PE & _).
  cbn [app] in PE. unfold run in R. apply run_from_exec in R as [_ M]. rewrite <- M. apply PE.
Qed.

Lemma out_evs_in k x tr : In x (out_evs k tr) ->
  exists f r sc rt, In (EvScen f r sc rt x) tr /\ k = (sc, cur_of rt).
Proof.
  unfold out_evs. intros H. apply in_flat_map in H as (e & I & J).
  destruct e as [| | | | | | | |f r sc rt y]; try destruct J.
  destruct (akey_eqb k (sc, cur_of rt)) eqn:E; [|destruct J]. destruct J as [<-|[]].
  apply akey_eqb_true in E. exists f, r, sc, rt. auto.
Qed.
Lemma in_out_evs f r sc rt x tr : In (EvScen f r sc rt x) tr -> In x (out_evs (sc, cur_of rt) tr).
Proof.
  intros I. unfold out_evs. apply in_flat_map. exists (EvScen f r sc rt x). split; [exact I|].
  rewrite akey_eqb_rf. left. reflexivity.
Qed.

(* the end of an attempt handed the scheduler a FINAL failure: the flag said failed and no retry is left *)
Definition final_failure (it : label * list ev) : Prop :=
  exists k f r sc rt, it = (LAttEnd k true, [EvScen f r sc rt ScFinished]) /\ StatsSpec.retries_left rt = false.

(* ... which is exactly when the finished-message it sends satisfies the predicate on which the drain of a fail-fast run
   trips (SchedP2.drain_trips / drain_no_trip) *)
Theorem end_message_trips_iff_final_failure c s1 k b s2 f r sc rt :
  step c s1 (LAttEnd k b) = Some (s2, [EvScen f r sc rt ScFinished]) ->
  exists m, msgs s2 = msgs s1 ++ [m] /\
            m_failed m && negb (m_retried m) = b && negb (StatsSpec.retries_left rt).
Proof.
  intros ST. cbn [step] in ST. destruct (set_phase k Opened Ended (running s1)) as [[e0 r0]|]; [|discriminate].
  assert (X : msgs s2 = msgs s1 ++ [mk_msg (e_f e0) (e_r e0) (e_nf e0) (e_nr e0) b (is_some (next_try e0 b (now s1)))] /\
              e_retr e0 = rt).
  { destruct (next_try e0 b (now s1)) as [e'|]; [destruct (e_serial e')|]; inversion ST; subst; cbn [msgs upd]; auto. }
  destruct X as [-> <-]. eexists. split; [reflexivity|]. cbn [m_failed m_retried].
  unfold next_try, StatsSpec.retries_left. destruct (e_retr e0) as [[c0 l0]|]; [|destruct b; reflexivity].
  destruct b; cbn [andb]; [|reflexivity]. destruct (0 <? l0); reflexivity.
Qed.

Lemma item_key c ls s h h1 k b f r sc rt h2 :
  run c ls = Some (s, h) -> h = h1 ++ (LAttEnd k b, [EvScen f r sc rt ScFinished]) :: h2 ->
  k = (sc, cur_of rt) /\ In (LAttEnd k b) ls /\
  exists s1 s2, run c (map fst h1) = Some (s1, h1) /\ step c s1 (LAttEnd k b) = Some (s2, [EvScen f r sc rt ScFinished]).
Proof.
  intros R E. unfold run in *. rewrite E in R. destruct (run_from_cut _ _ _ _ _ _ _ _ R) as (sa & sb & Ra & ST & EL).
  split; [|split; [rewrite EL; apply in_or_app; right; left; reflexivity|exists sa, sb; auto]].
  destruct (step_scen _ _ _ _ _ _ _ _ _ _ ST (or_introl eq_refl))
    as (e & _ & SE & [(X & _)|[(X & _)|(b' & X & _)]]); try discriminate X.
  inversion X as [[K B]]. destruct (scen_ev_fields _ _ _ _ _ _ _ SE) as (_ & _ & <- & <- & _). reflexivity.
Qed.

(* (d), IF: in every faithful run — complete or not — a final failure handed to the scheduler fails the run *)
Theorem final_failure_fails_the_run c ls s h inp it :
  run c ls = Some (s, h) -> faithful inp ls -> In it h -> final_failure it ->
  StatsSpec.spec_failed (out_of h) = true.
Proof.
  intros R F I (k & f & r & sc & rt & -> & RL).
  apply in_split in I as (h1 & h2 & Eh).
  destruct (item_key c ls s h h1 k true f r sc rt h2 R Eh) as (K & IL & _).
  assert (X : exec c ls = Some (s, out_of h)) by (apply run_exec; exists h; auto).
  pose proof (flag_is_what_the_stream_shows c ls s _ inp k true X F IL) as FE. symmetry in FE.
  unfold failed_evs in FE. apply existsb_exists in FE as (x & Ix & Fx).
  destruct (out_evs_in k x _ Ix) as (f' & r' & sc' & rt' & Ie & K').
  pose proof (run_from_acc c U (U_step c) ls [] _ _ _ (U_init c) R) as (_ & B & _). cbn [app] in B.
  pose proof (B _ _ _ _ _ Ie) as S1. rewrite <- K' in S1.
  assert (Ifin : In (EvScen f r sc rt ScFinished) (out_of h)).
  { rewrite Eh, out_of_app. apply in_or_app. right. left. reflexivity. }
  pose proof (B _ _ _ _ _ Ifin) as S2. rewrite <- K in S2.
  assert (M : map fst h = ls) by (unfold run in R; apply run_from_exec in R; apply R).
  pose proof (faithful_one_start inp ls k true F IL) as N1. rewrite <- M in N1.
  pose proof (hist_start_unique k _ _ h N1 S1 S2) as EQ. inversion EQ; subst f' r' sc' rt'.
  assert (IB : In (EvScen f r sc rt x) (StatsSpec.before_finished (out_of h))).
  { apply (in_before_finished c ls s h _ R Ie). discriminate. }
  unfold StatsSpec.spec_failed.
  destruct x as [|hb hk|st sx|st sx|m|]; try discriminate Fx.
  - destruct hk as [| |p]; try discriminate Fx.
    assert (Y : existsb StatsSpec.is_hook_failed_final (StatsSpec.before_finished (out_of h)) = true).
    { apply existsb_exists. eexists. split; [exact IB|]. unfold StatsSpec.is_hook_failed_final. cbn. rewrite RL. reflexivity. }
    rewrite Y. apply orb_true_r.
  - destruct sx as [| | |ek]; try discriminate Fx.
    assert (Y : existsb StatsSpec.is_step_failed_final (StatsSpec.before_finished (out_of h)) = true).
    { apply existsb_exists. eexists. split; [exact IB|]. unfold StatsSpec.is_step_failed_final. cbn.
      unfold Stats.is_retried_failure. unfold StatsSpec.retries_left in RL. destruct rt as [[c0 l0]|]; [|reflexivity].
      rewrite RL. reflexivity. }
    rewrite Y, orb_true_r. reflexivity.
  - destruct sx as [| | |ek]; try discriminate Fx.
    assert (Y : existsb StatsSpec.is_step_failed_final (StatsSpec.before_finished (out_of h)) = true).
    { apply existsb_exists. eexists. split; [exact IB|]. unfold StatsSpec.is_step_failed_final. cbn.
      unfold Stats.is_retried_failure. unfold StatsSpec.retries_left in RL. destruct rt as [[c0 l0]|]; [|reflexivity].
      rewrite RL. reflexivity. }
    rewrite Y, orb_true_r. reflexivity.
Qed.

(* a parser error fails the run (no faithfulness needed) *)
Theorem parse_error_fails_the_run c ls s h id :
  run c ls = Some (s, h) -> In (LParseErr id) ls -> StatsSpec.spec_failed (out_of h) = true.
Proof.
  intros R I. apply (parse_errors_of_the_run c ls s h id R) in I.
  assert (IB : In (EvParseErr id) (StatsSpec.before_finished (out_of h))).
  { apply (in_before_finished c ls s h _ R I). discriminate. }
  unfold StatsSpec.spec_failed.
  assert (Y : existsb StatsSpec.is_parse_err (StatsSpec.before_finished (out_of h)) = true).
  { apply existsb_exists. eexists. split; [exact IB|reflexivity]. }
  rewrite Y. reflexivity.
Qed.

(* (d), ONLY IF: a COMPLETE faithful run that is failed (C01: a parser error, a final step failure or a final hook
   failure in its stream) had a parser error, or some attempt ended with the flag failed = true and no retry left *)
Theorem failed_run_has_final_failure c ls s h inp :
  run c ls = Some (s, h) -> faithful inp ls -> pc s = Done ->
  StatsSpec.spec_failed (out_of h) = true ->
  (exists id, In (LParseErr id) ls) \/ (exists it, In it h /\ final_failure it).
Proof.
  intros R F D SF.
  assert (X : exec c ls = Some (s, out_of h)) by (apply run_exec; exists h; auto).
  pose proof (run_from_acc c U (U_step c) ls [] _ _ _ (U_init c) R) as (_ & _ & C). cbn [app] in C.
  unfold run in R. pose proof (run_from_exec _ _ _ _ _ R) as [X' M].
  destruct (exec_from_all c ls _ _ _ (init_inv c) (init_frame c) (init_end c) X') as (_ & _ & EN).
  destruct (EN D) as (RN & _).
  (* a failed step / hook event of the stream in an attempt without retries left gives the final failure *)
  assert (KEY : forall f r sc rt x, In (EvScen f r sc rt x) (out_of h) -> ev_fail x = true ->
                  (ev_notfound x = false -> StatsSpec.retries_left rt = false) ->
                  exists it, In it h /\ final_failure it).
  { intros f r sc rt x Ie Fx RL.
    destruct (C _ _ _ _ _ Ie) as [(b & Y)|(e & IO & _)]; [|rewrite RN in IO; destruct IO].
    assert (IL : In (LAttEnd (sc, cur_of rt) b) ls).
    { rewrite <- M. apply in_map_iff. eexists. split; [|exact Y]. reflexivity. }
    destruct (stream_carries_the_attempt c ls s _ inp _ b X F IL) as [EV _].
    pose proof (flag_is_what_the_stream_shows c ls s _ inp _ b X F IL) as B.
    pose proof (in_out_evs _ _ _ _ _ _ Ie) as Ix.
    assert (BT : b = true).
    { rewrite B. unfold failed_evs. apply existsb_exists. exists x. auto. }
    clear B. subst b. eexists. split; [exact Y|]. exists (sc, cur_of rt), f, r, sc, rt. split; [reflexivity|]. apply RL.
    pose proof (attempt_never_reports_notfound (inp (sc, cur_of rt))) as NN. rewrite <- EV in NN.
    destruct (ev_notfound x) eqn:E; [|reflexivity].
    assert (existsb ev_notfound (out_evs (sc, cur_of rt) (out_of h)) = true); [|congruence].
    apply existsb_exists. exists x. auto. }
  unfold StatsSpec.spec_failed in SF. apply orb_prop in SF as [SF|SF]; [apply orb_prop in SF as [SF|SF]|].
  - left. apply existsb_exists in SF as (e & Ie & Pe). apply before_finished_sub in Ie.
    destruct e; try discriminate Pe. exists id. apply (parse_errors_of_the_run c ls s h id R). exact Ie.
  - right. apply existsb_exists in SF as (e & Ie & Pe). apply before_finished_sub in Ie.
    unfold StatsSpec.is_step_failed_final in Pe.
    destruct e as [| | | | | | | |f r sc rt x]; try discriminate Pe.
    destruct x as [|hb hk|st sx|st sx|m|]; try discriminate Pe;
      (destruct sx as [| | |ek]; try discriminate Pe; cbn in Pe;
       apply (KEY _ _ _ _ _ Ie eq_refl); intros NNF; unfold Stats.is_retried_failure in Pe;
       unfold StatsSpec.retries_left; destruct rt as [[c0 l0]|]; [|reflexivity];
       destruct ek; [discriminate NNF| |]; cbn in Pe; rewrite andb_true_r in Pe;
       apply negb_true_iff in Pe; exact Pe).
  - right. apply existsb_exists in SF as (e & Ie & Pe). apply before_finished_sub in Ie.
    unfold StatsSpec.is_hook_failed_final in Pe. apply andb_prop in Pe as [P1 P2].
    destruct e as [| | | | | | | |f r sc rt x]; try discriminate P1.
    destruct x as [|hb hk|st sx|st sx|m|]; try discriminate P1. destruct hk as [| |p]; try discriminate P1.
    apply (KEY _ _ _ _ _ Ie eq_refl). intros _. cbn in P2. apply negb_true_iff in P2. exact P2.
Qed.

(* (d): for a COMPLETE faithful run, the C01 verdict of the stream is "failed" exactly when a parser error occurred or
   some attempt ended with the flag failed = true and no retry left — the flags (and messages) the scheduler acts on *)
Theorem verdict_iff_final_failure c ls s h inp :
  run c ls = Some (s, h) -> faithful inp ls -> pc s = Done ->
  (StatsSpec.spec_failed (out_of h) = true <->
   (exists id, In (LParseErr id) ls) \/ (exists it, In it h /\ final_failure it)).
Proof.
  intros R F D. split.
  - exact (failed_run_has_final_failure c ls s h inp R F D).
  - intros [(id & I)|(it & I & FF)].
    + exact (parse_error_fails_the_run c ls s h id R I).
    + exact (final_failure_fails_the_run c ls s h inp it R F I FF).
Qed.

(* ... stated on `exec`: the final failure is a step `LAttEnd k true` of the run that emitted Finished with no retry left
   and sent the finished-message on which a fail-fast drain trips *)
Theorem verdict_iff_final_failure_exec c ls s tr inp :
  exec c ls = Some (s, tr) -> faithful inp ls -> pc s = Done ->
  (StatsSpec.spec_failed tr = true <->
   (exists id, In (LParseErr id) ls) \/
   (exists ls1 k ls2 s1 tr1 s2 f r sc rt m,
      ls = ls1 ++ LAttEnd k true :: ls2 /\ exec c ls1 = Some (s1, tr1) /\
      step c s1 (LAttEnd k true) = Some (s2, [EvScen f r sc rt ScFinished]) /\
      StatsSpec.retries_left rt = false /\
      msgs s2 = msgs s1 ++ [m] /\ m_failed m && negb (m_retried m) = true)).
Proof.
  intros H F D. destruct (proj1 (run_exec _ _ _ _) H) as (h & R & <-).
  rewrite (verdict_iff_final_failure c ls s h inp R F D). split; (intros [PE|FF]; [left; exact PE|right]).
  - destruct FF as (it & I & k & f & r & sc & rt & -> & RL). apply in_split in I as (h1 & h2 & Eh).
    destruct (item_key c ls s h h1 k true f r sc rt h2 R Eh) as (_ & _ & s1 & s2 & R1 & ST).
    destruct (end_message_trips_iff_final_failure c s1 k true s2 f r sc rt ST) as (m & Em & Tm).
    exists (map fst h1), k, (map fst h2), s1, (out_of h1), s2, f, r, sc, rt, m.
    unfold run in R. rewrite Eh in R. destruct (run_from_cut _ _ _ _ _ _ _ _ R) as (_ & _ & _ & _ & EL).
    split; [exact EL|]. split; [apply run_exec; exists h1; auto|]. split; [exact ST|]. split; [exact RL|].
    split; [exact Em|]. rewrite Tm, RL. reflexivity.
  - destruct FF as (ls1 & k & ls2 & s1 & tr1 & s2 & f & r & sc & rt & m & EL & X1 & ST & RL & _).
    destruct (proj1 (run_exec _ _ _ _) X1) as (ha & Ra & _).
    pose proof R as R'. unfold run in R', Ra. rewrite EL, run_from_app, Ra in R'. cbn [run_from] in R'. rewrite ST in R'.
    destruct (run_from c s2 ls2) as [[s3 hb]|]; [|discriminate]. inversion R'; subst.
    eexists. split; [apply in_or_app; right; left; reflexivity|]. exists k, f, r, sc, rt. auto.
Qed.

(* fail-fast trips exactly on such attempts: the queue of finished-messages left by a step that ended an attempt with
   failed = true and no retry left makes the next drain of a fail-fast run break the flow (SchedP2.drain_trips) ... *)
Corollary final_failure_trips_fail_fast c s1 k s2 f r sc rt :
  step c s1 (LAttEnd k true) = Some (s2, [EvScen f r sc rt ScFinished]) -> StatsSpec.retries_left rt = false ->
  forall fl fc rc, snd (fst (fst (drain true (msgs s2) fl fc rc))) = Break.
Proof.
  intros ST RL fl fc rc. destruct (end_message_trips_iff_final_failure c s1 k true s2 f r sc rt ST) as (m & -> & T).
  rewrite RL in T. apply drain_trips. rewrite existsb_app. cbn [existsb]. rewrite T. cbn. apply orb_true_r.
Qed.
(* ... while the message of any other end (not failed, or failed with a retry left) trips nothing *)
Corollary other_ends_do_not_trip c s1 k b s2 f r sc rt :
  step c s1 (LAttEnd k b) = Some (s2, [EvScen f r sc rt ScFinished]) -> b && negb (StatsSpec.retries_left rt) = false ->
  existsb (fun m => m_failed m && negb (m_retried m)) (msgs s1) = false ->
  forall ff fl fc rc, snd (fst (fst (drain ff (msgs s2) fl fc rc))) = fl.
Proof.
  intros ST NB CL ff fl fc rc. destruct (end_message_trips_iff_final_failure c s1 k b s2 f r sc rt ST) as (m & -> & T).
  apply drain_no_trip. rewrite existsb_app, CL. cbn [existsb orb]. rewrite T, NB. reflexivity.
Qed.

(* ===================================================================================================================
   Part D — non-vacuity, and the reviewer's counter-examples
   =================================================================================================================== *)
(* feature 1 = [scenario 10 with @retry(1); scenario 11], both concurrent, limit 2, no fail-fast.
   Attempt (10,0): its only step panics with payload 7.  Attempt (10,1): the step passes.
   Attempt (11,0): a before hook, one passing step, an after hook. *)
Definition cF : sfeature :=
  mk_sfeature 1 [mk_sscen 10 None false (Some (1, None)); mk_sscen 11 None false None] 0 2.
Definition cCfg : cfg := mk_cfg (Some 2%nat) false.
Definition cInp (k : akey) : attempt_in :=
  if akey_eqb k (10, 0) then mk_attempt_in None None WOk [] [] [(0, OMatch (Some 7))] (Some (0, 1))
  else if akey_eqb k (10, 1) then mk_attempt_in None None WOk [] [] [(0, OMatch None)] (Some (1, 0))
  else mk_attempt_in (Some None) (Some None) WOk [] [] [(0, OMatch None)] None.
Definition cLabels : list label :=
  [LFeature cF; LParserEnd; LTop;
   LAttStart (10, 0); LAttStart (11, 0);
   LAttEv (10, 0) (ScStep 0 StStarted);
   LAttEv (11, 0) (ScHook true HStarted);
   LAttEv (10, 0) (ScStep 0 (StFailed (EPanic 7)));
   LAttEnd (10, 0) true; LTop;
   LAttEv (11, 0) (ScHook true HPassed); LAttEv (11, 0) (ScStep 0 StStarted);
   LAttStart (10, 1);
   LAttEv (10, 1) (ScStep 0 StStarted);
   LAttEv (11, 0) (ScStep 0 StPassed); LAttEv (11, 0) (ScHook false HStarted); LAttEv (11, 0) (ScHook false HPassed);
   LAttEnd (11, 0) false; LTop;
   LAttEv (10, 1) (ScStep 0 StPassed);
   LAttEnd (10, 1) false; LTop].

(* the run is accepted, has ended (Done) without Break; the attempts of scenario 10 are (0,1) then (1,0); the verdict of
   the stream is "not failed" (the only failure was retried); and the label list is faithful to the attempt model *)
Example faithful_run_example :
  match exec cCfg cLabels with
  | Some (s, tr) =>
    match pc s with Done => true | _ => false end = true /\ is_break (flow s) = false /\
    edges_of 10 tr = [(Some (0, 1), true); (Some (0, 1), false); (Some (1, 0), true); (Some (1, 0), false)] /\
    edges_of 11 tr = [(None, true); (None, false)] /\
    failed_evs (out_evs (10, 0) tr) = true /\ failed_evs (out_evs (10, 1) tr) = false /\
    failed_evs (out_evs (11, 0) tr) = false /\
    StatsSpec.spec_failed tr = false
  | None => False
  end /\ faithfulb cInp cLabels = true.
Proof. vm_compute. repeat split. Qed.

Theorem cLabels_faithful : faithful cInp cLabels.
Proof. apply faithfulb_sound. vm_compute. reflexivity. Qed.

(* the run in flight (cut after the first attempt of scenario 10 has ended, scenario 11 still running) is faithful too *)
Example faithful_prefix_example : faithful cInp (firstn 12 cLabels).
Proof. apply (faithful_prefix cInp (firstn 12 cLabels) (skipn 12 cLabels)). rewrite firstn_skipn. exact cLabels_faithful. Qed.

(* the premises of the theorems of Part C are met by it *)
Example whenever_applies :
  exists s tr, exec cCfg cLabels = Some (s, tr) /\ faithful cInp cLabels /\ pc s = Done /\ flow s <> Break /\
    exists pre post, tr = pre ++ EvScen 1 None 10 (Some (0, 1)) ScFinished :: post /\
      failed_evs (out_evs (10, 0) tr) = true /\
      exists mid post', post = mid ++ EvScen 1 None 10 (Some (0 + 1, 1 - 1)) ScStarted :: post'.
Proof.
  destruct (exec cCfg cLabels) as [[s tr]|] eqn:E; [|vm_compute in E; discriminate E].
  exists s, tr. split; [reflexivity|]. split; [exact cLabels_faithful|].
  assert (X : pc s = Done /\ flow s <> Break /\ failed_evs (out_evs (10, 0) tr) = true /\
              exists pre post, tr = pre ++ EvScen 1 None 10 (Some (0, 1)) ScFinished :: post).
  { vm_compute in E. inversion E; subst. split; [reflexivity|]. split; [discriminate|]. split; [reflexivity|].
    eexists (_ :: _ :: _ :: _ :: _ :: _ :: _ :: _ :: []), _. reflexivity. }
  destruct X as (D & NB & FE & pre & post & Etr). split; [exact D|]. split; [exact NB|].
  exists pre, post. split; [exact Etr|]. split; [exact FE|].
  exact (visible_failure_with_retries_left_is_retried cCfg cLabels s tr cInp E cLabels_faithful D NB
           pre post 1 None 10 0 1 Etr eq_refl FE).
Qed.

(* ---- the reviewer's counter-examples: accepted by the scheduler model, faithful for NO assignment of inputs ---- *)
(* (1) a step fails with a retry left, the label says failed = false: nothing is retried *)
Definition cx1 : list label :=
  [LFeature cF; LParserEnd; LTop;
   LAttStart (10, 0); LAttStart (11, 0);
   LAttEv (10, 0) (ScStep 0 StStarted); LAttEv (10, 0) (ScStep 0 (StFailed (EPanic 7)));
   LAttEnd (10, 0) false; LTop;
   LAttEnd (11, 0) false; LTop].
Example cx1_is_accepted_and_not_retried :
  match exec cCfg cx1 with
  | Some (s, tr) =>
    match pc s with Done => true | _ => false end = true /\ is_break (flow s) = false /\
    edges_of 10 tr = [(Some (0, 1), true); (Some (0, 1), false)] /\
    failed_evs (out_evs (10, 0) tr) = true
  | None => False
  end.
Proof. vm_compute. repeat split. Qed.
Theorem cx1_is_unfaithful : forall inp, ~ faithful inp cx1.
Proof.
  apply (contradicting_flag_is_unfaithful cx1 (10, 0) false).
  - unfold cx1. repeat (first [left; reflexivity|right]).
  - vm_compute. discriminate.
Qed.

(* (2) a passed attempt, the label says failed = true: it is retried *)
Definition cx2 : list label :=
  [LFeature cF; LParserEnd; LTop;
   LAttStart (10, 0); LAttStart (11, 0);
   LAttEv (10, 0) (ScStep 0 StStarted); LAttEv (10, 0) (ScStep 0 StPassed);
   LAttEnd (10, 0) true; LTop;
   LAttStart (10, 1);
   LAttEnd (11, 0) false; LTop;
   LAttEnd (10, 1) false; LTop].
Example cx2_is_accepted_and_retried :
  match exec cCfg cx2 with
  | Some (s, tr) =>
    match pc s with Done => true | _ => false end = true /\ is_break (flow s) = false /\
    edges_of 10 tr = [(Some (0, 1), true); (Some (0, 1), false); (Some (1, 0), true); (Some (1, 0), false)] /\
    failed_evs (out_evs (10, 0) tr) = false
  | None => False
  end.
Proof. vm_compute. repeat split. Qed.
Theorem cx2_is_unfaithful : forall inp, ~ faithful inp cx2.
Proof.
  apply (contradicting_flag_is_unfaithful cx2 (10, 0) true).
  - unfold cx2. repeat (first [left; reflexivity|right]).
  - vm_compute. discriminate.
Qed.
(* ... in particular for the assignment that makes the events of attempt (10,0) right *)
Example cx2_events_right_flag_wrong :
  lab_evs (10, 0) cx2 = ao_events (run_attempt (cInp (10, 1))) /\ ao_failed (run_attempt (cInp (10, 1))) = false /\
  ~ faithful (fun _ => cInp (10, 1)) cx2.
Proof. split; [vm_compute; reflexivity|]. split; [vm_compute; reflexivity|]. apply cx2_is_unfaithful. Qed.

(* (3) the example run of SchedP13 itself (attempt (10,1) "fails" without any event) is not faithful either *)
Theorem SchedP13_example_is_unfaithful : forall inp, ~ faithful inp exLabels.
Proof.
  apply (contradicting_flag_is_unfaithful exLabels (10, 1) true).
  - unfold exLabels. repeat (first [left; reflexivity|right]).
  - vm_compute. discriminate.
Qed.

(* (d) on the examples: a faithful complete run with a final failure (no retry configured) is failed, and the step that
   ended the attempt sent the message on which fail-fast trips *)
Definition dF : sfeature := mk_sfeature 1 [mk_sscen 10 None false None] 0 1.
Definition dInp (k : akey) : attempt_in := mk_attempt_in None None WOk [] [] [(0, OAmbiguous)] None.
Definition dLabels : list label :=
  [LFeature dF; LParserEnd; LTop; LAttStart (10, 0);
   LAttEv (10, 0) (ScStep 0 StStarted); LAttEv (10, 0) (ScStep 0 (StFailed EAmbiguous));
   LAttEnd (10, 0) true; LTop].
Example final_failure_example :
  match run cCfg dLabels with
  | Some (s, h) =>
    match pc s with Done => true | _ => false end = true /\
    StatsSpec.spec_failed (out_of h) = true /\
    nth_error h 6 = Some (LAttEnd (10, 0) true, [EvScen 1 None 10 None ScFinished])
  | None => False
  end /\ faithfulb dInp dLabels = true.
Proof. vm_compute. repeat split. Qed.

Print Assumptions failed_flag_is_failed_evs.
Print Assumptions flag_is_what_the_stream_shows.
Print Assumptions retry_only_after_visible_failure.
Print Assumptions visible_failure_with_retries_left_is_retried.
Print Assumptions canonical_in_every_interleaving_faithful.
Print Assumptions verdict_iff_final_failure_exec.
Print Assumptions cLabels_faithful.
Print Assumptions cx1_is_unfaithful.
