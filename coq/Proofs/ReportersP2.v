(* ReportersP2.v — C14 for the Cucumber-JSON report model, whole document: the facts stated by the document are exactly
   the facts of the events of the stream (as a multiset, for EVERY event list with non-zero feature ids), every feature
   and element appears once when the features carry a path, hence `c14_json_ok es (json_doc has_path es) = true` for a
   stream closed by its only run-Finished; a stream without run-Finished writes nothing. No axioms. *)
From CV Require Import Model.Base Model.Events Model.Contract Model.Stats Model.StatsSpec Model.Reporters Model.ReportersSpec
  Proofs.BaseP.
From Coq Require Import Lia Permutation.

(* ------------------------------------------------------------------------------------------------ *)
(* generic helpers                                                                                   *)
(* ------------------------------------------------------------------------------------------------ *)
Lemma fact_eqb_eq (a b : fact) : fact_eqb a b = true <-> a = b.
Proof. apply list_eqb_spec. intros; apply N.eqb_eq. Qed.

Lemma remove1_in x l : In x l -> exists l', remove1 x l = Some l' /\ Permutation l (x :: l').
Proof.
  induction l as [|y t IH]; intros HI; [destruct HI|].
  cbn [remove1]. destruct (fact_eqb x y) eqn:E.
  - apply fact_eqb_eq in E. subst y. exists t. split; [reflexivity|apply Permutation_refl].
  - destruct HI as [HE|HI].
    + subst y. assert (X : fact_eqb x x = true) by (apply fact_eqb_eq; reflexivity). congruence.
    + destruct (IH HI) as (l' & R & P). rewrite R. exists (y :: l'). split; [reflexivity|].
      apply perm_trans with (y :: x :: l'); [apply perm_skip; exact P|apply perm_swap].
Qed.

(* Permutation implies the executable multiset equality of the specification *)
Lemma perm_same_multiset : forall a b, Permutation a b -> same_multiset a b = true.
Proof.
  induction a as [|x t IH]; intros b P.
  - apply Permutation_nil in P. subst b. reflexivity.
  - cbn [same_multiset].
    assert (HI : In x b) by (apply (Permutation_in x P); left; reflexivity).
    destruct (remove1_in x b HI) as (b' & R & P'). rewrite R. apply IH.
    apply Permutation_cons_inv with x. apply perm_trans with b; assumption.
Qed.

Lemma nodup_facts_of_NoDup l : NoDup l -> nodup_facts l = true.
Proof.
  induction 1 as [|x t NI ND IH]; [reflexivity|].
  cbn [nodup_facts]. rewrite IH, andb_true_r. apply negb_true_iff.
  destruct (existsb (fact_eqb x) t) eqn:E; [|reflexivity].
  apply existsb_exists in E as (y & HI & HE). apply fact_eqb_eq in HE. subst y. contradiction.
Qed.

Lemma NoDup_app_iff {A} (a b : list A) :
  NoDup (a ++ b) <-> NoDup a /\ NoDup b /\ (forall x, In x a -> In x b -> False).
Proof.
  induction a as [|y a IH]; cbn [app].
  - split; [intros H; repeat split; [constructor|exact H|intros x []]|intros (_ & H & _); exact H].
  - split.
    + intros H. apply NoDup_cons_iff in H as [NI ND]. apply IH in ND as (Na & Nb & D).
      repeat split.
      * constructor; [intros HI; apply NI, in_or_app; left; exact HI|exact Na].
      * exact Nb.
      * intros x [<-|HI] HB; [apply NI, in_or_app; right; exact HB|exact (D x HI HB)].
    + intros (Na & Nb & D). apply NoDup_cons_iff in Na as [NI Na]. constructor.
      * intros HI. apply in_app_or in HI as [HI|HI]; [exact (NI HI)|exact (D y (or_introl eq_refl) HI)].
      * apply IH. repeat split; [exact Na|exact Nb|intros x HA HB; exact (D x (or_intror HA) HB)].
Qed.

Lemma perm_mid {A} (a x b : list A) : Permutation ((a ++ x) ++ b) ((a ++ b) ++ x).
Proof. rewrite <- !app_assoc. apply Permutation_app_head, Permutation_app_comm. Qed.

(* ------------------------------------------------------------------------------------------------ *)
(* the facts and the containers of a STRUCTURED document                                             *)
(* ------------------------------------------------------------------------------------------------ *)
Definition hook_fact (fid : N) (r : option N) (s : N) (b : bool) : fact :=
  [2; fid] ++ ropt r ++ [s; 0; 0; (if b then 1 else 0); 2].
Definition hook_facts (fid : N) (r : option N) (s : N) (b : bool) (l : list N) : list fact :=
  flat_map (fun st => if st =? 0 then [] else [hook_fact fid r s b]) l.
Definition step_fact (fid : N) (r : option N) (s ty : N) (ls : N * N) : fact :=
  if fid =? 0 then [3; 0; 0; 0; fst ls; 0; 0; 0; 2]
  else [1; fid] ++ ropt r ++ [s; 0; fst ls; ty; (match snd ls with 0 => 1 | 2 => 3 | _ => 2 end)].
Definition el_facts (fid : N) (el : jel) : list fact :=
  hook_facts fid (je_rid el) (je_sid el) true (je_before el) ++
  map (step_fact fid (je_rid el) (je_sid el) (je_ty el)) (je_steps el) ++
  hook_facts fid (je_rid el) (je_sid el) false (je_after el).
Definition feat_facts (jf : jfeat) : list fact := flat_map (el_facts (jf_fid jf)) (jf_els jf).
Definition doc_facts (fs : list jfeat) : list fact := flat_map feat_facts fs.

Definition el_cont' (fid : N) (r : option N) (s ty : N) : fact := [11; fid] ++ ropt r ++ [s; ty].
Definition el_cont (fid : N) (el : jel) : fact := el_cont' fid (je_rid el) (je_sid el) (je_ty el).
Definition feat_conts (jf : jfeat) : list fact :=
  if jf_fid jf =? 0 then [] else [10; jf_fid jf] :: map (el_cont (jf_fid jf)) (jf_els jf).
Definition conts (fs : list jfeat) : list fact := flat_map feat_conts fs.

(* the flattened document, piecewise *)
Definition el_flat (el : jel) : list rf :=
  RJElement (je_rid el) (je_sid el) (je_ty el) ::
  map (fun b => RJHook true b) (je_before el) ++
  map (fun ls => RJStep (fst ls) (snd ls)) (je_steps el) ++
  map (fun b => RJHook false b) (je_after el).

Lemma flatten_cons jf t :
  flatten_json (jf :: t) = (RJFeature (jf_uri jf) (jf_fid jf) :: flat_map el_flat (jf_els jf)) ++ flatten_json t.
Proof. reflexivity. Qed.

(* --- json_facts of the flattened document --- *)
Lemma json_facts_hooks fid r s ty b l rest :
  json_facts fid (Some (r, s, ty)) (map (fun x => RJHook b x) l ++ rest) =
  hook_facts fid r s b l ++ json_facts fid (Some (r, s, ty)) rest.
Proof.
  induction l as [|x l IH]; [reflexivity|].
  cbn [map app json_facts]. unfold hook_facts. cbn [flat_map]. fold (hook_facts fid r s b l).
  rewrite IH, <- app_assoc. reflexivity.
Qed.

Lemma json_facts_steps fid r s ty l rest :
  json_facts fid (Some (r, s, ty)) (map (fun ls => RJStep (fst ls) (snd ls)) l ++ rest) =
  map (step_fact fid r s ty) l ++ json_facts fid (Some (r, s, ty)) rest.
Proof.
  induction l as [|x l IH]; [reflexivity|].
  cbn [map app json_facts]. rewrite IH. reflexivity.
Qed.

Lemma json_facts_els fid els rest R :
  (forall ce, json_facts fid ce rest = R) ->
  forall ce, json_facts fid ce (flat_map el_flat els ++ rest) = flat_map (el_facts fid) els ++ R.
Proof.
  intros HR. induction els as [|el t IH]; intros ce; [apply HR|].
  cbn [flat_map]. unfold el_flat at 1. cbn [app json_facts].
  rewrite <- !app_assoc, json_facts_hooks, json_facts_steps, json_facts_hooks, IH.
  unfold el_facts. rewrite <- !app_assoc. reflexivity.
Qed.

Lemma json_facts_flatten : forall fs cf ce, json_facts cf ce (flatten_json fs) = doc_facts fs.
Proof.
  induction fs as [|jf t IH]; intros cf ce; [reflexivity|].
  rewrite flatten_cons. cbn [app json_facts].
  rewrite (json_facts_els (jf_fid jf) (jf_els jf) (flatten_json t) (doc_facts t)); [reflexivity|].
  intros ce'. apply IH.
Qed.

(* --- json_containers of the flattened document --- *)
Fixpoint jc_go (cur_f : N) (l : list rf) : list fact :=
  match l with
  | [] => []
  | RJFeature _ f :: t => (if f =? 0 then [] else [[10; f]]) ++ jc_go f t
  | RJElement r s ty :: t => (if cur_f =? 0 then [] else [[11; cur_f] ++ ropt r ++ [s; ty]]) ++ jc_go cur_f t
  | _ :: t => jc_go cur_f t
  end.
Lemma json_containers_go rfs : json_containers rfs = jc_go 0 rfs.
Proof. reflexivity. Qed.

Lemma jc_go_hooks fid b l rest : jc_go fid (map (fun x => RJHook b x) l ++ rest) = jc_go fid rest.
Proof. induction l as [|x l IH]; [reflexivity|]. cbn [map app jc_go]. exact IH. Qed.
Lemma jc_go_steps fid l rest : jc_go fid (map (fun ls => RJStep (fst ls) (snd ls)) l ++ rest) = jc_go fid rest.
Proof. induction l as [|x l IH]; [reflexivity|]. cbn [map app jc_go]. exact IH. Qed.

Lemma jc_go_els fid els rest :
  jc_go fid (flat_map el_flat els ++ rest) =
  (if fid =? 0 then [] else map (el_cont fid) els) ++ jc_go fid rest.
Proof.
  induction els as [|el t IH].
  - cbn [flat_map map app]. destruct (fid =? 0); reflexivity.
  - cbn [flat_map]. unfold el_flat at 1. cbn [app jc_go].
    rewrite <- !app_assoc, jc_go_hooks, jc_go_steps, jc_go_hooks, IH.
    destruct (fid =? 0); reflexivity.
Qed.

Lemma jc_go_flatten : forall fs cf, jc_go cf (flatten_json fs) = conts fs.
Proof.
  induction fs as [|jf t IH]; intros cf; [reflexivity|].
  rewrite flatten_cons. cbn [app jc_go]. rewrite jc_go_els, IH.
  unfold conts. cbn [flat_map]. unfold feat_conts at 2.
  destruct (jf_fid jf =? 0); reflexivity.
Qed.

Lemma json_containers_flatten fs : json_containers (flatten_json fs) = conts fs.
Proof. rewrite json_containers_go. apply jc_go_flatten. Qed.

(* ------------------------------------------------------------------------------------------------ *)
(* hypotheses on the stream (executable)                                                             *)
(* ------------------------------------------------------------------------------------------------ *)
(* feature ids of scenario events are non-zero (0 is the pseudo feature of a parser error) *)
Definition ev_fid_nz (e : ev) : bool := match e with EvScen f _ _ _ _ => negb (f =? 0) | _ => true end.
Definition fids_nonzero (es : list ev) : bool := forallb ev_fid_nz es.
(* the features of the scenario events carry a path *)
Definition ev_has_path (has_path : N -> bool) (e : ev) : bool :=
  match e with EvScen f _ _ _ _ => has_path f | _ => true end.
Definition fids_have_path (has_path : N -> bool) (es : list ev) : bool := forallb (ev_has_path has_path) es.
Definition no_finished (es : list ev) : bool := negb (existsb is_finished_ev es).

Section J.
  Variable has_path : N -> bool.

  (* ============================================================================================== *)
  (* 1. facts                                                                                        *)
  (* ============================================================================================== *)
  Lemma el_facts_empty fid r s ty : el_facts fid (mk_jel r s ty [] [] []) = [].
  Proof. reflexivity. Qed.

  Lemma upd_el_facts fid els r s ty g delta :
    (forall el, je_rid el = r -> je_sid el = s -> je_ty el = ty ->
                Permutation (el_facts fid (g el)) (el_facts fid el ++ delta)) ->
    Permutation (flat_map (el_facts fid) (upd_el els r s ty g)) (flat_map (el_facts fid) els ++ delta).
  Proof.
    intros H. induction els as [|el t IH].
    - cbn [upd_el flat_map]. rewrite app_nil_r. cbn [app].
      rewrite <- (app_nil_l delta) at 1. rewrite <- (el_facts_empty fid r s ty). apply H; reflexivity.
    - cbn [upd_el]. destruct (jel_matches el r s ty) eqn:M.
      + unfold jel_matches in M. apply andb_true_iff in M as [M M3]. apply andb_true_iff in M as [M1 M2].
        apply (option_eqb_spec N.eqb N.eqb_eq) in M1. apply N.eqb_eq in M2. apply N.eqb_eq in M3.
        cbn [flat_map].
        apply perm_trans with ((el_facts fid el ++ delta) ++ flat_map (el_facts fid) t).
        * apply Permutation_app_tail. apply H; assumption.
        * apply perm_mid.
      + cbn [flat_map]. rewrite <- app_assoc. apply Permutation_app_head. exact IH.
  Qed.

  Lemma upd_feat_facts fs f r s ty g delta :
    (forall el, je_rid el = r -> je_sid el = s -> je_ty el = ty ->
                Permutation (el_facts f (g el)) (el_facts f el ++ delta)) ->
    Permutation (doc_facts (upd_feat has_path fs f r s ty g)) (doc_facts fs ++ delta).
  Proof.
    intros H. induction fs as [|jf t IH].
    - cbn [upd_feat]. unfold doc_facts. cbn [flat_map]. rewrite app_nil_r. unfold feat_facts. cbn [jf_fid jf_els app].
      rewrite <- (app_nil_l delta). apply (upd_el_facts f [] r s ty g delta H).
    - cbn [upd_feat]. destruct (jfeat_matches has_path jf f) eqn:M.
      + unfold jfeat_matches in M. apply andb_true_iff in M as [_ M]. apply N.eqb_eq in M.
        unfold doc_facts. cbn [flat_map]. unfold feat_facts at 1 3. cbn [jf_fid jf_els]. rewrite M.
        apply perm_trans with ((flat_map (el_facts f) (jf_els jf) ++ delta) ++ flat_map feat_facts t).
        * apply Permutation_app_tail. apply upd_el_facts. exact H.
        * apply perm_mid.
      + unfold doc_facts. cbn [flat_map]. rewrite <- app_assoc. apply Permutation_app_head. exact IH.
  Qed.

  Lemma hook_facts_app fid r s b l1 l2 : hook_facts fid r s b (l1 ++ l2) = hook_facts fid r s b l1 ++ hook_facts fid r s b l2.
  Proof. unfold hook_facts. apply flat_map_app. Qed.

  (* the three kinds of element updates *)
  Lemma el_before fid el x :
    Permutation (el_facts fid (mk_jel (je_rid el) (je_sid el) (je_ty el) (je_steps el) (je_before el ++ [x]) (je_after el)))
                (el_facts fid el ++ hook_facts fid (je_rid el) (je_sid el) true [x]).
  Proof. unfold el_facts. cbn [je_rid je_sid je_ty je_steps je_before je_after]. rewrite hook_facts_app. apply perm_mid. Qed.
  Lemma el_after fid el x :
    Permutation (el_facts fid (mk_jel (je_rid el) (je_sid el) (je_ty el) (je_steps el) (je_before el) (je_after el ++ [x])))
                (el_facts fid el ++ hook_facts fid (je_rid el) (je_sid el) false [x]).
  Proof.
    unfold el_facts. cbn [je_rid je_sid je_ty je_steps je_before je_after]. rewrite hook_facts_app, <- !app_assoc.
    apply Permutation_refl.
  Qed.
  Lemma el_step fid el x :
    Permutation (el_facts fid (mk_jel (je_rid el) (je_sid el) (je_ty el) (je_steps el ++ [x]) (je_before el) (je_after el)))
                (el_facts fid el ++ [step_fact fid (je_rid el) (je_sid el) (je_ty el) x]).
  Proof.
    unfold el_facts. cbn [je_rid je_sid je_ty je_steps je_before je_after]. rewrite map_app. cbn [map].
    rewrite <- !app_assoc. apply Permutation_app_head. rewrite app_assoc. rewrite (app_assoc _ (hook_facts _ _ _ _ _) _).
    apply perm_mid.
  Qed.

  (* the fact a step result adds, for a non-zero feature id *)
  Lemma step_fact_status f r s ty st x k : f <> 0 -> st_status x = Some k ->
    step_fact f r s ty (st, json_status x) = [1; f] ++ ropt r ++ [s; 0; st; ty; k].
  Proof.
    intros NZ K. unfold step_fact. apply N.eqb_neq in NZ. rewrite NZ. cbn [fst snd].
    destruct x as [| | |[| |p]]; cbn in K; inversion K; subst; reflexivity.
  Qed.

  (* one event: the document gains exactly the facts of the event *)
  Lemma json_handle_facts fs e : ev_fid_nz e = true ->
    Permutation (doc_facts (json_handle has_path fs e)) (doc_facts fs ++ facts_of_event false e).
  Proof.
    intros NZ.
    destruct e as [|fe re se ste er|id| |f|f|f r|f r|f r s rt x];
      try (cbn [json_handle facts_of_event]; rewrite app_nil_r; apply Permutation_refl).
    - (* parser error *)
      cbn [json_handle facts_of_event]. unfold doc_facts. rewrite flat_map_app. apply Permutation_refl.
    - cbn [ev_fid_nz] in NZ. apply negb_true_iff, N.eqb_neq in NZ.
      destruct x as [|b h|st y|st y|m|];
        try (cbn [json_handle facts_of_event]; rewrite app_nil_r; apply Permutation_refl).
      + (* hooks *)
        destruct h as [| |p].
        * cbn [json_handle facts_of_event]. rewrite app_nil_r. apply Permutation_refl.
        * cbn [json_handle facts_of_event]. apply upd_feat_facts. intros el _ _ _.
          destruct b; cbv beta iota; [exact (el_before f el 0)|exact (el_after f el 0)].
        * cbn [json_handle facts_of_event]. apply upd_feat_facts. intros el E1 E2 _. rewrite <- E1, <- E2.
          destruct b; cbv beta iota; [exact (el_before f el 1)|exact (el_after f el 1)].
      + (* background step *)
        cbn [json_handle facts_of_event]. destruct (st_status y) as [k|] eqn:K.
        * apply upd_feat_facts. intros el E1 E2 E3.
          rewrite <- (step_fact_status f r s 1 st y k NZ K). rewrite <- E1, <- E2, <- E3.
          destruct y as [| | |kk]; [discriminate K| | |]; apply el_step.
        * destruct y; try discriminate K. apply upd_feat_facts. intros el _ _ _. rewrite app_nil_r. apply Permutation_refl.
      + (* step *)
        cbn [json_handle facts_of_event]. destruct (st_status y) as [k|] eqn:K.
        * apply upd_feat_facts. intros el E1 E2 E3.
          rewrite <- (step_fact_status f r s 0 st y k NZ K). rewrite <- E1, <- E2, <- E3.
          destruct y as [| | |kk]; [discriminate K| | |]; apply el_step.
        * destruct y; try discriminate K. apply upd_feat_facts. intros el _ _ _. rewrite app_nil_r. apply Permutation_refl.
  Qed.

  (* the invariant, for EVERY event list *)
  Lemma fold_handle_facts : forall es fs, fids_nonzero es = true ->
    Permutation (doc_facts (fold_left (json_handle has_path) es fs)) (doc_facts fs ++ flat_map (facts_of_event false) es).
  Proof.
    induction es as [|e t IH]; intros fs NZ.
    - cbn [fold_left flat_map]. rewrite app_nil_r. apply Permutation_refl.
    - unfold fids_nonzero in NZ. cbn [forallb] in NZ. apply andb_true_iff in NZ as [NZ1 NZ2].
      cbn [fold_left flat_map].
      apply perm_trans with (doc_facts (json_handle has_path fs e) ++ flat_map (facts_of_event false) t).
      + apply IH. exact NZ2.
      + rewrite app_assoc. apply Permutation_app_tail. apply json_handle_facts. exact NZ1.
  Qed.

  Theorem json_facts_invariant handled : fids_nonzero handled = true ->
    Permutation (json_facts 0 None (flatten_json (fold_left (json_handle has_path) handled [])))
                (flat_map (facts_of_event false) handled).
  Proof. intros NZ. rewrite json_facts_flatten. apply (fold_handle_facts handled [] NZ). Qed.

  (* the document of a stream *)
  Lemma json_run_no_finished : forall es fs, no_finished es = true -> json_run has_path fs es = [].
  Proof.
    induction es as [|e t IH]; intros fs NF; [reflexivity|].
    unfold no_finished in NF. cbn [existsb] in NF. apply negb_true_iff, orb_false_iff in NF as [NF1 NF2].
    destruct e; try discriminate NF1; cbn [json_run]; apply IH; unfold no_finished; rewrite NF2; reflexivity.
  Qed.

  Lemma json_run_closed : forall es fs, no_finished es = true ->
    json_run has_path fs (es ++ [EvFinished]) = flatten_json (fold_left (json_handle has_path) es fs).
  Proof.
    induction es as [|e t IH]; intros fs NF.
    - cbn [app json_run fold_left]. apply app_nil_r.
    - unfold no_finished in NF. cbn [existsb] in NF. apply negb_true_iff, orb_false_iff in NF as [NF1 NF2].
      destruct e; try discriminate NF1; cbn [app json_run fold_left]; apply IH; unfold no_finished; rewrite NF2; reflexivity.
  Qed.

  Lemma before_finished_closed : forall es, no_finished es = true -> before_finished (es ++ [EvFinished]) = es.
  Proof.
    induction es as [|e t IH]; intros NF; [reflexivity|].
    unfold no_finished in NF. cbn [existsb] in NF. apply negb_true_iff, orb_false_iff in NF as [NF1 NF2].
    destruct e; try discriminate NF1; cbn [app before_finished]; f_equal; apply IH; unfold no_finished; rewrite NF2; reflexivity.
  Qed.

  (* 1: the facts of the document are the facts of the stream *)
  Theorem json_doc_facts es' : no_finished es' = true -> fids_nonzero es' = true ->
    Permutation (json_facts 0 None (json_doc has_path (es' ++ [EvFinished]))) (stream_facts false (es' ++ [EvFinished])).
  Proof.
    intros NF NZ. unfold json_doc, stream_facts. rewrite json_run_closed, before_finished_closed by exact NF.
    apply json_facts_invariant. exact NZ.
  Qed.

  Corollary json_doc_facts_ms es' : no_finished es' = true -> fids_nonzero es' = true ->
    same_multiset (stream_facts false (es' ++ [EvFinished])) (json_facts 0 None (json_doc has_path (es' ++ [EvFinished]))) = true.
  Proof. intros NF NZ. apply perm_same_multiset, Permutation_sym, json_doc_facts; assumption. Qed.
End J.

(* ------------------------------------------------------------------------------------------------ *)
(* 2. containers: each feature and each element appears once (features with a path)                  *)
(* ------------------------------------------------------------------------------------------------ *)
Definition keeps (g : jel -> jel) : Prop :=
  forall el, je_rid (g el) = je_rid el /\ je_sid (g el) = je_sid el /\ je_ty (g el) = je_ty el.

Lemma ropt_inj r r' : ropt r = ropt r' -> r = r'.
Proof. destruct r, r'; cbn; intros H; inversion H; reflexivity. Qed.

Lemma el_cont'_inj fid r s ty r' s' ty' : el_cont' fid r s ty = el_cont' fid r' s' ty' -> r = r' /\ s = s' /\ ty = ty'.
Proof.
  unfold el_cont'. destruct r, r'; cbn; intros H; inversion H; auto.
Qed.

Lemma feat_conts_nth1 jf x : In x (feat_conts jf) -> nth 1 x 0 = jf_fid jf /\ jf_fid jf <> 0.
Proof.
  unfold feat_conts. destruct (jf_fid jf =? 0) eqn:Z; [intros []|]. apply N.eqb_neq in Z.
  intros [<-|HI]; [split; [reflexivity|exact Z]|].
  apply in_map_iff in HI as (el & <- & _). split; [reflexivity|exact Z].
Qed.

Lemma feat_conts_head jf : jf_fid jf <> 0 -> In [10; jf_fid jf] (feat_conts jf).
Proof. intros Z. unfold feat_conts. apply N.eqb_neq in Z. rewrite Z. left. reflexivity. Qed.

Lemma NoDup_feat_conts jf : NoDup (map (el_cont (jf_fid jf)) (jf_els jf)) -> NoDup (feat_conts jf).
Proof.
  intros ND. unfold feat_conts. destruct (jf_fid jf =? 0); [constructor|]. constructor; [|exact ND].
  intros HI. apply in_map_iff in HI as (el & E & _). unfold el_cont, el_cont' in E. cbn in E. discriminate E.
Qed.

Lemma NoDup_feat_conts_inv jf : jf_fid jf <> 0 -> NoDup (feat_conts jf) -> NoDup (map (el_cont (jf_fid jf)) (jf_els jf)).
Proof.
  intros Z. unfold feat_conts. apply N.eqb_neq in Z. rewrite Z. intros ND. apply NoDup_cons_iff in ND as [_ ND]. exact ND.
Qed.

Section C.
  Variable has_path : N -> bool.

  Lemma upd_el_conts fid els r s ty g : keeps g ->
    map (el_cont fid) (upd_el els r s ty g) = map (el_cont fid) els \/
    (map (el_cont fid) (upd_el els r s ty g) = map (el_cont fid) els ++ [el_cont' fid r s ty] /\
     ~ In (el_cont' fid r s ty) (map (el_cont fid) els)).
  Proof.
    intros K. induction els as [|el t IH].
    - right. cbn [upd_el map app]. split; [|intros []].
      unfold el_cont. destruct (K (mk_jel r s ty [] [] [])) as (-> & -> & ->). reflexivity.
    - cbn [upd_el]. destruct (jel_matches el r s ty) eqn:M.
      + left. cbn [map]. unfold el_cont at 1 3. destruct (K el) as (-> & -> & ->). reflexivity.
      + destruct IH as [IH|[IH NI]].
        * left. cbn [map]. rewrite IH. reflexivity.
        * right. cbn [map app]. rewrite IH. split; [reflexivity|].
          intros [HE|HI]; [|exact (NI HI)].
          unfold el_cont in HE. apply el_cont'_inj in HE as (E1 & E2 & E3).
          unfold jel_matches in M. rewrite E1, E2, E3, !N.eqb_refl in M.
          assert (X : option_eqb N.eqb r r = true) by (apply (option_eqb_spec N.eqb N.eqb_eq); reflexivity).
          rewrite X in M. discriminate M.
  Qed.

  Lemma upd_el_conts_NoDup fid els r s ty g : keeps g ->
    NoDup (map (el_cont fid) els) -> NoDup (map (el_cont fid) (upd_el els r s ty g)).
  Proof.
    intros K ND. destruct (upd_el_conts fid els r s ty g K) as [->|[-> NI]]; [exact ND|].
    apply (Permutation_NoDup (Permutation_cons_append _ _)). constructor; assumption.
  Qed.

  Lemma upd_feat_conts_in fs f r s ty g x :
    In x (conts (upd_feat has_path fs f r s ty g)) -> In x (conts fs) \/ nth 1 x 0 = f.
  Proof.
    induction fs as [|jf t IH]; cbn [upd_feat].
    - unfold conts. cbn [flat_map]. rewrite app_nil_r. intros HI. right.
      apply feat_conts_nth1 in HI as [HI _]. exact HI.
    - destruct (jfeat_matches has_path jf f) eqn:M.
      + unfold jfeat_matches in M. apply andb_true_iff in M as [_ M]. apply N.eqb_eq in M.
        unfold conts. cbn [flat_map]. intros HI. apply in_app_or in HI as [HI|HI].
        * right. apply feat_conts_nth1 in HI as [HI _]. cbn [jf_fid] in HI. congruence.
        * left. apply in_or_app. right. exact HI.
      + unfold conts. cbn [flat_map]. intros HI. apply in_app_or in HI as [HI|HI].
        * left. apply in_or_app. left. exact HI.
        * destruct (IH HI) as [H|H]; [left; apply in_or_app; right; exact H|right; exact H].
  Qed.

  (* the invariant of the feature list *)
  Definition cinv (fs : list jfeat) : Prop :=
    NoDup (conts fs) /\ (forall jf, In jf fs -> jf_uri jf = false -> jf_fid jf = 0).

  Lemma cinv_nil : cinv [].
  Proof. split; [constructor|intros jf []]. Qed.

  Lemma upd_feat_cinv fs f r s ty g : has_path f = true -> keeps g -> cinv fs -> cinv (upd_feat has_path fs f r s ty g).
  Proof.
    intros HP K. induction fs as [|jf t IH]; intros [ND UR].
    - cbn [upd_feat]. split.
      + unfold conts. cbn [flat_map]. rewrite app_nil_r. apply NoDup_feat_conts. cbn [jf_fid jf_els].
        apply upd_el_conts_NoDup; [exact K|constructor].
      + intros jf [<-|[]]. cbn [jf_uri jf_fid]. rewrite HP. discriminate.
    - unfold conts in ND. cbn [flat_map] in ND. fold (conts t) in ND.
      apply NoDup_app_iff in ND as (NA & NB & D).
      assert (CT : cinv t) by (split; [exact NB|intros jf' HI; apply UR; right; exact HI]).
      cbn [upd_feat]. destruct (jfeat_matches has_path jf f) eqn:M.
      + (* the feature is found: its element list is updated *)
        split.
        * unfold conts. cbn [flat_map]. fold (conts t). apply NoDup_app_iff. repeat split.
          -- destruct (N.eq_dec (jf_fid jf) 0) as [Z|Z].
             ++ unfold feat_conts. cbn [jf_fid]. rewrite Z. constructor.
             ++ apply NoDup_feat_conts. cbn [jf_fid jf_els]. apply upd_el_conts_NoDup; [exact K|].
                apply NoDup_feat_conts_inv; assumption.
          -- exact NB.
          -- intros x HA HB. apply feat_conts_nth1 in HA as [HA Z]. cbn [jf_fid] in HA, Z.
             unfold conts in HB. apply in_flat_map in HB as (jf2 & HI2 & HB).
             apply feat_conts_nth1 in HB as [HB Z2].
             assert (E : jf_fid jf2 = jf_fid jf) by congruence.
             apply (D [10; jf_fid jf]); [apply feat_conts_head; exact Z|].
             unfold conts. apply in_flat_map. exists jf2. split; [exact HI2|]. rewrite <- E. apply feat_conts_head. exact Z2.
        * intros jf' [<-|HI]; [cbn [jf_uri jf_fid]; apply UR; left; reflexivity|apply UR; right; exact HI].
      + (* not this one *)
        destruct (IH CT) as [NB' UR'].
        split.
        * unfold conts. cbn [flat_map]. fold (conts (upd_feat has_path t f r s ty g)). apply NoDup_app_iff. repeat split.
          -- exact NA.
          -- exact NB'.
          -- intros x HA HB. apply upd_feat_conts_in in HB as [HB|HB]; [exact (D x HA HB)|].
             apply feat_conts_nth1 in HA as [HA Z].
             assert (E : jf_fid jf = f) by congruence.
             unfold jfeat_matches in M. rewrite HP, E, N.eqb_refl, !andb_true_r in M.
             apply Z. apply UR; [left; reflexivity|exact M].
        * intros jf' [<-|HI]; [apply UR; left; reflexivity|apply UR'; exact HI].
  Qed.

  Lemma json_handle_cinv fs e : ev_has_path has_path e = true -> cinv fs -> cinv (json_handle has_path fs e).
  Proof.
    intros HP CI.
    destruct e as [|fe re se ste er|id| |f|f|f r|f r|f r s rt x]; try exact CI.
    - (* parser error: a pseudo feature with id 0 *)
      destruct CI as [ND UR]. cbn [json_handle]. split.
      + unfold conts. rewrite flat_map_app. cbn [flat_map]. unfold feat_conts at 2. cbn [jf_fid N.eqb app].
        rewrite app_nil_r. exact ND.
      + intros jf HI. apply in_app_or in HI as [HI|[<-|[]]]; [apply UR; exact HI|reflexivity].
    - cbn [ev_has_path] in HP.
      destruct x as [|b h|st y|st y|m|]; try exact CI.
      + destruct h as [| |p]; try exact CI; cbn [json_handle]; apply upd_feat_cinv; try assumption;
          intros el; destruct b; cbn [je_rid je_sid je_ty]; auto.
      + cbn [json_handle]. apply upd_feat_cinv; try assumption.
        intros el; destruct y; cbn [je_rid je_sid je_ty]; auto.
      + cbn [json_handle]. apply upd_feat_cinv; try assumption.
        intros el; destruct y; cbn [je_rid je_sid je_ty]; auto.
  Qed.

  Lemma fold_handle_cinv : forall es fs, fids_have_path has_path es = true -> cinv fs ->
    cinv (fold_left (json_handle has_path) es fs).
  Proof.
    induction es as [|e t IH]; intros fs HP CI; [exact CI|].
    unfold fids_have_path in HP. cbn [forallb] in HP. apply andb_true_iff in HP as [HP1 HP2].
    cbn [fold_left]. apply IH; [exact HP2|]. apply json_handle_cinv; assumption.
  Qed.

  (* 2: each feature and each element of the document appears once *)
  Theorem json_doc_containers es' : no_finished es' = true -> fids_have_path has_path es' = true ->
    nodup_facts (json_containers (json_doc has_path (es' ++ [EvFinished]))) = true.
  Proof.
    intros NF HP. unfold json_doc. rewrite json_run_closed by exact NF. rewrite json_containers_flatten.
    apply nodup_facts_of_NoDup. apply (fold_handle_cinv es' [] HP cinv_nil).
  Qed.

  Corollary json_doc_containers_all es' : no_finished es' = true -> (forall f, has_path f = true) ->
    nodup_facts (json_containers (json_doc has_path (es' ++ [EvFinished]))) = true.
  Proof.
    intros NF HP. apply json_doc_containers; [exact NF|]. unfold fids_have_path. apply forallb_forall.
    intros e _. destruct e; cbn [ev_has_path]; auto.
  Qed.
End C.

(* K14b: without a path every event opens a new feature object: the conclusion of 2 fails *)
Example K14b_pathless_feature_repeated :
  nodup_facts (json_containers (json_doc (fun _ => false)
    [EvScen 1 None 1 None (ScStep 1 StPassed); EvScen 1 None 1 None (ScStep 2 StPassed); EvFinished])) = false.
Proof. vm_compute. reflexivity. Qed.

(* ------------------------------------------------------------------------------------------------ *)
(* 3. the specification holds of the document                                                        *)
(* ------------------------------------------------------------------------------------------------ *)
Lemma existsb_finished_closed es' :
  existsb (fun e => match e with EvFinished => true | _ => false end) (es' ++ [EvFinished]) = true.
Proof. rewrite existsb_app. cbn. apply orb_true_r. Qed.

(* a stream closed by its only run-Finished, non-zero feature ids, features with a path *)
Theorem c14_json_closed has_path es' :
  no_finished es' = true -> fids_nonzero es' = true -> fids_have_path has_path es' = true ->
  c14_json_ok (es' ++ [EvFinished]) (json_doc has_path (es' ++ [EvFinished])) = true.
Proof.
  intros NF NZ HP. unfold c14_json_ok. rewrite existsb_finished_closed.
  rewrite (json_doc_facts_ms has_path es' NF NZ), (json_doc_containers has_path es' NF HP). reflexivity.
Qed.

(* a stream without run-Finished: nothing is written, which is what the specification demands *)
Theorem json_doc_unfinished has_path es : no_finished es = true -> json_doc has_path es = [].
Proof. intros NF. apply json_run_no_finished. exact NF. Qed.

Theorem c14_json_unfinished has_path es : no_finished es = true -> c14_json_ok es (json_doc has_path es) = true.
Proof.
  intros NF. unfold c14_json_ok. rewrite (json_doc_unfinished has_path es NF).
  unfold no_finished in NF. apply negb_true_iff in NF. unfold is_finished_ev in NF. rewrite NF. reflexivity.
Qed.

(* ------------------------------------------------------------------------------------------------ *)
(* the ordering contract gives the shape: exactly one run-Finished, and it is the last event         *)
(* ------------------------------------------------------------------------------------------------ *)
Lemma cstep_finished seq c e c1 : cstep seq c e = Some c1 ->
  c_finished c = false /\ c_finished c1 = is_finished_ev e.
Proof.
  unfold cstep. destruct (c_finished c) eqn:F; [discriminate|]. unfold guard.
  destruct e as [|fe re se ste er|id| |f|f|f r|f r|f r s rt x]; [| | | | | | | |destruct x];
    match goal with
    | |- (if ?b then _ else _) = _ -> _ => destruct b; [|discriminate]
    | |- _ => idtac
    end; intros H; inversion H; subst; cbn; auto.
Qed.

Lemma crun_closed_shape seq : forall es c c', crun seq c es = Some c' -> c_finished c = false -> c_finished c' = true ->
  exists es', es = es' ++ [EvFinished] /\ no_finished es' = true.
Proof.
  induction es as [|e t IH]; intros c c' R F F'.
  - cbn in R. inversion R; subst. congruence.
  - cbn [crun] in R. destruct (cstep seq c e) as [c1|] eqn:S; [|discriminate R].
    destruct (cstep_finished seq c e c1 S) as [_ F1].
    destruct (is_finished_ev e) eqn:FE.
    + (* e is run-Finished: nothing can follow *)
      destruct e; try discriminate FE.
      destruct t as [|e2 t2].
      * exists []. split; reflexivity.
      * cbn [crun] in R. unfold cstep in R. rewrite F1 in R. discriminate R.
    + destruct (IH c1 c' R F1 F') as (es' & -> & NF). exists (e :: es'). split; [reflexivity|].
      unfold no_finished in *. cbn [existsb]. rewrite FE. exact NF.
Qed.

Lemma normalized_shape es : normalized es = true -> exists es', es = es' ++ [EvFinished] /\ no_finished es' = true.
Proof.
  unfold normalized. destruct (crun true cinit es) as [c|] eqn:R; [|discriminate]. intros F.
  exact (crun_closed_shape true es cinit c R eq_refl F).
Qed.

Lemma contract_shape es : contract es = true -> exists es', es = es' ++ [EvFinished] /\ no_finished es' = true.
Proof.
  unfold contract. destruct (crun false cinit es) as [c|] eqn:R; [|discriminate]. intros F.
  exact (crun_closed_shape false es cinit c R eq_refl F).
Qed.

Lemma forallb_app_l {A} (p : A -> bool) a b : forallb p (a ++ b) = true -> forallb p a = true.
Proof. rewrite forallb_app. intros H. apply andb_true_iff in H as [H _]. exact H. Qed.

(* C14, Cucumber JSON, whole document: for a stream that abides by the ordering contract (sequential or not), whose
   scenario events have non-zero feature ids and features with a path, the parsed-back report states exactly the facts
   of the stream and each feature / element once *)
Theorem c14_json_contract has_path es :
  contract es = true -> fids_nonzero es = true -> fids_have_path has_path es = true ->
  c14_json_ok es (json_doc has_path es) = true.
Proof.
  intros C NZ HP. destruct (contract_shape es C) as (es' & -> & NF).
  apply c14_json_closed; [exact NF|exact (forallb_app_l _ _ _ NZ)|exact (forallb_app_l _ _ _ HP)].
Qed.

Theorem c14_json_normalized has_path es :
  normalized es = true -> fids_nonzero es = true -> fids_have_path has_path es = true ->
  c14_json_ok es (json_doc has_path es) = true.
Proof.
  intros C NZ HP. destruct (normalized_shape es C) as (es' & -> & NF).
  apply c14_json_closed; [exact NF|exact (forallb_app_l _ _ _ NZ)|exact (forallb_app_l _ _ _ HP)].
Qed.

(* the facts alone need no path (and no contract beyond the shape) *)
Theorem c14_json_facts_normalized has_path es :
  normalized es = true -> fids_nonzero es = true ->
  same_multiset (stream_facts false es) (json_facts 0 None (json_doc has_path es)) = true.
Proof.
  intros C NZ. destruct (normalized_shape es C) as (es' & -> & NF).
  apply json_doc_facts_ms; [exact NF|exact (forallb_app_l _ _ _ NZ)].
Qed.

(* ------------------------------------------------------------------------------------------------ *)
(* a concrete stream satisfying every hypothesis: two features, a rule, a retried scenario with a background
   step, a passed and a failed hook, a parser error                                                  *)
(* ------------------------------------------------------------------------------------------------ *)
Definition ex_stream : list ev :=
  let a0 := EvScen 1 (Some 5) 2 (Some (0, 1)) in
  let a1 := EvScen 1 (Some 5) 2 (Some (1, 0)) in
  let b := EvScen 2 None 3 None in
  [EvStarted; EvParseErr 7; EvParsingFinished 2 1 2 5 1;
   EvFeatS 1; EvRuleS 1 5;
   a0 ScStarted; a0 (ScHook true HStarted); a0 (ScHook true HPassed);
   a0 (ScBg 1 StStarted); a0 (ScBg 1 StPassed); a0 (ScStep 2 StStarted); a0 (ScStep 2 (StFailed (EPanic 3)));
   a0 (ScHook false HStarted); a0 (ScHook false HPassed); a0 ScFinished;
   a1 ScStarted; a1 (ScBg 1 StStarted); a1 (ScBg 1 StPassed); a1 (ScStep 2 StStarted); a1 (ScStep 2 StPassed);
   a1 (ScStep 4 StStarted); a1 (ScStep 4 (StFailed EAmbiguous));
   a1 (ScHook false HStarted); a1 (ScHook false (HFailed 9)); a1 ScFinished;
   EvRuleF 1 5; EvFeatF 1;
   EvFeatS 2; b ScStarted; b (ScLog 8); b (ScStep 1 StStarted); b (ScStep 1 StSkipped); b ScFinished; EvFeatF 2;
   EvFinished].
Definition ex_has_path (f : N) : bool := (f =? 1) || (f =? 2).

Example ex_stream_hypotheses :
  normalized ex_stream = true /\ contract ex_stream = true /\
  fids_nonzero ex_stream = true /\ fids_have_path ex_has_path ex_stream = true.
Proof. vm_compute. repeat split. Qed.

Example ex_stream_facts_nontrivial :
  length (stream_facts false ex_stream) = 8%nat /\
  length (json_containers (json_doc ex_has_path ex_stream)) = 5%nat.
Proof. vm_compute. split; reflexivity. Qed.

Example ex_stream_ok : c14_json_ok ex_stream (json_doc ex_has_path ex_stream) = true.
Proof. apply c14_json_normalized; apply ex_stream_hypotheses. Qed.

Example ex_stream_ok_computed : c14_json_ok ex_stream (json_doc ex_has_path ex_stream) = true.
Proof. vm_compute. reflexivity. Qed.

(* the hypothesis on feature ids is needed: a step under a feature with id 0 is read back as a parser error *)
Example fid_zero_breaks_facts :
  c14_json_ok [EvScen 0 None 1 None (ScStep 1 StPassed); EvFinished]
              (json_doc (fun _ => true) [EvScen 0 None 1 None (ScStep 1 StPassed); EvFinished]) = false.
Proof. vm_compute. reflexivity. Qed.
