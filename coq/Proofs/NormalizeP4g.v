(* NormalizeP4g.v — C11 "sequential", part 7: queueing one event preserves the static invariants of the buffer
   with respect to the automaton state of the output. *)
From CV Require Import Proofs.SchedP5.
From CV Require Import Model.Base Model.Events Model.Contract Model.Normalize
  Proofs.BaseP Proofs.NormalizeP Proofs.NormalizeP2 Proofs.NormalizeP3 Proofs.NormalizeP4 Proofs.NormalizeP4b
  Proofs.NormalizeP4c Proofs.NormalizeP4d Proofs.NormalizeP4e Proofs.NormalizeP4f.
From Coq Require Import Lia Permutation.

Lemma in_fin_evs m e st e' : In (m, e) (fin_evs st e') -> e = e'.
Proof. destruct st; cbn; try (intros X; destruct X; fail). intros [X|[]]. inversion X. reflexivity. Qed.
Lemma in_init_evs m e i e' : In (m, e) (init_evs i e') -> e = e'.
Proof. destruct i; cbn; try (intros X; destruct X; fail). intros [X|[]]. inversion X. reflexivity. Qed.

(* a pending attempt event belongs to a buffered attempt *)
Lemma pending_scen_buffered s m f ro sc rt x :
  In (m, EvScen f ro sc rt x) (pending s) -> exists fin, bufA s (f, ro, sc, rt) fin.
Proof.
  unfold pending. intros H. apply in_app_or in H as [H|H].
  2:{ apply in_fin_evs in H. discriminate H. }
  apply in_flat_map in H as ([f' q] & Hq & H). unfold feat_evs in H. cbn [fst snd] in H.
  apply in_app_or in H as [H|H].
  { apply in_init_evs in H. discriminate H. }
  apply in_app_or in H as [H|H].
  2:{ apply in_fin_evs in H. discriminate H. }
  apply in_flat_map in H as ([key it] & Hit & H).
  destruct key as [r|k]; destruct it as [rq|es]; cbn [item_evs] in H; try destruct H.
  - apply in_app_or in H as [H|H].
    { apply in_init_evs in H. discriminate H. }
    apply in_app_or in H as [H|H].
    2:{ apply in_fin_evs in H. discriminate H. }
    apply in_flat_map in H as ([k es] & Hes & H). unfold att_evs in H. cbn [fst snd] in H.
    apply in_map_iff in H as (e0 & E & He0). unfold mk_scen in E. inversion E; subst.
    exists (has_fin es), (fq_items q). cbn [att_feat att_rule att_scen att_retr]. split; [exists q; auto|].
    exists rq, es. destruct k. auto.
  - unfold att_evs in H. cbn [fst snd] in H.
    apply in_map_iff in H as (e0 & E & He0). unfold mk_scen in E. inversion E; subst.
    exists (has_fin es), (fq_items q). cbn [att_feat att_rule att_scen att_retr]. split; [exists q; auto|].
    exists es. destruct k. auto.
Qed.

(* what the input contract says about an attempt event *)
Lemma cstep_scen_facts c c' f ro sc rt x :
  cstep false c (EvScen f ro sc rt x) = Some c' ->
  lookup N.eqb f (c_feats c) = Some Open /\
  (forall r, ro = Some r -> lookup rkey_eqb (f, r) (c_rules c) = Some Open) /\
  (x = ScStarted -> lookup atkey_eqb (f, ro, sc, rt) (c_atts c) = None /\ prev_attempt_closed c f ro sc rt = true) /\
  (x <> ScStarted -> lookup atkey_eqb (f, ro, sc, rt) (c_atts c) = Some Open).
Proof.
  unfold cstep. destruct (c_finished c); [discriminate|]. intros H.
  assert (PAR : forall b, (is_open (lookup N.eqb f (c_feats c)) &&
                  match ro with Some r' => is_open (lookup rkey_eqb (f, r') (c_rules c)) | None => negb false || b end) = true ->
                lookup N.eqb f (c_feats c) = Some Open /\
                (forall r, ro = Some r -> lookup rkey_eqb (f, r) (c_rules c) = Some Open)).
  { intros b P. apply andb_prop in P as [P1 P2]. split; [apply is_open_some; exact P1|].
    intros r ->. apply is_open_some. exact P2. }
  destruct x; apply guard_some in H as [G _].
  - apply andb_prop in G as [G _]. apply andb_prop in G as [G G4]. apply andb_prop in G as [G _].
    apply andb_prop in G as [G1 G2]. destruct (PAR _ G1) as [P1 P2].
    split; [exact P1|]. split; [exact P2|]. split; [intros _; split; [apply is_absent_none; exact G2|exact G4]|].
    intros X. contradiction.
  - apply andb_prop in G as [G1 G2]. destruct (PAR _ G1) as [P1 P2].
    split; [exact P1|]. split; [exact P2|]. split; [discriminate|]. intros _. apply is_open_some. exact G2.
  - apply andb_prop in G as [G1 G2]. destruct (PAR _ G1) as [P1 P2].
    split; [exact P1|]. split; [exact P2|]. split; [discriminate|]. intros _. apply is_open_some. exact G2.
  - apply andb_prop in G as [G1 G2]. destruct (PAR _ G1) as [P1 P2].
    split; [exact P1|]. split; [exact P2|]. split; [discriminate|]. intros _. apply is_open_some. exact G2.
  - apply andb_prop in G as [G1 G2]. destruct (PAR _ G1) as [P1 P2].
    split; [exact P1|]. split; [exact P2|]. split; [discriminate|]. intros _. apply is_open_some. exact G2.
  - apply andb_prop in G as [G1 G2]. destruct (PAR _ G1) as [P1 P2].
    split; [exact P1|]. split; [exact P2|]. split; [discriminate|]. intros _. apply is_open_some. exact G2.
Qed.

Lemma none_of_sub {K} (eqb : K -> K -> bool) k (a b : list (K * status)) :
  (lookup eqb k a <> None -> lookup eqb k b <> None) -> lookup eqb k b = None -> lookup eqb k a = None.
Proof. intros H E. destruct (lookup eqb k a) eqn:L; [|reflexivity]. exfalso. apply H; [discriminate|exact E]. Qed.

Lemma nwf_feats_wf s : nwf s = true -> feats_wf (ns_feats s) = true.
Proof. unfold nwf. intros W. apply andb_prop in W as [W _]. exact W. Qed.

(* ---- Feature::Started ---- *)
Lemma enq_featS c_in s c m f :
  R c_in s -> U s -> lookup N.eqb f (c_feats c_in) = None -> lookup N.eqb f (c_feats c) = None ->
  feats_static c (ns_feats s) -> feats_open c (ns_feats s) ->
  feats_static c (ns_feats (enqueue s (m, EvFeatS f))) /\ feats_open c (ns_feats (enqueue s (m, EvFeatS f))).
Proof.
  intros HR HU ABS AB ST OP. destruct (sim_featS c_in s f m HR HU ABS) as (AF & _).
  apply (afind_none_notin N.eqb N.eqb_eq) in AF.
  cbn [enqueue fst snd set_feats ns_feats]. unfold ainsert. rewrite (aremove_absent N.eqb N.eqb_eq _ _ AF).
  split; [exact (feats_static_snoc c _ f m ST AF AB)|exact (feats_open_snoc c _ _ OP)].
Qed.

(* ---- Feature::Finished ---- *)
Lemma enq_featF c_in s c m f :
  R c_in s -> U s -> lookup N.eqb f (c_feats c_in) = Some Open -> nwf (enqueue s (m, EvFeatF f)) = true ->
  feats_static c (ns_feats s) -> feats_open c (ns_feats s) ->
  feats_static c (ns_feats (enqueue s (m, EvFeatF f))) /\ feats_open c (ns_feats (enqueue s (m, EvFeatF f))).
Proof.
  intros HR HU OPN W' ST OP. destruct (open_feature c_in s f HR HU OPN) as (q0 & Hq0 & _).
  apply nwf_feats_wf in W'. cbn [enqueue fst snd set_feats ns_feats] in *.
  set (G := fun q => set_fq_state q (FinNotEmitted m)) in *. split.
  - apply (feats_static_modify c _ f G q0 ST Hq0 W').
    + apply feat_static_set_state. exact (fts_feat _ _ ST f q0 Hq0).
    + intros P. exact P.
  - apply (feats_open_modify c _ f G q0 (fts_nodup _ _ ST) Hq0 OP); [reflexivity| |]; intros k' X; exact X.
Qed.

(* ---- Rule::Started ---- *)
Lemma enq_ruleS c_in s c m f r :
  R c_in s -> U s -> nwf s = true -> lookup N.eqb f (c_feats c_in) = Some Open ->
  lookup rkey_eqb (f, r) (c_rules c_in) = None -> lookup rkey_eqb (f, r) (c_rules c) = None ->
  nwf (enqueue s (m, EvRuleS f r)) = true ->
  feats_static c (ns_feats s) -> feats_open c (ns_feats s) ->
  feats_static c (ns_feats (enqueue s (m, EvRuleS f r))) /\ feats_open c (ns_feats (enqueue s (m, EvRuleS f r))).
Proof.
  intros HR HU W OPN ABS AB W' ST OP. destruct (sim_ruleS c_in s f r m HR HU W OPN ABS) as ((q0 & AF & _ & AI) & _).
  pose proof (afind_in _ _ _ _ AF) as Hq0. apply (afind_none_notin ikey_eqb ikey_eqb_spec) in AI.
  apply nwf_feats_wf in W'. cbn [enqueue fst snd set_feats ns_feats] in *.
  set (G := fun q => set_fq_items q (ainsert ikey_eqb (KRule r) (IRule (new_rq m)) (fq_items q))) in *.
  assert (GE : G q0 = set_fq_items q0 (fq_items q0 ++ [(KRule r, IRule (new_rq m))])).
  { unfold G, ainsert. rewrite (aremove_absent ikey_eqb ikey_eqb_spec _ _ AI). reflexivity. }
  pose proof (fts_feat _ _ ST f q0 Hq0) as FS. split.
  - apply (feats_static_modify c _ f G q0 ST Hq0 W'); rewrite GE.
    + apply (feat_static_set_items c f q0 _ FS).
      * exact (items_static_snoc_rule c f _ r m (fs_items _ _ _ FS) AI AB).
      * apply pr_items_snoc_rule.
    + intros [P1 P2]. split; [exact P1|]. cbn [set_fq_items fq_items]. apply pr_items_snoc_rule. exact P2.
  - apply (feats_open_modify c _ f G q0 (fts_nodup _ _ ST) Hq0 OP); rewrite GE; cbn [set_fq_items fq_init fq_items].
    + reflexivity.
    + intros k'. apply witR_snoc.
    + intros k'. apply witA_snoc.
Qed.

(* ---- Rule::Finished ---- *)
Lemma enq_ruleF c_in s c m f r :
  R c_in s -> U s -> nwf s = true -> lookup rkey_eqb (f, r) (c_rules c_in) = Some Open ->
  open_atts_where (fun k => (att_feat k =? f) && option_eqb N.eqb (att_rule k) (Some r)) c_in = false ->
  nwf (enqueue s (m, EvRuleF f r)) = true ->
  feats_static c (ns_feats s) -> feats_open c (ns_feats s) ->
  feats_static c (ns_feats (enqueue s (m, EvRuleF f r))) /\ feats_open c (ns_feats (enqueue s (m, EvRuleF f r))).
Proof.
  intros HR HU W OPN NA W' ST OP.
  destruct (sim_ruleF c_in s f r m HR HU W OPN NA) as ((q0 & rq0 & AF & _ & AI & _) & _).
  pose proof (afind_in _ _ _ _ AF) as Hq0. pose proof (afind_in _ _ _ _ AI) as Hrq0.
  pose proof W' as W''. apply nwf_feats_wf in W'. cbn [enqueue fst snd] in *.
  set (Hm := fun it => match it with IRule rq => IRule (set_rq_state rq (FinNotEmitted m)) | x => x end) in *.
  set (G := fun q => set_fq_items q (amodify ikey_eqb (KRule r) Hm (fq_items q))) in *.
  cbn [set_feats ns_feats] in *.
  pose proof (fts_feat _ _ ST f q0 Hq0) as FS. pose proof (fs_items _ _ _ FS) as IS.
  pose proof (is_nodup _ _ _ IS) as NDI.
  assert (HM : Hm (IRule rq0) = IRule (set_rq_state rq0 (FinNotEmitted m))) by reflexivity.
  assert (IW' : items_wf (amodify ikey_eqb (KRule r) Hm (fq_items q0)) = true).
  { apply (nwf_items _ f _ W''). exists (G q0). split; [|reflexivity]. cbn [set_feats ns_feats].
    exact (in_amodify_same N.eqb N.eqb_eq f G _ q0 (fts_nodup _ _ ST) Hq0). }
  split.
  - apply (feats_static_modify c _ f G q0 ST Hq0 W').
    + apply (feat_static_set_items c f q0 _ FS).
      * apply (items_static_modify_rule c f _ r Hm rq0 _ IS Hrq0 HM IW'); [exact (is_rule _ _ _ IS r rq0 Hrq0)|reflexivity|auto].
      * apply (pr_items_modify_rule _ r Hm rq0 _ NDI Hrq0 HM); [reflexivity|auto].
    + intros [P1 P2]. split; [exact P1|]. cbn [G set_fq_items fq_items].
      apply (pr_items_modify_rule _ r Hm rq0 _ NDI Hrq0 HM); [reflexivity|auto|exact P2].
  - apply (feats_open_modify c _ f G q0 (fts_nodup _ _ ST) Hq0 OP); cbn [G set_fq_items fq_init fq_items].
    + reflexivity.
    + intros k'. apply (witR_modify_rule f _ r Hm rq0 _ k' NDI Hrq0 HM). reflexivity.
    + intros k'. apply (witA_modify_rule f _ r Hm rq0 _ k' NDI Hrq0 HM). intros k es H SS. exists es. auto.
Qed.

(* ---- attempt events ---- *)
Definition closed_link (c_in : cstate) (s : nstate) (c : cstate) : Prop :=
  forall k, lookup atkey_eqb k (c_atts c_in) = Some Closed ->
            lookup atkey_eqb k (c_atts c) = Some Closed \/ exists fin, bufA s k fin.

Lemma scen_old (tbl : list (atkey * status)) K x (hf : bool) :
  (x = ScStarted -> lookup atkey_eqb K tbl = None) -> (x <> ScStarted -> lookup atkey_eqb K tbl = Some Open) ->
  lookup atkey_eqb K tbl = Some (if hf then Closed else Open) -> hf = false /\ is_started x = false.
Proof.
  intros XS XN L. destruct (is_started x) eqn:E.
  - destruct x; try discriminate E. rewrite (XS eq_refl) in L. discriminate L.
  - assert (NE : x <> ScStarted) by (intros ->; discriminate E). rewrite (XN NE) in L. destruct hf; [discriminate L|auto].
Qed.
Lemma scen_new (tbl : list (atkey * status)) K x :
  (x <> ScStarted -> lookup atkey_eqb K tbl = Some Open) -> (lookup atkey_eqb K tbl = Some Open -> False) -> x = ScStarted.
Proof.
  intros XN NO. destruct (is_started x) eqn:E; [destruct x; try discriminate E; reflexivity|].
  exfalso. apply NO. apply XN. intros ->. discriminate E.
Qed.
Lemma is_closed_some o : is_closed o = true -> o = Some Closed.
Proof. destruct o as [[|]|]; cbn; congruence. Qed.

Lemma enq_scenN c_in c_in' s c m f sc rt x :
  R c_in s -> U s -> nwf s = true -> cstep false c_in (EvScen f None sc rt x) = Some c_in' ->
  (lookup atkey_eqb (f, None, sc, rt) (c_atts c) <> None -> lookup atkey_eqb (f, None, sc, rt) (c_atts c_in) <> None) ->
  closed_link c_in s c -> nwf (enqueue s (m, EvScen f None sc rt x)) = true ->
  feats_static c (ns_feats s) -> feats_open c (ns_feats s) ->
  feats_static c (ns_feats (enqueue s (m, EvScen f None sc rt x))) /\
  feats_open c (ns_feats (enqueue s (m, EvScen f None sc rt x))).
Proof.
  intros HR HU W CS SUB CL W' ST OP. destruct (cstep_scen_facts _ _ _ _ _ _ _ CS) as (FO & _ & XS & XN).
  destruct (open_feature c_in s f HR HU FO) as (q0 & Hq0 & _). pose proof HU as [UN _].
  pose proof (fts_feat _ _ ST f q0 Hq0) as FS. pose proof (fs_items _ _ _ FS) as IS.
  pose proof (is_nodup _ _ _ IS) as NDI. pose proof (is_wf _ _ _ IS) as IW.
  set (K := (f, @None N, sc, rt)) in *. set (k0 := (sc, rt)).
  assert (BUF : forall es, In (KScen k0, IScen es) (fq_items q0) ->
                lookup atkey_eqb K (c_atts c_in) = Some (if has_fin es then Closed else Open)).
  { intros es H. apply (r_a1 c_in s HR K (has_fin es)). apply (bufA_at s f q0 K _ UN Hq0 eq_refl). exists es. auto. }
  assert (OLD : forall es, In (KScen k0, IScen es) (fq_items q0) -> has_fin es = false /\ is_started x = false).
  { intros es H. apply (scen_old (c_atts c_in) K x (has_fin es)); [intros E; exact (proj1 (XS E))|exact XN|exact (BUF es H)]. }
  assert (NEWX : ~ In (KScen k0) (keys (fq_items q0)) -> x = ScStarted).
  { intros NI. apply (scen_new (c_atts c_in) K x XN). intros L. apply (r_a2 c_in s HR K) in L.
    apply (bufA_at s f q0 K _ UN Hq0 eq_refl) in L. destruct L as (es & H & _). apply NI. exact (in_keys _ _ _ H). }
  assert (NEW : ~ In (KScen k0) (keys (fq_items q0)) ->
                x = ScStarted /\ lookup atkey_eqb (att_key f None k0) (c_atts c) = None /\
                prev_ok c f None KScen (keys (fq_items q0) ++ [KScen k0]) k0).
  { intros NI. pose proof (NEWX NI) as XE. destruct (XS XE) as [AB PC]. split; [exact XE|]. split.
    - exact (none_of_sub atkey_eqb K _ _ SUB AB).
    - unfold prev_ok, prev_key. cbn [k0 fst snd]. unfold prev_attempt_closed in PC.
      destruct rt as [[cur lft]|]; [|exact I]. destruct (cur =? 0); [exact I|]. apply is_closed_some in PC.
      destruct (CL _ PC) as [X|(fin & BA)]; [left; exact X|]. right.
      apply (bufA_at s f q0 (f, None, sc, Some (cur - 1, lft + 1)) fin UN Hq0 eq_refl) in BA. destruct BA as (es & H & _).
      exists (sc, Some (cur - 1, lft + 1)). split; [reflexivity|]. apply kbefore_snoc. exact (in_keys _ _ _ H). }
  pose proof W' as W''. apply nwf_feats_wf in W'.
  set (G := fun q => set_fq_items q (aupsert ikey_eqb (KScen k0) (push_item m x) (fq_items q))).
  change (enqueue s (m, EvScen f None sc rt x)) with (set_feats s (amodify N.eqb f G (ns_feats s))) in *.
  cbn [set_feats ns_feats] in *.
  assert (IW' : items_wf (aupsert ikey_eqb (KScen k0) (push_item m x) (fq_items q0)) = true).
  { apply (nwf_items _ f _ W''). exists (G q0). split; [|reflexivity]. cbn [set_feats ns_feats].
    exact (in_amodify_same N.eqb N.eqb_eq f G _ q0 UN Hq0). }
  split.
  - apply (feats_static_modify c _ f G q0 ST Hq0 W').
    + apply (feat_static_set_items c f q0 _ FS).
      * exact (items_static_upsert_scen c f _ k0 m x IS IW' OLD NEW).
      * exact (pr_items_upsert_scen _ k0 m x NDI IW NEWX).
    + intros [P1 P2]. split; [exact P1|]. cbn [G set_fq_items fq_items]. exact (pr_items_upsert_scen _ k0 m x NDI IW NEWX P2).
  - apply (feats_open_modify c _ f G q0 UN Hq0 OP); cbn [G set_fq_items fq_init fq_items].
    + reflexivity.
    + intros k'. apply witR_upsert_scen. exact NDI.
    + intros k'. apply witA_upsert_scen; [exact NDI|]. intros es H. exact (proj2 (OLD es H)).
Qed.

Lemma enq_scenR c_in c_in' s c m f r sc rt x :
  R c_in s -> U s -> nwf s = true -> cstep false c_in (EvScen f (Some r) sc rt x) = Some c_in' ->
  (lookup atkey_eqb (f, Some r, sc, rt) (c_atts c) <> None -> lookup atkey_eqb (f, Some r, sc, rt) (c_atts c_in) <> None) ->
  closed_link c_in s c -> nwf (enqueue s (m, EvScen f (Some r) sc rt x)) = true ->
  feats_static c (ns_feats s) -> feats_open c (ns_feats s) ->
  feats_static c (ns_feats (enqueue s (m, EvScen f (Some r) sc rt x))) /\
  feats_open c (ns_feats (enqueue s (m, EvScen f (Some r) sc rt x))).
Proof.
  intros HR HU W CS SUB CL W' ST OP. destruct (cstep_scen_facts _ _ _ _ _ _ _ CS) as (_ & RO & XS & XN).
  pose proof HU as [UN _].
  destruct (r_r2 c_in s HR f r (RO r eq_refl)) as (its & rq0 & (q0 & Hq0 & <-) & Hrq0 & _).
  pose proof (fts_feat _ _ ST f q0 Hq0) as FS. pose proof (fs_items _ _ _ FS) as IS.
  pose proof (is_nodup _ _ _ IS) as NDI. pose proof (is_wf _ _ _ IS) as IW.
  pose proof (is_rule _ _ _ IS r rq0 Hrq0) as AS0. pose proof (as_nodup _ _ _ _ AS0) as NDA.
  set (K := (f, Some r, sc, rt)) in *. set (k0 := (sc, rt)).
  assert (RQ0 : forall rq1, In (KRule r, IRule rq1) (fq_items q0) -> rq1 = rq0).
  { intros rq1 H1. pose proof (nodup_keys_unique _ _ _ _ NDI H1 Hrq0) as X. inversion X. reflexivity. }
  assert (BUF : forall es, In (k0, es) (rq_atts rq0) ->
                lookup atkey_eqb K (c_atts c_in) = Some (if has_fin es then Closed else Open)).
  { intros es H. apply (r_a1 c_in s HR K (has_fin es)). apply (bufA_at s f q0 K _ UN Hq0 eq_refl). exists rq0, es. auto. }
  assert (OLD : forall es, In (k0, es) (rq_atts rq0) -> has_fin es = false /\ is_started x = false).
  { intros es H. apply (scen_old (c_atts c_in) K x (has_fin es)); [intros E; exact (proj1 (XS E))|exact XN|exact (BUF es H)]. }
  assert (NEWX : ~ In k0 (keys (rq_atts rq0)) -> x = ScStarted).
  { intros NI. apply (scen_new (c_atts c_in) K x XN). intros L. apply (r_a2 c_in s HR K) in L.
    apply (bufA_at s f q0 K _ UN Hq0 eq_refl) in L. destruct L as (rq1 & es & H1 & H & _). rewrite (RQ0 rq1 H1) in H.
    apply NI. exact (in_keys _ _ _ H). }
  assert (NEW : ~ In k0 (keys (rq_atts rq0)) ->
                x = ScStarted /\ lookup atkey_eqb (att_key f (Some r) k0) (c_atts c) = None /\
                prev_ok c f (Some r) (fun y => y) (keys (rq_atts rq0) ++ [k0]) k0).
  { intros NI. pose proof (NEWX NI) as XE. destruct (XS XE) as [AB PC]. split; [exact XE|]. split.
    - exact (none_of_sub atkey_eqb K _ _ SUB AB).
    - unfold prev_ok, prev_key. cbn [k0 fst snd]. unfold prev_attempt_closed in PC.
      destruct rt as [[cur lft]|]; [|exact I]. destruct (cur =? 0); [exact I|]. apply is_closed_some in PC.
      destruct (CL _ PC) as [X|(fin & BA)]; [left; exact X|]. right.
      apply (bufA_at s f q0 (f, Some r, sc, Some (cur - 1, lft + 1)) fin UN Hq0 eq_refl) in BA.
      destruct BA as (rq1 & es & H1 & H & _). rewrite (RQ0 rq1 H1) in H.
      exists (sc, Some (cur - 1, lft + 1)). split; [reflexivity|]. apply kbefore_snoc. exact (in_keys _ _ _ H). }
  pose proof W' as W''. apply nwf_feats_wf in W'.
  set (atts' := aupsert akey_eqb k0 (push_ev (m, x)) (rq_atts rq0)).
  set (Hm := fun it => match it with
                       | IRule rq => IRule (set_rq_atts rq (aupsert akey_eqb k0 (push_ev (m, x)) (rq_atts rq)))
                       | y => y end).
  set (G := fun q => set_fq_items q (amodify ikey_eqb (KRule r) Hm (fq_items q))).
  change (enqueue s (m, EvScen f (Some r) sc rt x)) with (set_feats s (amodify N.eqb f G (ns_feats s))) in *.
  cbn [set_feats ns_feats] in *.
  assert (HM : Hm (IRule rq0) = IRule (set_rq_atts rq0 atts')) by reflexivity.
  assert (IW' : items_wf (amodify ikey_eqb (KRule r) Hm (fq_items q0)) = true).
  { apply (nwf_items _ f _ W''). exists (G q0). split; [|reflexivity]. cbn [set_feats ns_feats].
    exact (in_amodify_same N.eqb N.eqb_eq f G _ q0 UN Hq0). }
  assert (AS' : atts_static c f (Some r) (rq_atts (set_rq_atts rq0 atts'))).
  { cbn [set_rq_atts rq_atts]. exact (atts_static_upsert c f (Some r) _ k0 m x AS0 OLD NEW). }
  assert (PA : pr_atts (rq_atts rq0) -> pr_atts (rq_atts (set_rq_atts rq0 atts'))).
  { cbn [set_rq_atts rq_atts]. exact (pr_atts_upsert _ k0 m x NDA NEWX). }
  split.
  - apply (feats_static_modify c _ f G q0 ST Hq0 W').
    + apply (feat_static_set_items c f q0 _ FS).
      * exact (items_static_modify_rule c f _ r Hm rq0 _ IS Hrq0 HM IW' AS' eq_refl PA).
      * exact (pr_items_modify_rule _ r Hm rq0 _ NDI Hrq0 HM eq_refl PA).
    + intros [P1 P2]. split; [exact P1|]. cbn [G set_fq_items fq_items].
      exact (pr_items_modify_rule _ r Hm rq0 _ NDI Hrq0 HM eq_refl PA P2).
  - apply (feats_open_modify c _ f G q0 UN Hq0 OP); cbn [G set_fq_items fq_init fq_items].
    + reflexivity.
    + intros k'. exact (witR_modify_rule f _ r Hm rq0 _ k' NDI Hrq0 HM eq_refl).
    + intros k'. apply (witA_modify_rule f _ r Hm rq0 _ k' NDI Hrq0 HM). cbn [set_rq_atts rq_atts].
      intros k es H SS. apply (nonpr_atts_upsert _ k0 m x k es NDA); [|exact H|exact SS].
      intros es0 H0. exact (proj2 (OLD es0 H0)).
Qed.
